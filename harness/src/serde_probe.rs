//! Deserialization probes (features serde + serde_repr): JSON values built from integers, fed through serde_json's
//! generic `Value` deserializer; then the accessors that would panic on an unconstructible value.
use crate::gen_conv as g;
use crate::msgs::smsg_obs;
use crate::nums::Rng;
use crate::obs::*;
use crate::scan::pn_obs;
use crate::Out;
use helgoboss_midi::*;
use serde_json::{json, Value};

fn num(x: &str) -> Option<Value> {
    // arbitrary integers (negative, beyond u64) as JSON numbers
    serde_json::from_str::<Value>(x).ok()
}

fn de_nt(t: usize, v: Value) -> Option<Option<u64>> {
    let (name, _, _) = g::newtype_info(t);
    Some(match name {
        "U4" => serde_json::from_value::<U4>(v).ok().map(|x| x.get() as u64),
        "U7" => serde_json::from_value::<U7>(v).ok().map(|x| x.get() as u64),
        "U14" => serde_json::from_value::<U14>(v).ok().map(|x| x.get() as u64),
        "Channel" => serde_json::from_value::<Channel>(v).ok().map(|x| x.get() as u64),
        "KeyNumber" => serde_json::from_value::<KeyNumber>(v).ok().map(|x| x.get() as u64),
        "ControllerNumber" => serde_json::from_value::<ControllerNumber>(v).ok().map(|x| x.get() as u64),
        _ => return None,
    })
}

const SMSG_VARIANTS: [&str; 23] = ["NoteOff", "NoteOn", "PolyphonicKeyPressure", "ControlChange", "ProgramChange", "ChannelPressure",
    "PitchBendChange", "SystemExclusiveStart", "TimeCodeQuarterFrame", "SongPositionPointer", "SongSelect", "TuneRequest",
    "SystemExclusiveEnd", "TimingClock", "Start", "Continue", "Stop", "ActiveSensing", "SystemReset", "SystemCommonUndefined1",
    "SystemCommonUndefined2", "SystemRealTimeUndefined1", "SystemRealTimeUndefined2"];
const QF_VARIANTS: [&str; 7] = ["FrameCountLsNibble", "FrameCountMsNibble", "SecondsCountLsNibble", "SecondsCountMsNibble",
    "MinutesCountLsNibble", "MinutesCountMsNibble", "HoursCountLsNibble"];
const TCT: [&str; 4] = ["Fps24", "Fps25", "Fps30DropFrame", "Fps30NonDrop"];
const DT: [&str; 3] = ["DataEntry", "DataIncrement", "DataDecrement"];

fn boolv(x: &Value) -> Value {
    match x.as_i64() { Some(0) => json!(false), Some(1) => json!(true), _ => x.clone() }
}
fn qf_json(piece: &Value, a: &Value, b: &Value) -> Value {
    match piece.as_i64() {
        Some(p) if (0..7).contains(&p) => json!({ QF_VARIANTS[p as usize]: a }),
        Some(7) => {
            let t = match b.as_i64() { Some(i) if (0..4).contains(&i) => json!(TCT[i as usize]), _ => json!("NoSuchVariant") };
            json!({ "Last": { "hours_count_ms_bit": boolv(a), "time_code_type": t } })
        }
        _ => json!({ "NoSuchVariant": a }),
    }
}

pub fn eval_de(w: &[&str]) -> Option<Obs> {
    match w {
        ["nt", t, x] => {
            let r = de_nt(t.parse().ok()?, num(x)?)?;
            Some(Obs(match r { Some(v) => vec![1, v as i64], None => vec![0] }))
        }
        ["raw", s, d1, d2] => {
            let v = json!([num(s)?, num(d1)?, num(d2)?]);
            Some(match serde_json::from_value::<RawShortMessage>(v) {
                Err(_) => Obs(vec![0]),
                Ok(m) => guarded(|o| {
                    o.n(1); o.n(m.status_byte()); o.n(m.data_byte_1().get()); o.n(m.data_byte_2().get());
                    o.n(u8::from(m.r#type()));
                }),
            })
        }
        ["cc14", c, n, v] => {
            let j = json!({ "channel": num(c)?, "msb_controller_number": num(n)?, "value": num(v)? });
            Some(match serde_json::from_value::<ControlChange14BitMessage>(j) {
                Err(_) => Obs(vec![0]),
                Ok(m) => guarded(|o| {
                    o.n(1); o.n(m.channel().get()); o.n(m.msb_controller_number().get()); o.n(m.value().get());
                    o.n(m.lsb_controller_number().get());
                }),
            })
        }
        ["pn", c, n, v, r, b, d] => {
            let dt = match d.parse::<i64>() { Ok(i) if (0..3).contains(&i) => json!(DT[i as usize]), _ => json!("NoSuchVariant") };
            let j = json!({ "channel": num(c)?, "number": num(n)?, "value": num(v)?, "is_registered": boolv(&num(r)?),
                            "is_14_bit": boolv(&num(b)?), "data_type": dt });
            Some(match serde_json::from_value::<ParameterNumberMessage>(j) {
                Err(_) => Obs(vec![0]),
                Ok(m) => guarded(|o| {
                    o.n(1); pn_obs(&m, o);
                    let ms: [Option<RawShortMessage>; 4] = m.to_short_messages(DataEntryByteOrder::MsbFirst);
                    o.n(ms.iter().flatten().count() as i64);
                }),
            })
        }
        ["smt", x] => {
            Some(match serde_json::from_value::<ShortMessageType>(num(x)?) {
                Err(_) => Obs(vec![0]),
                Ok(t) => Obs(vec![1, u8::from(t) as i64]),
            })
        }
        ["qf", p, a, b] => {
            Some(match serde_json::from_value::<TimeCodeQuarterFrame>(qf_json(&num(p)?, &num(a)?, &num(b)?)) {
                Err(_) => Obs(vec![0]),
                Ok(f) => { let mut o = Obs::new(); o.n(1); crate::msgs::qf_obs(f, &mut o); o }
            })
        }
        ["str", v, f1, f2, f3] => {
            let (f1, f2, f3) = (num(f1)?, num(f2)?, num(f3)?);
            let vi = v.parse::<i64>().ok()?;
            let j = if !(0..23).contains(&vi) { json!("NoSuchVariant") } else {
                let name = SMSG_VARIANTS[vi as usize];
                match vi {
                    0 | 1 => json!({ name: { "channel": f1, "key_number": f2, "velocity": f3 } }),
                    2 => json!({ name: { "channel": f1, "key_number": f2, "pressure_amount": f3 } }),
                    3 => json!({ name: { "channel": f1, "controller_number": f2, "control_value": f3 } }),
                    4 => json!({ name: { "channel": f1, "program_number": f2 } }),
                    5 => json!({ name: { "channel": f1, "pressure_amount": f2 } }),
                    6 => json!({ name: { "channel": f1, "pitch_bend_value": f2 } }),
                    8 => json!({ name: qf_json(&f1, &f2, &f3) }),
                    9 => json!({ name: { "position": f1 } }),
                    10 => json!({ name: { "song_number": f1 } }),
                    _ => json!(name),
                }
            };
            Some(match serde_json::from_value::<StructuredShortMessage>(j) {
                Err(_) => Obs(vec![0]),
                Ok(m) => { let mut o = Obs::new(); o.n(1); smsg_obs(&m, &mut o); o }
            })
        }
        _ => None,
    }
}

fn edge_ints(max: i64, rng: &mut Rng) -> Vec<String> {
    let mut v: Vec<String> = [-1i64, 0, 1, 15, 16, 31, 32, 63, 64, 127, 128, 255, 256, 16383, 16384, 65535, 65536, max - 1, max, max + 1]
        .iter().map(|x| x.to_string()).collect();
    v.push("-9223372036854775808".into()); v.push("18446744073709551615".into()); v.push("4294967296".into());
    for _ in 0..6 { v.push((rng.below(70000) as i64 - 100).to_string()); }
    v
}

fn bytes_in_range<I: Iterator<Item = RawShortMessage>>(it: I) -> bool {
    it.fold(true, |ok, x| ok && x.data_byte_1().get() <= 127 && x.data_byte_2().get() <= 127 && x.status_byte() >= 0x80)
}

/// None: the input does not deserialize (nothing to check).  Some(ok): it does; ok = every byte of both encodings and
/// every field read back lies in its documented range (a panic while encoding counts as not ok).
pub fn deserialized_pn_in_range(c: &str, n: &str, v: &str, r: &str, b: &str, d: &str) -> Option<bool> {
    let dt = match d.parse::<i64>() { Ok(i) if (0..3).contains(&i) => json!(DT[i as usize]), _ => return None };
    let j = json!({ "channel": num(c)?, "number": num(n)?, "value": num(v)?, "is_registered": boolv(&num(r)?),
                    "is_14_bit": boolv(&num(b)?), "data_type": dt });
    let m = serde_json::from_value::<ParameterNumberMessage>(j).ok()?;
    let r = std::panic::catch_unwind(|| {
        let a: [Option<RawShortMessage>; 4] = m.to_short_messages(DataEntryByteOrder::MsbFirst);
        let b: [Option<RawShortMessage>; 4] = m.to_short_messages(DataEntryByteOrder::LsbFirst);
        bytes_in_range(a.iter().flatten().cloned()) && bytes_in_range(b.iter().flatten().cloned())
            && m.channel().get() <= 15 && m.number().get() <= 16383 && m.value().get() <= 16383
    });
    Some(r.unwrap_or(false))
}

pub fn deserialized_cc14_in_range(c: &str, mm: &str, v: &str) -> Option<bool> {
    let j = json!({ "channel": num(c)?, "msb_controller_number": num(mm)?, "value": num(v)? });
    let m = serde_json::from_value::<ControlChange14BitMessage>(j).ok()?;
    let r = std::panic::catch_unwind(|| {
        let a: [RawShortMessage; 2] = m.to_short_messages();
        bytes_in_range(a.iter().cloned()) && m.channel().get() <= 15 && m.msb_controller_number().get() <= 127
            && m.lsb_controller_number().get() <= 127 && m.value().get() <= 16383
    });
    Some(r.unwrap_or(false))
}

pub fn lines(out: &mut Out, seed: u64, tier: &str) {
    let mut rng = Rng(seed ^ 0x5E2DE);
    let mut n = 0u64;
    // restricted integers: every u16 and out-of-u16 / negative values
    for t in 0..g::N_NEWTYPES {
        for x in -3i64..=65540 { out.req(&format!("de nt {} {}", t, x)); n += 1; }
        for x in ["-9223372036854775808", "18446744073709551615", "4294967296", "-65536"] { out.req(&format!("de nt {} {}", t, x)); n += 1; }
    }
    for x in -3i64..=260 { out.req(&format!("de smt {}", x)); n += 1; }
    // composite types: every combination of boundary / abstracted field values
    let st = edge_ints(255, &mut rng);
    let d7 = ["-1", "0", "1", "64", "127", "128", "255", "16383", "65536"];
    for s in &st { for d1 in d7 { for d2 in ["0", "127", "128", "-1"] { out.req(&format!("de raw {} {} {}", s, d1, d2)); n += 1; } } }
    for s in 0..=256i64 { out.req(&format!("de raw {} 5 6", s)); n += 1; }
    let ch = ["-1", "0", "7", "15", "16", "255", "65536"];
    for c in ch { for m in -1i64..=130 { for v in ["0", "1", "16383", "16384", "-1"] { out.req(&format!("de cc14 {} {} {}", c, m, v)); n += 1; } } }
    let nums = ["-1", "0", "421", "16383", "16384"];
    let vals = ["-1", "0", "1", "127", "128", "8000", "16383", "16384"];
    for c in ch { for nn in nums { for v in vals { for r in ["0", "1", "2"] { for b in ["0", "1", "2"] { for d in ["0", "1", "2", "3"] {
        out.req(&format!("de pn {} {} {} {} {} {}", c, nn, v, r, b, d)); n += 1;
    } } } } } }
    // C04 in the serde configuration: whatever deserializes must encode to in-range data bytes (and read back in-range fields)
    for c in ["0", "15"] { for nn in ["0", "16383"] { for v in vals { for r in ["0", "1"] { for b in ["0", "1"] { for d in ["0", "1", "2"] {
        if let Some(ok) = deserialized_pn_in_range(c, nn, v, r, b, d) {
            out.oracle("c04-deserialized-pn-encodes-in-range", &format!("c={} n={} v={} r={} b={} d={}", c, nn, v, r, b, d), ok); n += 1;
        }
    } } } } } }
    for c in ["0", "15"] { for m in 0i64..=130 { for v in ["0", "127", "128", "16383"] {
        if let Some(ok) = deserialized_cc14_in_range(c, &m.to_string(), v) {
            out.oracle("c04-deserialized-cc14-encodes-in-range", &format!("c={} m={} v={}", c, m, v), ok); n += 1;
        }
    } } }
    for p in -1i64..=8 { for a in -1i64..=17 { for b in -1i64..=4 { out.req(&format!("de qf {} {} {}", p, a, b)); n += 1; } } }
    let f = ["-1", "0", "5", "15", "16", "127", "128", "16383", "16384"];
    for v in -1i64..=23 { for f1 in f { for f2 in f { for f3 in ["0", "3", "127", "128"] { out.req(&format!("de str {} {} {} {}", v, f1, f2, f3)); n += 1; } } } }
    // natural representation of valid values round-trips (serialize with the real Serialize, deserialize back)
    let mut rt = 0u64;
    let count = if tier == "thorough" { 400_000 } else { 40_000 };
    for k in 0..count {
        let c = rng.below(16) as u32;
        let ok = match k % 4 {
            0 => {
                let m = RawShortMessage::from_bytes((128 + rng.below(128) as u8, crate::msgs::u7(rng.below(128) as u8), crate::msgs::u7(rng.below(128) as u8))).unwrap();
                let j = serde_json::to_value(&m).unwrap();
                let s = m.to_structured();
                let js = serde_json::to_value(&s).unwrap();
                serde_json::from_value::<RawShortMessage>(j).ok() == Some(m) && serde_json::from_value::<StructuredShortMessage>(js).ok() == Some(s)
            }
            1 => {
                let m = crate::scan::pn_ctor(rng.below(8) as u32, c, rng.below(16384) as u32, rng.below(128) as u32);
                let j = serde_json::to_value(&m).unwrap();
                serde_json::from_value::<ParameterNumberMessage>(j).ok() == Some(m)
            }
            2 => {
                let m = crate::scan::pn_ctor(if rng.below(2) == 0 { 1 } else { 5 }, c, rng.below(16384) as u32, rng.below(16384) as u32);
                let j = serde_json::to_value(&m).unwrap();
                serde_json::from_value::<ParameterNumberMessage>(j).ok() == Some(m)
            }
            _ => {
                let m = helgoboss_midi::test_util::control_change_14_bit(c as u8, rng.below(32) as u8, rng.below(16384) as u16);
                let j = serde_json::to_value(&m).unwrap();
                serde_json::from_value::<ControlChange14BitMessage>(j).ok() == Some(m)
            }
        };
        if !ok || k % 2000 == 0 { out.oracle("c19-natural-representation-roundtrips", &format!("case={} k={}", k % 4, k), ok); }
        rt += 1;
    }
    rt += positional_roundtrips(out, seed, count / 2);
    // malformed shapes: must fail (never panic, never yield a value)
    let bad = [json!(null), json!("5"), json!(5.5), json!([1, 2]), json!({"channel": 1}), json!([128, 0]), json!([128, 0, 0, 0]),
               json!({"channel": 0, "msb_controller_number": 0}), json!(true), json!([])];
    for b in bad.iter() {
        let r1 = serde_json::from_value::<RawShortMessage>(b.clone()).is_err();
        let r2 = serde_json::from_value::<ControlChange14BitMessage>(b.clone()).is_err();
        let r3 = serde_json::from_value::<ParameterNumberMessage>(b.clone()).is_err();
        let r4 = serde_json::from_value::<U7>(b.clone()).is_err();
        out.oracle("c19-malformed-input-fails", &b.to_string().replace(' ', ""), r1 && r2 && r3 && r4);
        n += 1;
    }
    out.stat("evaluations", n + rt);
    out.stat("nontrivial", n + rt);
    out.stat("roundtrips", rt);
}

// ------------------------------------------------------------------------------------------ positional representation

/// ordered JSON tree (serde_json's own `Value` sorts object keys; the order in which `Serialize` emits the fields is
/// exactly what a positional format stores)
enum J { Obj(Vec<(String, J)>), Arr(Vec<J>), Lit(String) }

fn parse_j(b: &[u8], i: &mut usize) -> Option<J> {
    let ws = |i: &mut usize| while *i < b.len() && (b[*i] as char).is_whitespace() { *i += 1; };
    ws(i);
    match *b.get(*i)? {
        b'{' => {
            *i += 1;
            let mut f = Vec::new();
            loop {
                ws(i);
                if *b.get(*i)? == b'}' { *i += 1; break; }
                if b[*i] == b',' { *i += 1; continue; }
                let k = match parse_j(b, i)? { J::Lit(k) => k.trim_matches('"').to_string(), _ => return None };
                ws(i);
                if *b.get(*i)? != b':' { return None; }
                *i += 1;
                f.push((k, parse_j(b, i)?));
            }
            Some(J::Obj(f))
        }
        b'[' => {
            *i += 1;
            let mut a = Vec::new();
            loop {
                ws(i);
                if *b.get(*i)? == b']' { *i += 1; break; }
                if b[*i] == b',' { *i += 1; continue; }
                a.push(parse_j(b, i)?);
            }
            Some(J::Arr(a))
        }
        b'"' => {
            let s0 = *i;
            *i += 1;
            while *b.get(*i)? != b'"' { *i += 1; }
            *i += 1;
            Some(J::Lit(String::from_utf8_lossy(&b[s0..*i]).into_owned()))
        }
        _ => {
            let s0 = *i;
            while *i < b.len() && !matches!(b[*i], b',' | b'}' | b']' | b':') && !(b[*i] as char).is_whitespace() { *i += 1; }
            Some(J::Lit(String::from_utf8_lossy(&b[s0..*i]).into_owned()))
        }
    }
}

/// structs (objects keyed by snake_case field names) become sequences of their field values in serialization order;
/// externally tagged enum variants (one CamelCase key) keep their tag
fn positional_j(j: &J) -> String {
    match j {
        J::Lit(s) => s.clone(),
        J::Arr(a) => format!("[{}]", a.iter().map(positional_j).collect::<Vec<_>>().join(",")),
        J::Obj(f) if f.len() == 1 && f[0].0.chars().next().map_or(false, |c| c.is_ascii_uppercase()) =>
            format!("{{\"{}\":{}}}", f[0].0, positional_j(&f[0].1)),
        J::Obj(f) => format!("[{}]", f.iter().map(|(_, v)| positional_j(v)).collect::<Vec<_>>().join(",")),
    }
}

pub fn positional<T: serde::Serialize>(m: &T) -> Option<String> {
    let text = serde_json::to_string(m).ok()?;
    let mut i = 0;
    Some(positional_j(&parse_j(text.as_bytes(), &mut i)?))
}

/// the positional text deserializes to a value whose own positional text is the same, and (when given) equals `want`
fn pos_roundtrip<T: serde::Serialize + serde::de::DeserializeOwned + PartialEq>(text: &str, want: Option<&T>) -> bool {
    match serde_json::from_str::<T>(text) {
        Ok(m) => want.map_or(true, |w| *w == m) && positional(&m).as_deref() == Some(text),
        Err(_) => false,
    }
}

pub fn positional_oracle(ty: &str, text: &str) -> Option<bool> {
    Some(match ty {
        "pn" => pos_roundtrip::<ParameterNumberMessage>(text, None),
        "cc14" => pos_roundtrip::<ControlChange14BitMessage>(text, None),
        "str" => pos_roundtrip::<StructuredShortMessage>(text, None),
        "raw" => pos_roundtrip::<RawShortMessage>(text, None),
        _ => return None,
    })
}

/// natural representation, positional flavour (what bincode / postcard-like formats store, and what every derived
/// struct also accepts from self-describing formats): serialize with the real `Serialize`, keep only the values in
/// the order they were emitted, deserialize, compare
pub fn positional_roundtrips(out: &mut Out, seed: u64, count: u64) -> u64 {
    let mut rng = Rng(seed ^ 0x9051);
    let mut bad = 0u64;
    for k in 0..count {
        let c = rng.below(16) as u32;
        let (ty, text, ok) = match k % 4 {
            0 => {
                let m = RawShortMessage::from_bytes((128 + rng.below(128) as u8, crate::msgs::u7(rng.below(128) as u8), crate::msgs::u7(rng.below(128) as u8))).unwrap();
                let s = m.to_structured();
                let t = positional(&s).unwrap_or_default();
                let ok = pos_roundtrip(&t, Some(&s));
                ("str", t, ok)
            }
            1 => {
                let m = crate::scan::pn_ctor(rng.below(8) as u32, c, rng.below(16384) as u32, rng.below(128) as u32);
                let t = positional(&m).unwrap_or_default();
                let ok = pos_roundtrip(&t, Some(&m));
                ("pn", t, ok)
            }
            2 => {
                let m = crate::scan::pn_ctor(if rng.below(2) == 0 { 1 } else { 5 }, c, rng.below(16384) as u32, rng.below(16384) as u32);
                let t = positional(&m).unwrap_or_default();
                let ok = pos_roundtrip(&t, Some(&m));
                ("pn", t, ok)
            }
            _ => {
                let m = helgoboss_midi::test_util::control_change_14_bit(c as u8, rng.below(32) as u8, rng.below(16384) as u16);
                let t = positional(&m).unwrap_or_default();
                let ok = pos_roundtrip(&t, Some(&m));
                ("cc14", t, ok)
            }
        };
        if !ok { bad += 1; }
        if (!ok && bad <= 8) || k % 2000 == 0 {
            out.oracle("c19-positional-representation-roundtrips", &format!("type={} json={}", ty, text.replace(' ', "")), ok);
        }
    }
    count
}
