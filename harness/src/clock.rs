//! The clock the harness drives.  Normal builds: the crate's mock clock (hook `--cfg helgoboss_midi_verif`).
//! Feature `real_clock` (built WITHOUT the cfg flag, i.e. the crate exactly as shipped): the crate reads
//! `std::time::Instant`; the harness only keeps a local counter for bookkeeping and turns a `tick` into a real sleep.
#[cfg(not(feature = "real_clock"))]
pub use helgoboss_midi::verif_hooks::{now_nanos, set_now_nanos};

#[cfg(feature = "real_clock")]
mod real {
    use core::cell::Cell;
    std::thread_local! { static NOW: Cell<u64> = Cell::new(0); }
    pub fn set_now_nanos(n: u64) { NOW.with(|c| c.set(n)); }
    pub fn now_nanos() -> u64 { NOW.with(|c| c.get()) }
}
#[cfg(feature = "real_clock")]
pub use real::{now_nanos, set_now_nanos};

/// advance the clock by `d` nanoseconds (real clock: sleep; only short steps are ever requested there)
pub fn advance(d: u64) {
    set_now_nanos(now_nanos().saturating_add(d));
    #[cfg(feature = "real_clock")]
    if d > 0 && d <= 100_000_000 { std::thread::sleep(core::time::Duration::from_nanos(d)); }
}
