//! Factory constructors (named, generic) and test_util shorthands.
use crate::msgs::*;
use crate::obs::*;
use core::convert::TryFrom;
use helgoboss_midi::*;

fn ch(v: u32) -> Channel { Channel::try_from(v).expect("harness: channel out of range") }
fn kn(v: u32) -> KeyNumber { KeyNumber::try_from(v).expect("harness: key number out of range") }
fn cn(v: u32) -> ControllerNumber { ControllerNumber::try_from(v).expect("harness: controller number out of range") }
fn v7(v: u32) -> U7 { U7::try_from(v).expect("harness: u7 out of range") }
fn v14(v: u32) -> U14 { U14::try_from(v).expect("harness: u14 out of range") }
fn v4(v: u32) -> U4 { U4::try_from(v).expect("harness: u4 out of range") }

pub fn qframe(piece: u32, a: u32, b: u32) -> TimeCodeQuarterFrame {
    use TimeCodeQuarterFrame::*;
    match piece {
        0 => FrameCountLsNibble(v4(a)),
        1 => FrameCountMsNibble(v4(a)),
        2 => SecondsCountLsNibble(v4(a)),
        3 => SecondsCountMsNibble(v4(a)),
        4 => MinutesCountLsNibble(v4(a)),
        5 => MinutesCountMsNibble(v4(a)),
        6 => HoursCountLsNibble(v4(a)),
        _ => Last {
            hours_count_ms_bit: a != 0,
            time_code_type: match b {
                0 => TimeCodeType::Fps24,
                1 => TimeCodeType::Fps25,
                2 => TimeCodeType::Fps30DropFrame,
                _ => TimeCodeType::Fps30NonDrop,
            },
        },
    }
}

pub const CTORS: [&str; 19] = [
    "note_off", "note_on", "polyphonic_key_pressure", "control_change", "program_change", "channel_pressure",
    "pitch_bend_change", "system_exclusive_start", "time_code_quarter_frame", "song_position_pointer", "song_select",
    "tune_request", "system_exclusive_end", "timing_clock", "start", "continue", "stop", "active_sensing", "system_reset",
];

fn named<F: ShortMessageFactory>(k: &str, a: u32, b: u32, c: u32) -> Option<F> {
    Some(match k {
        "note_off" => F::note_off(ch(a), kn(b), v7(c)),
        "note_on" => F::note_on(ch(a), kn(b), v7(c)),
        "polyphonic_key_pressure" => F::polyphonic_key_pressure(ch(a), kn(b), v7(c)),
        "control_change" => F::control_change(ch(a), cn(b), v7(c)),
        "program_change" => F::program_change(ch(a), v7(b)),
        "channel_pressure" => F::channel_pressure(ch(a), v7(b)),
        "pitch_bend_change" => F::pitch_bend_change(ch(a), v14(b)),
        "system_exclusive_start" => F::system_exclusive_start(),
        "time_code_quarter_frame" => F::time_code_quarter_frame(qframe(a, b, c)),
        "song_position_pointer" => F::song_position_pointer(v14(a)),
        "song_select" => F::song_select(v7(a)),
        "tune_request" => F::tune_request(),
        "system_exclusive_end" => F::system_exclusive_end(),
        "timing_clock" => F::timing_clock(),
        "start" => F::start(),
        "continue" => F::r#continue(),
        "stop" => F::stop(),
        "active_sensing" => F::active_sensing(),
        "system_reset" => F::system_reset(),
        _ => return None,
    })
}

fn mk_via<F: ShortMessageFactory>(k: &str, a: u32, b: u32, c: u32) -> Option<Obs> {
    let mut known = true;
    let o = guarded(|o| match named::<F>(k, a, b, c) {
        Some(m) => observe(&m, o),
        None => known = false,
    });
    if known { Some(o) } else { None }
}

pub fn mk_obs(which: &str, k: &str, a: u32, b: u32, c: u32) -> Option<Obs> {
    match which {
        "raw" => mk_via::<RawShortMessage>(k, a, b, c),
        "str" => mk_via::<StructuredShortMessage>(k, a, b, c),
        "frn" => mk_via::<Foreign>(k, a, b, c),
        _ => mk_via::<ForeignTB>(k, a, b, c),
    }
}

/// inner sweep of a `mkblk` request: ranges of (b, c) for constructor k with block parameter a
pub fn blk_ranges(k: &str, a: u32) -> (u32, u32) {
    match k {
        "note_off" | "note_on" | "polyphonic_key_pressure" | "control_change" => (128, 128),
        "program_change" | "channel_pressure" => (128, 1),
        "pitch_bend_change" => (16384, 1),
        "time_code_quarter_frame" => if a < 7 { (16, 1) } else { (2, 4) },
        "song_position_pointer" => (16384, 1),
        "song_select" => (128, 1),
        _ => (1, 1),
    }
}
pub fn blk_args(k: &str, a: u32, b: u32, c: u32) -> (u32, u32, u32) {
    match k {
        "song_position_pointer" | "song_select" => (b, 0, 0),
        _ => (a, b, c),
    }
}

pub fn mkblk_digest(which: &str, k: &str, a: u32) -> Option<u64> {
    let (nb, nc) = blk_ranges(k, a);
    let mut h = FNV_INIT;
    for b in 0..nb {
        for c in 0..nc {
            let (x, y, z) = blk_args(k, a, b, c);
            h = digest(h, &mk_obs(which, k, x, y, z)?);
        }
    }
    Some(h)
}

fn type_of_byte(t: u32) -> Option<ShortMessageType> {
    ShortMessageType::try_from(t as u8).ok()
}

fn gen_via<F: ShortMessageFactory>(fun: &str, t: u32, c: u32, a: u32, b: u32) -> Option<Obs> {
    let ty = type_of_byte(t)?;
    let mut known = true;
    let o = guarded(|o| {
        let m: F = match fun {
            "channel_message" => F::channel_message(ty, ch(c), v7(a), v7(b)),
            "system_common_message" => F::system_common_message(ty, v7(a), v7(b)),
            "system_real_time_message" => F::system_real_time_message(ty),
            _ => { known = false; return; }
        };
        observe(&m, o)
    });
    if known { Some(o) } else { None }
}

/// `gen <impl> <fun> <type byte> <ch> <a> <b>`
pub fn gen_obs(which: &str, fun: &str, t: u32, c: u32, a: u32, b: u32) -> Option<Obs> {
    match which {
        "raw" => gen_via::<RawShortMessage>(fun, t, c, a, b),
        "str" => gen_via::<StructuredShortMessage>(fun, t, c, a, b),
        "frn" => gen_via::<Foreign>(fun, t, c, a, b),
        _ => gen_via::<ForeignTB>(fun, t, c, a, b),
    }
}

pub fn category(t: u32) -> u32 {
    if t < 240 { 0 } else if t == 240 { 3 } else if t < 248 { 1 } else { 2 }
}
fn fun_category(fun: &str) -> u32 {
    match fun { "channel_message" => 0, "system_common_message" => 1, _ => 2 }
}

/// `genblk <impl> <fun> <type byte> <ch>`: full data sweep when the category fits, else two samples (panic expected)
pub fn genblk_digest(which: &str, fun: &str, t: u32, c: u32) -> Option<u64> {
    let mut h = FNV_INIT;
    if category(t) == fun_category(fun) && fun != "system_real_time_message" {
        for a in 0..128 {
            for b in 0..128 {
                h = digest(h, &gen_obs(which, fun, t, c, a, b)?);
            }
        }
    } else {
        h = digest(h, &gen_obs(which, fun, t, c, 0, 0)?);
        h = digest(h, &gen_obs(which, fun, t, c, 127, 127)?);
    }
    Some(h)
}

/// `tu <fn> x y z`: test_util shorthands with primitive arguments (u8 / u16)
pub fn tu_obs(fun: &str, x: u32, y: u32, z: u32) -> Option<Obs> {
    use helgoboss_midi::test_util as t;
    let mut known = true;
    let o = guarded(|o| {
        let m: RawShortMessage = match fun {
            "note_on" => t::note_on(x as u8, y as u8, z as u8),
            "note_off" => t::note_off(x as u8, y as u8, z as u8),
            "control_change" => t::control_change(x as u8, y as u8, z as u8),
            "polyphonic_key_pressure" => t::polyphonic_key_pressure(x as u8, y as u8, z as u8),
            "program_change" => t::program_change(x as u8, y as u8),
            "channel_pressure" => t::channel_pressure(x as u8, y as u8),
            "pitch_bend_change" => t::pitch_bend_change(x as u8, y as u16),
            "song_position_pointer" => t::song_position_pointer(x as u16),
            "song_select" => t::song_select(x as u8),
            "short" => t::short(x as u8, y as u8, z as u8),
            _ => { known = false; return; }
        };
        observe(&m, o)
    });
    if known { Some(o) } else { None }
}

/// `tu2 <fn> x y z`: the test_util helpers that do not return a short message
pub fn tu2_obs(fun: &str, x: u32, y: u32, z: u32) -> Option<Obs> {
    use helgoboss_midi::test_util as t;
    let mut known = true;
    let o = guarded(|o| match fun {
        "u4" => o.n(t::u4(x as u8).get()),
        "u7" => o.n(t::u7(x as u8).get()),
        "u14" => o.n(t::u14(x as u16).get()),
        "channel" => o.n(t::channel(x as u8).get()),
        "key_number" => o.n(t::key_number(x as u8).get()),
        "controller_number" => o.n(t::controller_number(x as u8).get()),
        "control_change_14_bit" => crate::scan::cc14_obs(&t::control_change_14_bit(x as u8, y as u8, z as u16), o),
        "nrpn" => crate::scan::pn_obs(&t::nrpn(x as u8, y as u16, z as u8), o),
        "nrpn_14_bit" => crate::scan::pn_obs(&t::nrpn_14_bit(x as u8, y as u16, z as u16), o),
        "rpn" => crate::scan::pn_obs(&t::rpn(x as u8, y as u16, z as u8), o),
        "rpn_14_bit" => crate::scan::pn_obs(&t::rpn_14_bit(x as u8, y as u16, z as u16), o),
        _ => known = false,
    });
    if known { Some(o) } else { None }
}

// ------------------------------------------------------------------------------------------ C04: range of constructed messages

/// First cell of an `observe` vector (no leading from_bytes cell) that holds a value outside the range of the
/// restricted integer type it was read from; None when every value is in range (or the constructor panicked).
pub fn range_violation(o: &Obs) -> Option<usize> {
    let c = &o.0;
    if c.len() < 43 { return None; }
    let le = |i: usize, max: i64| c[i] == NONE || (0 <= c[i] && c[i] <= max);
    let bytes_ok = |i: usize| (128..=255).contains(&c[i]) && le(i + 1, 127) && le(i + 2, 127);
    let structured_ok = |i: usize| match c[i] {
        0..=5 => le(i + 1, 15) && le(i + 2, 127) && le(i + 3, 127),
        6 => le(i + 1, 15) && le(i + 2, 16383),
        8 => le(i + 1, 7) && le(i + 2, 15) && le(i + 3, 3),
        9 => le(i + 1, 16383),
        10 => le(i + 1, 127),
        _ => true,
    };
    let checks: [(usize, bool); 17] = [
        (0, bytes_ok(0)), (3, bytes_ok(3)), (9, le(9, 15)), (10, le(10, 127)), (11, le(11, 127)), (12, le(12, 127)),
        (13, le(13, 127)), (14, le(14, 127)), (15, le(15, 127)), (16, le(16, 16383)), (22, structured_ok(22)),
        (26, bytes_ok(26)), (29, structured_ok(29)), (33, bytes_ok(33)), (36, bytes_ok(36)), (39, structured_ok(39)), (42, true),
    ];
    checks.iter().find(|(_, ok)| !ok).map(|(i, _)| *i)
}

/// every argument tuple of every named and generic constructor: all values read back are in range
pub fn range_sweep(out: &mut crate::Out, impls: &[&str]) {
    let (mut swept, mut bad) = (0u64, 0u64);
    for which in impls {
        for k in CTORS {
            let blocks: u32 = match k {
                "note_off" | "note_on" | "polyphonic_key_pressure" | "control_change" | "program_change" | "channel_pressure" | "pitch_bend_change" => 16,
                "time_code_quarter_frame" => 8,
                _ => 1,
            };
            for a in 0..blocks {
                let (nb, nc) = blk_ranges(k, a);
                for b in 0..nb {
                    for c in 0..nc {
                        let (x, y, z) = blk_args(k, a, b, c);
                        if let Some(o) = mk_obs(which, k, x, y, z) {
                            swept += 1;
                            if let Some(i) = range_violation(&o) {
                                bad += 1;
                                if bad <= 8 { out.oracle("c04-constructed-message-in-range", &format!("which={} ctor={} a={} b={} c={} cell={}", which, k, x, y, z, i), false); }
                            }
                        }
                    }
                }
            }
        }
        for fun in ["channel_message", "system_common_message", "system_real_time_message"] {
            for t in (128u32..240).step_by(16).chain(240..256) {
                if category(t) != fun_category(fun) { continue; }
                let chans = if fun == "channel_message" { 16 } else { 1 };
                let n = if fun == "system_real_time_message" { 1 } else { 128 };
                for c in 0..chans {
                    for a in 0..n {
                        for b in 0..n {
                            if let Some(o) = gen_obs(which, fun, t, c, a, b) {
                                swept += 1;
                                if let Some(i) = range_violation(&o) {
                                    bad += 1;
                                    if bad <= 8 { out.oracle("c04-constructed-message-in-range", &format!("which={} gen={} t={} ch={} a={} b={} cell={}", which, fun, t, c, a, b, i), false); }
                                }
                            }
                        }
                    }
                }
            }
        }
    }
    out.oracle("c04-all-constructed-messages-in-range", &format!("swept={} out_of_range={}", swept, bad), bad == 0);
    out.stat("evaluations", swept);
    out.stat("nontrivial", swept);
}

/// replay of one `c04-constructed-message-in-range` oracle line
pub fn range_oracle(m: &std::collections::HashMap<String, String>) -> Option<bool> {
    let n = |k: &str| -> Option<u32> { m.get(k)?.parse().ok() };
    let which = m.get("which")?;
    let o = if let Some(k) = m.get("ctor") {
        mk_obs(which, k, n("a")?, n("b")?, n("c")?)?
    } else {
        gen_obs(which, m.get("gen")?, n("t")?, n("ch")?, n("a")?, n("b")?)?
    };
    Some(range_violation(&o).is_none())
}
