//! Restricted integer types: conversions (rows generated from the source), `new`, parsing, Display, Ord, constants.
use crate::gen_conv as g;
use crate::obs::*;

/// cells of a conversion result: [flag, magnitude]; flag 0 = Ok(non-negative), 1 = Ok(negative), 2 = Err
pub fn conv_obs(row: usize, x: &str) -> Option<Obs> {
    let mut defined = true;
    let o = guarded(|o| match g::conv(row, x) {
        None => defined = false,
        Some(Err(())) => { o.n(2); o.n(0) }
        Some(Ok(v)) => {
            o.n(if v < 0 { 1 } else { 0 });
            o.n((v.unsigned_abs() % (1u128 << 62)) as i64);
        }
    });
    if defined { Some(o) } else { None }
}

pub fn new_obs(t: usize, v: u64) -> Option<Obs> {
    let mut defined = true;
    let o = guarded(|o| match g::nt_new(t, v) {
        None => defined = false,
        Some(r) => o.n(r as i64),
    });
    if defined { Some(o) } else { None }
}

pub fn unhex(h: &str) -> Option<String> {
    if h == "." { return Some(String::new()); }
    if h.len() % 2 != 0 { return None; }
    let mut bytes = Vec::new();
    for i in (0..h.len()).step_by(2) {
        bytes.push(u8::from_str_radix(&h[i..i + 2], 16).ok()?);
    }
    String::from_utf8(bytes).ok()
}
pub fn hex(s: &str) -> String {
    if s.is_empty() { return ".".to_string(); }
    s.bytes().map(|b| format!("{:02x}", b)).collect()
}

pub fn parse_obs(t: usize, h: &str) -> Option<Obs> {
    let s = unhex(h)?;
    let mut defined = true;
    let o = guarded(|o| match g::nt_parse(t, &s) {
        None => defined = false,
        Some(None) => o.n(0),
        Some(Some(v)) => { o.n(1); o.n(v as i64) }
    });
    if defined { Some(o) } else { None }
}

/// Display through the k-th format spec (same order as `fmtSpecs` in the Lean driver)
pub fn fmt_spec<T: core::fmt::Display>(x: &T, k: usize, out: &mut dyn core::fmt::Write) -> Option<()> {
    match k {
        0 => write!(out, "{}", x).ok(),
        1 => write!(out, "{:5}", x).ok(),
        2 => write!(out, "{:05}", x).ok(),
        3 => write!(out, "{:<5}", x).ok(),
        4 => write!(out, "{:+}", x).ok(),
        5 => write!(out, "{:.2}", x).ok(),
        6 => write!(out, "{:^7}", x).ok(),
        7 => write!(out, "{:*>6}", x).ok(),
        8 => write!(out, "{:+07}", x).ok(),
        9 => write!(out, "{:>1}", x).ok(),
        10 => write!(out, "{:_^+8}", x).ok(),
        _ => None,
    }
}
pub const FMT_SPECS: usize = 11;

pub fn display_obs(t: usize, v: u64, k: usize) -> Option<Obs> {
    let (_, _, mx) = g::newtype_info(t);
    if v > mx { return None; }
    let mut defined = true;
    let o = guarded(|o| {
        let mut s = String::new();
        match g::nt_display(t, v, k, &mut s) {
            None => defined = false,
            Some(()) => for b in s.bytes() { o.n(b as i64) },
        }
    });
    if defined { Some(o) } else { None }
}

pub fn ord_obs(t: usize, a: u64, b: u64) -> Option<Obs> {
    let (_, _, mx) = g::newtype_info(t);
    if a > mx || b > mx { return None; }
    let r = g::nt_ord(t, a, b)?;
    Some(Obs(r.to_vec()))
}

pub fn consts_obs(t: usize) -> Option<Obs> {
    Some(Obs(g::nt_consts(t)?.to_vec()))
}

/// `ntop <t> <Add|Sub|Mul> a b`: an operator impl on a restricted integer (only if the source has one): [1, value] | [0] for a panic
pub fn ntop_obs(t: usize, op: &str, a: u64, b: u64) -> Option<Obs> {
    if !g::NT_OPS.iter().any(|(i, o)| *i == t && *o == op) { return None; }
    let r = std::panic::catch_unwind(|| g::nt_op(t, op, a, b));
    Some(Obs(match r { Ok(Some(v)) => vec![1, v as i64], Ok(None) => return None, Err(_) => vec![0] }))
}

pub fn cnconst_obs(i: usize) -> Option<Obs> {
    let v = g::controller_constants();
    let (_, x) = v.get(i)?;
    Some(Obs(vec![*x as i64]))
}

// ------------------------------------------------------------------------------------------- generators

pub struct Rng(pub u64);
impl Rng {
    pub fn next(&mut self) -> u64 {
        // splitmix64
        self.0 = self.0.wrapping_add(0x9E3779B97F4A7C15);
        let mut z = self.0;
        z = (z ^ (z >> 30)).wrapping_mul(0xBF58476D1CE4E5B9);
        z = (z ^ (z >> 27)).wrapping_mul(0x94D049BB133111EB);
        z ^ (z >> 31)
    }
    pub fn below(&mut self, n: u64) -> u64 { self.next() % n }
}

fn prim_bits(p: &str) -> Option<(bool, u32)> {
    Some(match p {
        "u8" => (false, 8), "i8" => (true, 8), "u16" => (false, 16), "i16" => (true, 16),
        "u32" => (false, 32), "i32" => (true, 32), "u64" => (false, 64), "i64" => (true, 64),
        "u128" => (false, 128), "i128" => (true, 128),
        "usize" => (false, usize::BITS), "isize" => (true, usize::BITS),
        _ => return None,
    })
}

/// candidate source values for a conversion row, as decimal strings (values outside the source type are skipped by `conv`)
pub fn candidates(src: &str, rng: &mut Rng, random: usize) -> Vec<String> {
    let mut v: Vec<String> = Vec::new();
    match prim_bits(src) {
        None => {
            // a newtype: every value (conv() rejects those above its max)
            for x in 0..=16383u32 { v.push(x.to_string()); }
        }
        Some((signed, bits)) if bits <= 16 => {
            if signed {
                let lo = -(1i64 << (bits - 1)); let hi = (1i64 << (bits - 1)) - 1;
                for x in lo..=hi { v.push(x.to_string()); }
            } else {
                for x in 0..(1u64 << bits) { v.push(x.to_string()); }
            }
        }
        Some((signed, bits)) => {
            let mut push = |x: i128, neg_ok: bool| {
                v.push(x.to_string());
                if neg_ok { v.push((-x).to_string()); }
            };
            for k in 0..bits.min(127) {
                let p = 1i128 << k;
                push(p, signed); push(p - 1, signed); push(p + 1, signed);
            }
            for m in [15i128, 127, 16383, 255, 65535] {
                push(m - 1, signed); push(m, signed); push(m + 1, signed);
            }
            if bits == 128 && !signed {
                v.push(u128::MAX.to_string()); v.push((u128::MAX - 1).to_string()); v.push((1u128 << 127).to_string());
            }
            if bits == 128 && signed {
                v.push(i128::MIN.to_string()); v.push(i128::MAX.to_string());
            }
            for _ in 0..random {
                // random value of random magnitude
                let k = rng.below(bits as u64) as u32;
                let hi = rng.next() as u128; let lo = rng.next() as u128;
                let mut x = (hi << 64) | lo;
                if k < 127 { x &= (1u128 << (k + 1)) - 1; }
                if signed {
                    let xs = (x >> 1) as i128;
                    v.push(if rng.below(2) == 0 { xs.to_string() } else { (-xs).to_string() });
                } else {
                    v.push(x.to_string());
                }
            }
        }
    }
    v
}

pub const ALPHABET: [char; 14] = ['0', '1', '2', '3', '4', '5', '6', '7', '8', '9', '+', '-', ' ', 'a'];

pub fn short_strings(max_len: usize) -> Vec<String> {
    let mut all = vec![String::new()];
    let mut frontier = vec![String::new()];
    for _ in 0..max_len {
        let mut next = Vec::new();
        for s in &frontier {
            for c in ALPHABET {
                let mut t = s.clone();
                t.push(c);
                next.push(t);
            }
        }
        all.extend(next.iter().cloned());
        frontier = next;
    }
    all
}

pub fn boundary_numerals(mx: u64) -> Vec<String> {
    let mut v = Vec::new();
    for x in [0u64, 1, 9, 10, 15, 16, 99, 100, 127, 128, 255, 256, 999, 1000, 9999, 16383, 16384, 65535, 65536, 99999, mx.saturating_sub(1), mx, mx + 1] {
        let d = x.to_string();
        v.push(d.clone());
        v.push(format!("+{}", d));
        v.push(format!("-{}", d));
        v.push(format!("0{}", d));
        v.push(format!("000000000000000000000000000000{}", d));
        v.push(format!("+00{}", d));
        v.push(format!("++{}", d));
        v.push(format!("{} ", d));
        v.push(format!(" {}", d));
        v.push(format!("{}0", d));
        v.push(format!("{}a", d));
        v.push(format!("{}.0", d));
        v.push(format!("{}_", d));
        // characters that lenient parsers tend to swallow: line ends, tabs, NUL, separators, exponents
        for t in ["\n", "\r", "\r\n", "\t", "\0", ",", "e0", "u8", "\u{a0}"] {
            v.push(format!("{}{}", d, t));
            v.push(format!("{}{}", t, d));
        }
    }
    v.push("18446744073709551616".to_string());
    v.push("340282366920938463463374607431768211456".to_string());
    v.push("0x10".to_string());
    v.push("١٢".to_string()); // non-ASCII digits
    v.push("１２".to_string());
    v.push("1e2".to_string());
    v.push("\u{0}".to_string());
    v
}
