//! Polling (N)RPN scanner with the mock clock (hook `--cfg helgoboss_midi_verif`): requests and generators.
use crate::msgs::*;
use crate::nums::Rng;
use crate::obs::*;
use crate::scan::{pn_ctor, pn_obs};
use crate::Out;
use core::convert::TryFrom;
use core::time::Duration;
use helgoboss_midi::verif_hooks::{now_nanos, set_now_nanos};
use helgoboss_midi::*;
use std::collections::{HashMap, VecDeque};

#[derive(Default)]
pub struct PTables {
    pub tab: Vec<Option<PollingParameterNumberMessageScanner>>,
}

fn set_at<T: Clone>(v: &mut Vec<Option<T>>, i: usize, x: T) {
    if i >= v.len() {
        v.resize(i + 1, None);
    }
    v[i] = Some(x);
}
fn nones(o: &mut Obs, n: usize) {
    for _ in 0..n {
        o.none();
    }
}
fn ok_obs() -> Obs {
    Obs(vec![0])
}
fn slot(o: &mut Obs, m: &Option<ParameterNumberMessage>) {
    match m {
        Some(m) => pn_obs(m, o),
        None => nones(o, 6),
    }
}

pub fn eval_pp(t: &mut PTables, w: &[&str]) -> Option<Obs> {
    match w {
        ["new", id, timeout] => {
            set_at(&mut t.tab, id.parse().ok()?, PollingParameterNumberMessageScanner::new(Duration::from_nanos(timeout.parse().ok()?)));
            Some(ok_obs())
        }
        ["default", id] => { set_at(&mut t.tab, id.parse().ok()?, PollingParameterNumberMessageScanner::default()); Some(ok_obs()) }
        ["copy", a, b] => { let x = (*t.tab.get(a.parse::<usize>().ok()?)?)?; set_at(&mut t.tab, b.parse().ok()?, x); Some(ok_obs()) }
        ["tick", d] => { set_now_nanos(now_nanos().saturating_add(d.parse().ok()?)); Some(ok_obs()) }
        ["settime", x] => { set_now_nanos(x.parse().ok()?); Some(ok_obs()) }
        ["reset", id] => { t.tab.get_mut(id.parse::<usize>().ok()?)?.as_mut()?.reset(); Some(ok_obs()) }
        ["feed", id, which, s, d1, d2] => {
            let (s, d1, d2): (u8, u8, u8) = (s.parse().ok()?, d1.parse().ok()?, d2.parse().ok()?);
            let sc = t.tab.get_mut(id.parse::<usize>().ok()?)?.as_mut()?;
            let mut copy = *sc;
            let o = guarded(|o| {
                let r = match *which {
                    "str" => copy.feed(&StructuredShortMessage::from_bytes((s, u7(d1), u7(d2))).expect("harness: invalid status")),
                    "frn" => copy.feed(&Foreign(s, u7(d1), u7(d2))),
                    _ => copy.feed(&RawShortMessage::from_bytes((s, u7(d1), u7(d2))).expect("harness: invalid status")),
                };
                slot(o, &r[0]);
                slot(o, &r[1]);
            });
            *sc = copy;
            Some(o)
        }
        ["poll", id, c] => {
            let c = Channel::try_from(c.parse::<u32>().ok()?).ok()?;
            let sc = t.tab.get_mut(id.parse::<usize>().ok()?)?.as_mut()?;
            let mut copy = *sc;
            let o = guarded(|o| {
                let r = copy.poll(c);
                slot(o, &r);
            });
            *sc = copy;
            Some(o)
        }
        ["eq", a, b] | ["same", a, b] => {
            let x = (*t.tab.get(a.parse::<usize>().ok()?)?)?; let y = (*t.tab.get(b.parse::<usize>().ok()?)?)?;
            Some(Obs(vec![(x == y) as i64]))
        }
        ["isnew", a, timeout] | ["mustbenew", a, timeout] => {
            let x = (*t.tab.get(a.parse::<usize>().ok()?)?)?;
            let n = PollingParameterNumberMessageScanner::new(Duration::from_nanos(timeout.parse().ok()?));
            let z = PollingParameterNumberMessageScanner::new(Duration::from_nanos(0));
            Some(Obs(vec![(x == n) as i64, (z == PollingParameterNumberMessageScanner::default()) as i64]))
        }
        _ => None,
    }
}

/// state key for the exploration: the implementation's Debug string with every absolute arrival time replaced by
/// the elapsed time clamped at the timeout (two states that differ only in absolute time behave alike)
fn norm_key(dbg: &str, now: u64, timeout: u64) -> String {
    let mut out = String::with_capacity(dbg.len());
    let mut rest = dbg;
    while let Some(i) = rest.find("Instant(") {
        out.push_str(&rest[..i]);
        let tail = &rest[i + 8..];
        let j = tail.find(')').unwrap_or(0);
        let arrival: u64 = tail[..j].parse().unwrap_or(0);
        let el = now.saturating_sub(arrival).min(timeout);
        out.push_str(&format!("elapsed({})", el));
        rest = &tail[j + 1..];
    }
    out.push_str(rest);
    out
}

#[derive(Clone, Copy)]
pub enum Inp { Msg(u8, u8, u8), Reset, Poll(u32), Tick(u64) }

pub fn alphabet(channels: &[u32], timeout: u64) -> Vec<Inp> {
    let mut a = Vec::new();
    for &c in channels {
        let st = 0xB0 + c as u8;
        for n in [6u8, 38, 96, 97, 98, 99, 100, 101] { for v in [0u8, 1, 127] { a.push(Inp::Msg(st, n, v)); } }
        a.push(Inp::Msg(st, 7, 5));
        a.push(Inp::Msg(0x90 + c as u8, 60, 100));
        a.push(Inp::Poll(c));
    }
    a.push(Inp::Poll(7));
    a.push(Inp::Msg(0xF8, 0, 0));
    a.push(Inp::Msg(0xF3, 6, 0));
    a.push(Inp::Reset);
    if timeout == 0 { a.push(Inp::Tick(1)); } else {
        a.push(Inp::Tick(1));
        if timeout > 2 { a.push(Inp::Tick(timeout - 1)); }
        a.push(Inp::Tick(timeout));
    }
    a
}

pub fn explore(out: &mut Out, channels: &[u32], timeout: u64, max_states: usize) {
    let alpha = alphabet(channels, timeout);
    let mut seen: HashMap<String, usize> = HashMap::new();
    let mut times: Vec<u64> = vec![0, 0];
    let mut queue: VecDeque<usize> = VecDeque::new();
    out.req("pp settime 0");
    out.req(&format!("pp new 1 {}", timeout));
    let key = |out: &Out, id: usize, now: u64| norm_key(&format!("{:?}", out.st.ptables.tab[id].unwrap()), now, timeout);
    seen.insert(key(out, 1, 0), 1);
    queue.push_back(1);
    let mut next_id = 2usize;
    let (mut transitions, mut reports, mut polls_reporting) = (0u64, 0u64, 0u64);
    while let Some(id) = queue.pop_front() {
        for inp in &alpha {
            out.req(&format!("pp settime {}", times[id]));
            out.req(&format!("pp copy {} 0", id));
            match inp {
                Inp::Msg(s, d1, d2) => { let l = out.req_ret(&format!("pp feed 0 raw {} {} {}", s, d1, d2)); if l.chars().any(|c| c.is_ascii_digit()) { reports += 1; } }
                Inp::Reset => { out.req("pp reset 0"); out.req(&format!("pp mustbenew 0 {}", timeout)); }
                Inp::Poll(c) => { let l = out.req_ret(&format!("pp poll 0 {}", c)); if !l.starts_with('-') { reports += 1; polls_reporting += 1; } }
                Inp::Tick(d) => { out.req(&format!("pp tick {}", d)); }
            }
            transitions += 1;
            let now = now_nanos();
            let k = key(out, 0, now);
            if !seen.contains_key(&k) && seen.len() < max_states {
                out.req(&format!("pp copy 0 {}", next_id));
                seen.insert(k, next_id);
                times.push(now);
                queue.push_back(next_id);
                next_id += 1;
            }
        }
    }
    out.stat("states", seen.len() as u64);
    out.stat("transitions", transitions);
    out.stat("transitions_reporting", reports);
    out.stat("polls_reporting", polls_reporting);
    out.stat("evaluations", transitions);
    out.stat("nontrivial", reports);
}

fn random_msg(rng: &mut Rng, chans: u64) -> (u8, u8, u8) {
    let r = rng.below(100);
    let c = rng.below(chans) as u8;
    if r < 78 {
        let n = [6u8, 38, 96, 97, 98, 99, 100, 101, 6, 38, 6][rng.below(11) as usize];
        (0xB0 + c, n, rng.below(128) as u8)
    } else if r < 85 {
        (0xB0 + c, rng.below(128) as u8, rng.below(128) as u8)
    } else if r < 94 {
        (0x80 + (rng.below(7) as u8) * 16 + c, rng.below(128) as u8, rng.below(128) as u8)
    } else {
        (0xF0 + rng.below(16) as u8, rng.below(128) as u8, rng.below(128) as u8)
    }
}

/// seeded random histories: feeds over the full alphabet, polls, resets, time steps below / at / above the timeout
pub fn random_histories(out: &mut Out, seed: u64, histories: usize, len: usize) {
    let mut rng = Rng(seed ^ 0xB011);
    let (mut n, mut reports) = (0u64, 0u64);
    let impls = ["raw", "str", "frn"];
    let timeouts = [0u64, 3, 1000, u64::MAX, 1];
    for h in 0..histories {
        let timeout = timeouts[h % timeouts.len()];
        let chans = if h % 3 == 0 { 2 } else { 16 };
        out.req(&format!("pp settime {}", if h % 4 == 0 { rng.below(1 << 40) } else { 0 }));
        if timeout == 0 && h % 2 == 0 { out.req("pp default 1"); } else { out.req(&format!("pp new 1 {}", timeout)); }
        let mut copied = false;
        for _ in 0..len {
            let r = rng.below(100);
            let which = impls[rng.below(3) as usize];
            if r < 2 {
                out.req("pp reset 1");
                out.req(&format!("pp mustbenew 1 {}", timeout));
            } else if r < 4 {
                out.req("pp copy 1 2"); copied = true;
            } else if r < 7 && copied {
                let (s, d1, d2) = random_msg(&mut rng, chans);
                out.req(&format!("pp feed 2 {} {} {} {}", which, s, d1, d2));
            } else if r < 25 {
                let l = out.req_ret(&format!("pp poll 1 {}", rng.below(chans)));
                if !l.starts_with('-') { reports += 1; }
            } else if r < 40 {
                let d = match rng.below(6) { 0 => 0, 1 => 1, 2 => timeout.saturating_sub(1), 3 => timeout, 4 => timeout.saturating_add(1), _ => rng.below(2000) };
                out.req(&format!("pp tick {}", d));
            } else if r < 48 {
                // encoder output of a random message, either byte order
                let i = rng.below(8) as u32;
                let v = if i == 1 || i == 5 { rng.below(16384) } else { rng.below(128) } as u32;
                let m = pn_ctor(i, rng.below(chans) as u32, rng.below(16384) as u32, v);
                let order = if rng.below(2) == 0 { DataEntryByteOrder::LsbFirst } else { DataEntryByteOrder::MsbFirst };
                let ms: [Option<RawShortMessage>; 4] = m.to_short_messages(order);
                for x in ms.iter().flatten() {
                    let b = x.to_bytes();
                    let l = out.req_ret(&format!("pp feed 1 {} {} {} {}", which, b.0, b.1.get(), b.2.get()));
                    if l.chars().any(|c| c.is_ascii_digit()) { reports += 1; }
                }
            } else {
                let (s, d1, d2) = random_msg(&mut rng, chans);
                let l = out.req_ret(&format!("pp feed 1 {} {} {} {}", which, s, d1, d2));
                if l.chars().any(|c| c.is_ascii_digit()) { reports += 1; }
            }
            n += 1;
        }
    }
    out.stat("evaluations", n);
    out.stat("nontrivial", reports);
    out.stat("histories", histories as u64);
}
