//! Polling (N)RPN scanner with the mock clock (hook `--cfg helgoboss_midi_verif`): requests and generators.
use crate::msgs::*;
use crate::nums::Rng;
use crate::obs::*;
use crate::scan::{pn_ctor, pn_obs};
use crate::Out;
use core::convert::TryFrom;
use core::time::Duration;
use crate::clock::{now_nanos, set_now_nanos};
use helgoboss_midi::*;
use std::collections::{HashMap, VecDeque};

#[derive(Default)]
pub struct PTables {
    pub tab: Vec<Option<PollingParameterNumberMessageScanner>>,
}

fn set_at<T: Clone>(v: &mut Vec<Option<T>>, i: usize, x: T) {
    if i >= v.len() {
        v.resize(i + 1, None);
    }
    v[i] = Some(x);
}
fn nones(o: &mut Obs, n: usize) {
    for _ in 0..n {
        o.none();
    }
}
/// a timeout in nanoseconds, up to `Duration::MAX` (more than a u64 of nanoseconds)
fn dur(s: &str) -> Option<Duration> {
    let n: u128 = s.parse().ok()?;
    let secs = u64::try_from(n / 1_000_000_000).ok()?;
    Some(Duration::new(secs, (n % 1_000_000_000) as u32))
}
fn ok_obs() -> Obs {
    Obs(vec![0])
}
fn slot(o: &mut Obs, m: &Option<ParameterNumberMessage>) {
    match m {
        Some(m) => pn_obs(m, o),
        None => nones(o, 6),
    }
}

pub fn eval_pp(t: &mut PTables, w: &[&str]) -> Option<Obs> {
    match w {
        ["new", id, timeout] => {
            set_at(&mut t.tab, id.parse().ok()?, PollingParameterNumberMessageScanner::new(dur(timeout)?));
            Some(ok_obs())
        }
        ["default", id] => { set_at(&mut t.tab, id.parse().ok()?, PollingParameterNumberMessageScanner::default()); Some(ok_obs()) }
        ["copy", a, b] => { let x = (*t.tab.get(a.parse::<usize>().ok()?)?)?; set_at(&mut t.tab, b.parse().ok()?, x); Some(ok_obs()) }
        #[allow(clippy::clone_on_copy)]
        ["clone", a, b] => { let x = (*t.tab.get(a.parse::<usize>().ok()?)?)?; let y = Clone::clone(&x); set_at(&mut t.tab, b.parse().ok()?, y); Some(ok_obs()) }
        ["c12begin", _id, _ch] => Some(ok_obs()),
        ["tick", d] => { crate::clock::advance(d.parse().ok()?); Some(ok_obs()) }
        ["settime", x] => { set_now_nanos(x.parse().ok()?); Some(ok_obs()) }
        ["reset", id] => { t.tab.get_mut(id.parse::<usize>().ok()?)?.as_mut()?.reset(); Some(ok_obs()) }
        ["feed", id, which, s, d1, d2] => {
            let (s, d1, d2): (u8, u8, u8) = (s.parse().ok()?, d1.parse().ok()?, d2.parse().ok()?);
            let sc = t.tab.get_mut(id.parse::<usize>().ok()?)?.as_mut()?;
            let mut copy = *sc;
            let o = guarded(|o| {
                let r = match *which {
                    "str" => copy.feed(&StructuredShortMessage::from_bytes((s, u7(d1), u7(d2))).expect("harness: invalid status")),
                    "frn" => copy.feed(&Foreign(s, u7(d1), u7(d2))),
                    _ => copy.feed(&RawShortMessage::from_bytes((s, u7(d1), u7(d2))).expect("harness: invalid status")),
                };
                slot(o, &r[0]);
                slot(o, &r[1]);
            });
            *sc = copy;
            Some(o)
        }
        ["poll", id, c] => {
            let c = Channel::try_from(c.parse::<u32>().ok()?).ok()?;
            let sc = t.tab.get_mut(id.parse::<usize>().ok()?)?.as_mut()?;
            let mut copy = *sc;
            let o = guarded(|o| {
                let r = copy.poll(c);
                slot(o, &r);
            });
            *sc = copy;
            Some(o)
        }
        ["eq", a, b] | ["same", a, b] | ["pollfx", a, b, _] => {
            let x = (*t.tab.get(a.parse::<usize>().ok()?)?)?; let y = (*t.tab.get(b.parse::<usize>().ok()?)?)?;
            Some(Obs(vec![(x == y) as i64]))
        }
        ["isnew", a, timeout] | ["mustbenew", a, timeout] => {
            let x = (*t.tab.get(a.parse::<usize>().ok()?)?)?;
            let n = PollingParameterNumberMessageScanner::new(dur(timeout)?);
            let z = PollingParameterNumberMessageScanner::new(Duration::from_nanos(0));
            Some(Obs(vec![(x == n) as i64, (z == PollingParameterNumberMessageScanner::default()) as i64]))
        }
        _ => None,
    }
}

/// state key for the exploration: the implementation's Debug string with every absolute arrival time replaced by
/// the elapsed time clamped at the timeout (two states that differ only in absolute time behave alike)
fn norm_key(dbg: &str, now: u64, timeout: u64) -> String {
    let mut out = String::with_capacity(dbg.len());
    let mut rest = dbg;
    while let Some(i) = rest.find("Instant(") {
        out.push_str(&rest[..i]);
        let tail = &rest[i + 8..];
        let j = tail.find(')').unwrap_or(0);
        let arrival: u64 = tail[..j].parse().unwrap_or(0);
        let el = now.saturating_sub(arrival).min(timeout);
        out.push_str(&format!("elapsed({})", el));
        rest = &tail[j + 1..];
    }
    out.push_str(rest);
    out
}

#[derive(Clone, Copy)]
pub enum Inp { Msg(u8, u8, u8), Reset, Poll(u32), Tick(u64), SameAsTemp }

pub fn alphabet(channels: &[u32], timeout: u64) -> Vec<Inp> {
    let mut a = Vec::new();
    for &c in channels {
        let st = 0xB0 + c as u8;
        for n in [6u8, 38, 96, 97, 98, 99, 100, 101] { for v in [0u8, 1, 127] { a.push(Inp::Msg(st, n, v)); } }
        a.push(Inp::Msg(st, 7, 5));
        a.push(Inp::Msg(0x90 + c as u8, 60, 100));
        a.push(Inp::Poll(c));
    }
    a.push(Inp::Poll(7));
    a.push(Inp::Msg(0xF8, 0, 0));
    a.push(Inp::Msg(0xF3, 6, 0));
    for &c in channels {
        let st = 0xF0 + c as u8;
        a.push(Inp::Msg(st, 6, 5)); a.push(Inp::Msg(st, 98, 5)); a.push(Inp::Msg(st, 96, 5));
    }
    a.push(Inp::Reset);
    if timeout == 0 { a.push(Inp::Tick(1)); } else {
        a.push(Inp::Tick(1));
        if timeout > 2 { a.push(Inp::Tick(timeout - 1)); }
        a.push(Inp::Tick(timeout));
    }
    a
}

pub fn explore(out: &mut Out, channels: &[u32], timeout: u64, max_states: usize, strict_reset: bool, full_transparency: bool) {
    let alpha = alphabet(channels, timeout);
    let mut seen: HashMap<String, usize> = HashMap::new();
    let mut queue: VecDeque<usize> = VecDeque::new();
    let mut times: Vec<u64> = vec![0, 0, 0];
    out.req("pp settime 0");
    out.req(&format!("pp new 2 {}", timeout));
    let key = |out: &Out, id: usize, now: u64| norm_key(&format!("{:?}", out.st.ptables.tab[id].unwrap()), now, timeout);
    seen.insert(key(out, 2, 0), 2);
    queue.push_back(2);
    let mut next_id = 3usize;
    let c0 = channels[0];
    let st0 = 0xB0 + c0 as u8;
    // behavioural probes run on a copy after every transition: they expose every stored byte of every phase, so a
    // divergence between model state and implementation state is seen even when the transition itself agreed
    let probes: Vec<Vec<Inp>> = vec![
        vec![Inp::Tick(timeout), Inp::Poll(c0)],
        vec![Inp::Msg(st0, 38, 2)],
        vec![Inp::Msg(st0, 96, 2)],
        vec![Inp::Msg(st0, 6, 2), Inp::Tick(timeout), Inp::Poll(c0)],
        vec![Inp::Msg(st0, 98, 2), Inp::Msg(st0, 96, 3)],
        vec![Inp::Msg(st0, 99, 2), Inp::Msg(st0, 96, 3)],
        // C16: non-contributing messages report nothing and leave the scanner equal (real PartialEq) to what it was
        vec![Inp::Msg(st0, 7, 5), Inp::SameAsTemp],
        vec![Inp::Msg(st0, 102, 127), Inp::SameAsTemp],
        vec![Inp::Msg(0x90 + c0 as u8, 6, 38), Inp::SameAsTemp],
        vec![Inp::Msg(0xF2, 6, 38), Inp::SameAsTemp],
        vec![Inp::Msg(0xE0 + c0 as u8, 98, 99), Inp::SameAsTemp],
    ];
    let (mut transitions, mut reports, mut polls_reporting) = (0u64, 0u64, 0u64);
    let mut sweeps = 0u64;
    while let Some(id) = queue.pop_front() {
        if full_transparency {
            // C16: in this state, EVERY non-contributing message (each of the 120 other controller numbers, each other
            // status byte) reports nothing and leaves the scanner equal (real PartialEq) to what it was
            out.req(&format!("pp settime {}", times[id]));
            let probe = |out: &mut Out, s: u8, d1: u8, d2: u8| {
                out.req(&format!("pp copy {} 1", id));
                out.req(&format!("pp feed 1 raw {} {} {}", s, d1, d2));
                out.req(&format!("pp same 1 {}", id));
            };
            for cnn in 0..128u8 { if !matches!(cnn, 6 | 38 | 96..=101) { probe(out, st0, cnn, if cnn % 2 == 0 { 5 } else { 127 }); sweeps += 1; } }
            for st in (0x80u8..=0xFF).filter(|s| (s & 0xF0) != 0xB0) { probe(out, st, if st % 2 == 0 { 6 } else { 98 }, 38); sweeps += 1; }
        }
        for inp in &alpha {
            out.req(&format!("pp settime {}", times[id]));
            out.req(&format!("pp copy {} 0", id));
            match inp {
                Inp::Msg(s, d1, d2) => { let l = out.req_ret(&format!("pp feed 0 raw {} {} {}", s, d1, d2)); if l.chars().any(|c| c.is_ascii_digit()) { reports += 1; } }
                Inp::Reset => { out.req("pp reset 0"); out.req(&format!("pp {} 0 {}", if strict_reset { "mustbenew" } else { "isnew" }, timeout)); }
                Inp::Poll(c) => {
                    let l = out.req_ret(&format!("pp poll 0 {}", c));
                    if !l.starts_with('-') { reports += 1; polls_reporting += 1; }
                    // C13: a poll before the timeout (or with nothing pending) has no effect: real `==` with the state before
                    out.req(&format!("pp pollfx 0 {} {}", id, c));
                }
                Inp::Tick(d) => { out.req(&format!("pp tick {}", d)); }
                Inp::SameAsTemp => {}
            }
            transitions += 1;
            let now = now_nanos();
            for probe in &probes {
                out.req("pp copy 0 1");
                for pi in probe {
                    match pi {
                        Inp::Msg(s, d1, d2) => { out.req(&format!("pp feed 1 raw {} {} {}", s, d1, d2)); }
                        Inp::Poll(c) => { out.req(&format!("pp poll 1 {}", c)); }
                        Inp::Tick(d) => { out.req(&format!("pp tick {}", d)); }
                        Inp::Reset => { out.req("pp reset 1"); }
                        Inp::SameAsTemp => { out.req("pp same 1 0"); }
                    }
                }
                out.req(&format!("pp settime {}", now));
            }
            let k = key(out, 0, now);
            if !seen.contains_key(&k) && seen.len() < max_states {
                out.req(&format!("pp copy 0 {}", next_id));
                seen.insert(k, next_id);
                times.push(now);
                queue.push_back(next_id);
                next_id += 1;
            }
        }
    }
    out.stat("states", seen.len() as u64);
    // 1 = the state bound was hit before a fixpoint was reached (the exploration is then incomplete; recorded)
    out.stat("exploration_truncated", (seen.len() >= max_states) as u64);
    out.stat("transitions", transitions);
    out.stat("transparency_probes", sweeps);
    out.stat("transitions_reporting", reports);
    out.stat("polls_reporting", polls_reporting);
    out.stat("evaluations", transitions);
    out.stat("nontrivial", reports);
}

fn random_msg(rng: &mut Rng, chans: u64) -> (u8, u8, u8) {
    let r = rng.below(100);
    let c = rng.below(chans) as u8;
    if r < 78 {
        let n = [6u8, 38, 96, 97, 98, 99, 100, 101, 6, 38, 6][rng.below(11) as usize];
        (0xB0 + c, n, rng.below(128) as u8)
    } else if r < 85 {
        (0xB0 + c, rng.below(128) as u8, rng.below(128) as u8)
    } else if r < 94 {
        (0x80 + (rng.below(7) as u8) * 16 + c, rng.below(128) as u8, rng.below(128) as u8)
    } else {
        (0xF0 + rng.below(16) as u8, rng.below(128) as u8, rng.below(128) as u8)
    }
}

/// seeded random histories: feeds over the full alphabet, polls, resets, time steps below / at / above the timeout
pub fn random_histories(out: &mut Out, seed: u64, histories: usize, len: usize, strict_reset: bool) {
    let mut rng = Rng(seed ^ 0xB011);
    let (mut n, mut reports) = (0u64, 0u64);
    let impls = ["raw", "str", "frn"];
    // the last two exceed a u64 of nanoseconds (2^64 ns, Duration::MAX): every poll is early, nothing may panic
    let timeouts = ["0", "3", "1000", "18446744073709551615", "1", "1500000000", "18446744073709551616", "18446744073709551615999999999"];
    for h in 0..histories {
        let tstr = timeouts[h % timeouts.len()];
        let timeout: u64 = tstr.parse::<u128>().unwrap().min(u64::MAX as u128) as u64;
        let chans = if h % 3 == 0 { 2 } else { 16 };
        out.req(&format!("pp settime {}", if h % 4 == 0 { rng.below(1 << 40) } else { 0 }));
        if timeout == 0 && h % 2 == 0 { out.req("pp default 1"); } else { out.req(&format!("pp new 1 {}", tstr)); }
        let mut copied = false;
        for _ in 0..len {
            let r = rng.below(100);
            let which = impls[rng.below(3) as usize];
            if r < 2 {
                out.req("pp reset 1");
                out.req(&format!("pp {} 1 {}", if strict_reset { "mustbenew" } else { "isnew" }, tstr));
            } else if r < 4 {
                out.req(if rng.below(2) == 0 { "pp copy 1 2" } else { "pp clone 1 2" }); copied = true;
                out.req("pp same 2 1");     // a copy / clone equals its original (real ==)
            } else if r < 7 && copied {
                if rng.below(3) == 0 {
                    out.req(&format!("pp poll 2 {}", rng.below(chans)));
                } else {
                    let (s, d1, d2) = random_msg(&mut rng, chans);
                    out.req(&format!("pp feed 2 {} {} {} {}", which, s, d1, d2));
                }
            } else if r < 25 {
                let c = rng.below(chans);
                out.req("pp copy 1 3");
                let l = out.req_ret(&format!("pp poll 1 {}", c));
                if !l.starts_with('-') { reports += 1; }
                out.req(&format!("pp pollfx 1 3 {}", c));
            } else if r < 40 {
                let d = match rng.below(6) { 0 => 0, 1 => 1, 2 => timeout.saturating_sub(1), 3 => timeout, 4 => timeout.saturating_add(1),
                                             _ => if timeout == 1_500_000_000 { 300_000_000 * (1 + rng.below(7)) } else { rng.below(2000) } };
                out.req(&format!("pp tick {}", d));
            } else if r < 48 {
                // encoder output of a random message, either byte order
                let i = rng.below(8) as u32;
                let v = if i == 1 || i == 5 { rng.below(16384) } else { rng.below(128) } as u32;
                let m = pn_ctor(i, rng.below(chans) as u32, rng.below(16384) as u32, v);
                let order = if rng.below(2) == 0 { DataEntryByteOrder::LsbFirst } else { DataEntryByteOrder::MsbFirst };
                let ms: [Option<RawShortMessage>; 4] = m.to_short_messages(order);
                for x in ms.iter().flatten() {
                    let b = x.to_bytes();
                    let l = out.req_ret(&format!("pp feed 1 {} {} {} {}", which, b.0, b.1.get(), b.2.get()));
                    if l.chars().any(|c| c.is_ascii_digit()) { reports += 1; }
                }
            } else {
                let (s, d1, d2) = random_msg(&mut rng, chans);
                let l = out.req_ret(&format!("pp feed 1 {} {} {} {}", which, s, d1, d2));
                if l.chars().any(|c| c.is_ascii_digit()) { reports += 1; }
            }
            n += 1;
        }
    }
    for k in [1u32, 2, 255, 256, 257, 65535, 65536, 65537] {
        for c in [0u8, 15] {
            out.req("pp settime 0");
            out.req("pp new 1 3");
            out.req(&format!("pp feed 1 raw {} 99 3", 0xB0 + c));
            out.req(&format!("pp feed 1 raw {} 98 37", 0xB0 + c));
            out.req(&format!("pp feed 1 raw {} 6 9", 0xB0 + c));
            for _ in 0..k { out.req("pp reset 1"); }
            out.req("pp tick 10");
            let a = out.req_ret(&format!("pp poll 1 {}", c));
            let b = out.req_ret(&format!("pp feed 1 raw {} 96 1", 0xB0 + c));
            out.oracle(&format!("pp-nothing-reported-after-{}-resets", k), &format!("channel={}", c), a.starts_with('-') && b == NONE12);
            n += k as u64 + 6;
        }
    }
    out.stat("evaluations", n);
    out.stat("nontrivial", reports);
    out.stat("histories", histories as u64);
}

// ------------------------------------------------------------------------------------------ C12: sentences

#[derive(Clone, Debug)]
pub enum Unit { MsbAlone(u8), MsbLsb(u8, u8), Further(u8), LsbMsb(u8, u8), IncDec(bool, u8) }

impl Unit {
    fn is14(&self) -> bool { matches!(self, Unit::MsbLsb(..) | Unit::Further(..) | Unit::LsbMsb(..)) }
    fn token(&self) -> String {
        match self {
            Unit::MsbAlone(v) => format!("a:{}", v),
            Unit::MsbLsb(m, l) => format!("p:{}:{}", m, l),
            Unit::Further(l) => format!("f:{}", l),
            Unit::LsbMsb(l, m) => format!("q:{}:{}", l, m),
            Unit::IncDec(true, v) => format!("i:{}", v),
            Unit::IncDec(false, v) => format!("d:{}", v),
        }
    }
    fn msgs(&self) -> Vec<(u8, u8)> {
        match self {
            Unit::MsbAlone(v) => vec![(6, *v)],
            Unit::MsbLsb(m, l) => vec![(6, *m), (38, *l)],
            Unit::Further(l) => vec![(38, *l)],
            Unit::LsbMsb(l, m) => vec![(38, *l), (6, *m)],
            Unit::IncDec(i, v) => vec![(if *i { 96 } else { 97 }, *v)],
        }
    }
}

#[derive(Clone, Debug)]
pub struct Block { pub reg: bool, pub msb_first: bool, pub number: u16, pub units: Vec<Unit> }

fn unit_kinds_after(first: bool, after14: bool) -> Vec<u8> {
    // 0 msbAlone 1 msbLsb 2 further 3 lsbMsb 4 inc 5 dec
    let mut k = vec![0u8, 1, 4, 5];
    if after14 { k.push(2); }
    if first { k.push(3); }
    k
}

fn gen_unit(kind: u8, rng: &mut Rng) -> Unit {
    let v = |rng: &mut Rng| -> u8 { if rng.below(3) == 0 { [0u8, 1, 127, 64][rng.below(4) as usize] } else { rng.below(128) as u8 } };
    match kind {
        0 => Unit::MsbAlone(v(rng)),
        1 => Unit::MsbLsb(v(rng), v(rng)),
        2 => Unit::Further(v(rng)),
        3 => Unit::LsbMsb(v(rng), v(rng)),
        4 => Unit::IncDec(true, v(rng)),
        _ => Unit::IncDec(false, v(rng)),
    }
}

/// all sequences of unit kinds up to the given length that satisfy the documented side conditions
fn kind_sequences(max_len: usize) -> Vec<Vec<u8>> {
    let mut all: Vec<Vec<u8>> = vec![vec![]];
    let mut frontier: Vec<(Vec<u8>, bool, bool)> = vec![(vec![], true, false)];
    for _ in 0..max_len {
        let mut next = Vec::new();
        for (seq, first, after14) in &frontier {
            for k in unit_kinds_after(*first, *after14) {
                let mut s = seq.clone();
                s.push(k);
                let is14 = k == 1 || k == 2 || k == 3;
                all.push(s.clone());
                next.push((s, false, is14));
            }
        }
        frontier = next;
    }
    all
}

/// Runs one scheduled sentence on scanner `id`, channel `ch`: messages in order with random gaps (ticks, polls — early
/// inside two-message units when the timeout allows, arbitrary elsewhere —, non-contributing messages on the
/// channel, any traffic on another channel), then one late poll; emits every call as a request line and finally
/// `pp c12end` with the reports the real scanner produced.
fn run_sentence(out: &mut Out, rng: &mut Rng, id: usize, ch: u8, timeout: u64, blocks: &[Block], gap_style: u64) -> u64 {
    out.req(&format!("pp c12begin {} {}", id, ch));
    let mut reports = Obs::new();
    let mut nrep = 0u64;
    let st = 0xB0 + ch;
    let other_ch = (ch + 1 + rng.below(15) as u8) % 16;
    let mut collect = |line: &str, reports: &mut Obs, nrep: &mut u64| {
        let cells: Vec<&str> = line.split_whitespace().collect();
        for chunk in cells.chunks(6) {
            if chunk.len() == 6 && chunk[0] != "-" {
                for c in chunk { reports.0.push(c.parse::<i64>().unwrap_or(-1)); }
                *nrep += 1;
            }
        }
    };
    let mut last_feed_time: u64;
    let mut gap = |out: &mut Out, rng: &mut Rng, inner: bool, t0: u64, reports: &mut Obs, nrep: &mut u64| {
        let n = match gap_style { 0 => 0, 1 => 1, _ => rng.below(4) };
        for _ in 0..n {
            match rng.below(7) {
                0 | 1 => {
                    // a poll: inside a unit only while it is still early
                    let now = now_nanos();
                    let early = now.saturating_sub(t0) < timeout;
                    if !inner || early {
                        let l = out.req_ret(&format!("pp poll {} {}", id, ch));
                        collect(&l, reports, nrep);
                    }
                }
                2 => {
                    // time passes; inside a unit stay strictly below the deadline
                    let now = now_nanos();
                    let d = if inner {
                        let left = timeout.saturating_sub(now.saturating_sub(t0));
                        if left > 1 { rng.below(left.min(5)) } else { 0 }
                    } else { [0u64, 1, timeout.saturating_sub(1), timeout, timeout.saturating_add(1).min(1 << 40), 7][rng.below(6) as usize] };
                    out.req(&format!("pp tick {}", d));
                }
                3 => { let l = out.req_ret(&format!("pp feed {} raw {} {} {}", id, st, [7u8, 0, 39, 95, 102, 127][rng.below(6) as usize], rng.below(128))); collect(&l, reports, nrep); }
                4 => { out.req(&format!("pp feed {} raw {} {} {}", id, 0xB0 + other_ch, [6u8, 38, 96, 98, 99, 101][rng.below(6) as usize], rng.below(128))); }
                5 => { let l = out.req_ret(&format!("pp feed {} raw {} {} {}", id, 0x90 + ch, rng.below(128), rng.below(128))); collect(&l, reports, nrep); }
                _ => {
                    // a system message whose low status nibble equals the channel, with contributing-looking data bytes
                    let l = out.req_ret(&format!("pp feed {} raw {} {} {}", id, 0xF0 + ch, [6u8, 38, 96, 97, 98, 99, 100, 101][rng.below(8) as usize], rng.below(128)));
                    collect(&l, reports, nrep);
                }
            }
        }
    };
    last_feed_time = now_nanos();
    for b in blocks {
        let x = (if b.reg { 101u8 } else { 99 }, (b.number / 128) as u8);
        let y = (if b.reg { 100u8 } else { 98 }, (b.number % 128) as u8);
        let sel = if b.msb_first { [x, y] } else { [y, x] };
        for (cnn, v) in sel {
            gap(out, rng, false, 0, &mut reports, &mut nrep);
            let l = out.req_ret(&format!("pp feed {} raw {} {} {}", id, st, cnn, v));
            collect(&l, &mut reports, &mut nrep);
            last_feed_time = now_nanos();
        }
        for u in &b.units {
            let ms = u.msgs();
            for (j, (cnn, v)) in ms.iter().enumerate() {
                gap(out, rng, j == 1, last_feed_time, &mut reports, &mut nrep);
                let l = out.req_ret(&format!("pp feed {} raw {} {} {}", id, st, cnn, v));
                collect(&l, &mut reports, &mut nrep);
                last_feed_time = now_nanos();
            }
        }
    }
    // final poll at least `timeout` after the last message
    let now = now_nanos();
    let need = timeout.saturating_sub(now.saturating_sub(last_feed_time));
    out.req(&format!("pp tick {}", need));
    let l = out.req_ret(&format!("pp poll {} {}", id, ch));
    collect(&l, &mut reports, &mut nrep);
    let mut toks = String::new();
    for b in blocks {
        toks.push_str(&format!(" B {} {} {}", b.reg as u8, b.msb_first as u8, b.number));
        for u in &b.units { toks.push(' '); toks.push_str(&u.token()); }
    }
    let cells = if reports.0.is_empty() { "0".to_string() } else { reports.show() };
    // the empty report list is written as the single cell 0 on both sides
    out.raw(&format!("pp c12end {} {}{} | {}", id, ch, toks, cells));
    nrep
}

pub fn sentences(out: &mut Out, seed: u64, max_units: usize, reps: usize, random_long: usize) {
    let mut rng = Rng(seed ^ 0xC12);
    let seqs = kind_sequences(max_units);
    let (mut n, mut reports, mut units_total) = (0u64, 0u64, 0u64);
    for timeout in [0u64, 3, 50] {
        for seq in &seqs {
            for rep in 0..reps {
                let ch = rng.below(16) as u8;
                out.req(&format!("pp settime {}", rng.below(1000)));
                out.req(&format!("pp new 1 {}", timeout));
                // prior traffic (every second repetition): leaves the channel in an arbitrary state
                if rep % 2 == 1 {
                    for _ in 0..rng.below(6) {
                        let (s, d1, d2) = random_msg(&mut rng, 16);
                        let s = if rng.below(2) == 0 { 0xB0 + ch } else { s };
                        out.req(&format!("pp feed 1 raw {} {} {}", s, d1, d2));
                    }
                }
                let nblocks = 1 + (rep % 2);
                let mut blocks = Vec::new();
                for bi in 0..nblocks {
                    let units: Vec<Unit> = if bi == 0 { seq.iter().map(|k| gen_unit(*k, &mut rng)).collect() } else {
                        let s2 = &seqs[rng.below(seqs.len() as u64) as usize];
                        s2.iter().map(|k| gen_unit(*k, &mut rng)).collect()
                    };
                    units_total += units.len() as u64;
                    blocks.push(Block { reg: rng.below(2) == 0, msb_first: rng.below(2) == 0, number: rng.below(16384) as u16, units });
                }
                reports += run_sentence(out, &mut rng, 1, ch, timeout, &blocks, rep as u64);
                n += 1;
            }
        }
    }
    // long random sentences
    for _ in 0..random_long {
        let timeout = [0u64, 3, 1000][rng.below(3) as usize];
        let ch = rng.below(16) as u8;
        out.req(&format!("pp settime {}", rng.below(1 << 30)));
        out.req(&format!("pp new 1 {}", timeout));
        let mut blocks = Vec::new();
        for _ in 0..(1 + rng.below(4)) {
            let mut units = Vec::new();
            let (mut first, mut after14) = (true, false);
            for _ in 0..rng.below(12) {
                let ks = unit_kinds_after(first, after14);
                let k = ks[rng.below(ks.len() as u64) as usize];
                let u = gen_unit(k, &mut rng);
                after14 = u.is14(); first = false;
                units.push(u);
            }
            units_total += units.len() as u64;
            blocks.push(Block { reg: rng.below(2) == 0, msb_first: rng.below(2) == 0, number: rng.below(16384) as u16, units });
        }
        reports += run_sentence(out, &mut rng, 1, ch, timeout, &blocks, 2);
        n += 1;
    }
    out.stat("evaluations", n);
    out.stat("nontrivial", n);
    out.stat("sentences", n);
    out.stat("units", units_total);
    out.stat("messages_reported", reports);
    out.stat("unit_kind_sequences", seqs.len() as u64);
}

// ------------------------------------------------------------------------------------------ C13: directed oracles

fn cells7(ch: u8, number: u32, reg: bool, v: u8) -> String {
    format!("{} {} {} {} 0 0", ch, number, v, reg as u8)
}
const NONE6: &str = "- - - - - -";
const NONE12: &str = "- - - - - - - - - - - -";

/// Directed scenarios taken from the property text, run on the real scanner with verdicts as oracle lines
/// (every call is also a request line, so the model is compared on the same scenario):
///  A  polls before the timeout return nothing and have no effect; the first poll at/after the timeout reports the
///     pending MSB once; further polls return nothing
///  B  an unpaired data entry LSB is never reported: the first poll after the timeout drops it, a following MSB is
///     then a lone MSB
///  C  the passage of time alone never changes what feed returns
pub fn directed(out: &mut Out, seed: u64, count: usize) {
    let mut rng = Rng(seed ^ 0xC13);
    let mut n = 0u64;
    for k in 0..count {
        // (sub-second and whole-second structure matters to code that compares seconds and nanoseconds separately)
        let timeout = [1u64, 2, 3, 1000, 1 << 40, u64::MAX, 900_000_000, 1_500_000_000, 2_000_000_001][k % 9];
        let ch = rng.below(16) as u8;
        let st = 0xB0 + ch;
        let reg = rng.below(2) == 0;
        let (hi, lo, v, l) = (rng.below(128) as u8, rng.below(128) as u8, rng.below(128) as u8, rng.below(128) as u8);
        let number = hi as u32 * 128 + lo as u32;
        let (xm, xl) = if reg { (101u8, 100u8) } else { (99, 98) };
        // (the mock clock is a u64: with the largest timeout a late poll is only expressible from time 0)
        let start = rng.below(1 << 20);
        out.req(&format!("pp settime {}", if timeout == u64::MAX { 0 } else { start }));
        out.req(&format!("pp new 1 {}", timeout));
        let mut prior = String::new();
        for _ in 0..rng.below(5) {
            let (s, d1, d2) = random_msg(&mut rng, 16);
            out.req(&format!("pp feed 1 raw {} {} {}", s, d1, d2));
            prior.push_str(&format!("{}.{}.{},", s, d1, d2));
        }
        out.req(&format!("pp feed 1 raw {} {} {}", st, xm, hi));
        out.req(&format!("pp feed 1 raw {} {} {}", st, xl, lo));
        let desc = format!("timeout={} ch={} reg={} number={} v={} l={} prior={}", timeout, ch, reg as u8, number, v, l, if prior.is_empty() { "-" } else { &prior });
        // how far beyond the timeout the late polls of this scenario come (replayed from `over=`)
        let over = if timeout < (1 << 41) { [0u64, 1, 2, 0, 1, 150_000_000, 600_000_000, 1_000_000_001][rng.below(8) as usize] } else { 0 };
        let desc = format!("{} over={}", desc, over);
        let late_tick = |_rng: &mut Rng, elapsed: u64| -> u64 { (timeout - elapsed).saturating_add(over) };
        match (k / 9) % 3 {
            0 => {
                out.req(&format!("pp feed 1 raw {} 6 {}", st, v));
                let mut elapsed = 0u64;
                let mut ok = true;
                for _ in 0..3 {
                    let room = timeout - elapsed - 1;
                    let d = if room == 0 { 0 } else { rng.below(room.min(1 << 30) + 1).min(room) };
                    out.req(&format!("pp tick {}", d)); elapsed += d;
                    ok &= out.req_ret(&format!("pp poll 1 {}", ch)) == NONE6;
                }
                out.oracle("c13-early-poll-returns-nothing", &desc, ok);
                let d = late_tick(&mut rng, elapsed);
                out.req(&format!("pp tick {}", d));
                let r = out.req_ret(&format!("pp poll 1 {}", ch));
                out.oracle("c13-late-poll-reports-pending-msb", &desc, r == cells7(ch, number, reg, v));
                let mut once = true;
                for _ in 0..2 {
                    out.req(&format!("pp tick {}", rng.below(5)));
                    once &= out.req_ret(&format!("pp poll 1 {}", ch)) == NONE6;
                }
                out.oracle("c13-reported-once", &desc, once);
            }
            1 => {
                let r0 = out.req_ret(&format!("pp feed 1 raw {} 38 {}", st, l));
                let d = late_tick(&mut rng, 0);
                out.req(&format!("pp tick {}", d));
                let r1 = out.req_ret(&format!("pp poll 1 {}", ch));
                let r2 = out.req_ret(&format!("pp feed 1 raw {} 6 {}", st, v));
                out.oracle("c13-unpaired-lsb-dropped-by-late-poll", &desc, r0 == NONE12 && r1 == NONE6 && r2 == NONE12);
                // (with the largest timeout a second full timeout does not fit into the u64 mock clock)
                if timeout <= u64::MAX / 2 {
                    let d = late_tick(&mut rng, 0);
                    out.req(&format!("pp tick {}", d));
                    let r3 = out.req_ret(&format!("pp poll 1 {}", ch));
                    out.oracle("c13-msb-after-dropped-lsb-is-lone", &desc, r3 == cells7(ch, number, reg, v));
                }
            }
            _ => {
                // same feeds, different passage of time (no polls): identical results
                out.req("pp copy 1 2");
                let mut same = true;
                for _ in 0..8 {
                    let (s, d1, d2) = random_msg(&mut rng, 2);
                    let s = if s >= 0xB0 && s < 0xC0 { st } else { s };
                    let a = out.req_ret(&format!("pp feed 1 raw {} {} {}", s, d1, d2));
                    out.req(&format!("pp tick {}", [0u64, 1, timeout.saturating_sub(1), timeout, 12345][rng.below(5) as usize]));
                    let b = out.req_ret(&format!("pp feed 2 raw {} {} {}", s, d1, d2));
                    same &= a == b;
                }
                out.oracle("c13-feed-independent-of-time", &desc, same);
            }
        }
        n += 1;
    }
    out.stat("evaluations", n);
    out.stat("nontrivial", n);
    out.stat("directed_scenarios", n);
}

// ------------------------------------------------------------------------------------------ C12: encode -> feed -> poll

/// end-to-end on the real code: encode a message with the real encoder in either byte order, feed it to the real
/// polling scanner (fresh, or after random prior traffic), poll after the timeout: the reports must be exactly the
/// original message, preceded at most by the flush of a value that was pending before
pub fn roundtrips(out: &mut Out, seed: u64, count: usize) {
    let mut rng = Rng(seed ^ 0x7712);
    let mut n = 0u64;
    for k in 0..count {
        let timeout = [0u64, 3, 1000][k % 3];
        out.req(&format!("pp settime {}", rng.below(1 << 20)));
        out.req(&format!("pp new 1 {}", timeout));
        let c = rng.below(16) as u32;
        let mut prior = String::new();
        if k % 2 == 1 {
            for _ in 0..rng.below(8) {
                let (s, d1, d2) = random_msg(&mut rng, 16);
                let s = if rng.below(2) == 0 && (0xB0..0xC0).contains(&s) { 0xB0 + c as u8 } else { s };
                out.req(&format!("pp feed 1 raw {} {} {}", s, d1, d2));
                prior.push_str(&format!("{}.{}.{},", s, d1, d2));
            }
        }
        // what is still pending on the channel is flushed first: find out with a copy polled late
        out.req("pp copy 1 2");
        out.req(&format!("pp tick {}", timeout));
        let pending = out.req_ret(&format!("pp poll 2 {}", c));
        let i = rng.below(8) as u32;
        let vmax = if i == 1 || i == 5 { 16384 } else { 128 };
        let v = if k % 5 == 0 { [0u64, 1, 127, vmax - 1, vmax / 2][rng.below(5) as usize] } else { rng.below(vmax) } as u32;
        let num = if k % 7 == 0 { [0u32, 127, 128, 16383][rng.below(4) as usize] } else { rng.below(16384) as u32 };
        let m = pn_ctor(i, c, num, v);
        let lsb_first = rng.below(2) == 0;
        let order = if lsb_first { DataEntryByteOrder::LsbFirst } else { DataEntryByteOrder::MsbFirst };
        let ms: [Option<RawShortMessage>; 4] = m.to_short_messages(order);
        let mut got: Vec<String> = Vec::new();
        let mut push = |line: &str, got: &mut Vec<String>| {
            let cells: Vec<&str> = line.split_whitespace().collect();
            for chunk in cells.chunks(6) { if chunk.len() == 6 && chunk[0] != "-" { got.push(chunk.join(" ")); } }
        };
        for x in ms.iter().flatten() {
            let b = x.to_bytes();
            if timeout > 1 && rng.below(3) == 0 { out.req(&format!("pp tick {}", rng.below(timeout.min(2)))); }
            let l = out.req_ret(&format!("pp feed 1 raw {} {} {}", b.0, b.1.get(), b.2.get()));
            push(&l, &mut got);
        }
        out.req(&format!("pp tick {}", timeout));
        let l = out.req_ret(&format!("pp poll 1 {}", c));
        push(&l, &mut got);
        let mut want: Vec<String> = Vec::new();
        if !pending.starts_with('-') { want.push(pending.clone()); }
        let mut o = Obs::new(); pn_obs(&m, &mut o);
        want.push(o.show());
        out.oracle("pp-encode-feed-poll-roundtrip", &format!("ctor={} ch={} number={} value={} order={} timeout={} prior={}", i, c, num, v,
            if lsb_first { "lsb" } else { "msb" }, timeout, if prior.is_empty() { "-" } else { &prior }), got == want);
        n += 1;
    }
    out.stat("evaluations", n);
    out.stat("nontrivial", n);
    out.stat("roundtrips", n);
}

// ------------------------------------------------------------------------------------------ C15: isolation

/// one 16-channel real scanner and 16 real scanners of their own side by side: every input goes to the main scanner
/// and to the own scanner of its channel (resets and time to all); results must coincide
pub fn isolation(out: &mut Out, seed: u64, histories: usize, len: usize, pair: Option<(u32, u32)>) {
    let mut rng = Rng(seed ^ 0xC15);
    let mut n = 0u64;
    for h in 0..histories {
        let timeout = [0u64, 3, 1000][h % 3];
        out.req(&format!("pp settime {}", rng.below(1000)));
        if timeout == 0 && h % 2 == 1 {
            // zero timeout: also through `default()`, for the shared scanner only / for all of them
            out.req("pp default 1");
            for c in 0..16 { if h % 4 == 1 { out.req(&format!("pp new {} 0", 10 + c)); } else { out.req(&format!("pp default {}", 10 + c)); } }
        } else {
            out.req(&format!("pp new 1 {}", timeout));
            for c in 0..16 { out.req(&format!("pp new {} {}", 10 + c, timeout)); }
        }
        let mut ok = true;
        let mut hist = String::new();
        for _ in 0..len {
            let r = rng.below(100);
            let pick_ch = |rng: &mut Rng| -> u32 { match pair { Some((a, b)) => if rng.below(2) == 0 { a } else { b }, None => rng.below(16) as u32 } };
            if r < 3 {
                out.req("pp reset 1");
                for c in 0..16 { out.req(&format!("pp reset {}", 10 + c)); }
                hist.push_str("R,");
            } else if r < 18 {
                let d = [0u64, 1, timeout.saturating_sub(1), timeout, 7][rng.below(5) as usize];
                out.req(&format!("pp tick {}", d));
                hist.push_str(&format!("T{},", d));
            } else if r < 38 {
                let c = pick_ch(&mut rng);
                let a = out.req_ret(&format!("pp poll 1 {}", c));
                let b = out.req_ret(&format!("pp poll {} {}", 10 + c, c));
                hist.push_str(&format!("P{},", c));
                ok &= a == b && (a.starts_with('-') || a.split_whitespace().next() == Some(&c.to_string()));
            } else {
                let (s0, d1, d2) = random_msg(&mut rng, 16);
                let s = if s0 < 0xF0 { (s0 & 0xF0) + pick_ch(&mut rng) as u8 } else { s0 };
                let a = out.req_ret(&format!("pp feed 1 raw {} {} {}", s, d1, d2));
                hist.push_str(&format!("{}.{}.{},", s, d1, d2));
                if s < 0xF0 {
                    let c = (s & 0x0F) as u32;
                    let b = out.req_ret(&format!("pp feed {} raw {} {} {}", 10 + c, s, d1, d2));
                    ok &= a == b;
                    for chunk in a.split_whitespace().collect::<Vec<_>>().chunks(6) { if chunk[0] != "-" { ok &= chunk[0] == c.to_string(); } }
                } else {
                    ok &= a == NONE12;
                }
            }
            n += 1;
        }
        out.oracle("c15-polling-channel-isolation", &format!("timeout={} history={}", timeout, if hist.len() > 600 { &hist[..600] } else { &hist }), ok);
    }
    out.stat("evaluations", n);
    out.stat("nontrivial", n);
    out.stat("histories", histories as u64);
}

// ------------------------------------------------------------------------------------------ the crate as shipped: real clock

/// Random histories whose outcome does not depend on how long anything really takes, so that they can be run against
/// `std::time::Instant` (build without the cfg flag) and still be compared with the model line by line: timeout 0
/// (every poll is late), one hour (every poll is early), and 1 ms with a real 5 ms sleep before every poll (late).
pub fn realclock_histories(out: &mut Out, seed: u64, histories: usize, len: usize) {
    let mut rng = Rng(seed ^ 0x7EA1);
    out.raw("# config real_clock");
    let (mut n, mut reports) = (0u64, 0u64);
    let impls = ["raw", "str", "frn"];
    for h in 0..histories {
        // the sleeping variant is the expensive one: one history in ten
        let timeout: u64 = if h % 10 == 9 { 1_000_000 } else if h % 2 == 0 { 0 } else { 3_600_000_000_000 };
        let chans = if h % 3 == 0 { 2 } else { 16 };
        out.req("pp settime 0");
        if timeout == 0 && h % 4 == 0 { out.req("pp default 1"); } else { out.req(&format!("pp new 1 {}", timeout)); }
        for _ in 0..len {
            let r = rng.below(100);
            let which = impls[rng.below(3) as usize];
            if r < 2 {
                out.req("pp reset 1");
                out.req(&format!("pp isnew 1 {}", timeout));
            } else if r < 22 {
                if timeout == 1_000_000 { out.req("pp tick 5000000"); }
                let l = out.req_ret(&format!("pp poll 1 {}", rng.below(chans)));
                if !l.starts_with('-') { reports += 1; }
            } else if r < 32 {
                let i = rng.below(8) as u32;
                let v = if i == 1 || i == 5 { rng.below(16384) } else { rng.below(128) } as u32;
                let m = pn_ctor(i, rng.below(chans) as u32, rng.below(16384) as u32, v);
                let order = if rng.below(2) == 0 { DataEntryByteOrder::LsbFirst } else { DataEntryByteOrder::MsbFirst };
                let ms: [Option<RawShortMessage>; 4] = m.to_short_messages(order);
                for x in ms.iter().flatten() {
                    let b = x.to_bytes();
                    let l = out.req_ret(&format!("pp feed 1 {} {} {} {}", which, b.0, b.1.get(), b.2.get()));
                    if l.chars().any(|c| c.is_ascii_digit()) { reports += 1; }
                }
            } else {
                let (s, d1, d2) = random_msg(&mut rng, chans);
                let l = out.req_ret(&format!("pp feed 1 {} {} {} {}", which, s, d1, d2));
                if l.chars().any(|c| c.is_ascii_digit()) { reports += 1; }
            }
            n += 1;
        }
    }
    out.stat("evaluations", n);
    out.stat("nontrivial", reports);
    out.stat("real_clock", 1);
}
