//! C18, allocation half (monitored, not proved): a counting global allocator and tight regions around calls into
//! the crate.  Results are kept in stack variables; formatting goes to a stack buffer.
use crate::msgs::*;
use crate::nums::Rng;
use crate::Out;
use core::convert::TryFrom;
use core::fmt::Write as _;
use core::str::FromStr;
use helgoboss_midi::*;
use std::alloc::{GlobalAlloc, Layout, System};
use std::cell::Cell;

pub struct Counting;
thread_local! {
    static ACTIVE: Cell<bool> = const { Cell::new(false) };
    static COUNT: Cell<u64> = const { Cell::new(0) };
}
unsafe impl GlobalAlloc for Counting {
    unsafe fn alloc(&self, l: Layout) -> *mut u8 {
        let _ = ACTIVE.try_with(|a| if a.get() { let _ = COUNT.try_with(|c| c.set(c.get() + 1)); });
        System.alloc(l)
    }
    unsafe fn dealloc(&self, p: *mut u8, l: Layout) { System.dealloc(p, l) }
    unsafe fn realloc(&self, p: *mut u8, l: Layout, n: usize) -> *mut u8 {
        let _ = ACTIVE.try_with(|a| if a.get() { let _ = COUNT.try_with(|c| c.set(c.get() + 1)); });
        System.realloc(p, l, n)
    }
}

#[inline(never)]
fn region<T, F: FnOnce() -> T>(f: F) -> (T, u64) {
    let before = COUNT.with(|c| c.get());
    ACTIVE.with(|a| a.set(true));
    let r = f();
    ACTIVE.with(|a| a.set(false));
    (r, COUNT.with(|c| c.get()) - before)
}

struct StackBuf { buf: [u8; 32], len: usize }
impl core::fmt::Write for StackBuf {
    fn write_str(&mut self, s: &str) -> core::fmt::Result {
        for b in s.bytes() { if self.len < 32 { self.buf[self.len] = b; self.len += 1; } }
        Ok(())
    }
}

fn touch<M: ShortMessage>(m: &M) -> u64 {
    // every trait method; the results are folded into a number so that nothing is optimised away
    let mut acc = m.status_byte() as u64 + m.data_byte_1().get() as u64 + m.data_byte_2().get() as u64;
    let b = m.to_bytes(); acc += b.0 as u64;
    acc += u8::from(m.r#type()) as u64;
    acc += m.super_type() as u64 + m.main_category() as u64;
    acc += m.channel().map(|c| c.get() as u64).unwrap_or(0);
    acc += m.key_number().map(|c| c.get() as u64).unwrap_or(0) + m.velocity().map(|c| c.get() as u64).unwrap_or(0);
    acc += m.controller_number().map(|c| c.get() as u64).unwrap_or(0) + m.control_value().map(|c| c.get() as u64).unwrap_or(0);
    acc += m.program_number().map(|c| c.get() as u64).unwrap_or(0) + m.pressure_amount().map(|c| c.get() as u64).unwrap_or(0);
    acc += m.pitch_bend_value().map(|c| c.get() as u64).unwrap_or(0);
    acc += m.is_note() as u64 + m.is_note_on() as u64 + m.is_note_off() as u64;
    let s = m.to_structured(); acc += s.status_byte() as u64;
    let r: RawShortMessage = m.to_other(); acc += r.data_byte_1().get() as u64;
    acc
}

pub fn probe(out: &mut Out, seed: u64, tier: &str) {
    let mut rng = Rng(seed ^ 0xA110C);
    let mut calls = 0u64;
    let mut sink = 0u64;
    // 1. messages: every valid byte triple, Raw and Structured and a foreign implementor
    let mut n_msg = 0u64;
    let step = if tier == "thorough" { 1 } else { 3 };
    for s in 128..=255u8 { for d1 in (0..128u8).step_by(step) { for d2 in (0..128u8).step_by(step) {
        let (a, b) = (u7(d1), u7(d2));
        let (x, c) = region(|| {
            let r = RawShortMessage::from_bytes((s, a, b)).ok().map(|m| touch(&m)).unwrap_or(0);
            let t = StructuredShortMessage::from_bytes((s, a, b)).ok().map(|m| touch(&m)).unwrap_or(0);
            let f = touch(&Foreign(s, a, b));
            r + t + f
        });
        sink = sink.wrapping_add(x); n_msg += c; calls += 3;
    } } }
    out.oracle("c18-no-allocation", &format!("messages:from_bytes+all-trait-methods allocations={}", n_msg), n_msg == 0);
    // 2. integer types: conversions, new, parse, Display (stack buffer), Ord
    let mut n_int = 0u64;
    for v in 0..=16383u32 {
        let (x, c) = region(|| {
            let a = U14::try_from(v).map(|x| x.get() as u64).unwrap_or(0);
            let b = U7::try_from(v).map(|x| x.get() as u64).unwrap_or(0);
            let d = Channel::try_from(v as i64).map(|x| x.get() as u64).unwrap_or(0);
            let e = U14::new((v & 0x3fff) as u16);
            let mut sb = StackBuf { buf: [0; 32], len: 0 };
            let _ = write!(sb, "{}", e);
            let p = U14::from_str(core::str::from_utf8(&sb.buf[..sb.len]).unwrap_or("x")).map(|x| x.get() as u64).unwrap_or(99999);
            let q = U7::from_str("+300").is_err() as u64 + KeyNumber::from_str("12a").is_err() as u64;
            let o = (e < U14::MAX) as u64 + (e == U14::default()) as u64;
            a + b + d + u64::from(e) + p + q + o + u128::from(e) as u64 + i8::from(U7::MIN) as u64
        });
        sink = sink.wrapping_add(x); n_int += c; calls += 12;
    }
    out.oracle("c18-no-allocation", &format!("integers:conversions+new+parse+display+ord allocations={}", n_int), n_int == 0);
    // 3. factory constructors and encoders
    let mut n_enc = 0u64;
    for _ in 0..(if tier == "thorough" { 2_000_000 } else { 200_000 }) {
        let (c, k, v, w) = (rng.below(16) as u32, rng.below(128) as u32, rng.below(128) as u32, rng.below(16384) as u32);
        let (ch, kn, cn, v7, v14) = (Channel::try_from(c).unwrap(), KeyNumber::try_from(k).unwrap(), ControllerNumber::try_from(k % 32).unwrap(), U7::try_from(v).unwrap(), U14::try_from(w).unwrap());
        let i = rng.below(8) as u32;
        let (x, cnt) = region(|| {
            let a: RawShortMessage = RawShortMessage::note_on(ch, kn, v7);
            let b = StructuredShortMessage::pitch_bend_change(ch, v14);
            let d = RawShortMessage::channel_message(ShortMessageType::ControlChange, ch, v7, v7);
            let m14 = ControlChange14BitMessage::new(ch, cn, v14);
            let e: [RawShortMessage; 2] = m14.to_short_messages();
            let f: [StructuredShortMessage; 2] = m14.into();
            let pn = crate::scan::pn_ctor(i, c, w, if i == 1 || i == 5 { w } else { v });
            let g: [Option<RawShortMessage>; 4] = pn.to_short_messages(DataEntryByteOrder::LsbFirst);
            let h: [Option<StructuredShortMessage>; 4] = pn.into();
            a.status_byte() as u64 + b.data_byte_1().get() as u64 + d.data_byte_2().get() as u64 + e[1].data_byte_2().get() as u64
                + f[0].data_byte_2().get() as u64 + g.iter().flatten().count() as u64 + h.iter().flatten().count() as u64
                + pn.number().get() as u64 + m14.lsb_controller_number().get() as u64
        });
        sink = sink.wrapping_add(x); n_enc += cnt; calls += 9;
    }
    out.oracle("c18-no-allocation", &format!("constructors+encoders allocations={}", n_enc), n_enc == 0);
    // 4. scanners: construction, copies, feed, poll, reset over random histories
    let mut n_scan = 0u64;
    let hist = if tier == "thorough" { 60_000 } else { 6_000 };
    for h in 0..hist {
        let ((), c0) = region(|| ());
        n_scan += c0;
        let (mut a, c1) = region(ControlChange14BitMessageScanner::new);
        let (mut b, c2) = region(ParameterNumberMessageScanner::new);
        n_scan += c1 + c2;
        #[cfg(feature = "std")]
        let (mut p, c3) = region(|| PollingParameterNumberMessageScanner::new(core::time::Duration::from_nanos([0u64, 3, 1000][h % 3])));
        #[cfg(feature = "std")]
        { n_scan += c3; }
        for _ in 0..60 {
            let r = rng.below(100);
            let st = if r < 75 { 0xB0 + rng.below(16) as u8 } else { 128 + rng.below(128) as u8 };
            let d1 = if r < 60 { [6u8, 38, 96, 97, 98, 99, 100, 101, 0, 1, 32, 33][rng.below(12) as usize] } else { rng.below(128) as u8 };
            let m = RawShortMessage::from_bytes((st, u7(d1), u7(rng.below(128) as u8))).unwrap();
            let sm = m.to_structured();
            let chn = Channel::try_from(rng.below(16) as u32).unwrap();
            let do_reset = rng.below(40) == 0;
            #[cfg(feature = "std")]
            crate::clock::set_now_nanos(crate::clock::now_nanos() + rng.below(5));
            let (x, c) = region(|| {
                let mut acc = 0u64;
                acc += a.feed(&m).map(|x| x.value().get() as u64).unwrap_or(0);
                acc += b.feed(&sm).map(|x| x.value().get() as u64).unwrap_or(0);
                #[cfg(feature = "std")]
                {
                    let r = p.feed(&m);
                    acc += r[0].map(|x| x.value().get() as u64).unwrap_or(0) + r[1].map(|x| x.value().get() as u64).unwrap_or(0);
                    acc += p.poll(chn).map(|x| x.value().get() as u64).unwrap_or(0);
                    let q = p; acc += (q == p) as u64;
                }
                let a2 = a; let b2 = b;
                acc += (a2 == a) as u64 + (b2 == b) as u64;
                if do_reset { a.reset(); b.reset(); #[cfg(feature = "std")] p.reset(); }
                acc
            });
            let _ = chn;
            sink = sink.wrapping_add(x); n_scan += c; calls += 8;
        }
    }
    out.oracle("c18-no-allocation", &format!("scanners:new+feed+poll+reset+copy+eq allocations={}", n_scan), n_scan == 0);
    // self-test of the counter: an allocating region must be seen
    let (v, c) = region(|| vec![sink; 3]);
    out.oracle("c18-allocation-counter-works", &format!("vec-allocation-counted={}", c), c >= 1 && v.len() == 3);
    out.stat("evaluations", calls);
    out.stat("nontrivial", calls);
    out.stat("api_calls_in_counted_regions", calls);
}
