//! Single short messages: every trait method on Raw, Structured and two harness-defined implementors.
use crate::obs::*;
use helgoboss_midi::*;

/// Third-party implementor: only the three byte getters.
#[derive(Clone, Copy, Debug, PartialEq, Eq)]
pub struct Foreign(pub u8, pub U7, pub U7);
impl ShortMessage for Foreign {
    fn status_byte(&self) -> u8 {
        self.0
    }
    fn data_byte_1(&self) -> U7 {
        self.1
    }
    fn data_byte_2(&self) -> U7 {
        self.2
    }
}
impl ShortMessageFactory for Foreign {
    unsafe fn from_bytes_unchecked(b: (u8, U7, U7)) -> Self {
        Foreign(b.0, b.1, b.2)
    }
}

/// Third-party implementor that also overrides `to_bytes` (consistently).
#[derive(Clone, Copy, Debug, PartialEq, Eq)]
pub struct ForeignTB(pub (u8, U7, U7));
impl ShortMessage for ForeignTB {
    fn status_byte(&self) -> u8 {
        (self.0).0
    }
    fn data_byte_1(&self) -> U7 {
        (self.0).1
    }
    fn data_byte_2(&self) -> U7 {
        (self.0).2
    }
    fn to_bytes(&self) -> (u8, U7, U7) {
        self.0
    }
}
impl ShortMessageFactory for ForeignTB {
    unsafe fn from_bytes_unchecked(b: (u8, U7, U7)) -> Self {
        ForeignTB(b)
    }
}

/// Third-party factory that keeps only the low 7 bits of the status byte (it relies on the documented contract
/// of `from_bytes_unchecked`: the status byte it is handed is valid, so its top bit carries no information).
#[derive(Clone, Copy, Debug, PartialEq, Eq)]
pub struct Packed(pub u8, pub U7, pub U7);
impl ShortMessage for Packed {
    fn status_byte(&self) -> u8 {
        0x80 | self.0
    }
    fn data_byte_1(&self) -> U7 {
        self.1
    }
    fn data_byte_2(&self) -> U7 {
        self.2
    }
}
impl ShortMessageFactory for Packed {
    unsafe fn from_bytes_unchecked(b: (u8, U7, U7)) -> Self {
        Packed(b.0 & 0x7f, b.1, b.2)
    }
}

/// Third-party factory whose unchecked constructor insists on the documented contract.
#[derive(Clone, Copy, Debug, PartialEq, Eq)]
pub struct Strict(pub u8, pub U7, pub U7);
impl ShortMessage for Strict {
    fn status_byte(&self) -> u8 {
        self.0
    }
    fn data_byte_1(&self) -> U7 {
        self.1
    }
    fn data_byte_2(&self) -> U7 {
        self.2
    }
}
impl ShortMessageFactory for Strict {
    unsafe fn from_bytes_unchecked(b: (u8, U7, U7)) -> Self {
        assert!(b.0 >= 0x80, "harness: from_bytes_unchecked called with an invalid status byte");
        Strict(b.0, b.1, b.2)
    }
}

pub fn u7(v: u8) -> U7 {
    // the crate-internal tuple field is not reachable; go through the checked conversion
    core::convert::TryFrom::try_from(v).expect("harness: u7 out of range")
}

fn tct_idx(t: TimeCodeType) -> i64 {
    match t {
        TimeCodeType::Fps24 => 0,
        TimeCodeType::Fps25 => 1,
        TimeCodeType::Fps30DropFrame => 2,
        TimeCodeType::Fps30NonDrop => 3,
    }
}

pub fn qf_obs(f: TimeCodeQuarterFrame, o: &mut Obs) {
    use TimeCodeQuarterFrame::*;
    match f {
        FrameCountLsNibble(v) => { o.n(0); o.n(v.get()); o.none() }
        FrameCountMsNibble(v) => { o.n(1); o.n(v.get()); o.none() }
        SecondsCountLsNibble(v) => { o.n(2); o.n(v.get()); o.none() }
        SecondsCountMsNibble(v) => { o.n(3); o.n(v.get()); o.none() }
        MinutesCountLsNibble(v) => { o.n(4); o.n(v.get()); o.none() }
        MinutesCountMsNibble(v) => { o.n(5); o.n(v.get()); o.none() }
        HoursCountLsNibble(v) => { o.n(6); o.n(v.get()); o.none() }
        Last { hours_count_ms_bit, time_code_type } => {
            o.n(7);
            o.b(hours_count_ms_bit);
            o.n(tct_idx(time_code_type));
        }
    }
}

pub fn smsg_obs(m: &StructuredShortMessage, o: &mut Obs) {
    use StructuredShortMessage::*;
    let plain = |o: &mut Obs, i: i64| { o.n(i); o.none(); o.none(); o.none() };
    match *m {
        NoteOff { channel, key_number, velocity } => { o.n(0); o.n(channel.get()); o.n(key_number.get()); o.n(velocity.get()) }
        NoteOn { channel, key_number, velocity } => { o.n(1); o.n(channel.get()); o.n(key_number.get()); o.n(velocity.get()) }
        PolyphonicKeyPressure { channel, key_number, pressure_amount } => { o.n(2); o.n(channel.get()); o.n(key_number.get()); o.n(pressure_amount.get()) }
        ControlChange { channel, controller_number, control_value } => { o.n(3); o.n(channel.get()); o.n(controller_number.get()); o.n(control_value.get()) }
        ProgramChange { channel, program_number } => { o.n(4); o.n(channel.get()); o.n(program_number.get()); o.none() }
        ChannelPressure { channel, pressure_amount } => { o.n(5); o.n(channel.get()); o.n(pressure_amount.get()); o.none() }
        PitchBendChange { channel, pitch_bend_value } => { o.n(6); o.n(channel.get()); o.n(pitch_bend_value.get()); o.none() }
        SystemExclusiveStart => plain(o, 7),
        TimeCodeQuarterFrame(f) => { o.n(8); qf_obs(f, o) }
        SongPositionPointer { position } => { o.n(9); o.n(position.get()); o.none(); o.none() }
        SongSelect { song_number } => { o.n(10); o.n(song_number.get()); o.none(); o.none() }
        TuneRequest => plain(o, 11),
        SystemExclusiveEnd => plain(o, 12),
        TimingClock => plain(o, 13),
        Start => plain(o, 14),
        Continue => plain(o, 15),
        Stop => plain(o, 16),
        ActiveSensing => plain(o, 17),
        SystemReset => plain(o, 18),
        SystemCommonUndefined1 => plain(o, 19),
        SystemCommonUndefined2 => plain(o, 20),
        SystemRealTimeUndefined1 => plain(o, 21),
        SystemRealTimeUndefined2 => plain(o, 22),
    }
}

pub fn bytes_obs(b: (u8, U7, U7), o: &mut Obs) {
    o.n(b.0);
    o.n(b.1.get());
    o.n(b.2.get());
}

fn super_code(s: MessageSuperType) -> i64 {
    match s {
        MessageSuperType::ChannelVoice => 0,
        MessageSuperType::ChannelMode => 1,
        MessageSuperType::SystemCommon => 2,
        MessageSuperType::SystemRealTime => 3,
        MessageSuperType::SystemExclusive => 4,
    }
}
fn fuzzy_code(s: FuzzyMessageSuperType) -> i64 {
    match s {
        FuzzyMessageSuperType::Channel => 0,
        FuzzyMessageSuperType::SystemCommon => 1,
        FuzzyMessageSuperType::SystemRealTime => 2,
        FuzzyMessageSuperType::SystemExclusive => 3,
    }
}
fn main_code(s: MessageMainCategory) -> i64 {
    match s {
        MessageMainCategory::Channel => 0,
        MessageMainCategory::System => 1,
    }
}

/// Every method of trait ShortMessage on one value (same order as `observeMsg` in the Lean driver).
pub fn observe<M: ShortMessage>(m: &M, o: &mut Obs) {
    o.n(m.status_byte());
    o.n(m.data_byte_1().get());
    o.n(m.data_byte_2().get());
    bytes_obs(m.to_bytes(), o);
    let t = m.r#type();
    o.n(u8::from(t));
    o.n(super_code(m.super_type()));
    o.n(main_code(m.main_category()));
    o.opt(m.channel().map(|c| c.get()));
    o.opt(m.key_number().map(|c| c.get()));
    o.opt(m.velocity().map(|c| c.get()));
    o.opt(m.controller_number().map(|c| c.get()));
    o.opt(m.control_value().map(|c| c.get()));
    o.opt(m.program_number().map(|c| c.get()));
    o.opt(m.pressure_amount().map(|c| c.get()));
    o.opt(m.pitch_bend_value().map(|c| c.get()));
    o.b(m.is_note());
    o.b(m.is_note_on());
    o.b(m.is_note_off());
    o.n(fuzzy_code(t.super_type()));
    o.n(main_code(t.super_type().main_category()));
    smsg_obs(&m.to_structured(), o);
    let r: RawShortMessage = m.to_other();
    bytes_obs(r.to_bytes(), o);
    let s: StructuredShortMessage = m.to_other();
    smsg_obs(&s, o);
    // from_other (a separate default method of the factory trait) into a byte-preserving and a foreign target
    let r2 = RawShortMessage::from_other(m);
    bytes_obs(r2.to_bytes(), o);
    let f2 = Foreign::from_other(m);
    bytes_obs((f2.0, f2.1, f2.2), o);
    let s2 = StructuredShortMessage::from_other(m);
    smsg_obs(&s2, o);
}

fn msg_via<F: ShortMessageFactory>(s: u8, d1: u8, d2: u8) -> Obs {
    guarded(|o| match F::from_bytes((s, u7(d1), u7(d2))) {
        Err(_) => o.n(0),
        Ok(m) => {
            o.n(1);
            observe(&m, o);
        }
    })
}

pub fn msg_obs(which: &str, s: u8, d1: u8, d2: u8) -> Obs {
    match which {
        "raw" => msg_via::<RawShortMessage>(s, d1, d2),
        "str" => msg_via::<StructuredShortMessage>(s, d1, d2),
        "frn" => msg_via::<Foreign>(s, d1, d2),
        _ => msg_via::<ForeignTB>(s, d1, d2),
    }
}

pub const IMPLS: [&str; 4] = ["raw", "str", "frn", "ftb"];

fn mask_keeps(mask: &str, i: usize) -> bool {
    match mask {
        "c01" => i < 7 || (23 <= i && i < 44),
        "c02" => 7 <= i && i < 27,
        "c04" => (1 <= i && i < 7) || (10 <= i && i < 18) || (24 <= i && i < 27) || (28 <= i && i < 30) || (31 <= i && i < 34),
        _ => true,
    }
}

pub fn mask_cells(mask: &str, o: Obs) -> Obs {
    if o.0.len() <= 1 || mask == "all" {
        return o;
    }
    Obs(o.0.iter().enumerate().filter(|(i, _)| mask_keeps(mask, *i)).map(|(_, c)| *c).collect())
}

pub fn blk_digest(mask: &str, which: &str, s: u8) -> u64 {
    let mut h = FNV_INIT;
    for d1 in 0..128u8 {
        for d2 in 0..128u8 {
            h = digest(h, &mask_cells(mask, msg_obs(which, s, d1, d2)));
        }
    }
    h
}

/// `TryFrom<(u8, U7, U7)> for RawShortMessage` and `Into<(u8, U7, U7)>` (derive_more::Into)
pub fn rawx_obs(s: u8, d1: u8, d2: u8) -> Obs {
    guarded(|o| match <RawShortMessage as core::convert::TryFrom<(u8, U7, U7)>>::try_from((s, u7(d1), u7(d2))) {
        Err(_) => o.n(0),
        Ok(m) => {
            o.n(1);
            let t: (u8, U7, U7) = m.into();
            bytes_obs(t, o);
        }
    })
    .then(guarded(|o| match RawShortMessage::from_bytes((s, u7(d1), u7(d2))) {
        // the call on the concrete type, as user code writes it
        Err(_) => o.n(0),
        Ok(m) => { o.n(1); bytes_obs(m.to_bytes(), o); o.n(m.r#type() as u8 as i64); }
    }))
    .then(guarded(|o| match Packed::from_bytes((s, u7(d1), u7(d2))) {
        Err(_) => o.n(0),
        Ok(m) => { o.n(1); bytes_obs(m.to_bytes(), o); }
    }))
    .then(guarded(|o| match Strict::from_bytes((s, u7(d1), u7(d2))) {
        Err(_) => o.n(0),
        Ok(m) => { o.n(1); bytes_obs(m.to_bytes(), o); }
    }))
}
pub fn rawxblk_digest(s: u8) -> u64 {
    let mut h = FNV_INIT;
    for d1 in 0..128u8 { for d2 in 0..128u8 { h = digest(h, &rawx_obs(s, d1, d2)); } }
    h
}
