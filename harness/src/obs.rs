//! Observation vectors, digests and panic capture (shared conventions with lean/Midi/Driver/Obs.lean).
use std::cell::RefCell;
use std::fmt::Write as _;
use std::panic::{catch_unwind, AssertUnwindSafe};

pub type Cell = i64;
pub const NONE: Cell = -1;

#[derive(Default, Clone)]
pub struct Obs(pub Vec<Cell>);

impl Obs {
    pub fn new() -> Obs {
        Obs(Vec::with_capacity(48))
    }
    pub fn n<T: Into<i128>>(&mut self, v: T) {
        self.0.push(v.into() as i64);
    }
    pub fn b(&mut self, v: bool) {
        self.0.push(v as i64);
    }
    pub fn opt<T: Into<i128>>(&mut self, v: Option<T>) {
        self.0.push(match v {
            Some(x) => x.into() as i64,
            None => NONE,
        });
    }
    /// this observation followed by another one (each part may have collapsed to a panic cell on its own)
    pub fn then(mut self, other: Obs) -> Obs {
        self.0.extend(other.0);
        self
    }
    pub fn none(&mut self) {
        self.0.push(NONE);
    }
    pub fn show(&self) -> String {
        let mut s = String::new();
        for (i, c) in self.0.iter().enumerate() {
            if i > 0 {
                s.push(' ');
            }
            if *c == NONE {
                s.push('-');
            } else if *c <= -100 {
                let _ = write!(s, "P{}", -c - 100);
            } else {
                let _ = write!(s, "{}", c);
            }
        }
        s
    }
}

pub const FNV_INIT: u64 = 0xcbf29ce484222325;
pub fn digest(mut h: u64, o: &Obs) -> u64 {
    for c in &o.0 {
        // in a digest every panic is the same cell: which site / message it was is compared line by line only
        // (a reworded assertion must not use up the localisation budget of a block run)
        let c = if *c <= -100 { -100 } else { *c };
        h = (h ^ (c as u64)).wrapping_mul(0x100000001b3);
    }
    h.wrapping_mul(31).wrapping_add(7)
}

thread_local! {
    static LAST_PANIC: RefCell<String> = RefCell::new(String::new());
}

pub fn install_panic_hook() {
    std::panic::set_hook(Box::new(|info| {
        let msg = if let Some(s) = info.payload().downcast_ref::<&str>() {
            s.to_string()
        } else if let Some(s) = info.payload().downcast_ref::<String>() {
            s.clone()
        } else {
            "?".to_string()
        };
        LAST_PANIC.with(|p| *p.borrow_mut() = msg);
    }));
}

/// Panic site codes (lean/Midi/Model/Prim.lean `Panic.code`).
pub fn panic_code(msg: &str) -> i64 {
    if msg.contains("TryFromGreaterError") || msg.contains("FromBytesError") {
        // `expect` on a conversion result in test_util.rs
        10
    } else if msg.starts_with("invalid status byte detected") {
        1
    } else if msg.starts_with("invalid status byte") {
        2
    } else if msg.starts_with("unknown time code type") {
        3
    } else if msg.contains("entered unreachable code") {
        4
    } else if msg.contains("high_nibble") || msg.contains("low_nibble") {
        5
    } else if msg.contains("not a valid") && msg.contains("TryFromGreaterError") {
        10
    } else if msg.contains("not a valid") {
        6
    } else if msg.contains("msb_controller_number") {
        7
    } else if msg.starts_with("impossible") {
        8
    } else if msg.contains("left == right") {
        9
    } else if msg.contains("index out of bounds") {
        11
    } else if msg.contains("attempt to add with overflow") {
        12
    } else {
        99
    }
}

pub fn last_panic_message() -> String {
    LAST_PANIC.with(|p| p.borrow().clone())
}

/// Runs `f`; a panic collapses the whole observation to one panic cell.
pub fn guarded<F: FnOnce(&mut Obs)>(f: F) -> Obs {
    let mut o = Obs::new();
    let r = catch_unwind(AssertUnwindSafe(|| f(&mut o)));
    match r {
        Ok(()) => o,
        Err(_) => {
            let code = panic_code(&last_panic_message());
            Obs(vec![-(100 + code)])
        }
    }
}
