//! Correspondence harness: calls the real helgoboss-midi crate in-process and prints a transcript
//! `<request> | <cells>` that the Lean driver replays against the model and the executable specification.
mod alloc_probe;
mod ctors;
mod gen_conv;
mod msgs;
mod nums;
mod obs;
mod oracles;
#[cfg(feature = "std")]
mod clock;
#[cfg(feature = "std")]
mod poll;
mod scan;
#[cfg(feature = "with_serde")]
mod serde_probe;

use obs::Obs;

#[global_allocator]
static GLOBAL: alloc_probe::Counting = alloc_probe::Counting;
use std::io::{BufRead, BufWriter, Write};

/// Mutable state a request can refer to (scanner tables etc.).
#[derive(Default)]
pub struct State {
    pub tables: scan::Tables,
    #[cfg(feature = "std")]
    pub ptables: poll::PTables,
}

/// Evaluate one request on the real crate.
pub fn eval_request(st: &mut State, req: &str) -> Option<Obs> {
    let w: Vec<&str> = req.split_whitespace().collect();
    match w.as_slice() {
        ["cc", rest @ ..] => scan::eval_cc(&mut st.tables, rest),
        ["pn", rest @ ..] => scan::eval_pn(&mut st.tables, rest),
        #[cfg(feature = "std")]
        ["pp", rest @ ..] => poll::eval_pp(&mut st.ptables, rest),
        #[cfg(feature = "with_serde")]
        ["de", rest @ ..] => serde_probe::eval_de(rest),
        ["cnpred", n] => scan::cnpred_obs(n.parse().ok()?),
        ["enc14", which, c, n, v] => Some(scan::enc14_obs(which, c.parse().ok()?, n.parse().ok()?, v.parse().ok()?)),
        ["encpn", which, i, c, n, v, order] => Some(scan::encpn_obs(which, i.parse().ok()?, c.parse().ok()?, n.parse().ok()?, v.parse().ok()?, *order == "lsb")),
        ["msg", which, s, d1, d2] => {
            Some(msgs::msg_obs(which, s.parse().ok()?, d1.parse().ok()?, d2.parse().ok()?))
        }
        ["rawx", s, d1, d2] => Some(msgs::rawx_obs(s.parse().ok()?, d1.parse().ok()?, d2.parse().ok()?)),
        ["rawxblk", s] => {
            let mut o = Obs::new();
            o.0.push(msgs::rawxblk_digest(s.parse().ok()?) as i64);
            Some(o)
        }
        ["blk", mask, which, s] => {
            let mut o = Obs::new();
            o.0.push(msgs::blk_digest(mask, which, s.parse().ok()?) as i64);
            Some(o)
        }
        ["mk", which, k, a, b, c] => ctors::mk_obs(which, k, a.parse().ok()?, b.parse().ok()?, c.parse().ok()?),
        ["mkblk", which, k, a] => {
            let mut o = Obs::new();
            o.0.push(ctors::mkblk_digest(which, k, a.parse().ok()?)? as i64);
            Some(o)
        }
        ["gen", which, fun, t, c, a, b] => ctors::gen_obs(which, fun, t.parse().ok()?, c.parse().ok()?, a.parse().ok()?, b.parse().ok()?),
        ["genblk", which, fun, t, c] => {
            let mut o = Obs::new();
            o.0.push(ctors::genblk_digest(which, fun, t.parse().ok()?, c.parse().ok()?)? as i64);
            Some(o)
        }
        ["conv", row, x] => nums::conv_obs(row.parse().ok()?, x),
        ["new", _cfg, t, v] => nums::new_obs(t.parse().ok()?, v.parse().ok()?),
        ["parse", t, h] => nums::parse_obs(t.parse().ok()?, h),
        ["display", t, v] => nums::display_obs(t.parse().ok()?, v.parse().ok()?, 0),
        ["display", t, v, k] => nums::display_obs(t.parse().ok()?, v.parse().ok()?, k.parse().ok()?),
        ["ord", t, a, b] => nums::ord_obs(t.parse().ok()?, a.parse().ok()?, b.parse().ok()?),
        ["consts", t] => nums::consts_obs(t.parse().ok()?),
        ["cnconst", i] => nums::cnconst_obs(i.parse().ok()?),
        ["ntop", t, op, a, b] => nums::ntop_obs(t.parse().ok()?, op, a.parse().ok()?, b.parse().ok()?),
        ["tu2", fun, x, y, z] => ctors::tu2_obs(fun, x.parse().ok()?, y.parse().ok()?, z.parse().ok()?),
        ["tu", fun, x, y, z] => ctors::tu_obs(fun, x.parse().ok()?, y.parse().ok()?, z.parse().ok()?),
        _ => None,
    }
}

fn show_cells(req: &str, o: &Obs) -> String {
    if req.starts_with("blk ") || req.starts_with("mkblk ") || req.starts_with("genblk ") || req.starts_with("rawxblk ") {
        // digests are printed as unsigned 64-bit numbers
        format!("{}", o.0[0] as u64)
    } else {
        o.show()
    }
}

pub struct Out<'a> {
    pub st_dummy: (),
    /// hashes of the distinct non-trivial lines (request + cells) printed so far; a line is non-trivial when its cells
    /// are neither all `-` nor the bare marker `0`
    pub distinct: std::collections::HashSet<u64>,
    w: BufWriter<std::io::StdoutLock<'a>>,
    pub st: State,
    pub evaluations: u64,
}

impl<'a> Out<'a> {
    fn note(&mut self, req: &str, cells: &str) {
        use std::hash::{Hash, Hasher};
        if cells != "0" && cells.split(' ').any(|c| c != "-") {
            let mut h = std::collections::hash_map::DefaultHasher::new();
            req.hash(&mut h);
            cells.hash(&mut h);
            self.distinct.insert(h.finish());
        }
    }
    pub fn req(&mut self, req: &str) {
        match eval_request(&mut self.st, req) {
            Some(o) => { let c = show_cells(req, &o); self.note(req, &c); writeln!(self.w, "{} | {}", req, c).unwrap() }
            None => {
                eprintln!("harness: cannot evaluate request `{}`", req);
                std::process::exit(3);
            }
        }
        self.evaluations += 1;
    }
    /// like `req`, returns the printed cells
    pub fn req_ret(&mut self, req: &str) -> String {
        match eval_request(&mut self.st, req) {
            Some(o) => {
                let c = show_cells(req, &o);
                self.note(req, &c);
                writeln!(self.w, "{} | {}", req, c).unwrap();
                self.evaluations += 1;
                c
            }
            None => {
                eprintln!("harness: cannot evaluate request `{}`", req);
                std::process::exit(3);
            }
        }
    }
    /// a verdict computed here on the real code (must be 1); `detail` must not contain " | "
    pub fn oracle(&mut self, name: &str, detail: &str, ok: bool) {
        writeln!(self.w, "oracle {} {} | {}", name, detail, ok as i64).unwrap();
    }
    /// a line computed by a generator itself (request and implementation cells)
    pub fn raw(&mut self, line: &str) {
        writeln!(self.w, "{}", line).unwrap();
    }
    pub fn stat(&mut self, k: &str, v: u64) {
        writeln!(self.w, "#STAT {}={}", k, v).unwrap();
    }
}

/// state bound of the thorough explorations; an escalated quick run (second pass of ./check) keeps it moderate so
/// that a change which multiplies the state space cannot turn the search into hours
fn deep_states(n: usize) -> usize {
    if std::env::var("VERIF_ESCALATED").is_ok() { n.min(20_000) } else { n }
}

fn main() {
    obs::install_panic_hook();
    let args: Vec<String> = std::env::args().collect();
    let stdout = std::io::stdout();
    let mut out = Out { st_dummy: (), distinct: std::collections::HashSet::new(), w: BufWriter::with_capacity(1 << 20, stdout.lock()), st: State::default(), evaluations: 0 };
    let sub = args.get(1).map(|s| s.as_str()).unwrap_or("");
    let tier = std::env::var("VERIF_TIER").unwrap_or_else(|_| "quick".to_string());
    let tier = tier.as_str();
    let seed: u64 = std::env::var("VERIF_SEED").ok().and_then(|s| s.parse().ok()).unwrap_or(1);
    let strict = args.iter().any(|a| a == "--strict-reset");
    let limit: Option<usize> = args.iter().position(|a| a == "--limit").and_then(|i| args.get(i + 1)).and_then(|s| s.parse().ok());
    match sub {
        // evaluate requests read from stdin (replays, corpus)
        "eval" => {
            let stdin = std::io::stdin();
            for line in stdin.lock().lines() {
                let line = line.unwrap();
                let req = line.split(" | ").next().unwrap().trim().to_string();
                if req.is_empty() || req.starts_with('#') {
                    continue;
                }
                if let Some(rest) = req.strip_prefix("oracle ") {
                    // re-execute the oracle from its parameters when it is replayable; otherwise keep the recorded verdict
                    let (name, detail) = rest.split_once(' ').unwrap_or((rest, ""));
                    match oracles::oracle_eval(name, detail) {
                        Some(v) => out.raw(&format!("{} | {}", req, v as i64)),
                        None => out.raw(&format!("{} | {}", req, line.split(" | ").nth(1).unwrap_or("1").trim())),
                    }
                    continue;
                }
                out.req(&req);
            }
        }
        // evaluate the requests given as arguments
        "eval-args" => {
            // stateless requests only (each is evaluated twice)
            for r in &args[2..] {
                if !(r.starts_with("cc ") || r.starts_with("pn ") || r.starts_with("pp ")) && eval_request(&mut out.st, r).is_some() {
                    out.req(r);
                }
            }
        }
        // expand one block request into its lines: `expand blk <mask> <impl> <s>` | `expand mkblk ..` | `expand genblk ..`
        "expand" => {
            let w: Vec<&str> = args[2..].iter().map(|s| s.as_str()).collect();
            match w.as_slice() {
                ["blk", _mask, which, s] => {
                    for d1 in 0..128 { for d2 in 0..128 { out.req(&format!("msg {} {} {} {}", which, s, d1, d2)); } }
                }
                ["rawxblk", s] => {
                    for d1 in 0..128 { for d2 in 0..128 { out.req(&format!("rawx {} {} {}", s, d1, d2)); } }
                }
                ["mkblk", which, k, a] => {
                    let a: u32 = a.parse().unwrap();
                    let (nb, nc) = ctors::blk_ranges(k, a);
                    for b in 0..nb { for c in 0..nc {
                        let (x, y, z) = ctors::blk_args(k, a, b, c);
                        out.req(&format!("mk {} {} {} {} {}", which, k, x, y, z));
                    } }
                }
                ["genblk", which, fun, t, c] => {
                    let tt: u32 = t.parse().unwrap();
                    let cat = match *fun { "channel_message" => 0, "system_common_message" => 1, _ => 2 };
                    if ctors::category(tt) == cat && *fun != "system_real_time_message" {
                        for a in 0..128 { for b in 0..128 { out.req(&format!("gen {} {} {} {} {} {}", which, fun, t, c, a, b)); } }
                    } else {
                        out.req(&format!("gen {} {} {} {} 0 0", which, fun, t, c));
                        out.req(&format!("gen {} {} {} {} 127 127", which, fun, t, c));
                    }
                }
                _ => { eprintln!("cannot expand {:?}", w); std::process::exit(2); }
            }
        }
        // one digest per (implementation, status byte) over all 128 x 128 data bytes
        "msg-blocks" => {
            let mask = args.get(2).map(|s| s.as_str()).unwrap_or("all").to_string();
            for which in msgs::IMPLS {
                for s in 0..=255u8 {
                    out.req(&format!("blk {} {} {}", mask, which, s));
                }
            }
            if mask == "c01" || mask == "all" {
                // the two conversions that exist for RawShortMessage only: TryFrom<(u8,U7,U7)> and Into<(u8,U7,U7)>
                for s in 0..=255u8 { out.req(&format!("rawxblk {}", s)); }
            }
            out.stat("evaluations", 4 * 256 * 128 * 128);
            out.stat("nontrivial", 4 * 128 * 128 * 128);
        }
        // every valid message of one implementation, line by line (thorough tier)
        "msg-all-lines" => {
            let which = &args[2];
            let mut n = 0u64;
            for s in 128..=255u8 { for d1 in 0..128u8 { for d2 in 0..128u8 {
                out.req(&format!("msg {} {} {} {}", which, s, d1, d2)); n += 1;
            } } }
            out.stat("evaluations", n); out.stat("nontrivial", n);
        }
        // all 16384 lines of one block (to localise a digest mismatch)
        "msg-lines" => {
            let which = &args[2];
            let s: u8 = args[3].parse().unwrap();
            let mut n = 0;
            'outer: for d1 in 0..128u8 {
                for d2 in 0..128u8 {
                    if let Some(l) = limit {
                        if n >= l {
                            break 'outer;
                        }
                    }
                    // a few spread-out samples when limited
                    let (a, b) = if limit.is_some() { (((n * 37 + 5) % 128) as u8, ((n * 91 + 64) % 128) as u8) } else { (d1, d2) };
                    out.req(&format!("msg {} {} {} {}", which, s, a, b));
                    n += 1;
                }
            }
        }
        // every conversion-table row over its source values
        "conv-lines" => {
            let mut rng = nums::Rng(seed ^ 0xC0DE);
            let mut n = 0u64; let mut wide = 0u64;
            for row in 0..gen_conv::N_ROWS {
                let (_k, src, _dst) = gen_conv::row_info(row);
                for x in nums::candidates(src, &mut rng, if tier == "thorough" { 4000 } else { 200 }) {
                    let req = format!("conv {} {}", row, x);
                    if eval_request(&mut out.st, &req).is_some() { out.req(&req); n += 1; if x.len() > 6 { wide += 1; } }
                }
            }
            out.stat("evaluations", n); out.stat("nontrivial", n); out.stat("wide_source_values", wide);
        }
        "new-lines" => {
            let cfg = args.get(2).map(|s| s.as_str()).unwrap_or("std");
            let mut n = 0u64; let mut over = 0u64;
            for t in 0..gen_conv::N_NEWTYPES {
                let (_, repr, mx) = gen_conv::newtype_info(t);
                let top: u64 = if repr == "u8" { 256 } else { 65536 };
                for v in 0..top { out.req(&format!("new {} {} {}", cfg, t, v)); n += 1; if v > mx { over += 1; } }
            }
            out.stat("evaluations", n); out.stat("nontrivial", n); out.stat("out_of_range_arguments", over);
        }
        // operator impls on the restricted integers (none unless the source grew one): every pair of boundary values
        "ntop-lines" => {
            let mut n = 0u64;
            for (t, op) in gen_conv::NT_OPS {
                let (_, _, mx) = gen_conv::newtype_info(*t);
                let vals = [0u64, 1, 2, mx / 2, mx / 2 + 1, mx - 1, mx];
                for a in vals { for b in vals { out.req(&format!("ntop {} {} {} {}", t, op, a, b)); n += 1; } }
            }
            out.stat("evaluations", n); out.stat("nontrivial", n);
        }
        "num-lines" => {
            let mut n = 0u64;
            let strings = nums::short_strings(if tier == "thorough" { 5 } else { 4 });
            for t in 0..gen_conv::N_NEWTYPES {
                let (_, _, mx) = gen_conv::newtype_info(t);
                for s in &strings { out.req(&format!("parse {} {}", t, nums::hex(s))); n += 1; }
                for s in nums::boundary_numerals(mx) { out.req(&format!("parse {} {}", t, nums::hex(&s))); n += 1; }
                for v in 0..=mx { for k in 0..nums::FMT_SPECS { out.req(&format!("display {} {} {}", t, v, k)); n += 1; } }
                out.req(&format!("consts {}", t)); n += 1;
                if mx <= 127 {
                    for a in 0..=mx { for b in 0..=mx { out.req(&format!("ord {} {} {}", t, a, b)); n += 1; } }
                } else {
                    let mut rng = nums::Rng(seed ^ 0x0FD);
                    for a in [0u64, 1, 127, 128, 255, 256, 8191, 8192, mx - 1, mx] { for b in [0u64, 1, 127, 128, 255, 256, 8191, 8192, mx - 1, mx] {
                        out.req(&format!("ord {} {} {}", t, a, b)); n += 1; } }
                    for _ in 0..(if tier == "thorough" { 2_000_000 } else { 50_000 }) {
                        let a = rng.below(mx + 1); let b = if rng.below(8) == 0 { a } else { rng.below(mx + 1) };
                        out.req(&format!("ord {} {} {}", t, a, b)); n += 1;
                    }
                }
            }
            for i in 0..gen_conv::controller_constants().len() { out.req(&format!("cnconst {}", i)); n += 1; }
            out.stat("evaluations", n); out.stat("nontrivial", n);
        }
        // encoders
        "enc14-lines" => {
            let impls: &[&str] = &["raw", "str", "frn"];
            let mut n = 0u64;
            let mut rng = nums::Rng(seed ^ 0xE14);
            for which in impls {
                for c in 0..16u32 { for cnn in 0..128u32 {
                    let vals: Vec<u32> = if cnn < 32 {
                        // the third-party target (trait defaults only) gets a coarser sweep in the quick tier
                        let step = if tier == "thorough" { 1 } else if *which == "frn" { 1021 } else { 61 };
                        (0..16384u32).step_by(step).chain([127, 128, 8191, 8192, 16383]).collect()
                    } else { vec![0, 16383] };
                    for v in vals { out.req(&format!("enc14 {} {} {} {}", which, c, cnn, v)); n += 1; }
                    if cnn < 32 { for _ in 0..8 { out.req(&format!("enc14 {} {} {} {}", which, c, cnn, rng.below(16384))); n += 1; } }
                } }
            }
            out.stat("evaluations", n); out.stat("nontrivial", n);
        }
        "encpn-lines" => {
            let impls: &[&str] = &["raw", "str", "frn"];
            let mut n = 0u64;
            let mut rng = nums::Rng(seed ^ 0xE9);
            for which in impls { for i in 0..8u32 { for order in ["msb", "lsb"] {
                let vmax: u32 = if i == 1 || i == 5 { 16384 } else { 128 };
                // the third-party target (trait defaults only) gets coarser sweeps in the quick tier
                let coarse = tier != "thorough" && *which == "frn";
                for c in 0..16u32 { out.req(&format!("encpn {} {} {} {} {} {}", which, i, c, 421, vmax - 1, order)); n += 1; }
                for num in (0..16384u32).step_by(if coarse { 37 } else { 1 }) { out.req(&format!("encpn {} {} {} {} {} {}", which, i, 5, num, (num * 7 + 3) % vmax, order)); n += 1; }
                for v in (0..vmax).step_by(if coarse { 13 } else { 1 }) { out.req(&format!("encpn {} {} {} {} {} {}", which, i, 15, (v * 131 + 16383) % 16384, v, order)); n += 1; }
                let samples = if tier == "thorough" { 200_000 } else if coarse { 500 } else { 4_000 };
                for _ in 0..samples {
                    out.req(&format!("encpn {} {} {} {} {} {}", which, i, rng.below(16), rng.below(16384), rng.below(vmax as u64), order)); n += 1;
                }
            } } }
            out.stat("evaluations", n); out.stat("nontrivial", n);
        }
        // scanners: product exploration to a fixpoint and seeded random histories
        "cc-explore" => { let chans: Vec<u32> = args[2..].iter().filter_map(|s| s.parse().ok()).collect(); scan::explore(&mut out, "cc", &chans, if tier == "thorough" { deep_states(200_000) } else { 3_000 }, strict); }
        "pn-explore" => { let chans: Vec<u32> = args[2..].iter().filter_map(|s| s.parse().ok()).collect(); scan::explore(&mut out, "pn", &chans, if tier == "thorough" { deep_states(200_000) } else { 3_000 }, strict); }
        "cc-random" => { let (h, l) = if tier == "thorough" { (40_000, 80) } else { (5_000, 60) }; scan::random_histories(&mut out, "cc", seed, h, l, strict); }
        "pn-random" => { let (h, l) = if tier == "thorough" { (40_000, 80) } else { (5_000, 60) }; scan::random_histories(&mut out, "pn", seed, h, l, strict); }
        #[cfg(feature = "std")]
        "pp-explore" => {
            let timeout: u64 = args[2].parse().unwrap();
            let chans: Vec<u32> = args[3..].iter().filter_map(|s| s.parse().ok()).collect();
            let full = args.iter().any(|a| a == "--full-transparency");
            poll::explore(&mut out, &chans, timeout, if tier == "thorough" { deep_states(100_000) } else { 5_000 }, strict, full);
        }
        #[cfg(feature = "std")]
        "pp-random" => { let (h, l) = if tier == "thorough" { (60_000, 80) } else { (6_000, 60) }; poll::random_histories(&mut out, seed, h, l, strict); }
        #[cfg(feature = "std")]
        "pp-realclock" => { let (h, l) = if tier == "thorough" { (3_000, 60) } else { (300, 50) }; poll::realclock_histories(&mut out, seed, h, l); }
        #[cfg(feature = "std")]
        "pp-sentences" => { let (u, r, l) = if tier == "thorough" { (5, 4, 60_000) } else { (3, 4, 3_000) }; poll::sentences(&mut out, seed, u, r, l); }
        #[cfg(feature = "std")]
        "pp-directed" => poll::directed(&mut out, seed, if tier == "thorough" { 600_000 } else { 30_000 }),
        #[cfg(feature = "std")]
        "pp-roundtrip" => poll::roundtrips(&mut out, seed, if tier == "thorough" { 1_000_000 } else { 60_000 }),
        #[cfg(feature = "std")]
        "pp-isolation" => {
            // every ordered pair of channels gets its own two-channel interleavings, then all 16 channels together
            let (h, l) = if tier == "thorough" { (40, 120) } else { (4, 60) };
            for a in 0..16u32 { for b in 0..16u32 { if a != b { poll::isolation(&mut out, seed ^ ((a * 16 + b) as u64), h, l, Some((a, b))); } } }
            poll::isolation(&mut out, seed, if tier == "thorough" { 20_000 } else { 1_000 }, 80, None);
        }
        "cc-isolation" | "pn-isolation" => {
            let kind = &sub[..2];
            let (h, l) = if tier == "thorough" { (40, 120) } else { (4, 60) };
            for a in 0..16u32 { for b in 0..16u32 { if a != b { scan::isolation(&mut out, kind, seed ^ ((a * 16 + b) as u64), h, l, Some((a, b))); } } }
            scan::isolation(&mut out, kind, seed, if tier == "thorough" { 20_000 } else { 1_000 }, 80, None);
        }
        "cc-transparent" => scan::transparent(&mut out, "cc", &[if tier == "thorough" { 15 } else { 0 }]),
        "pn-transparent" => scan::transparent(&mut out, "pn", &[if tier == "thorough" { 15 } else { 0 }]),
        "cnpred-lines" => {
            for n in 0..128 { out.req(&format!("cnpred {}", n)); }
            for i in 0..gen_conv::controller_constants().len() { out.req(&format!("cnconst {}", i)); }
            out.stat("evaluations", 128 + gen_conv::controller_constants().len() as u64);
            out.stat("nontrivial", 128);
        }
        #[cfg(feature = "with_serde")]
        "serde-lines" => serde_probe::lines(&mut out, seed, tier),
        "alloc-probe" => alloc_probe::probe(&mut out, seed, tier),
        "cc-roundtrip" => scan::roundtrips(&mut out, "cc", seed, if tier == "thorough" { 2_000_000 } else { 100_000 }),
        "pn-roundtrip" => scan::roundtrips(&mut out, "pn", seed, if tier == "thorough" { 2_000_000 } else { 100_000 }),
        // factory constructors: named (block digests), generic, test_util shorthands
        "ctor-blocks" => {
            let impls: &[&str] = if tier == "thorough" { &msgs::IMPLS } else { &["raw", "str"] };
            let mut evals: u64 = 0;
            for which in impls {
                for k in ctors::CTORS {
                    let blocks: u32 = match k {
                        "note_off" | "note_on" | "polyphonic_key_pressure" | "control_change" | "program_change"
                        | "channel_pressure" | "pitch_bend_change" => 16,
                        "time_code_quarter_frame" => 8,
                        _ => 1,
                    };
                    for a in 0..blocks {
                        out.req(&format!("mkblk {} {} {}", which, k, a));
                        let (nb, nc) = ctors::blk_ranges(k, a);
                        evals += (nb * nc) as u64;
                    }
                }
                for fun in ["channel_message", "system_common_message", "system_real_time_message"] {
                    for t in (128u32..240).step_by(16).chain(240..256) {
                        let chans = if fun == "channel_message" { 16 } else { 1 };
                        for c in 0..chans {
                            out.req(&format!("genblk {} {} {} {}", which, fun, t, c));
                            evals += if ctors::category(t) == (match fun { "channel_message" => 0, "system_common_message" => 1, _ => 2 }) && fun != "system_real_time_message" { 16384 } else { 2 };
                        }
                    }
                }
            }
            out.stat("evaluations", evals);
            out.stat("nontrivial", evals);
        }
        // C04: every value read back from a constructed message is within the range of its type
        "ctor-range" => {
            let impls: &[&str] = if tier == "thorough" { &msgs::IMPLS } else { &["raw", "str"] };
            ctors::range_sweep(&mut out, impls);
        }
        "tu-lines" => {
            let mut n = 0u64;
            let edge8 = [0u32, 15, 16, 127, 128, 255];
            for fun in ["note_on", "note_off", "control_change", "polyphonic_key_pressure", "short"] {
                for x in 0..256u32 {
                    for (y, z) in [(0u32, 0u32), (127, 127), (128, 0), (0, 128), (255, 255)] {
                        let (p, q, r) = if fun == "short" { (x, y, z) } else { (x, y, z) };
                        out.req(&format!("tu {} {} {} {}", fun, p, q, r)); n += 1;
                    }
                }
                for y in 0..256u32 {
                    for x in edge8 {
                        out.req(&format!("tu {} {} {} {}", fun, x, y, 64)); n += 1;
                        out.req(&format!("tu {} {} {} {}", fun, x, 64, y)); n += 1;
                    }
                }
            }
            for fun in ["program_change", "channel_pressure"] {
                for x in 0..256u32 { for y in 0..256u32 { out.req(&format!("tu {} {} {} 0", fun, x, y)); n += 1; } }
            }
            for x in [0u32, 1, 15, 16, 255] {
                for y in (0..65536u32).step_by(if tier == "thorough" { 1 } else { 7 }).chain([16383, 16384, 65535]) {
                    out.req(&format!("tu pitch_bend_change {} {} 0", x, y)); n += 1;
                }
            }
            for x in 0..65536u32 { out.req(&format!("tu song_position_pointer {} 0 0", x)); n += 1; }
            for x in 0..256u32 { out.req(&format!("tu song_select {} 0 0", x)); n += 1; }
            // helpers that return integers, 14-bit CC and (N)RPN messages
            for f in ["u4", "u7", "channel", "key_number", "controller_number"] { for x in 0..256u32 { out.req(&format!("tu2 {} {} 0 0", f, x)); n += 1; } }
            for x in 0..65536u32 { out.req(&format!("tu2 u14 {} 0 0", x)); n += 1; }
            for x in [0u32, 15, 16, 255] { for y in 0..256u32 { for z in [0u32, 16383, 16384, 65535] {
                out.req(&format!("tu2 control_change_14_bit {} {} {}", x, y, z)); n += 1; } } }
            for f in ["nrpn", "rpn"] { for x in [0u32, 15, 16] { for y in [0u32, 16383, 16384, 65535] { for z in 0..256u32 {
                out.req(&format!("tu2 {} {} {} {}", f, x, y, z)); n += 1; } } } }
            for f in ["nrpn_14_bit", "rpn_14_bit"] { for x in [0u32, 15, 16] { for y in [0u32, 16383, 16384] { for z in (0..65536u32).step_by(127).chain([16383, 16384]) {
                out.req(&format!("tu2 {} {} {} {}", f, x, y, z)); n += 1; } } } }
            out.stat("evaluations", n);
            out.stat("nontrivial", n);
        }
        _ => {
            eprintln!("usage: corr <eval|msg-blocks|msg-lines impl status [--limit n]>");
            std::process::exit(2);
        }
    }
    let d = out.distinct.len() as u64;
    out.stat("distinct_nontrivial_lines", d);
    out.w.flush().unwrap();
}
