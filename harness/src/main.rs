//! Correspondence harness: calls the real helgoboss-midi crate in-process and prints a transcript
//! `<request> | <cells>` that the Lean driver replays against the model and the executable specification.
mod msgs;
mod obs;

use obs::Obs;
use std::io::{BufRead, BufWriter, Write};

/// Mutable state a request can refer to (scanner tables etc.).
#[derive(Default)]
pub struct State {}

/// Evaluate one request on the real crate.
pub fn eval_request(st: &mut State, req: &str) -> Option<Obs> {
    let w: Vec<&str> = req.split_whitespace().collect();
    let _ = st;
    match w.as_slice() {
        ["msg", which, s, d1, d2] => {
            Some(msgs::msg_obs(which, s.parse().ok()?, d1.parse().ok()?, d2.parse().ok()?))
        }
        ["blk", mask, which, s] => {
            let mut o = Obs::new();
            o.0.push(msgs::blk_digest(mask, which, s.parse().ok()?) as i64);
            Some(o)
        }
        _ => None,
    }
}

fn show_cells(req: &str, o: &Obs) -> String {
    if req.starts_with("blk ") {
        // digests are printed as unsigned 64-bit numbers
        format!("{}", o.0[0] as u64)
    } else {
        o.show()
    }
}

pub struct Out<'a> {
    w: BufWriter<std::io::StdoutLock<'a>>,
    st: State,
    pub evaluations: u64,
}

impl<'a> Out<'a> {
    pub fn req(&mut self, req: &str) {
        match eval_request(&mut self.st, req) {
            Some(o) => writeln!(self.w, "{} | {}", req, show_cells(req, &o)).unwrap(),
            None => {
                eprintln!("harness: cannot evaluate request `{}`", req);
                std::process::exit(3);
            }
        }
        self.evaluations += 1;
    }
    pub fn stat(&mut self, k: &str, v: u64) {
        writeln!(self.w, "#STAT {}={}", k, v).unwrap();
    }
}

fn main() {
    obs::install_panic_hook();
    let args: Vec<String> = std::env::args().collect();
    let stdout = std::io::stdout();
    let mut out = Out { w: BufWriter::with_capacity(1 << 20, stdout.lock()), st: State::default(), evaluations: 0 };
    let sub = args.get(1).map(|s| s.as_str()).unwrap_or("");
    let limit: Option<usize> = args.iter().position(|a| a == "--limit").and_then(|i| args.get(i + 1)).and_then(|s| s.parse().ok());
    match sub {
        // evaluate requests read from stdin (replays, corpus)
        "eval" => {
            let stdin = std::io::stdin();
            for line in stdin.lock().lines() {
                let line = line.unwrap();
                let req = line.split(" | ").next().unwrap().trim().to_string();
                if req.is_empty() || req.starts_with('#') {
                    continue;
                }
                out.req(&req);
            }
        }
        // one digest per (implementation, status byte) over all 128 x 128 data bytes
        "msg-blocks" => {
            let mask = args.get(2).map(|s| s.as_str()).unwrap_or("all").to_string();
            for which in msgs::IMPLS {
                for s in 0..=255u8 {
                    out.req(&format!("blk {} {} {}", mask, which, s));
                }
            }
            out.stat("evaluations", 4 * 256 * 128 * 128);
            out.stat("nontrivial", 4 * 128 * 128 * 128);
        }
        // all 16384 lines of one block (to localise a digest mismatch)
        "msg-lines" => {
            let which = &args[2];
            let s: u8 = args[3].parse().unwrap();
            let mut n = 0;
            'outer: for d1 in 0..128u8 {
                for d2 in 0..128u8 {
                    if let Some(l) = limit {
                        if n >= l {
                            break 'outer;
                        }
                    }
                    // a few spread-out samples when limited
                    let (a, b) = if limit.is_some() { (((n * 37 + 5) % 128) as u8, ((n * 91 + 64) % 128) as u8) } else { (d1, d2) };
                    out.req(&format!("msg {} {} {} {}", which, s, a, b));
                    n += 1;
                }
            }
        }
        _ => {
            eprintln!("usage: corr <eval|msg-blocks|msg-lines impl status [--limit n]>");
            std::process::exit(2);
        }
    }
    out.w.flush().unwrap();
}
