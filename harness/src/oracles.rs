//! Re-executable oracles: the verdicts the generators compute on the real code as functions of the parameters
//! written in the oracle line, so that `corr eval` can replay a witness `oracle <name> <k=v ...>`.
//! (Replays are deterministic variants of the generated scenarios: no random time steps between feeds.)
use crate::scan::pn_ctor;
use core::convert::TryFrom;
use helgoboss_midi::*;
use std::collections::HashMap;

fn params(detail: &str) -> HashMap<String, String> {
    detail.split_whitespace().filter_map(|kv| kv.split_once('=')).map(|(k, v)| (k.to_string(), v.to_string())).collect()
}
fn num<T: std::str::FromStr>(m: &HashMap<String, String>, k: &str) -> Option<T> { m.get(k)?.parse().ok() }
fn prior(m: &HashMap<String, String>) -> Vec<RawShortMessage> {
    let mut v = Vec::new();
    if let Some(p) = m.get("prior") {
        for t in p.split(',') {
            let f: Vec<u8> = t.split('.').filter_map(|x| x.parse().ok()).collect();
            if f.len() == 3 && f[0] >= 128 && f[1] < 128 && f[2] < 128 {
                v.push(RawShortMessage::from_bytes((f[0], crate::msgs::u7(f[1]), crate::msgs::u7(f[2]))).unwrap());
            }
        }
    }
    v
}
fn ch(v: u32) -> Channel { Channel::try_from(v).unwrap() }

pub fn oracle_eval(name: &str, detail: &str) -> Option<bool> {
    let m = params(detail);
    match name {
        #[cfg(feature = "with_serde")]
        "c04-deserialized-pn-encodes-in-range" => {
            let g = |k: &str| m.get(k).cloned();
            Some(crate::serde_probe::deserialized_pn_in_range(&g("c")?, &g("n")?, &g("v")?, &g("r")?, &g("b")?, &g("d")?).unwrap_or(true))
        }
        #[cfg(feature = "with_serde")]
        "c04-deserialized-cc14-encodes-in-range" => {
            let g = |k: &str| m.get(k).cloned();
            Some(crate::serde_probe::deserialized_cc14_in_range(&g("c")?, &g("m")?, &g("v")?).unwrap_or(true))
        }
        "c04-constructed-message-in-range" => crate::ctors::range_oracle(&m),
        #[cfg(feature = "with_serde")]
        "c19-positional-representation-roundtrips" => crate::serde_probe::positional_oracle(m.get("type")?, m.get("json")?),
        "cc-roundtrip" => {
            let (c, msb, value): (u32, u32, u32) = (num(&m, "ch")?, num(&m, "msb")?, num(&m, "value")?);
            let mut sc = ControlChange14BitMessageScanner::new();
            for p in prior(&m) { sc.feed(&p); }
            let msg = ControlChange14BitMessage::new(ch(c), ControllerNumber::try_from(msb).ok()?, U14::try_from(value).ok()?);
            let ms: [RawShortMessage; 2] = msg.to_short_messages();
            let r1 = sc.feed(&ms[0]);
            let r2 = sc.feed(&ms[1]);
            Some(r1.is_none() && r2 == Some(msg))
        }
        "pn-roundtrip" => {
            let (i, c, n, v): (u32, u32, u32, u32) = (num(&m, "ctor")?, num(&m, "ch")?, num(&m, "number")?, num(&m, "value")?);
            let lsb = m.get("order").map(|s| s == "lsb").unwrap_or(false);
            let mut sc = ParameterNumberMessageScanner::new();
            for p in prior(&m) { sc.feed(&p); }
            let msg = pn_ctor(i, c, n, v);
            let ms: [Option<RawShortMessage>; 4] = msg.to_short_messages(if lsb { DataEntryByteOrder::LsbFirst } else { DataEntryByteOrder::MsbFirst });
            let msgs: Vec<RawShortMessage> = ms.iter().flatten().cloned().collect();
            let mut ok = true;
            for (j, x) in msgs.iter().enumerate() {
                let r = sc.feed(x);
                if j + 1 < msgs.len() { ok &= r.is_none(); } else { ok &= r == Some(msg); }
            }
            Some(ok)
        }
        #[cfg(feature = "std")]
        "pp-encode-feed-poll-roundtrip" => {
            use crate::clock::set_now_nanos;
            let (i, c, n, v, timeout): (u32, u32, u32, u32, u64) = (num(&m, "ctor")?, num(&m, "ch")?, num(&m, "number")?, num(&m, "value")?, num(&m, "timeout")?);
            let lsb = m.get("order").map(|s| s == "lsb").unwrap_or(false);
            set_now_nanos(0);
            let mut sc = PollingParameterNumberMessageScanner::new(core::time::Duration::from_nanos(timeout));
            for p in prior(&m) { sc.feed(&p); }
            let mut probe = sc;
            set_now_nanos(timeout);
            let pending = probe.poll(ch(c));
            set_now_nanos(0);
            let msg = pn_ctor(i, c, n, v);
            let ms: [Option<RawShortMessage>; 4] = msg.to_short_messages(if lsb { DataEntryByteOrder::LsbFirst } else { DataEntryByteOrder::MsbFirst });
            let mut got: Vec<ParameterNumberMessage> = Vec::new();
            for x in ms.iter().flatten() { for r in sc.feed(x).iter().flatten() { got.push(*r); } }
            set_now_nanos(timeout);
            if let Some(r) = sc.poll(ch(c)) { got.push(r); }
            let mut want = Vec::new();
            if let Some(p) = pending { want.push(p); }
            want.push(msg);
            Some(got == want)
        }
        #[cfg(feature = "std")]
        n if n.starts_with("c13-") => {
            use crate::clock::set_now_nanos;
            let (timeout, c, reg, number, v, l): (u64, u32, u32, u32, u32, u32) =
                (num(&m, "timeout")?, num(&m, "ch")?, num(&m, "reg")?, num(&m, "number")?, num(&m, "v")?, num(&m, "l")?);
            let st = 0xB0 + c as u8;
            let cc = |cn: u8, val: u32| RawShortMessage::from_bytes((st, crate::msgs::u7(cn), crate::msgs::u7(val as u8))).unwrap();
            set_now_nanos(0);
            let mut sc = PollingParameterNumberMessageScanner::new(core::time::Duration::from_nanos(timeout));
            for p in prior(&m) { sc.feed(&p); }
            let (xm, xl) = if reg == 1 { (101u8, 100u8) } else { (99, 98) };
            sc.feed(&cc(xm, number / 128));
            sc.feed(&cc(xl, number % 128));
            let expect7 = pn_ctor(if reg == 1 { 4 } else { 0 }, c, number, v);
            let over: u64 = num(&m, "over").unwrap_or(0);
            let late_at = timeout.saturating_add(over);
            match n {
                "c13-early-poll-returns-nothing" | "c13-late-poll-reports-pending-msb" | "c13-reported-once" => {
                    sc.feed(&cc(6, v));
                    let mut early = true;
                    if timeout > 0 { set_now_nanos(timeout - 1); early &= sc.poll(ch(c)).is_none(); early &= sc.poll(ch(c)).is_none(); }
                    set_now_nanos(late_at);
                    let late = sc.poll(ch(c)) == Some(expect7);
                    set_now_nanos(late_at.saturating_add(5));
                    let once = sc.poll(ch(c)).is_none() && sc.poll(ch(c)).is_none();
                    Some(match n { "c13-early-poll-returns-nothing" => early, "c13-late-poll-reports-pending-msb" => early && late, _ => early && late && once })
                }
                "c13-unpaired-lsb-dropped-by-late-poll" | "c13-msb-after-dropped-lsb-is-lone" => {
                    let r0 = sc.feed(&cc(38, l));
                    set_now_nanos(late_at);
                    let r1 = sc.poll(ch(c));
                    let r2 = sc.feed(&cc(6, v));
                    let dropped = r0 == [None, None] && r1.is_none() && r2 == [None, None];
                    set_now_nanos(late_at.saturating_add(late_at));
                    let lone = sc.poll(ch(c)) == Some(expect7);
                    Some(if n == "c13-unpaired-lsb-dropped-by-late-poll" { dropped } else { dropped && lone })
                }
                _ => None,
            }
        }
        n if n.ends_with("-channel-isolation") => {
            // history tokens: R reset, T<d> time step, P<c> poll, s.d1.d2 message
            let hist = m.get("history")?;
            let kind = if n.contains("polling") { "pp" } else if n.contains("-cc-") { "cc" } else { "pn" };
            let mut ok = true;
            match kind {
                "cc" => {
                    let mut main = ControlChange14BitMessageScanner::new();
                    let mut own = [ControlChange14BitMessageScanner::new(); 16];
                    for t in hist.split(',') {
                        if t == "R" { main.reset(); for o in own.iter_mut() { o.reset(); } continue; }
                        let f: Vec<u8> = t.split('.').filter_map(|x| x.parse().ok()).collect();
                        if f.len() != 3 { continue; }
                        let msg = RawShortMessage::from_bytes((f[0], crate::msgs::u7(f[1]), crate::msgs::u7(f[2]))).ok()?;
                        let a = main.feed(&msg);
                        if f[0] < 0xF0 { let c = (f[0] & 15) as usize; ok &= a == own[c].feed(&msg); if let Some(r) = a { ok &= usize::from(r.channel()) == c; } } else { ok &= a.is_none(); }
                    }
                }
                "pn" => {
                    let mut main = ParameterNumberMessageScanner::new();
                    let mut own = [ParameterNumberMessageScanner::new(); 16];
                    for t in hist.split(',') {
                        if t == "R" { main.reset(); for o in own.iter_mut() { o.reset(); } continue; }
                        let f: Vec<u8> = t.split('.').filter_map(|x| x.parse().ok()).collect();
                        if f.len() != 3 { continue; }
                        let msg = RawShortMessage::from_bytes((f[0], crate::msgs::u7(f[1]), crate::msgs::u7(f[2]))).ok()?;
                        let a = main.feed(&msg);
                        if f[0] < 0xF0 { let c = (f[0] & 15) as usize; ok &= a == own[c].feed(&msg); if let Some(r) = a { ok &= usize::from(r.channel()) == c; } } else { ok &= a.is_none(); }
                    }
                }
                _ => {
                    #[cfg(feature = "std")]
                    {
                        use crate::clock::{now_nanos, set_now_nanos};
                        let timeout: u64 = num(&m, "timeout")?;
                        set_now_nanos(0);
                        let d = core::time::Duration::from_nanos(timeout);
                        let mut main = PollingParameterNumberMessageScanner::new(d);
                        let mut own = [PollingParameterNumberMessageScanner::new(d); 16];
                        for t in hist.split(',') {
                            if t == "R" { main.reset(); for o in own.iter_mut() { o.reset(); } continue; }
                            if let Some(x) = t.strip_prefix('T') { set_now_nanos(now_nanos().saturating_add(x.parse().ok()?)); continue; }
                            if let Some(x) = t.strip_prefix('P') { let c: u32 = x.parse().ok()?; ok &= main.poll(ch(c)) == own[c as usize].poll(ch(c)); continue; }
                            let f: Vec<u8> = t.split('.').filter_map(|x| x.parse().ok()).collect();
                            if f.len() != 3 { continue; }
                            let msg = RawShortMessage::from_bytes((f[0], crate::msgs::u7(f[1]), crate::msgs::u7(f[2]))).ok()?;
                            let a = main.feed(&msg);
                            if f[0] < 0xF0 { let c = (f[0] & 15) as usize; ok &= a == own[c].feed(&msg); } else { ok &= a == [None, None]; }
                        }
                    }
                }
            }
            Some(ok)
        }
        _ => None,
    }
}
