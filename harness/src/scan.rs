//! Encoders and the two pure scanners: request evaluation (stateful scanner tables) and generators.
use crate::msgs::*;
use crate::nums::Rng;
use crate::obs::*;
use crate::Out;
use core::convert::TryFrom;
use helgoboss_midi::*;
use std::collections::{HashMap, VecDeque};

#[derive(Default)]
pub struct Tables {
    pub cc: Vec<Option<ControlChange14BitMessageScanner>>,
    pub pn: Vec<Option<ParameterNumberMessageScanner>>,
}

fn set_at<T: Clone>(v: &mut Vec<Option<T>>, i: usize, x: T) {
    if i >= v.len() {
        v.resize(i + 1, None);
    }
    v[i] = Some(x);
}

pub fn cc14_obs(m: &ControlChange14BitMessage, o: &mut Obs) {
    o.n(m.channel().get());
    o.n(m.msb_controller_number().get());
    o.n(m.value().get());
}
pub fn pn_obs(m: &ParameterNumberMessage, o: &mut Obs) {
    o.n(m.channel().get());
    o.n(m.number().get());
    o.n(m.value().get());
    o.b(m.is_registered());
    o.b(m.is_14_bit());
    o.n(match m.data_type() {
        DataType::DataEntry => 0,
        DataType::DataIncrement => 1,
        DataType::DataDecrement => 2,
    });
}
fn nones(o: &mut Obs, n: usize) {
    for _ in 0..n {
        o.none();
    }
}

fn ch(v: u32) -> Channel { Channel::try_from(v).expect("harness: channel") }
fn cn(v: u32) -> ControllerNumber { ControllerNumber::try_from(v).expect("harness: controller number") }
fn v14(v: u32) -> U14 { U14::try_from(v).expect("harness: u14") }
fn v7(v: u32) -> U7 { U7::try_from(v).expect("harness: u7") }

// ------------------------------------------------------------------------------------------ encoders

fn enc14_via<F: ShortMessageFactory>(c: u32, n: u32, v: u32) -> Obs {
    guarded(|o| {
        let m = ControlChange14BitMessage::new(ch(c), cn(n), v14(v));
        o.n(m.channel().get());
        o.n(m.msb_controller_number().get());
        o.n(m.lsb_controller_number().get());
        o.n(m.value().get());
        let ms: [F; 2] = m.to_short_messages();
        for x in ms.iter() {
            bytes_obs(x.to_bytes(), o);
        }
        let arr: [F; 2] = m.into();
        for x in arr.iter() {
            bytes_obs(x.to_bytes(), o);
        }
    })
}
pub fn enc14_obs(which: &str, c: u32, n: u32, v: u32) -> Obs {
    match which {
        "str" => enc14_via::<StructuredShortMessage>(c, n, v),
        "frn" => enc14_via::<Foreign>(c, n, v),
        "ftb" => enc14_via::<ForeignTB>(c, n, v),
        _ => enc14_via::<RawShortMessage>(c, n, v),
    }
}

pub fn pn_ctor(i: u32, c: u32, n: u32, v: u32) -> ParameterNumberMessage {
    use ParameterNumberMessage as P;
    match i {
        0 => P::non_registered_7_bit(ch(c), v14(n), v7(v)),
        1 => P::non_registered_14_bit(ch(c), v14(n), v14(v)),
        2 => P::non_registered_decrement(ch(c), v14(n), v7(v)),
        3 => P::non_registered_increment(ch(c), v14(n), v7(v)),
        4 => P::registered_7_bit(ch(c), v14(n), v7(v)),
        5 => P::registered_14_bit(ch(c), v14(n), v14(v)),
        6 => P::registered_decrement(ch(c), v14(n), v7(v)),
        _ => P::registered_increment(ch(c), v14(n), v7(v)),
    }
}

fn encpn_via<F: ShortMessageFactory>(i: u32, c: u32, n: u32, v: u32, lsb_first: bool) -> Obs {
    guarded(|o| {
        let m = pn_ctor(i, c, n, v);
        pn_obs(&m, o);
        let order = if lsb_first { DataEntryByteOrder::LsbFirst } else { DataEntryByteOrder::MsbFirst };
        let ms: [Option<F>; 4] = m.to_short_messages(order);
        for x in ms.iter() {
            match x {
                Some(x) => bytes_obs(x.to_bytes(), o),
                None => nones(o, 3),
            }
        }
        let arr: [Option<F>; 4] = m.into();
        for x in arr.iter() {
            match x {
                Some(x) => bytes_obs(x.to_bytes(), o),
                None => nones(o, 3),
            }
        }
    })
}
pub fn encpn_obs(which: &str, i: u32, c: u32, n: u32, v: u32, lsb_first: bool) -> Obs {
    match which {
        "str" => encpn_via::<StructuredShortMessage>(i, c, n, v, lsb_first),
        "frn" => encpn_via::<Foreign>(i, c, n, v, lsb_first),
        "ftb" => encpn_via::<ForeignTB>(i, c, n, v, lsb_first),
        _ => encpn_via::<RawShortMessage>(i, c, n, v, lsb_first),
    }
}

// ------------------------------------------------------------------------------------------ scanners

fn ok_obs() -> Obs {
    Obs(vec![0])
}

macro_rules! feed_impl {
    ($sc:expr, $which:expr, $s:expr, $d1:expr, $d2:expr) => {{
        match $which {
            "str" => {
                let m = StructuredShortMessage::from_bytes(($s, u7($d1), u7($d2))).expect("harness: invalid status");
                $sc.feed(&m)
            }
            "frn" => $sc.feed(&Foreign($s, u7($d1), u7($d2))),
            _ => {
                let m = RawShortMessage::from_bytes(($s, u7($d1), u7($d2))).expect("harness: invalid status");
                $sc.feed(&m)
            }
        }
    }};
}

pub fn eval_cc(t: &mut Tables, w: &[&str]) -> Option<Obs> {
    match w {
        ["new", id] => { set_at(&mut t.cc, id.parse().ok()?, ControlChange14BitMessageScanner::new()); Some(ok_obs()) }
        ["default", id] => { set_at(&mut t.cc, id.parse().ok()?, ControlChange14BitMessageScanner::default()); Some(ok_obs()) }
        ["copy", a, b] => { let x = (*t.cc.get(a.parse::<usize>().ok()?)?)?; set_at(&mut t.cc, b.parse().ok()?, x); Some(ok_obs()) }
        ["clone", a, b] => { let x = (*t.cc.get(a.parse::<usize>().ok()?)?)?; let y = Clone::clone(&x); set_at(&mut t.cc, b.parse().ok()?, y); Some(ok_obs()) }
        ["reset", id] => { t.cc.get_mut(id.parse::<usize>().ok()?)?.as_mut()?.reset(); Some(ok_obs()) }
        ["feed", id, which, s, d1, d2] => {
            let (s, d1, d2): (u8, u8, u8) = (s.parse().ok()?, d1.parse().ok()?, d2.parse().ok()?);
            let sc = t.cc.get_mut(id.parse::<usize>().ok()?)?.as_mut()?;
            let mut copy = *sc;
            let o = guarded(|o| match feed_impl!(copy, *which, s, d1, d2) {
                Some(m) => cc14_obs(&m, o),
                None => nones(o, 3),
            });
            *sc = copy;
            Some(o)
        }
        ["eq", a, b] | ["same", a, b] => {
            let x = (*t.cc.get(a.parse::<usize>().ok()?)?)?; let y = (*t.cc.get(b.parse::<usize>().ok()?)?)?;
            Some(Obs(vec![(x == y) as i64]))
        }
        ["isnew", a] | ["mustbenew", a] => {
            let x = (*t.cc.get(a.parse::<usize>().ok()?)?)?;
            let n = ControlChange14BitMessageScanner::new(); let d = ControlChange14BitMessageScanner::default();
            Some(Obs(vec![(x == n) as i64, (x == d) as i64, (n == d) as i64]))
        }
        _ => None,
    }
}

pub fn eval_pn(t: &mut Tables, w: &[&str]) -> Option<Obs> {
    match w {
        ["new", id] => { set_at(&mut t.pn, id.parse().ok()?, ParameterNumberMessageScanner::new()); Some(ok_obs()) }
        ["default", id] => { set_at(&mut t.pn, id.parse().ok()?, ParameterNumberMessageScanner::default()); Some(ok_obs()) }
        ["copy", a, b] => { let x = (*t.pn.get(a.parse::<usize>().ok()?)?)?; set_at(&mut t.pn, b.parse().ok()?, x); Some(ok_obs()) }
        ["clone", a, b] => { let x = (*t.pn.get(a.parse::<usize>().ok()?)?)?; let y = Clone::clone(&x); set_at(&mut t.pn, b.parse().ok()?, y); Some(ok_obs()) }
        ["reset", id] => { t.pn.get_mut(id.parse::<usize>().ok()?)?.as_mut()?.reset(); Some(ok_obs()) }
        ["feed", id, which, s, d1, d2] => {
            let (s, d1, d2): (u8, u8, u8) = (s.parse().ok()?, d1.parse().ok()?, d2.parse().ok()?);
            let sc = t.pn.get_mut(id.parse::<usize>().ok()?)?.as_mut()?;
            let mut copy = *sc;
            let o = guarded(|o| match feed_impl!(copy, *which, s, d1, d2) {
                Some(m) => pn_obs(&m, o),
                None => nones(o, 6),
            });
            *sc = copy;
            Some(o)
        }
        ["eq", a, b] | ["same", a, b] => {
            let x = (*t.pn.get(a.parse::<usize>().ok()?)?)?; let y = (*t.pn.get(b.parse::<usize>().ok()?)?)?;
            Some(Obs(vec![(x == y) as i64]))
        }
        ["isnew", a] | ["mustbenew", a] => {
            let x = (*t.pn.get(a.parse::<usize>().ok()?)?)?;
            let n = ParameterNumberMessageScanner::new(); let d = ParameterNumberMessageScanner::default();
            Some(Obs(vec![(x == n) as i64, (x == d) as i64, (n == d) as i64]))
        }
        _ => None,
    }
}

// ------------------------------------------------------------------------------------------ generators

/// abstracted input alphabet of one scanner kind on the given channels; `None` = reset
pub fn alphabet(kind: &str, channels: &[u32]) -> Vec<Option<(u8, u8, u8)>> {
    let mut a: Vec<Option<(u8, u8, u8)>> = Vec::new();
    for &c in channels {
        let st = 0xB0 + c as u8;
        if kind == "cc" {
            for n in 0..64u8 { for v in [0u8, 1, 127] { a.push(Some((st, n, v))); } }
            a.push(Some((st, 64, 5)));           // non-contributing controller
            a.push(Some((st, 127, 0)));
            // controllers that mean something to the OTHER scanners / to receivers ((N)RPN selection, channel mode):
            // they must stay non-contributing here
            for n in [98u8, 99, 100, 101, 96, 121] { for v in [0u8, 127] { a.push(Some((st, n, v))); } }
        } else {
            for n in [6u8, 38, 96, 97, 98, 99, 100, 101] { for v in [0u8, 1, 127] { a.push(Some((st, n, v))); } }
            a.push(Some((st, 7, 5)));
            a.push(Some((st, 102, 5)));
            // controllers that mean something elsewhere (14-bit pairs, channel mode: reset all controllers, all notes off)
            for n in [0u8, 32, 121, 123, 127] { a.push(Some((st, n, 0))); }
        }
        a.push(Some((0x90 + c as u8, 60, 100)));  // non-CC channel message
    }
    a.push(Some((0xF8, 0, 0)));                    // system message
    a.push(Some((0xF2, 6, 38)));
    for &c in channels {
        // system messages whose low status nibble equals the channel and whose data bytes look like contributing ones
        let st = 0xF0 + c as u8;
        if kind == "cc" { a.push(Some((st, 1, 5))); a.push(Some((st, 33, 5))); } else { a.push(Some((st, 6, 5))); a.push(Some((st, 98, 5))); a.push(Some((st, 38, 5))); }
    }
    a.push(None);                                  // reset
    a
}

/// breadth-first product exploration: every reachable real scanner state (keyed by its Debug string) x every
/// input of the alphabet.  Ids: 0 = scratch, state k has id k + 1.
pub fn explore(out: &mut Out, kind: &str, channels: &[u32], max_states: usize, strict_reset: bool) {
    let alpha = alphabet(kind, channels);
    let mut seen: HashMap<String, usize> = HashMap::new();
    let mut queue: VecDeque<usize> = VecDeque::new();
    let key = |t: &Tables, id: usize| -> String {
        if kind == "cc" { format!("{:?}", t.cc[id].unwrap()) } else { format!("{:?}", t.pn[id].unwrap()) }
    };
    out.req(&format!("{} new 1", kind));
    seen.insert(key(&out.st.tables, 1), 1);
    queue.push_back(1);
    let mut next_id = 2usize;
    let mut transitions = 0u64;
    let mut reports = 0u64;
    while let Some(id) = queue.pop_front() {
        for inp in &alpha {
            out.req(&format!("{} copy {} 0", kind, id));
            match inp {
                Some((s, d1, d2)) => {
                    let line = out.req_ret(&format!("{} feed 0 raw {} {} {}", kind, s, d1, d2));
                    if !line.starts_with('-') { reports += 1; }
                }
                None => {
                    out.req(&format!("{} reset 0", kind));
                    // C17 demands equality with a new scanner; for the other properties it is only compared with the model
                    out.req(&format!("{} {} 0", kind, if strict_reset { "mustbenew" } else { "isnew" }));
                }
            }
            transitions += 1;
            let k = key(&out.st.tables, 0);
            if let Some(j) = seen.get(&k) {
                // the implementation is back in a known state: the model must be in the corresponding one
                out.req(&format!("{} same 0 {}", kind, j));
            } else if seen.len() < max_states {
                out.req(&format!("{} copy 0 {}", kind, next_id));
                seen.insert(k, next_id);
                queue.push_back(next_id);
                next_id += 1;
            }
        }
    }
    out.stat("states", seen.len() as u64);
    // 1 = the state bound was hit before a fixpoint was reached (the exploration is then incomplete; recorded)
    out.stat("exploration_truncated", (seen.len() >= max_states) as u64);
    out.stat("transitions", transitions);
    out.stat("transitions_reporting", reports);
    out.stat("evaluations", transitions);
    out.stat("nontrivial", reports);
}

fn random_msg(rng: &mut Rng, kind: &str) -> (u8, u8, u8) {
    let r = rng.below(100);
    let c = rng.below(16) as u8;
    if r < 70 {
        // contributing control change
        let n = if kind == "cc" { rng.below(64) as u8 } else { [6u8, 38, 96, 97, 98, 99, 100, 101][rng.below(8) as usize] };
        (0xB0 + c, n, rng.below(128) as u8)
    } else if r < 76 {
        // controllers with a meaning of their own elsewhere in the protocol: (N)RPN selection and data for the 14-bit
        // scanner, 14-bit pairs for the (N)RPN scanners, channel mode messages for both
        let named = [6u8, 38, 96, 97, 98, 99, 100, 101, 120, 121, 122, 123, 124, 125, 126, 127, 0, 32, 1, 33, 64];
        (0xB0 + c, named[rng.below(named.len() as u64) as usize], [0u8, 1, 64, 126, 127][rng.below(5) as usize])
    } else if r < 80 {
        (0xB0 + c, rng.below(128) as u8, rng.below(128) as u8)
    } else if r < 92 {
        (0x80 + (rng.below(7) as u8) * 16 + c, rng.below(128) as u8, rng.below(128) as u8)
    } else {
        (0xF0 + rng.below(16) as u8, rng.below(128) as u8, rng.below(128) as u8)
    }
}

/// seeded random histories over the full alphabet on 16 channels, with resets, copies made in mid-history and
/// encoder output injected
pub fn random_histories(out: &mut Out, kind: &str, seed: u64, histories: usize, len: usize, strict_reset: bool) {
    let mut rng = Rng(seed ^ 0x5CA9);
    let mut n = 0u64; let mut reports = 0u64;
    let impls = ["raw", "str", "frn"];
    for h in 0..histories {
        // created through new() or through the derived Default, alternately
        out.req(&format!("{} {} 1", kind, if h % 2 == 0 { "new" } else { "default" }));
        let mut copied = false;
        for _ in 0..len {
            let r = rng.below(100);
            let which = impls[rng.below(3) as usize];
            if r < 3 {
                out.req(&format!("{} reset 1", kind));
                out.req(&format!("{} {} 1", kind, if strict_reset { "mustbenew" } else { "isnew" }));
            } else if r < 5 {
                out.req(&format!("{} {} 1 2", kind, if rng.below(2) == 0 { "copy" } else { "clone" }));
                out.req(&format!("{} same 2 1", kind));
                copied = true;
            } else if r < 9 && copied {
                // the copy evolves on its own
                let (s, d1, d2) = random_msg(&mut rng, kind);
                out.req(&format!("{} feed 2 {} {} {} {}", kind, which, s, d1, d2));
            } else if r < 25 {
                // inject the encoding of a random message
                let c = rng.below(16) as u32;
                if kind == "cc" {
                    let m = ControlChange14BitMessage::new(ch(c), cn(rng.below(32) as u32), v14(rng.below(16384) as u32));
                    let ms: [RawShortMessage; 2] = m.to_short_messages();
                    for x in ms.iter() {
                        let b = x.to_bytes();
                        let l = out.req_ret(&format!("cc feed 1 {} {} {} {}", which, b.0, b.1.get(), b.2.get()));
                        if !l.starts_with('-') { reports += 1; }
                    }
                } else {
                    let i = rng.below(8) as u32;
                    let v = if i == 1 || i == 5 { rng.below(16384) } else { rng.below(128) } as u32;
                    let m = pn_ctor(i, c, rng.below(16384) as u32, v);
                    let order = if rng.below(2) == 0 { DataEntryByteOrder::LsbFirst } else { DataEntryByteOrder::MsbFirst };
                    let ms: [Option<RawShortMessage>; 4] = m.to_short_messages(order);
                    for x in ms.iter().flatten() {
                        let b = x.to_bytes();
                        let l = out.req_ret(&format!("pn feed 1 {} {} {} {}", which, b.0, b.1.get(), b.2.get()));
                        if !l.starts_with('-') { reports += 1; }
                    }
                }
            } else if r < 31 && kind == "pn" {
                // documented running forms after one number selection: repeated data bytes / (LSB, MSB) pairs
                let c = rng.below(16) as u8;
                let reg = rng.below(2) == 0;
                let (xm, xl) = if reg { (101u8, 100u8) } else { (99, 98) };
                out.req(&format!("pn feed 1 {} {} {} {}", which, 0xB0 + c, xm, rng.below(128)));
                out.req(&format!("pn feed 1 {} {} {} {}", which, 0xB0 + c, xl, rng.below(128)));
                let form = rng.below(3);
                for _ in 0..(1 + rng.below(6)) {
                    if form == 0 {
                        let l = out.req_ret(&format!("pn feed 1 {} {} 6 {}", which, 0xB0 + c, rng.below(128)));
                        if !l.starts_with('-') { reports += 1; }
                    } else if form == 1 {
                        let k = [96u8, 97][rng.below(2) as usize];
                        let l = out.req_ret(&format!("pn feed 1 {} {} {} {}", which, 0xB0 + c, k, rng.below(128)));
                        if !l.starts_with('-') { reports += 1; }
                    } else {
                        out.req(&format!("pn feed 1 {} {} 38 {}", which, 0xB0 + c, rng.below(128)));
                        let l = out.req_ret(&format!("pn feed 1 {} {} 6 {}", which, 0xB0 + c, rng.below(128)));
                        if !l.starts_with('-') { reports += 1; }
                    }
                }
            } else {
                let (s, d1, d2) = random_msg(&mut rng, kind);
                let l = out.req_ret(&format!("{} feed 1 {} {} {} {}", kind, which, s, d1, d2));
                if !l.starts_with('-') { reports += 1; }
            }
            n += 1;
        }
    }
    // reset storms: progress on a channel, then k resets in a row (k around powers of two: lazily applied or
    // counted resets must not wear off), then the message that would complete the stale progress
    for k in [1u32, 2, 3, 255, 256, 257, 511, 512, 65535, 65536, 65537, 131072] {
        for c in [0u8, 9, 15] {
            out.req(&format!("{} new 1", kind));
            if kind == "cc" {
                out.req(&format!("cc feed 1 raw {} 1 5", 0xB0 + c));
            } else {
                out.req(&format!("pn feed 1 raw {} 99 3", 0xB0 + c));
                out.req(&format!("pn feed 1 raw {} 98 37", 0xB0 + c));
                out.req(&format!("pn feed 1 raw {} 38 9", 0xB0 + c));
            }
            for i in 0..k {
                out.req(&format!("{} reset 1", kind));
                // traffic on another channel in between must not matter
                if i % 1000 == 7 { out.req(&format!("{} feed 1 raw {} 7 7", kind, 0xB0 + ((c + 1) % 16))); }
            }
            let l = out.req_ret(&format!("{} feed 1 raw {} {} 6", kind, 0xB0 + c, if kind == "cc" { 33 } else { 6 }));
            out.oracle(&format!("{}-nothing-reported-after-{}-resets", kind, k), &format!("channel={}", c), l.starts_with('-'));
            n += k as u64 + 4;
        }
    }
    out.stat("evaluations", n);
    out.stat("nontrivial", reports);
    out.stat("histories", histories as u64);
}

/// end-to-end oracle on the real code: encode a message with the real encoder, feed the result to the real scanner
/// (fresh, and after a random prior history) and demand: nothing until the last message, exactly the original on it.
pub fn roundtrips(out: &mut Out, kind: &str, seed: u64, count: usize) {
    let mut rng = Rng(seed ^ 0x7717);
    let mut n = 0u64;
    for k in 0..count {
        let fresh = k % 2 == 0;
        out.req(&format!("{} new 1", kind));
        let mut prior = String::new();
        let c = rng.below(16) as u32;
        if !fresh {
            for _ in 0..rng.below(12) {
                let (mut s, d1, d2) = random_msg(&mut rng, kind);
                // most of the prior history happens on the channel the message will arrive on
                if s < 0xF0 && rng.below(10) < 7 { s = (s & 0xF0) | c as u8; }
                out.req(&format!("{} feed 1 raw {} {} {}", kind, s, d1, d2));
                prior.push_str(&format!("{}.{}.{},", s, d1, d2));
            }
        }
        if kind == "cc" {
            let msb = if k % 4 == 1 { [6u32, 0, 1, 7, 10, 11][rng.below(6) as usize] } else { rng.below(32) as u32 };   // controllers with LSB siblings named in the spec
            let v = (if k % 5 == 0 { [0u32, 1, 127, 128, 16383][rng.below(5) as usize] } else { rng.below(16384) as u32 });
            let m = ControlChange14BitMessage::new(ch(c), cn(msb), v14(v));
            let ms: [RawShortMessage; 2] = m.to_short_messages();
            let sc = out.st.tables.cc[1].as_mut().unwrap();
            let r1 = sc.feed(&ms[0]);
            let r2 = sc.feed(&ms[1]);
            out.oracle("cc-roundtrip", &format!("ch={} msb={} value={} prior={}", c, msb, v, if prior.is_empty() { "-" } else { &prior }), r1.is_none() && r2 == Some(m));
        } else {
            let i = rng.below(8) as u32;
            let vmax = if i == 1 || i == 5 { 16384 } else { 128 };
            let v = if k % 5 == 0 { [0u64, 1, 127, vmax - 1, vmax / 2][rng.below(5) as usize] } else { rng.below(vmax) } as u32;
            let num = if k % 7 == 0 { [0u32, 127, 128, 16383][rng.below(4) as usize] } else { rng.below(16384) as u32 };
            let m = pn_ctor(i, c, num, v);
            let lsb_first = m.is_14_bit() || rng.below(2) == 0;
            let order = if lsb_first { DataEntryByteOrder::LsbFirst } else { DataEntryByteOrder::MsbFirst };
            let ms: [Option<RawShortMessage>; 4] = m.to_short_messages(order);
            let msgs: Vec<RawShortMessage> = ms.iter().flatten().cloned().collect();
            let sc = out.st.tables.pn[1].as_mut().unwrap();
            let mut ok = true;
            for (j, x) in msgs.iter().enumerate() {
                let r = sc.feed(x);
                if j + 1 < msgs.len() { ok &= r.is_none(); } else { ok &= r == Some(m); }
            }
            out.oracle("pn-roundtrip", &format!("ctor={} ch={} number={} value={} order={} prior={}", i, c, num, v, if lsb_first { "lsb" } else { "msb" }, if prior.is_empty() { "-" } else { &prior }), ok);
        }
        n += 1;
    }
    out.stat("evaluations", n);
    out.stat("nontrivial", n);
    out.stat("roundtrips", n);
}

// ------------------------------------------------------------------------------------------ C15: isolation (pure scanners)

pub fn isolation(out: &mut Out, kind: &str, seed: u64, histories: usize, len: usize, pair: Option<(u32, u32)>) {
    let mut rng = Rng(seed ^ 0xC15C);
    let mut n = 0u64;
    let width = if kind == "cc" { 3 } else { 6 };
    for h in 0..histories {
        // the shared scanner and the scanners of their own come from `new()` or `default()` in all four combinations
        out.req(&format!("{} {} 1", kind, if h % 2 == 0 { "new" } else { "default" }));
        for c in 0..16 { out.req(&format!("{} {} {}", kind, if h % 4 < 2 { "new" } else { "default" }, 10 + c)); }
        let mut ok = true;
        let mut hist = String::new();
        for _ in 0..len {
            if rng.below(100) < 3 {
                out.req(&format!("{} reset 1", kind));
                for c in 0..16 { out.req(&format!("{} reset {}", kind, 10 + c)); }
                hist.push_str("R,");
            } else {
                let (s0, d1, d2) = random_msg(&mut rng, kind);
                let c = match pair { Some((a, b)) => if rng.below(2) == 0 { a } else { b }, None => rng.below(16) as u32 };
                let s = if s0 < 0xF0 { (s0 & 0xF0) + c as u8 } else { s0 };
                let a = out.req_ret(&format!("{} feed 1 raw {} {} {}", kind, s, d1, d2));
                hist.push_str(&format!("{}.{}.{},", s, d1, d2));
                if s < 0xF0 {
                    let b = out.req_ret(&format!("{} feed {} raw {} {} {}", kind, 10 + c, s, d1, d2));
                    ok &= a == b;
                    if !a.starts_with('-') { ok &= a.split_whitespace().next() == Some(&c.to_string()); }
                } else {
                    ok &= a.split_whitespace().count() == width && a.starts_with('-');
                }
            }
            n += 1;
        }
        out.oracle(&format!("c15-{}-channel-isolation", kind), &format!("history={}", if hist.len() > 600 { &hist[..600] } else { &hist }), ok);
    }
    out.stat("evaluations", n);
    out.stat("nontrivial", n);
}

// ------------------------------------------------------------------------------------------ C16: transparency, predicates

/// every explored state x non-contributing messages: nothing reported and the scanner compares equal to a copy made
/// before (the real PartialEq); returns nothing, emits request lines (`same` has the expected answer 1)
pub fn transparent(out: &mut Out, kind: &str, channels: &[u32]) {
    // re-explore (cheaply) to obtain the reachable states, then probe each of them
    let alpha = alphabet(kind, channels);
    let mut seen: HashMap<String, usize> = HashMap::new();
    let mut queue: VecDeque<usize> = VecDeque::new();
    let key = |t: &Tables, id: usize| -> String { if kind == "cc" { format!("{:?}", t.cc[id].unwrap()) } else { format!("{:?}", t.pn[id].unwrap()) } };
    out.req(&format!("{} new 2", kind));
    seen.insert(key(&out.st.tables, 2), 2);
    queue.push_back(2);
    let mut next_id = 3usize;
    let mut n = 0u64;
    let contributing = |cnn: u8| -> bool { if kind == "cc" { cnn < 64 } else { matches!(cnn, 6 | 38 | 96..=101) } };
    while let Some(id) = queue.pop_front() {
        // probes on this state
        let mut probe = |out: &mut Out, s: u8, d1: u8, d2: u8| {
            out.req(&format!("{} copy {} 0", kind, id));
            let l = out.req_ret(&format!("{} feed 0 raw {} {} {}", kind, s, d1, d2));
            let ok_none = l.starts_with('-');
            out.req(&format!("{} same 0 {}", kind, id));
            if !ok_none { out.oracle(&format!("c16-{}-non-contributing-reports-nothing", kind), &format!("state={} msg={}.{}.{}", id, s, d1, d2), false); }
        };
        let c = channels[0] as u8;
        for cnn in 0..128u8 { if !contributing(cnn) { for v in [0u8, 5, 127] { probe(out, 0xB0 + c, cnn, v); n += 1; } } }
        for st in (0x80u8..=0xFF).filter(|s| (s & 0xF0) != 0xB0) { for (d1, d2) in [(0u8, 0u8), (6, 38), (98, 127), (33, 1)] { probe(out, st, d1, d2); n += 1; } }
        for inp in &alpha {
            out.req(&format!("{} copy {} 0", kind, id));
            match inp {
                Some((s, d1, d2)) => { out.req(&format!("{} feed 0 raw {} {} {}", kind, s, d1, d2)); }
                None => { out.req(&format!("{} reset 0", kind)); }
            }
            let k = key(&out.st.tables, 0);
            if !seen.contains_key(&k) && seen.len() < 3_000 {
                out.req(&format!("{} copy 0 {}", kind, next_id));
                seen.insert(k, next_id);
                queue.push_back(next_id);
                next_id += 1;
            }
        }
    }
    out.stat("states", seen.len() as u64);
    out.stat("evaluations", n);
    out.stat("nontrivial", n);
}

pub fn cnpred_obs(n: u32) -> Option<Obs> {
    let c = ControllerNumber::try_from(n).ok()?;
    Some(guarded(|o| {
        o.b(c.can_be_part_of_14_bit_control_change_message());
        o.opt(c.corresponding_14_bit_lsb_controller_number().map(|x| x.get()));
        o.b(c.is_parameter_number_message_controller_number());
        o.b(c.is_channel_mode_message_controller_number());
    }))
}
