/-
Line-protocol driver.  Reads a transcript from stdin, one request per line:
    <cmd> <args...> | <cells the implementation produced>
evaluates the model (and, where the property is an exact characterisation, the executable specification)
on the same request and reports every line on which they differ:
    CORR <line> <request> impl=<cells> model=<cells>     implementation differs from the model
    SPEC <line> <request> impl=<cells> spec=<cells>      implementation differs from the specification
    MON  <line> <monitor> <detail>                       a trace monitor rejected the implementation's trace
ends with   SUMMARY lines=<n> corr=<n> spec=<n> mon=<n> modelspec=<n> bad=<n>
-/
import Midi.Driver.Msg
import Midi.Driver.Ctors
import Midi.Driver.Nums
import Midi.Driver.Scan
import Midi.Driver.Poll
import Midi.Driver.Serde
open Midi Midi.Driver

structure St where
  scan : ScanSt := {}
  poll : PollSt := {}
  lines : Nat := 0
  corr : Nat := 0
  spec : Nat := 0
  mon : Nat := 0
  modelSpec : Nat := 0     -- model ≠ spec (should be impossible: it is a theorem)
  bad : Nat := 0           -- unparsable lines
  printed : Nat := 0          -- CORR / MODELSPEC / BAD lines printed
  printedSpec : Nat := 0      -- SPEC / MON lines printed (own budget: witnesses must never be crowded out)

def parseCell (s : String) : Option Int :=
  if s == "-" then some cNone
  else if s.startsWith "P" then (s.drop 1).toNat?.map (fun c => -(100 + (c : Int)))
  else s.toInt?

def parseCells (ws : List String) : Option Obs := ws.mapM parseCell

def showCell (c : Int) : String :=
  if c == cNone then "-" else if c ≤ -100 then s!"P{(-c - 100)}" else toString c
def showObs (o : Obs) : String := " ".intercalate (o.map showCell)

def nat? (s : String) : Option Nat := s.toNat?

/-- evaluate one request: (model cells, spec cells if the request has an executable specification) -/
def evalStateless (req : List String) : Option (Obs × Option Obs) :=
  match req with
  | ["msg", impl, s, d1, d2] => do
      let b : Bytes := ⟨← nat? s, ← nat? d1, ← nat? d2⟩
      some (modelMsg impl b, some (specMsgLine impl b))
  | ["rawx", s, d1, d2] => do
      let b : Bytes := ⟨← nat? s, ← nat? d1, ← nat? d2⟩
      some (modelRawx b, some (specRawx b))
  | ["rawxblk", s] => do
      let s ← nat? s
      let dm := blkDigest "all" modelRawx s
      let ds := blkDigest "all" specRawx s
      some ([(dm.toNat : Int)], some [(ds.toNat : Int)])
  | ["blk", mask, impl, s] => do
      let s ← nat? s
      let dm := blkDigest mask (modelMsg impl) s
      let ds := blkDigest mask (specMsgLine impl) s
      some ([(dm.toNat : Int)], some [(ds.toNat : Int)])
  | ["mk", impl, k, a, b, c] => do
      let k ← Ctor.ofName? k
      let (a, b, c) := (← nat? a, ← nat? b, ← nat? c)
      some (modelMk impl k a b c, some (specMk impl k a b c))
  | ["mkblk", impl, k, a] => do
      let k ← Ctor.ofName? k
      let a ← nat? a
      let dm := mkblkDigest (modelMk impl) k a
      let ds := mkblkDigest (specMk impl) k a
      some ([(dm.toNat : Int)], some [(ds.toNat : Int)])
  | ["gen", impl, f, t, c, a, b] => do
      let (t, c, a, b) := (← nat? t, ← nat? c, ← nat? a, ← nat? b)
      some (← modelGen impl f t c a b, some (specGen impl f t c a b))
  | ["genblk", impl, f, t, c] => do
      let (t, c) := (← nat? t, ← nat? c)
      let _ ← MsgType.ofU8 t
      let dm := genblkDigest (fun a b => (modelGen impl f t c a b).getD []) f t
      let ds := genblkDigest (fun a b => specGen impl f t c a b) f t
      some ([(dm.toNat : Int)], some [(ds.toNat : Int)])
  | ["conv", row, x] => do
      let (row, x) := (← nat? row, ← x.toInt?)
      some (← modelConv row x, specConv row x)
  | ["new", cfg, t, v] => do
      let (t, v) := (← nat? t, ← nat? v)
      some (← modelNew cfg t v, specNew t v)
  | ["parse", t, h] => do
      let t ← nat? t
      let s ← unhex h
      some (← modelParse t s, specParse t s)
  | ["display", _t, v] => do
      let v ← nat? v
      some (← modelDisplay 0 v, specDisplay 0 v)
  | ["display", _t, v, k] => do
      let (v, k) := (← nat? v, ← nat? k)
      some (← modelDisplay k v, specDisplay k v)
  | ["ord", _t, a, b] => do
      let (a, b) := (← nat? a, ← nat? b)
      some (modelOrd a b, some (modelOrd a b))
  | ["consts", t] => do
      let t ← nat? t
      some (← modelConsts t, specConsts t)
  | ["ntop", t, op, a, b] => do
      -- an operator impl on a restricted integer has no model; what C04 / C05 demand of it is the specification:
      -- the numerically faithful result when it is in range, a panic otherwise
      let (t, a, b) := (← nat? t, ← nat? a, ← nat? b)
      let T ← ntDef? t
      let r : Option Nat := match op with
        | "Add" => some (a + b)
        | "Sub" => if b ≤ a then some (a - b) else none
        | "Mul" => some (a * b)
        | _ => none
      let cells : Obs := match r with
        | some v => if v ≤ T.max then [1, (v : Int)] else [0]
        | none => [0]
      some (cells, some cells)
  | ["cnconst", i] => do
      let i ← nat? i
      some (← modelCnConst i, specCnConst i)
  | ["tu", f, x, y, z] => do
      let (x, y, z) := (← nat? x, ← nat? y, ← nat? z)
      some (← modelTu f x y z, specTu f x y z)
  | _ => none

/-- stateful requests first (scanner tables), then the stateless ones -/
def evalReq (sc : ScanSt × PollSt) (req : List String) : Option ((ScanSt × PollSt) × Obs × Option Obs) :=
  match req with
  | "pp" :: rest => (evalPP sc.2 rest).map (fun (p, m, s) => ((sc.1, p), m, s))
  | _ => (evalReqScan sc.1 req).map (fun (c, m, s) => ((c, sc.2), m, s))
where evalReqScan (sc : ScanSt) (req : List String) : Option (ScanSt × Obs × Option Obs) :=
  match req with
  | "cc" :: rest => evalCC sc rest
  | "pn" :: rest => evalPN sc rest
  | ["tu2", f, x, y, z] => do
      let (x, y, z) := (← nat? x, ← nat? y, ← nat? z)
      some (sc, ← modelTu2 f x y z, specTu2 f x y z)
  | ["cnpred", n] => do
      let n ← nat? n
      some (sc, modelCnPred n, some (specCnPred n))
  | ["enc14", impl, ch, cn, v] => do
      let (ch, cn, v) := (← nat? ch, ← nat? cn, ← nat? v)
      some (sc, modelEnc14 impl ch cn v, some (specEnc14 ch cn v))
  | ["encpn", impl, i, ch, n, v, order] => do
      let (i, ch, n, v) := (← nat? i, ← nat? ch, ← nat? n, ← nat? v)
      let o := if order == "lsb" then ByteOrder.lsbFirst else ByteOrder.msbFirst
      some (sc, modelEncPN impl i ch n v o, some (specEncPN i ch n v o))
  | "oracle" :: _ => some (sc, [1], some [1])      -- a verdict computed by the harness on the real code; must be 1
  | _ => (evalStateless req).map (fun (m, s) => (sc, m, s))

def maxPrint : Nat := 200

def step (st : St) (line : String) : St × List String :=
  let line := line.trimAscii.toString
  if line.isEmpty || line.startsWith "#" then (st, []) else
  let st := { st with lines := st.lines + 1 }
  match line.splitOn " | " with
  | [reqS, implS] =>
    let req0 := reqS.splitOn " " |>.filter (· ≠ "")
    -- `clone` (the scanner's `Clone` impl) must behave like the implicit `Copy`: same request for the model
    let req := match req0 with
      | k :: "clone" :: rest => k :: "copy" :: rest
      | _ => req0
    let implWs := implS.splitOn " " |>.filter (· ≠ "")
    let evalAll (impl? : Option Obs) : Option ((ScanSt × PollSt) × Obs × Option Obs) :=
      match req, impl? with
      | "de" :: rest, some impl => (modelDe rest).map (fun m => ((st.scan, st.poll), m, (specDe rest impl).orElse (fun _ => some m)))
      | _, _ => evalReq (st.scan, st.poll) req
    match parseCells implWs, evalAll (parseCells implWs) with
    | some impl0, some ((scan', poll'), model, spec?) =>
      -- a panic whose message the harness could not classify (code 99, e.g. a reworded assertion) counts as the panic
      -- the model expects: the properties speak about WHEN a call panics, not about the message text
      let unknownPanic : Int := -(100 + 99)
      let impl := if impl0 == [unknownPanic] && model.length == 1 && (model.headD 0) ≤ -100 then model else impl0
      -- trace monitors run on what the IMPLEMENTATION returned (the monitor's clock is the one before this request)
      let (poll'', monFails) := match req with
        | "pp" :: rest =>
          let (p, f) := monitorReq { poll' with now := st.poll.now } rest impl
          ({ p with now := poll'.now }, f)
        | _ => (poll', [])
      -- C04: every message a scanner reports must be one the checked constructors can build (fields in range,
      -- 7-bit values at most 127, 14-bit implies data entry)
      let rangeFails : List String :=
        match req with
        | ["cc", "feed", _, _, _, _, _] =>
          (match impl with
           | [c, n, v] => if c == cNone || (0 ≤ c && c < 16 && 0 ≤ n && n < 32 && 0 ≤ v && v < 16384) then [] else [s!"c04RangeMonitor out-of-range 14-bit CC message {showObs impl}"]
           | _ => [])
        | "pn" :: "feed" :: _ | "pp" :: "feed" :: _ | "pp" :: "poll" :: _ =>
          let msgs := [decodeMsg (impl.take 6), decodeMsg ((impl.drop 6).take 6)].filterMap id
          if impl.any (fun c => c ≤ -100) then [] else
          msgs.filterMap (fun m => if decide m.Valid then none else some s!"c04RangeMonitor unconstructible (N)RPN message reported {showObs (pnObs m)}")
        | _ => []
      let monFails := monFails ++ rangeFails
      let st := { st with scan := scan', poll := poll'', mon := st.mon + monFails.length }
      let out : List String := monFails.map (fun f => s!"MON {st.lines} {reqS} :: {f}")
      let (st, out) :=
        if impl ≠ model then
          ({ st with corr := st.corr + 1 },
            out ++ [s!"CORR {st.lines} {reqS} impl={showObs impl} model={showObs model}"])
        else (st, out)
      let (st, out) :=
        match spec? with
        | some spec =>
          let (st, out) :=
            if impl ≠ spec then
              ({ st with spec := st.spec + 1 },
                out ++ [s!"SPEC {st.lines} {reqS} impl={showObs impl} spec={showObs spec}"])
            else (st, out)
          if model ≠ spec then
            ({ st with modelSpec := st.modelSpec + 1 },
              out ++ [s!"MODELSPEC {st.lines} {reqS} model={showObs model} spec={showObs spec}"])
          else (st, out)
        | none => (st, out)
      -- separate printing budgets: lines that carry a witness (SPEC, MON) / the others
      let isW (l : String) : Bool := l.startsWith "SPEC" || l.startsWith "MON"
      let w := out.filter isW
      let o := out.filter (fun l => !isW l)
      let w := if st.printedSpec ≥ maxPrint then [] else w
      let o := if st.printed ≥ maxPrint then [] else o
      ({ st with printed := st.printed + o.length, printedSpec := st.printedSpec + w.length }, w ++ o)
    | _, _ => ({ st with bad := st.bad + 1 }, [s!"BAD {st.lines} {line}"])
  | _ => ({ st with bad := st.bad + 1 }, [s!"BAD {st.lines} {line}"])

partial def loop (h : IO.FS.Stream) (out : IO.FS.Stream) (st : St) : IO St := do
  let line ← h.getLine
  if line.isEmpty then return st
  let (st', msgs) := step st line
  for m in msgs do out.putStrLn m
  loop h out st'

def main : IO Unit := do
  let stdin ← IO.getStdin
  let stdout ← IO.getStdout
  let st ← loop stdin stdout {}
  stdout.putStrLn s!"SUMMARY lines={st.lines} corr={st.corr} spec={st.spec} mon={st.mon} modelspec={st.modelSpec} bad={st.bad}"
