/-
Line-protocol driver.  Reads a transcript from stdin, one request per line:
    <cmd> <args...> | <cells the implementation produced>
evaluates the model (and, where the property is an exact characterisation, the executable specification)
on the same request and reports every line on which they differ:
    CORR <line> <request> impl=<cells> model=<cells>     implementation differs from the model
    SPEC <line> <request> impl=<cells> spec=<cells>      implementation differs from the specification
    MON  <line> <monitor> <detail>                       a trace monitor rejected the implementation's trace
ends with   SUMMARY lines=<n> corr=<n> spec=<n> mon=<n> modelspec=<n> bad=<n>
-/
import Midi.Driver.Msg
open Midi Midi.Driver

structure St where
  lines : Nat := 0
  corr : Nat := 0
  spec : Nat := 0
  mon : Nat := 0
  modelSpec : Nat := 0     -- model ≠ spec (should be impossible: it is a theorem)
  bad : Nat := 0           -- unparsable lines
  printed : Nat := 0

def parseCell (s : String) : Option Int :=
  if s == "-" then some cNone
  else if s.startsWith "P" then (s.drop 1).toNat?.map (fun c => -(100 + (c : Int)))
  else s.toInt?

def parseCells (ws : List String) : Option Obs := ws.mapM parseCell

def showCell (c : Int) : String :=
  if c == cNone then "-" else if c ≤ -100 then s!"P{(-c - 100)}" else toString c
def showObs (o : Obs) : String := " ".intercalate (o.map showCell)

def nat? (s : String) : Option Nat := s.toNat?

/-- evaluate one request: (model cells, spec cells if the request has an executable specification) -/
def evalReq (req : List String) : Option (Obs × Option Obs) :=
  match req with
  | ["msg", impl, s, d1, d2] => do
      let b : Bytes := ⟨← nat? s, ← nat? d1, ← nat? d2⟩
      some (modelMsg impl b, some (specMsgLine impl b))
  | ["blk", mask, impl, s] => do
      let s ← nat? s
      let dm := blkDigest mask (modelMsg impl) s
      let ds := blkDigest mask (specMsgLine impl) s
      some ([(dm.toNat : Int)], some [(ds.toNat : Int)])
  | _ => none

def maxPrint : Nat := 200

def step (st : St) (line : String) : St × List String :=
  let line := line.trimAscii.toString
  if line.isEmpty then (st, []) else
  let st := { st with lines := st.lines + 1 }
  match line.splitOn " | " with
  | [reqS, implS] =>
    let req := reqS.splitOn " " |>.filter (· ≠ "")
    let implWs := implS.splitOn " " |>.filter (· ≠ "")
    match parseCells implWs, evalReq req with
    | some impl, some (model, spec?) =>
      let out : List String := []
      let (st, out) :=
        if impl ≠ model then
          ({ st with corr := st.corr + 1 },
            out ++ [s!"CORR {st.lines} {reqS} impl={showObs impl} model={showObs model}"])
        else (st, out)
      let (st, out) :=
        match spec? with
        | some spec =>
          let (st, out) :=
            if impl ≠ spec then
              ({ st with spec := st.spec + 1 },
                out ++ [s!"SPEC {st.lines} {reqS} impl={showObs impl} spec={showObs spec}"])
            else (st, out)
          if model ≠ spec then
            ({ st with modelSpec := st.modelSpec + 1 },
              out ++ [s!"MODELSPEC {st.lines} {reqS} model={showObs model} spec={showObs spec}"])
          else (st, out)
        | none => (st, out)
      if st.printed ≥ maxPrint then (st, []) else ({ st with printed := st.printed + out.length }, out)
    | _, _ => ({ st with bad := st.bad + 1 }, [s!"BAD {st.lines} {line}"])
  | _ => ({ st with bad := st.bad + 1 }, [s!"BAD {st.lines} {line}"])

partial def loop (h : IO.FS.Stream) (out : IO.FS.Stream) (st : St) : IO St := do
  let line ← h.getLine
  if line.isEmpty then return st
  let (st', msgs) := step st line
  for m in msgs do out.putStrLn m
  loop h out st'

def main : IO Unit := do
  let stdin ← IO.getStdin
  let stdout ← IO.getStdout
  let st ← loop stdin stdout {}
  stdout.putStrLn s!"SUMMARY lines={st.lines} corr={st.corr} spec={st.spec} mon={st.mon} modelspec={st.modelSpec} bad={st.bad}"
