/-
test_util.rs as TRANSLATED (Midi.Gen.TestUtil): every shorthand is the hand-written one of Midi.Model.TestUtil.
-/
import Midi.Gen.TestUtil
import Midi.Model.TestUtil
import Midi.Proofs.GenTie
set_option linter.unusedSimpArgs false
set_option linter.unusedVariables false
namespace Midi.GenTie
open Midi Midi.Gen

namespace TU
theorem conv (max v : Nat) :
    (match (if v ≤ max then some v else none : Option Nat) with
      | some t => (.ok t : Res Nat)
      | none => .error .testUtilExpect) = tuConv max v := by
  unfold tuConv; by_cases h : v ≤ max <;> simp [h]

theorem u4 (v : Nat) : TestUtil.u4 v = tuU4 v := conv 15 v
theorem u7 (v : Nat) : TestUtil.u7 v = tuU7 v := conv 127 v
theorem u14 (v : Nat) : TestUtil.u14 v = tuU14 v := conv 16383 v
theorem channel (v : Nat) : TestUtil.channel v = tuChannel v := conv 15 v
theorem key_number (v : Nat) : TestUtil.key_number v = tuKeyNumber v := conv 127 v
theorem controller_number (v : Nat) : TestUtil.controller_number v = tuControllerNumber v := conv 127 v

/-- `do let t ← r; .ok t` -/
theorem bind_ok'' {β : Type} (r : Res β) : (r >>= fun v => Except.ok v) = r := by cases r <;> rfl

theorem short (s a b : Nat) : TestUtil.short s a b = tuShort s a b := by
  unfold TestUtil.short tuShort
  simp only [u7, bind, Except.bind]
  cases tuU7 a with
  | error e => rfl
  | ok a' =>
    cases tuU7 b with
    | error e => rfl
    | ok b' =>
      simp only []
      cases fromBytes rawFactory ⟨s, a', b'⟩ with
      | error e => rfl
      | ok o => cases o <;> rfl

theorem three (x y z : Nat) :
    TestUtil.note_on x y z = tuNoteOn x y z ∧ TestUtil.note_off x y z = tuNoteOff x y z ∧
    TestUtil.control_change x y z = tuControlChange x y z ∧
    TestUtil.polyphonic_key_pressure x y z = tuPolyphonicKeyPressure x y z := by
  refine ⟨?_, ?_, ?_, ?_⟩ <;>
    simp only [TestUtil.note_on, TestUtil.note_off, TestUtil.control_change, TestUtil.polyphonic_key_pressure,
      tuNoteOn, tuNoteOff, tuControlChange, tuPolyphonicKeyPressure, channel, key_number, controller_number, u7, bind_ok'']

theorem two (x y : Nat) :
    TestUtil.program_change x y = tuProgramChange x y ∧ TestUtil.channel_pressure x y = tuChannelPressure x y ∧
    TestUtil.pitch_bend_change x y = tuPitchBendChange x y := by
  refine ⟨?_, ?_, ?_⟩ <;>
    simp only [TestUtil.program_change, TestUtil.channel_pressure, TestUtil.pitch_bend_change,
      tuProgramChange, tuChannelPressure, tuPitchBendChange, channel, u7, u14, bind_ok'']

theorem one (x : Nat) :
    TestUtil.song_position_pointer x = tuSongPositionPointer x ∧ TestUtil.song_select x = tuSongSelect x := by
  refine ⟨?_, ?_⟩ <;>
    simp only [TestUtil.song_position_pointer, TestUtil.song_select, tuSongPositionPointer, tuSongSelect, u7, u14, bind_ok'']

theorem plain (f : QFrame) :
    TestUtil.system_exclusive_start = mkSystemExclusiveStart rawFactory ∧
    TestUtil.time_code_quarter_frame f = mkTimeCodeQuarterFrame rawFactory f ∧
    TestUtil.tune_request = mkPlain rawFactory .tuneRequest ∧ TestUtil.system_exclusive_end = mkPlain rawFactory .systemExclusiveEnd ∧
    TestUtil.timing_clock = mkPlain rawFactory .timingClock ∧ TestUtil.start = mkPlain rawFactory .start ∧
    TestUtil.continue_ = mkPlain rawFactory .continue ∧ TestUtil.stop = mkPlain rawFactory .stop ∧
    TestUtil.active_sensing = mkPlain rawFactory .activeSensing ∧ TestUtil.system_reset = mkPlain rawFactory .systemReset := by
  refine ⟨?_, ?_, ?_, ?_, ?_, ?_, ?_, ?_, ?_, ?_⟩ <;>
    simp only [TestUtil.system_exclusive_start, TestUtil.time_code_quarter_frame, TestUtil.tune_request,
      TestUtil.system_exclusive_end, TestUtil.timing_clock, TestUtil.start, TestUtil.continue_, TestUtil.stop,
      TestUtil.active_sensing, TestUtil.system_reset, bind_ok'']

theorem cc14 (x y z : Nat) : TestUtil.control_change_14_bit x y z = tuControlChange14Bit x y z := by
  simp only [TestUtil.control_change_14_bit, tuControlChange14Bit, channel, controller_number, u14, bind_ok'']

theorem pn (x y z : Nat) :
    TestUtil.nrpn x y z = tuPn false false x y z ∧ TestUtil.nrpn_14_bit x y z = tuPn false true x y z ∧
    TestUtil.rpn x y z = tuPn true false x y z ∧ TestUtil.rpn_14_bit x y z = tuPn true true x y z := by
  refine ⟨?_, ?_, ?_, ?_⟩ <;>
    simp only [TestUtil.nrpn, TestUtil.nrpn_14_bit, TestUtil.rpn, TestUtil.rpn_14_bit, tuPn, channel, u14, u7] <;>
    (simp only [bind, Except.bind]; cases tuChannel x <;> try rfl) <;>
    (simp only []; cases tuU14 y <;> try rfl) <;>
    (simp only [Bool.false_eq_true, if_false, if_true]; first | (cases tuU7 z <;> rfl) | (cases tuU14 z <;> rfl))

end TU
end Midi.GenTie
