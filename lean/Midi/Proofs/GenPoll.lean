/-
The polling (N)RPN scanner as TRANSLATED from polling_parameter_number_message_scanner.rs (Midi.Gen.PollScan,
regenerated on every run; the clock is the explicit parameter `now`) computes exactly what the hand-written model
(Midi.Model.Polling) computes.
-/
import Midi.Gen.PollScan
import Midi.Proofs.GenTie
import Midi.Spec.PollRuns
set_option linter.unusedSimpArgs false
set_option linter.unusedVariables false
namespace Midi.GenTie
open Midi Midi.Spec Midi.Gen

namespace Poll
abbrev GChan := PollScan.ScannerForOneChannel
abbrev GScanner := PollScan.PollingParameterNumberMessageScanner
abbrev GState := PollScan.State

def ns (n : PollScan.NumberState) : NumberState := ⟨n.msb, n.lsb, n.is_registered⟩
def gns (n : NumberState) : PollScan.NumberState := ⟨n.msb, n.lsb, n.isRegistered⟩
@[simp] theorem gns_ns (n) : gns (ns n) = n := rfl
@[simp] theorem ns_gns (n) : ns (gns n) = n := rfl

def state : GState → PState
  | .WaitingForNumberCompletion w => .waitingForNumber w.first_number_byte w.is_registered w.is_msb
  | .WaitingForFirstValueByte n => .waitingForFirstValue (ns n)
  | .ValuePending p => .valuePending (ns p.number_state) p.arrival_time p.first_value_byte p.is_msb
  | .FourteenBitValueComplete f => .fourteenComplete (ns f.number_state) f.value_msb f.value_lsb
def gstate : PState → GState
  | .waitingForNumber a b c => .WaitingForNumberCompletion ⟨a, b, c⟩
  | .waitingForFirstValue n => .WaitingForFirstValueByte (gns n)
  | .valuePending n a f m => .ValuePending ⟨gns n, a, f, m⟩
  | .fourteenComplete n a b => .FourteenBitValueComplete ⟨gns n, a, b⟩
@[simp] theorem gstate_state (s) : gstate (state s) = s := by cases s <;> rfl
@[simp] theorem state_gstate (s) : state (gstate s) = s := by cases s <;> rfl

def chan (c : GChan) : PChan := ⟨c.timeout, state c.state⟩
def gchan (c : PChan) : GChan := ⟨c.timeout, gstate c.state⟩
@[simp] theorem gchan_chan (s : GChan) : gchan (chan s) = s := by simp [gchan, chan]
@[simp] theorem chan_gchan (s : PChan) : chan (gchan s) = s := by simp [gchan, chan]
@[simp] theorem gchan_comp_chan : gchan ∘ chan = id := by funext x; simp
@[simp] theorem chan_comp_gchan : chan ∘ gchan = id := by funext x; simp
def scanner (s : GScanner) : PScanner := s.scanner_by_channel.map chan
def gscanner (s : PScanner) : GScanner := ⟨s.map gchan⟩
@[simp] theorem gscanner_scanner (s : GScanner) : gscanner (scanner s) = s := by
  obtain ⟨v⟩ := s
  simp [gscanner, scanner, Vector.map_map]
@[simp] theorem scanner_gscanner (s : PScanner) : scanner (gscanner s) = s := by
  simp [gscanner, scanner, Vector.map_map]

/-- the two result slots of `feed` -/
def outv (o : POut) : Vector (Option PNMsg) 2 := #v[o.1, o.2]

theorem number (n : PollScan.NumberState) : n.number = .ok (ns n).number := rfl

theorem resolve (p : PollScan.ValuePendingState) (ch : Nat) :
    p.resolve ch = .ok (resolvePending ch (ns p.number_state) p.first_value_byte p.is_msb) := by
  unfold PollScan.ValuePendingState.resolve resolvePending
  cases p.is_msb <;> rfl

/-- a `&mut self` step of the per-channel scanner in terms of a pure step of the hand-written state -/
def lift (c : GChan) (r : PState × Option PNMsg) : Res (Option PNMsg × GChan) := .ok (r.2, { c with state := gstate r.1 })
def lift2 (c : GChan) (r : PState × POut) : Res (Vector (Option PNMsg) 2 × GChan) := .ok (outv r.2, { c with state := gstate r.1 })

theorem process_number_byte (c : GChan) (byte : Nat) (reg msb : Bool) (ch : Nat) :
    c.process_number_byte byte reg msb ch = lift c ((state c.state).processNumberByte byte reg msb ch) := by
  obtain ⟨t, st⟩ := c
  unfold PollScan.ScannerForOneChannel.process_number_byte
  cases st with
  | WaitingForNumberCompletion w =>
    obtain ⟨f, r, m⟩ := w
    cases f with
    | none => rfl
    | some v => cases m <;> cases msb <;> rfl
  | WaitingForFirstValueByte n => cases msb <;> rfl
  | ValuePending p =>
    simp only [state, PState.processNumberByte, lift, gstate, resolve, bind, Except.bind]
    cases msb <;> rfl
  | FourteenBitValueComplete f => cases msb <;> rfl

theorem process_number_lsb (c : GChan) (byte : Nat) (reg : Bool) (ch : Nat) :
    c.process_number_lsb byte reg ch = lift c ((state c.state).processNumberByte byte reg false ch) := by
  unfold PollScan.ScannerForOneChannel.process_number_lsb
  rw [process_number_byte]; rfl

theorem process_number_msb (c : GChan) (byte : Nat) (reg : Bool) (ch : Nat) :
    c.process_number_msb byte reg ch = lift c ((state c.state).processNumberByte byte reg true ch) := by
  unfold PollScan.ScannerForOneChannel.process_number_msb
  rw [process_number_byte]; rfl

theorem process_value_lsb (c : GChan) (ch v now : Nat) :
    c.process_value_lsb ch v now = lift c ((state c.state).processValueLsb now ch v) := by
  obtain ⟨t, st⟩ := c
  unfold PollScan.ScannerForOneChannel.process_value_lsb
  cases st with
  | WaitingForNumberCompletion w => rfl
  | WaitingForFirstValueByte n => rfl
  | ValuePending p =>
    obtain ⟨n, a, f, m⟩ := p
    cases m <;> rfl
  | FourteenBitValueComplete f => rfl

theorem process_value_msb (c : GChan) (ch v now : Nat) :
    c.process_value_msb ch v now = lift c ((state c.state).processValueMsb now ch v) := by
  obtain ⟨t, st⟩ := c
  unfold PollScan.ScannerForOneChannel.process_value_msb
  cases st with
  | WaitingForNumberCompletion w => rfl
  | WaitingForFirstValueByte n => rfl
  | ValuePending p =>
    obtain ⟨n, a, f, m⟩ := p
    cases m <;> rfl
  | FourteenBitValueComplete f => rfl

theorem process_value_inc_dec (c : GChan) (ch : Nat) (dt : DataType) (v : Nat) :
    c.process_value_inc_dec ch dt v = lift2 c ((state c.state).processValueIncDec ch dt v) := by
  obtain ⟨t, st⟩ := c
  unfold PollScan.ScannerForOneChannel.process_value_inc_dec
  cases st with
  | WaitingForNumberCompletion w => rfl
  | WaitingForFirstValueByte n => rfl
  | ValuePending p =>
    obtain ⟨n, a, f, m⟩ := p
    cases m <;> rfl
  | FourteenBitValueComplete f => rfl

theorem onCC_other (st : PState) (now channel cn cv : Nat)
    (h : cn ≠ 98 ∧ cn ≠ 99 ∧ cn ≠ 100 ∧ cn ≠ 101 ∧ cn ≠ 38 ∧ cn ≠ 6 ∧ cn ≠ 96 ∧ cn ≠ 97) :
    st.onCC now channel cn cv = (st, (none, none)) := by
  unfold PState.onCC
  split <;> first | omega | rfl

/-- hand-model per-channel feed results `(state, (out1, out2))` in the translated shape -/
def back2 {σ τ : Type} (f : σ → τ) (r : Res (σ × POut)) : Res (Vector (Option PNMsg) 2 × τ) :=
  match r with
  | .ok p => .ok (outv p.2, f p.1)
  | .error e => .error e

theorem chan_feed {α : Type} (I : Impl α) (c : GChan) (x : α) (now : Nat) :
    c.feed I x now = back2 gchan (PChan.feed I now (chan c) x) := by
  unfold PollScan.ScannerForOneChannel.feed PChan.feed
  simp only [bind, Except.bind, process_number_lsb, process_number_msb, process_value_lsb, process_value_msb,
    process_value_inc_dec]
  cases toStructured I x with
  | error e => rfl
  | ok st =>
    cases st <;> try (simp [back2, outv, gchan, chan])
    rename_i channel cn cv
    obtain ⟨t, s⟩ := c
    simp only [chan, gchan, back2, lift, lift2]
    by_cases h98 : cn = 98
    · subst h98; simp [PState.onCC, outv]
    by_cases h99 : cn = 99
    · subst h99; simp [PState.onCC, outv]
    by_cases h100 : cn = 100
    · subst h100; simp [PState.onCC, outv]
    by_cases h101 : cn = 101
    · subst h101; simp [PState.onCC, outv]
    by_cases h38 : cn = 38
    · subst h38; simp [PState.onCC, outv]
    by_cases h6 : cn = 6
    · subst h6; simp [PState.onCC, outv]
    by_cases h96 : cn = 96
    · subst h96; simp [PState.onCC, outv]
    by_cases h97 : cn = 97
    · subst h97; simp [PState.onCC, outv]
    · have ho := onCC_other (state s) now channel cn cv ⟨h98, h99, h100, h101, h38, h6, h96, h97⟩
      simp [h98, h99, h100, h101, h38, h6, h96, h97, outv, ho]

theorem chan_poll (c : GChan) (ch now : Nat) :
    c.poll ch now = .ok ((PChan.poll now (chan c) ch).2, gchan (PChan.poll now (chan c) ch).1) := by
  obtain ⟨t, st⟩ := c
  unfold PollScan.ScannerForOneChannel.poll PChan.poll
  cases st with
  | WaitingForNumberCompletion w => rfl
  | WaitingForFirstValueByte n => rfl
  | FourteenBitValueComplete f => rfl
  | ValuePending p =>
    obtain ⟨n, a, f, m⟩ := p
    simp only [chan, state, gchan, resolve, bind, Except.bind]
    by_cases h : now - a < t
    · simp [h, gstate]
    · simp [h, gstate]

theorem chan_reset (c : GChan) : c.reset = .ok ((), gchan { chan c with state := PState.default }) := rfl

theorem feed {α : Type} (I : Impl α) (s : GScanner) (x : α) (now : Nat) :
    s.feed I x now = back2 gscanner (PScanner.feed I now (scanner s) x) := by
  unfold PollScan.PollingParameterNumberMessageScanner.feed PScanner.feed
  simp only [bind, Except.bind, chan_feed]
  obtain ⟨v⟩ := s
  simp only [back2, scanner, gscanner]
  cases channel I x with
  | error e => rfl
  | ok c =>
    cases c with
    | none => simp [Vector.map_map, outv]
    | some ch =>
      by_cases h : ch < 16
      · simp only [h, dite_true, Vector.getElem_map]
        cases PChan.feed I now (chan v[ch]) x with
        | error e => rfl
        | ok p => simp [Vector.map_set, Vector.map_map]
      · simp [h]

theorem poll (s : GScanner) (ch now : Nat) :
    s.poll ch now = back gscanner (PScanner.poll now (scanner s) ch) := by
  unfold PollScan.PollingParameterNumberMessageScanner.poll PScanner.poll
  simp only [bind, Except.bind, chan_poll]
  obtain ⟨v⟩ := s
  simp only [back, scanner, gscanner]
  by_cases h : ch < 16
  · simp [h, Vector.map_set, Vector.map_map]
  · simp [h]

theorem reset (s : GScanner) : s.reset = .ok ((), gscanner (scanner s).reset) := by
  unfold PollScan.PollingParameterNumberMessageScanner.reset
  rw [forEachMut_ok _ _ (fun p => gchan { chan p with state := PState.default })]
  · obtain ⟨v⟩ := s
    simp [bind, Except.bind, scanner, gscanner, PScanner.reset, Vector.map_map]
  · intro p; rfl

theorem new (timeout : Nat) : PollScan.PollingParameterNumberMessageScanner.new timeout = .ok (gscanner (PScanner.new timeout)) := by
  simp [PollScan.PollingParameterNumberMessageScanner.new, gscanner, PScanner.new]
  rfl

theorem default_eq : (default : GScanner) = gscanner PScanner.default := by
  simp [gscanner, PScanner.default]
  rfl

/-- one operation on the translated scanner at time `now` -/
def gstep (now : Nat) (s : GScanner) : TOp → Res (POut × (Nat × GScanner))
  | .feed b => do let (o, s') ← s.feed rawImpl b now; .ok ((o[0], o[1]), (now, s'))
  | .poll ch => do let (o, s') ← s.poll ch now; .ok ((o, none), (now, s'))
  | .reset => do let (_, s') ← s.reset; .ok ((none, none), (now, s'))
  | .tick d => .ok ((none, none), (now + d, s))

def grun (now : Nat) (s : GScanner) : List TOp → Res (List POut × (Nat × GScanner))
  | [] => .ok ([], (now, s))
  | op :: ops => do
    let (o, ns) ← gstep now s op
    let (os, ns') ← grun ns.1 ns.2 ops
    .ok (o :: os, ns')

def gtimed (p : Nat × PScanner) : Nat × GScanner := (p.1, gscanner p.2)

theorem gstep_eq (now : Nat) (s : GScanner) (op : TOp) :
    gstep now s op = back gtimed (pStep now (scanner s) op) := by
  cases op with
  | feed b =>
    simp only [gstep, pStep, feed, bind, Except.bind, back2]
    cases PScanner.feed rawImpl now (scanner s) b <;> simp [back, outv, gtimed]
  | poll ch =>
    simp only [gstep, pStep, poll, bind, Except.bind, back]
    cases PScanner.poll now (scanner s) ch <;> simp [gtimed]
  | reset => simp [gstep, pStep, reset, back, bind, Except.bind, gtimed]
  | tick d => simp [gstep, pStep, back, gtimed]

theorem grun_eq (now : Nat) (s : GScanner) (ops : List TOp) :
    grun now s ops = back gtimed (pRun now (scanner s) ops) := by
  induction ops generalizing now s with
  | nil => simp [grun, pRun, back, gtimed]
  | cons op ops ih =>
    simp only [grun, pRun, gstep_eq, bind, Except.bind]
    cases pStep now (scanner s) op with
    | error e => rfl
    | ok p =>
      simp only [back, gtimed, ih, scanner_gscanner]
      cases pRun p.1.1 p.1.2 ops <;> rfl

end Poll
end Midi.GenTie
