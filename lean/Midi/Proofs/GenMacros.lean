/-
The bodies of the five conversion macros and of `newtype!` (is_valid, from_str) as TRANSLATED from newtype_macros.rs
with the macro metavariables as parameters (Midi.Gen.Macros) are what the hand-written model computes for every row
of the conversion table.
-/
import Midi.Gen.Macros
import Midi.Proofs.Conv
set_option linter.unusedSimpArgs false
set_option linter.unusedVariables false
namespace Midi.GenTie
open Midi Midi.Gen

namespace MAC
theorem is_valid (T : NewtypeDef) (x : Int) : Macros.newtype.is_valid T.max x = T.isValid x := by
  simp [Macros.newtype.is_valid, NewtypeDef.isValid]

/-- the conversion a table row denotes, computed by the TRANSLATED macro bodies -/
def translatedConv (pw : Nat) (e : ConvEntry) (x : Int) : Option Int :=
  match e.kind, e.src, e.dst with
  | .fromNN, .nt _, .nt j => (ntDef? j).bind (fun B => Macros.impl_from_newtype_to_newtype pw B x)
  | .fromNP, .nt _, .prim p => Macros.impl_from_newtype_to_primitive pw p x
  | .fromPN, .prim _, .nt j => (ntDef? j).bind (fun B => Macros.impl_from_primitive_to_newtype pw B x)
  | .tryNN, .nt _, .nt j => (ntDef? j).bind (fun B => Macros.impl_try_from_newtype_to_newtype pw B x)
  | .tryPN, .prim _, .nt j => (ntDef? j).bind (fun B => Macros.impl_try_from_primitive_to_newtype pw B x)
  | .tryPNvia q, .prim _, .nt j =>
      (ntDef? j).bind (fun B => Macros.impl_try_from_primitive_to_newtype pw B (q.cast pw x))
  | _, _, _ => none

theorem conv_eq (pw : Nat) (e : ConvEntry) (x : Int) : convModel pw e x = translatedConv pw e x := by
  obtain ⟨kind, src, dst⟩ := e
  cases kind <;> cases src <;> cases dst <;>
    simp only [convModel, translatedConv, Macros.impl_from_newtype_to_newtype, Macros.impl_from_newtype_to_primitive,
      Macros.impl_from_primitive_to_newtype, Macros.impl_try_from_newtype_to_newtype,
      Macros.impl_try_from_primitive_to_newtype, is_valid]
  all_goals (first | rfl | (cases ntDef? _ <;> simp [Option.bind, Option.map] <;> (split <;> simp_all)))

theorem from_str (pw : Nat) (T : NewtypeDef) (s : List Char) :
    Macros.newtype.from_str pw T s = (parseNewtype pw T s).map (fun n => (n : Int)) := by
  unfold Macros.newtype.from_str parseNewtype
  cases parsePrim (T.repr.maxVal pw).toNat s with
  | none => rfl
  | some p =>
    simp only [is_valid]
    cases T.isValid p <;> rfl

end MAC
end Midi.GenTie
