/- The 14-bit CC scanner against its history specification (helper lemmas for C07, C08, C15-C17). -/
import Midi.Spec.Runs
import Midi.Props.C02
set_option linter.unusedSimpArgs false
namespace Midi
open Midi.Spec

/-- a Control Change on channel c is a valid message -/
theorem cc_valid (c n v : Nat) (hc : c < 16) (hn : n < 128) (hv : v < 128) : (⟨176 + c, n, v⟩ : Bytes).Valid :=
  ⟨by show 128 ≤ 176 + c; omega, by show 176 + c < 256; omega, hn, hv⟩

theorem raw_channel (b : Bytes) (hv : b.Valid) : channel rawImpl b = .ok (specChannel b.status) :=
  Props.C02.channel_eq_spec rawImpl b hv
theorem raw_structured (b : Bytes) (hv : b.Valid) : toStructured rawImpl b = .ok (specStructured b) :=
  toStructured_spec rawImpl b (rawImpl_lawful b) hv

/-- what a valid message is to a scanner: a Control Change (channel, controller, value) or something else -/
def asCC (b : Bytes) : Option (Nat × Nat × Nat) :=
  if b.status / 16 = 11 then some (b.status % 16, b.d1, b.d2) else none

theorem structured_cc (b : Bytes) (hv : b.Valid) :
    (∀ c n v, asCC b = some (c, n, v) → specStructured b = .controlChange c n v) ∧
    (asCC b = none → ∀ c n v, specStructured b ≠ .controlChange c n v) := by
  obtain ⟨s, d1, d2⟩ := b
  obtain ⟨h1, h2, h3, h4⟩ := hv
  simp only at h1 h2 h3 h4
  unfold asCC
  rcases status_cases s h1 h2 with h | h
  · rcases h with h | h | h | h | h | h | h <;> simp [specStructured, specType, h]
  · rcases h with h | h | h | h | h | h | h | h | h | h | h | h | h | h | h | h <;>
      simp [specStructured, specType, h]

/-- `ScannerForOneChannel::feed` on a valid message, by cases on what the message is -/
theorem ccChan_feed (st : CCChan) (b : Bytes) (hv : b.Valid) :
    CCChan.feed rawImpl st b =
      match asCC b with
      | some (c, n, v) =>
        if n ≤ 31 then .ok ({ msbCn := some n, valueMsb := some v }, none)
        else if n ≤ 63 then st.processValueLsb c n v
        else .ok (st, none)
      | none => .ok (st, none) := by
  unfold CCChan.feed
  rw [raw_structured b hv]
  have := structured_cc b hv
  cases h : asCC b with
  | some t =>
    obtain ⟨c, n, v⟩ := t
    rw [this.1 c n v h]
    simp [bind, Except.bind]
  | none =>
    have hn := this.2 h
    simp only [bind, Except.bind]

theorem ccScanner_feed (s : CCScanner) (b : Bytes) (hv : b.Valid) :
    s.feed rawImpl b =
      if b.status < 240 then
        (have h : b.status % 16 < 16 := Nat.mod_lt _ (by decide)
         do let (st', out) ← (s[b.status % 16]'h).feed rawImpl b
            .ok (s.set (b.status % 16) st' h, out))
      else .ok (s, none) := by
  unfold CCScanner.feed
  rw [raw_channel b hv]
  unfold specChannel
  by_cases h : b.status < 240
  · have h16 : b.status % 16 < 16 := Nat.mod_lt _ (by decide)
    simp [h, bind, Except.bind, h16]
  · simp [h, bind, Except.bind]

def chanOf : Option (Nat × Nat) → CCChan
  | none => {}
  | some (n, v) => { msbCn := some n, valueMsb := some v }

/-- the scanner state is described by an abstraction `f` (per channel: the pending MSB Control Change) -/
def CCAbsRel (s : CCScanner) (f : Nat → Option (Nat × Nat)) : Prop :=
  ∀ c (h : c < 16), s[c] = chanOf (f c) ∧ ∀ n v, f c = some (n, v) → n < 32 ∧ v < 128

/-- the scanner state is exactly the history abstraction "last MSB Control Change per channel" -/
def CCRel (s : CCScanner) (past : List Op) : Prop := CCAbsRel s (lastMsb past)

theorem lastMsb_snoc (past : List Op) (op : Op) (c : Nat) :
    lastMsb (past ++ [op]) c = msbStep c (lastMsb past c) op := by
  simp [lastMsb, List.foldl_append]

theorem ccRel_new : CCRel CCScanner.new [] := by
  intro c h
  simp [CCScanner.new, lastMsb, chanOf]

theorem ccRel_reset (s : CCScanner) (past : List Op) : CCRel s.reset (past ++ [.reset]) := by
  intro c h
  simp [CCScanner.reset, lastMsb_snoc, msbStep, chanOf]

theorem asCC_iff (b : Bytes) (hv : b.Valid) :
    (asCC b = some (b.status % 16, b.d1, b.d2) ∧ 176 ≤ b.status ∧ b.status < 192) ∨
    (asCC b = none ∧ ¬ (176 ≤ b.status ∧ b.status < 192)) := by
  unfold asCC
  by_cases h : b.status / 16 = 11
  · left; simp [h]; omega
  · right; simp [h]; omega

theorem ccOn_iff (c : Nat) (b : Bytes) : ccOn c b = true ↔ b.status = 176 + c := by simp [ccOn]

/-- `justified14` with the history abstraction made explicit -/
def just14 (o : Option (Nat × Nat)) (m : Bytes) : Option CC14Msg :=
  if 176 ≤ m.status ∧ m.status < 192 ∧ 32 ≤ m.d1 ∧ m.d1 < 64 then
    match o with
    | some (n, v) => if n = m.d1 - 32 then some ⟨m.status - 176, n, 128 * v + m.d2⟩ else none
    | none => none
  else none

theorem justified14_eq (past : List Op) (m : Bytes) : justified14 past m = just14 (lastMsb past (m.status - 176)) m := rfl

def Bounded14 (o : Option (Nat × Nat)) : Prop := ∀ n v, o = some (n, v) → n < 32 ∧ v < 128

/-- one channel, one Control Change on that channel -/
theorem ccChan_step (o : Option (Nat × Nat)) (hb : Bounded14 o) (b : Bytes) (hv : b.Valid)
    (hlo : 176 ≤ b.status) (hhi : b.status < 192) :
    CCChan.feed rawImpl (chanOf o) b = .ok (chanOf (msbStep (b.status - 176) o (.feed b)), just14 o b) ∧
    Bounded14 (msbStep (b.status - 176) o (.feed b)) := by
  rw [ccChan_feed _ b hv]
  have hcc : asCC b = some (b.status % 16, b.d1, b.d2) := by
    rcases asCC_iff b hv with h | h
    · exact h.1
    · omega
  rw [hcc]
  have hon : ccOn (b.status - 176) b = true := by simp [ccOn]; omega
  simp only [msbStep, hon, Bool.true_and, just14]
  by_cases hn31 : b.d1 ≤ 31
  · have h1 : b.d1 < 32 := by omega
    have h2 : ¬ (176 ≤ b.status ∧ b.status < 192 ∧ 32 ≤ b.d1 ∧ b.d1 < 64) := by omega
    simp only [hn31, h1, h2, if_true, if_false, decide_true, chanOf]
    refine ⟨trivial, ?_⟩
    intro n v h; injection h with h; injection h with e1 e2; subst e1 e2
    exact ⟨h1, hv.2.2.2⟩
  · have h1 : ¬ b.d1 < 32 := by omega
    simp only [hn31, h1, if_false, decide_false]
    refine ⟨?_, hb⟩
    by_cases hn63 : b.d1 ≤ 63
    · have hj : 176 ≤ b.status ∧ b.status < 192 ∧ 32 ≤ b.d1 ∧ b.d1 < 64 := by omega
      simp only [hn63, hj, and_self, if_true]
      unfold CCChan.processValueLsb
      cases o with
      | none => simp [chanOf]
      | some p =>
        obtain ⟨m, vm⟩ := p
        have hbd := hb m vm rfl
        have hl : cnLsbOf m = .ok (some (m + 32)) := by
          unfold cnLsbOf
          rw [if_neg (by omega), if_neg (by omega)]
        simp only [chanOf, bind, Except.bind, hl]
        by_cases heq : b.d1 = m + 32
        · have : m = b.d1 - 32 := by omega
          have hch : b.status % 16 = b.status - 176 := by omega
          simp [heq, CC14Msg.new, hl, bind, Except.bind, build14_eq _ _ hbd.2 hv.2.2.2, hch]
          omega
        · have : ¬ m = b.d1 - 32 := by omega
          simp [heq, this]
    · have hj : ¬ (176 ≤ b.status ∧ b.status < 192 ∧ 32 ≤ b.d1 ∧ b.d1 < 64) := by omega
      simp [hn63, hj]

theorem msbStep_other (c : Nat) (o : Option (Nat × Nat)) (b : Bytes) (h : b.status ≠ 176 + c) :
    msbStep c o (.feed b) = o := by
  simp [msbStep, ccOn, h]

/-- one feed from ANY state described by an abstraction `f`: the output is determined by `f` at the message's
    channel, and only that channel's abstraction moves -/
theorem cc_feed_abs (s : CCScanner) (f : Nat → Option (Nat × Nat)) (hr : CCAbsRel s f) (b : Bytes) (hv : b.Valid) :
    ∃ s', s.feed rawImpl b = .ok (s', just14 (f (b.status - 176)) b) ∧
      CCAbsRel s' (fun c => msbStep c (f c) (.feed b)) := by
  rw [ccScanner_feed s b hv]
  by_cases hcc : 176 ≤ b.status ∧ b.status < 192
  · obtain ⟨hlo, hhi⟩ := hcc
    have hlt : b.status < 240 := by omega
    have h16 : b.status % 16 < 16 := Nat.mod_lt _ (by decide)
    have hch : b.status % 16 = b.status - 176 := by omega
    obtain ⟨hs, hb⟩ := hr _ h16
    have step := ccChan_step (f (b.status % 16)) hb b hv hlo hhi
    rw [← hch] at step
    simp only [hlt, if_true]
    rw [hs, step.1]
    simp only [bind, Except.bind]
    rw [← hch]
    refine ⟨_, rfl, ?_⟩
    intro c hc
    by_cases hc' : c = b.status % 16
    · subst hc'
      rw [Vector.getElem_set_self]
      exact ⟨rfl, step.2⟩
    · rw [Vector.getElem_set_ne _ _ (by omega)]
      simp only [msbStep_other c _ b (by omega)]
      exact hr c hc
  · have hj : just14 (f (b.status - 176)) b = none := by
      unfold just14
      have : ¬ (176 ≤ b.status ∧ b.status < 192 ∧ 32 ≤ b.d1 ∧ b.d1 < 64) := by omega
      simp [this]
    have hrel : CCAbsRel s (fun c => msbStep c (f c) (.feed b)) := by
      intro c hc
      simp only [msbStep_other c _ b (by omega)]
      exact hr c hc
    rw [hj]
    by_cases hlt : b.status < 240
    · simp only [hlt, if_true]
      rw [ccChan_feed _ b hv]
      have : asCC b = none := by
        rcases asCC_iff b hv with h | h
        · omega
        · exact h.1
      rw [this]
      simp only [bind, Except.bind, Vector.set_getElem_self]
      exact ⟨s, rfl, hrel⟩
    · simp only [hlt, if_false]
      exact ⟨s, rfl, hrel⟩

/-- one feed: the scanner reports exactly the justified message and its state stays the history abstraction -/
theorem cc_feed_step (s : CCScanner) (past : List Op) (hr : CCRel s past) (b : Bytes) (hv : b.Valid) :
    ∃ s', s.feed rawImpl b = .ok (s', justified14 past b) ∧ CCRel s' (past ++ [.feed b]) := by
  obtain ⟨s', h1, h2⟩ := cc_feed_abs s (lastMsb past) hr b hv
  refine ⟨s', h1, ?_⟩
  intro c hc
  rw [lastMsb_snoc]
  exact h2 c hc

theorem cc_step (s : CCScanner) (past : List Op) (hr : CCRel s past) (op : Op) (hv : op.Valid) :
    ∃ s', ccStep s op = .ok (s', expect14 past op) ∧
      CCRel s' (past ++ [op]) := by
  cases op with
  | feed b => exact cc_feed_step s past hr b hv
  | reset => exact ⟨s.reset, rfl, ccRel_reset s past⟩

/-- any history: the run never panics, reports exactly the justified messages, and ends in the abstraction -/
theorem cc_run (s : CCScanner) (pre : List Op) (hr : CCRel s pre) (ops : List Op) (hv : ∀ op ∈ ops, op.Valid) :
    ∃ s', ccRun s ops = .ok (s', expected14 pre ops) ∧ CCRel s' (pre ++ ops) := by
  induction ops generalizing s pre with
  | nil => exact ⟨s, rfl, by simpa using hr⟩
  | cons op ops ih =>
    obtain ⟨s1, h1, r1⟩ := cc_step s pre hr op (hv op (List.mem_cons_self))
    obtain ⟨s2, h2, r2⟩ := ih s1 (pre ++ [op]) r1 (fun o ho => hv o (List.mem_cons_of_mem _ ho))
    refine ⟨s2, ?_, by simpa using r2⟩
    simp [ccRun, h1, h2, bind, Except.bind, expected14]

/-! ### data independence: helper lemmas for Props/C08 -/

theorem msbStep_relabel (f : Nat → Nat) (c : Nat) (hc : c < 16) (acc : Option (Nat × Nat)) (op : Op) :
    msbStep c (acc.map fun p => (p.1, f p.2)) (relabelOp f op) = (msbStep c acc op).map fun p => (p.1, f p.2) := by
  cases op with
  | reset => simp [msbStep, relabelOp]
  | feed b =>
    simp only [msbStep, relabelOp, relabelB, ccOn]
    by_cases h : 176 ≤ b.status ∧ b.status < 192
    · simp only [h, and_self, if_true]
      by_cases h2 : ((b.status == 176 + c) && decide (b.d1 < 32)) = true <;> simp [h2]
    · have : (b.status == 176 + c) = false := by
        simp only [beq_eq_false_iff_ne]; omega
      simp [h, this]

theorem lastMsb_relabel (f : Nat → Nat) (c : Nat) (hc : c < 16) (past : List Op) (acc : Option (Nat × Nat)) :
    (past.map (relabelOp f)).foldl (msbStep c) (acc.map fun p => (p.1, f p.2))
      = (past.foldl (msbStep c) acc).map fun p => (p.1, f p.2) := by
  induction past generalizing acc with
  | nil => rfl
  | cons op ops ih => simp only [List.map_cons, List.foldl_cons, msbStep_relabel f c hc, ih]

theorem lastMsb_lt (c : Nat) (past : List Op) (hp : ∀ op ∈ past, op.Valid) (acc : Option (Nat × Nat))
    (ha : ∀ p, acc = some p → p.2 < 128) : ∀ p, past.foldl (msbStep c) acc = some p → p.2 < 128 := by
  induction past generalizing acc with
  | nil => simpa using ha
  | cons op ops ih =>
    simp only [List.foldl_cons]
    apply ih (fun o ho => hp o (List.mem_cons_of_mem _ ho))
    intro p hpp
    cases op with
    | reset => simp [msbStep] at hpp
    | feed b =>
      have hv : b.Valid := hp (.feed b) (List.mem_cons_self ..)
      simp only [msbStep] at hpp
      split at hpp
      · cases hpp; exact hv.2.2.2
      · exact ha p hpp

theorem relabelB_valid (f : Nat → Nat) (hf : ∀ v, v < 128 → f v < 128) (b : Bytes) (hb : b.Valid) : (relabelB f b).Valid := by
  unfold relabelB; split
  · exact ⟨hb.1, hb.2.1, hb.2.2.1, hf _ hb.2.2.2⟩
  · exact hb

theorem relabel_valid (f : Nat → Nat) (hf : ∀ v, v < 128 → f v < 128) (past : List Op) (hp : ∀ op ∈ past, op.Valid) :
    ∀ op ∈ past.map (relabelOp f), op.Valid := by
  intro op ho
  obtain ⟨o, hin, rfl⟩ := List.mem_map.1 ho
  cases o with
  | reset => trivial
  | feed b => exact relabelB_valid f hf b (hp _ hin)

end Midi
