/- Soundness of the per-row criterion for conversions. -/
import Midi.Spec.Numeric
set_option linter.unusedSimpArgs false
namespace Midi
open Midi.Spec

theorem cast_id (pw : Nat) (hpw : pw = 16 ∨ pw = 32 ∨ pw = 64) (p : PrimTy) (x : Int)
    (h1 : p.minVal pw ≤ x) (h2 : x ≤ p.maxVal pw) : p.cast pw x = x := by
  rcases hpw with rfl | rfl | rfl <;> cases p <;>
    simp [PrimTy.cast, PrimTy.minVal, PrimTy.maxVal, PrimTy.bits, PrimTy.signed] at h1 h2 ⊢ <;> omega

theorem maxVal_nonneg (pw : Nat) (hpw : pw = 16 ∨ pw = 32 ∨ pw = 64) (p : PrimTy) :
    p.minVal pw ≤ 0 ∧ 0 ≤ p.maxVal pw := by
  rcases hpw with rfl | rfl | rfl <;> cases p <;>
    simp [PrimTy.minVal, PrimTy.maxVal, PrimTy.bits, PrimTy.signed]

theorem sound_fromNP (pw : Nat) (hpw : pw = 16 ∨ pw = 32 ∨ pw = 64) (i : Nat) (p : PrimTy)
    (h : entryOk pw ⟨.fromNP, .nt i, .prim p⟩ = true) : Faithful pw ⟨.fromNP, .nt i, .prim p⟩ := by
  intro x hx
  simp only [entryOk, inTy, tyLo, tyHi, convModel, convSpec, ConvKind.isTry] at *
  cases hA : ntDef? i with
  | none => simp [hA] at hx
  | some A =>
    simp [hA] at hx h ⊢
    have : p.cast pw x = x := cast_id pw hpw _ x (by omega) (by omega)
    simp [this]; omega

theorem sound_fromNN (pw : Nat) (hpw : pw = 16 ∨ pw = 32 ∨ pw = 64) (i j: Nat) 
    (h : entryOk pw ⟨.fromNN, .nt i, .nt j⟩ = true) : Faithful pw ⟨.fromNN, .nt i, .nt j⟩ := by
  intro x hx
  simp only [entryOk, inTy, tyLo, tyHi, convModel, convSpec, ConvKind.isTry] at *
  cases hA : ntDef? i with
  | none => simp [hA] at hx
  | some A =>
   cases hB : ntDef? j with
   | none => simp [hA, hB] at h
   | some B =>
    simp [hA, hB] at hx h ⊢
    have hm := maxVal_nonneg pw hpw B.repr
    have : B.repr.cast pw x = x := cast_id pw hpw _ x (by omega) (by omega)
    simp [this]; omega

theorem sound_fromPN (pw : Nat) (hpw : pw = 16 ∨ pw = 32 ∨ pw = 64) (p : PrimTy) (j: Nat) 
    (h : entryOk pw ⟨.fromPN, .prim p, .nt j⟩ = true) : Faithful pw ⟨.fromPN, .prim p, .nt j⟩ := by
  intro x hx
  simp only [entryOk, inTy, tyLo, tyHi, convModel, convSpec, ConvKind.isTry] at *
  cases hB : ntDef? j with
  | none => simp [hB] at h
  | some B =>
    simp [hB] at hx h ⊢
    have hm := maxVal_nonneg pw hpw B.repr
    have : B.repr.cast pw x = x := cast_id pw hpw _ x (by omega) (by omega)
    simp [this]; omega

theorem sound_tryPN (pw : Nat) (hpw : pw = 16 ∨ pw = 32 ∨ pw = 64) (p : PrimTy) (j: Nat) 
    (h : entryOk pw ⟨.tryPN, .prim p, .nt j⟩ = true) : Faithful pw ⟨.tryPN, .prim p, .nt j⟩ := by
  intro x hx
  simp only [entryOk, inTy, tyLo, tyHi, convModel, convSpec, ConvKind.isTry] at *
  cases hB : ntDef? j with
  | none => simp [hB] at h
  | some B =>
    simp [hB] at hx h ⊢
    have hm := maxVal_nonneg pw hpw B.repr
    by_cases hv : 0 ≤ x ∧ x ≤ (B.max : Int)
    · have : B.repr.cast pw x = x := cast_id pw hpw _ x (by omega) (by omega)
      simp [NewtypeDef.isValid, hv, this]
    · simp [NewtypeDef.isValid, hv]

theorem sound_tryNN (pw : Nat) (hpw : pw = 16 ∨ pw = 32 ∨ pw = 64) (i j: Nat) 
    (h : entryOk pw ⟨.tryNN, .nt i, .nt j⟩ = true) : Faithful pw ⟨.tryNN, .nt i, .nt j⟩ := by
  intro x hx
  simp only [entryOk, inTy, tyLo, tyHi, convModel, convSpec, ConvKind.isTry] at *
  cases hA : ntDef? i with
  | none => simp [hA] at hx
  | some A =>
   cases hB : ntDef? j with
   | none => simp [hA, hB] at h
   | some B =>
    simp [hA, hB] at hx h ⊢
    have hm := maxVal_nonneg pw hpw B.repr
    by_cases hv : 0 ≤ x ∧ x ≤ (B.max : Int)
    · have : B.repr.cast pw x = x := cast_id pw hpw _ x (by omega) (by omega)
      simp [NewtypeDef.isValid, hv, this]
    · simp [NewtypeDef.isValid, hv]

theorem sound_tryPNvia (pw : Nat) (hpw : pw = 16 ∨ pw = 32 ∨ pw = 64) (q p : PrimTy) (j: Nat)
    (h : entryOk pw ⟨.tryPNvia q, .prim p, .nt j⟩ = true) : Faithful pw ⟨.tryPNvia q, .prim p, .nt j⟩ := by
  intro x hx
  simp only [entryOk, inTy, tyLo, tyHi, convModel, convSpec, ConvKind.isTry] at *
  cases hB : ntDef? j with
  | none => simp [hB] at h
  | some B =>
    simp [hB] at hx h ⊢
    have hm := maxVal_nonneg pw hpw B.repr
    have hq : q.cast pw x = x := cast_id pw hpw _ x (by omega) (by omega)
    rw [hq]
    by_cases hv : 0 ≤ x ∧ x ≤ (B.max : Int)
    · have : B.repr.cast pw x = x := cast_id pw hpw _ x (by omega) (by omega)
      simp [NewtypeDef.isValid, hv, this]
    · simp [NewtypeDef.isValid, hv]

/-- the criterion is sound: a row that passes is numerically faithful for every value of its source type -/
theorem entryOk_sound (pw : Nat) (hpw : pw = 16 ∨ pw = 32 ∨ pw = 64) (e : ConvEntry)
    (h : entryOk pw e = true) : Faithful pw e := by
  obtain ⟨kind, src, dst⟩ := e
  cases kind <;> cases src <;> cases dst <;>
    first
    | exact sound_fromNN pw hpw _ _ h
    | exact sound_fromNP pw hpw _ _ h
    | exact sound_fromPN pw hpw _ _ h
    | exact sound_tryNN pw hpw _ _ h
    | exact sound_tryPN pw hpw _ _ h
    | exact sound_tryPNvia pw hpw _ _ _ h
    | (simp [entryOk] at h)

end Midi
