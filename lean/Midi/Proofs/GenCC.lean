/-
The 14-bit Control Change scanner as TRANSLATED from control_change_14_bit_message_scanner.rs (Midi.Gen.CCScan,
regenerated on every run) computes exactly what the hand-written model (Midi.Model.CC14) computes: same outputs,
same panics, states related by a bijection.  Every theorem about the hand-written scanner therefore holds of the
translated one.
-/
import Midi.Gen.CCScan
import Midi.Proofs.GenTie
set_option linter.unusedSimpArgs false
set_option linter.unusedVariables false
namespace Midi.GenTie
open Midi Midi.Spec Midi.Gen

namespace CC
abbrev GChan := CCScan.ScannerForOneChannel
abbrev GScanner := CCScan.ControlChange14BitMessageScanner

def chan (s : GChan) : CCChan := ⟨s.msb_controller_number, s.value_msb⟩
def gchan (s : CCChan) : GChan := ⟨s.msbCn, s.valueMsb⟩
@[simp] theorem gchan_chan (s : GChan) : gchan (chan s) = s := rfl
@[simp] theorem chan_gchan (s : CCChan) : chan (gchan s) = s := rfl
@[simp] theorem gchan_comp_chan : gchan ∘ chan = id := by funext x; rfl
@[simp] theorem chan_comp_gchan : chan ∘ gchan = id := by funext x; rfl
def scanner (s : GScanner) : CCScanner := s.scanner_by_channel.map chan
def gscanner (s : CCScanner) : GScanner := ⟨s.map gchan⟩
@[simp] theorem gscanner_scanner (s : GScanner) : gscanner (scanner s) = s := by
  obtain ⟨v⟩ := s
  simp [gscanner, scanner, Vector.map_map]

theorem map_set_back (v : Vector GChan 16) (ch : Nat) (h : ch < 16) (a : CCChan) :
    Vector.map gchan ((Vector.map chan v).set ch a h) = v.set ch (gchan a) h := by
  have : gchan ∘ chan = id := by funext x; rfl
  simp [Vector.map_set, Vector.map_map, this]

theorem lsb (s : GChan) (channel cn cv : Nat) :
    s.process_value_lsb channel cn cv = back gchan ((chan s).processValueLsb channel cn cv) := by
  obtain ⟨m, v⟩ := s
  unfold CCScan.ScannerForOneChannel.process_value_lsb CCChan.processValueLsb
  simp only [chan, gchan, back, bind, Except.bind]
  crunch

theorem chan_feed {α : Type} (I : Impl α) (s : GChan) (x : α) :
    s.feed I x = back gchan (CCChan.feed I (chan s) x) := by
  unfold CCScan.ScannerForOneChannel.feed CCChan.feed
  simp only [bind, Except.bind, lsb, CCScan.ScannerForOneChannel.process_value_msb]
  obtain ⟨m, v⟩ := s
  simp only [chan, gchan, back]
  grind

theorem feed {α : Type} (I : Impl α) (s : GScanner) (x : α) :
    s.feed I x = back gscanner (CCScanner.feed I (scanner s) x) := by
  unfold CCScan.ControlChange14BitMessageScanner.feed CCScanner.feed
  simp only [bind, Except.bind, chan_feed]
  obtain ⟨v⟩ := s
  simp only [back, scanner, gscanner]
  cases channel I x with
  | error e => rfl
  | ok c =>
    cases c with
    | none => simp [Vector.map_map]
    | some ch =>
      by_cases h : ch < 16
      · simp only [h, dite_true, Vector.getElem_map]
        cases CCChan.feed I (chan v[ch]) x with
        | error e => rfl
        | ok p => simp [Vector.map_set, Vector.map_map]
      · simp [h]


@[simp] theorem scanner_gscanner (s : CCScanner) : scanner (gscanner s) = s := by
  simp [gscanner, scanner, Vector.map_map]

theorem reset (s : GScanner) : s.reset = .ok ((), gscanner (scanner s).reset) := by
  unfold CCScan.ControlChange14BitMessageScanner.reset
  rw [forEachMut_ok _ _ (fun _ => gchan {})]
  · obtain ⟨v⟩ := s
    simp [bind, Except.bind, scanner, gscanner, CCScanner.reset, Vector.map_map]
  · intro p; rfl

theorem new : CCScan.ControlChange14BitMessageScanner.new = .ok (gscanner CCScanner.new) := by
  simp [CCScan.ControlChange14BitMessageScanner.new, gscanner, CCScanner.new]
  rfl

theorem default_eq : (default : GScanner) = gscanner CCScanner.new := by
  simp [gscanner, CCScanner.new]
  rfl

/-- one operation on the translated scanner -/
def gstep (s : GScanner) : Op → Res (Option CC14Msg × GScanner)
  | .feed b => s.feed rawImpl b
  | .reset => do let (_, s') ← s.reset; .ok (none, s')

def grun (s : GScanner) : List Op → Res (List (Option CC14Msg) × GScanner)
  | [] => .ok ([], s)
  | op :: ops => do
    let (o, s') ← gstep s op
    let (os, s'') ← grun s' ops
    .ok (o :: os, s'')

theorem gstep_eq (s : GScanner) (op : Op) : gstep s op = back gscanner (ccStep (scanner s) op) := by
  cases op with
  | feed b => exact feed rawImpl s b
  | reset => simp [gstep, ccStep, reset, back, bind, Except.bind]

theorem grun_eq (s : GScanner) (ops : List Op) : grun s ops = back gscanner (ccRun (scanner s) ops) := by
  induction ops generalizing s with
  | nil => simp [grun, ccRun, back]
  | cons op ops ih =>
    simp only [grun, ccRun, gstep_eq, bind, Except.bind]
    cases ccStep (scanner s) op with
    | error e => rfl
    | ok p =>
      simp only [back, ih, scanner_gscanner]
      cases ccRun p.1 ops <;> rfl

end CC
end Midi.GenTie
