/-
The two trait impls of StructuredShortMessage (structured_short_message.rs) as TRANSLATED (Midi.Gen.StructuredImpl,
regenerated on every run): decoding from bytes and the three byte getters are the functions of the hand-written model.
-/
import Midi.Gen.StructuredImpl
import Midi.Gen.RawImpl
import Midi.Proofs.GenTie
set_option linter.unusedSimpArgs false
set_option linter.unusedVariables false
namespace Midi.GenTie
open Midi Midi.Gen

namespace ST
open Midi.Gen.StructuredImpl

theorem from_bytes_unchecked (b : Bytes) : StructuredShortMessage.from_bytes_unchecked b = SMsg.ofBytesUnchecked b := by
  unfold StructuredShortMessage.from_bytes_unchecked SMsg.ofBytesUnchecked
  simp only [bind, Except.bind]
  cases extractType b.status with
  | error e => rfl
  | ok o =>
    cases o with
    | none => rfl
    | some t =>
      cases t <;> try rfl
      all_goals (simp only []; cases QFrame.ofU7 b.d1 <;> rfl)

theorem status_byte (m : SMsg) : StructuredShortMessage.status_byte m = .ok m.statusByte := by
  cases m <;> rfl

theorem data_byte_1 (m : SMsg) : StructuredShortMessage.data_byte_1 m = .ok m.dataByte1 := by
  cases m <;> rfl

theorem data_byte_2 (m : SMsg) : StructuredShortMessage.data_byte_2 m = .ok m.dataByte2 := by
  cases m <;> rfl

theorem to_structured (m : SMsg) : StructuredShortMessage.to_structured m = .ok m := rfl

end ST

namespace RAW
open Midi.Gen.RawImpl
theorem from_bytes_unchecked (b : Bytes) : RawShortMessage.from_bytes_unchecked b = rawFactory.ofBytesUnchecked b := rfl
theorem getters (b : Bytes) :
    RawShortMessage.status_byte b = .ok (rawImpl.status b) ∧ RawShortMessage.data_byte_1 b = .ok (rawImpl.d1 b) ∧
    RawShortMessage.data_byte_2 b = .ok (rawImpl.d2 b) := ⟨rfl, rfl, rfl⟩
end RAW
end Midi.GenTie
