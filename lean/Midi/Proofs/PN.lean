/- The (N)RPN scanner against its history specification (helper lemmas for C10, C11, C15-C17). -/
import Midi.Proofs.CC14
set_option linter.unusedSimpArgs false
set_option linter.unusedVariables false
namespace Midi
open Midi.Spec

theorem pnChan_feed (st : PNChan) (b : Bytes) (hv : b.Valid) :
    PNChan.feed rawImpl st b =
      match asCC b with
      | some (channel, cn, cv) => st.onCC channel cn cv
      | none => .ok (st, none) := by
  unfold PNChan.feed
  rw [raw_structured b hv]
  have := structured_cc b hv
  cases h : asCC b with
  | some t =>
    obtain ⟨c, n, v⟩ := t
    rw [this.1 c n v h]
    simp [bind, Except.bind]
  | none =>
    have hn := this.2 h
    simp only [bind, Except.bind]

theorem pnScanner_feed (s : PNScanner) (b : Bytes) (hv : b.Valid) :
    s.feed rawImpl b =
      if b.status < 240 then
        (have h : b.status % 16 < 16 := Nat.mod_lt _ (by decide)
         do let (st', out) ← (s[b.status % 16]'h).feed rawImpl b
            .ok (s.set (b.status % 16) st' h, out))
      else .ok (s, none) := by
  unfold PNScanner.feed
  rw [raw_channel b hv]
  unfold specChannel
  by_cases h : b.status < 240
  · have h16 : b.status % 16 < 16 := Nat.mod_lt _ (by decide)
    simp [h, bind, Except.bind, h16]
  · simp [h, bind, Except.bind]

/-- the four history functions of C11, bundled -/
structure PNAbs where
  hi : Option Nat
  lo : Option Nat
  reg : Bool
  l38 : Option Nat

def PNAbs.toChan (a : PNAbs) : PNChan := ⟨a.hi, a.lo, a.reg, a.l38⟩
def PNAbs.step (c : Nat) (a : PNAbs) (op : Op) : PNAbs :=
  ⟨numMsbStep c a.hi op, numLsbStep c a.lo op, regStep c a.reg op, v38Step c a.l38 op⟩
def PNAbs.of (past : List Op) (c : Nat) : PNAbs := ⟨numMsb past c, numLsb past c, regOf past c, v38Of past c⟩
def PNAbs.Bounded (a : PNAbs) : Prop :=
  (∀ v, a.hi = some v → v < 128) ∧ (∀ v, a.lo = some v → v < 128) ∧ (∀ v, a.l38 = some v → v < 128)

theorem pnAbs_snoc (past : List Op) (op : Op) (c : Nat) : PNAbs.of (past ++ [op]) c = (PNAbs.of past c).step c op := by
  simp [PNAbs.of, PNAbs.step, numMsb, numLsb, regOf, v38Of, List.foldl_append]

/-- `justifiedPN` with the history abstraction made explicit -/
def justPN (a : PNAbs) (m : Bytes) : Option PNMsg :=
  if 176 ≤ m.status ∧ m.status < 192 ∧ (m.d1 = 6 ∨ m.d1 = 96 ∨ m.d1 = 97) then
    let c := m.status - 176
    match a.hi, a.lo with
    | some hi, some lo =>
      let number := 128 * hi + lo
      if m.d1 = 96 then some ⟨c, number, m.d2, a.reg, false, .dataIncrement⟩
      else if m.d1 = 97 then some ⟨c, number, m.d2, a.reg, false, .dataDecrement⟩
      else match a.l38 with
        | some l => some ⟨c, number, 128 * m.d2 + l, a.reg, true, .dataEntry⟩
        | none => some ⟨c, number, m.d2, a.reg, false, .dataEntry⟩
    | _, _ => none
  else none

theorem justifiedPN_eq (past : List Op) (m : Bytes) : justifiedPN past m = justPN (PNAbs.of past (m.status - 176)) m := rfl

theorem pnAbs_step_bounded (c : Nat) (a : PNAbs) (hb : a.Bounded) (op : Op) (hv : op.Valid) : (a.step c op).Bounded := by
  obtain ⟨hi, lo, reg, l38⟩ := a
  obtain ⟨b1, b2, b3⟩ := hb
  cases op with
  | reset => simp [PNAbs.step, PNAbs.Bounded, numMsbStep, numLsbStep, v38Step]
  | feed b =>
    have hd2 : b.d2 < 128 := hv.2.2.2
    simp only [PNAbs.step, PNAbs.Bounded, numMsbStep, numLsbStep, v38Step]
    refine ⟨?_, ?_, ?_⟩
    · split
      · intro v h; injection h with h; omega
      · exact b1
    · split
      · intro v h; injection h with h; omega
      · exact b2
    · split
      · intro v h; cases h
      · split
        · intro v h; injection h with h; omega
        · exact b3

theorem pnChan_step (a : PNAbs) (hb : a.Bounded) (b : Bytes) (hv : b.Valid)
    (hlo : 176 ≤ b.status) (hhi : b.status < 192) :
    PNChan.feed rawImpl a.toChan b = .ok ((a.step (b.status - 176) (.feed b)).toChan, justPN a b) := by
  rw [pnChan_feed _ b hv]
  have hcc : asCC b = some (b.status % 16, b.d1, b.d2) := by
    rcases asCC_iff b hv with h | h
    · exact h.1
    · omega
  rw [hcc]
  have hon : ccOn (b.status - 176) b = true := by simp [ccOn]; omega
  have hch : b.status % 16 = b.status - 176 := by omega
  obtain ⟨hi, lo, reg, l38⟩ := a
  obtain ⟨b1, b2, b3⟩ := hb
  simp only at b1 b2 b3
  have hd2 := hv.2.2.2
  simp only [PNAbs.step, PNAbs.toChan, numMsbStep, numLsbStep, regStep, v38Step, hon, Bool.true_and, justPN,
    isNumberMsbCn, isNumberLsbCn]
  by_cases c98 : b.d1 = 98
  · simp [c98, PNChan.onCC]
  by_cases c99 : b.d1 = 99
  · simp [c99, PNChan.onCC]
  by_cases c100 : b.d1 = 100
  · simp [c100, PNChan.onCC]
  by_cases c101 : b.d1 = 101
  · simp [c101, PNChan.onCC]
  by_cases c38 : b.d1 = 38
  · simp [c38, PNChan.onCC]
  by_cases c6 : b.d1 = 6
  · have hj : 176 ≤ b.status ∧ b.status < 192 := ⟨hlo, hhi⟩
    cases hi with
    | none => cases lo <;> simp [c6, PNChan.onCC, PNChan.buildNumber, hj]
    | some h =>
      cases lo with
      | none => simp [c6, PNChan.onCC, PNChan.buildNumber, hj]
      | some l =>
        have hh := b1 h rfl
        have hl := b2 l rfl
        cases l38 with
        | none =>
          simp [c6, PNChan.onCC, PNChan.buildNumber, hj, build14_eq _ _ hh hl, PNMsg.sevenBit, hch]
          try omega
        | some w =>
          have hw := b3 w rfl
          simp [c6, PNChan.onCC, PNChan.buildNumber, hj, build14_eq _ _ hh hl, build14_eq _ _ hd2 hw, PNMsg.fourteenBit, hch]
          try omega
  by_cases c96 : b.d1 = 96
  · have hj : 176 ≤ b.status ∧ b.status < 192 := ⟨hlo, hhi⟩
    cases hi with
    | none => cases lo <;> simp [c96, PNChan.onCC, PNChan.buildNumber, hj]
    | some h =>
      cases lo with
      | none => simp [c96, PNChan.onCC, PNChan.buildNumber, hj]
      | some l =>
        have hh := b1 h rfl
        have hl := b2 l rfl
        simp [c96, PNChan.onCC, PNChan.buildNumber, hj, build14_eq _ _ hh hl, PNMsg.sevenBit, hch]
        try omega
  by_cases c97 : b.d1 = 97
  · have hj : 176 ≤ b.status ∧ b.status < 192 := ⟨hlo, hhi⟩
    cases hi with
    | none => cases lo <;> simp [c97, PNChan.onCC, PNChan.buildNumber, hj]
    | some h =>
      cases lo with
      | none => simp [c97, PNChan.onCC, PNChan.buildNumber, hj]
      | some l =>
        have hh := b1 h rfl
        have hl := b2 l rfl
        simp [c97, PNChan.onCC, PNChan.buildNumber, hj, build14_eq _ _ hh hl, PNMsg.sevenBit, hch]
        try omega
  · have hj : ¬ (b.d1 = 6 ∨ b.d1 = 96 ∨ b.d1 = 97) := by omega
    have : PNChan.onCC ⟨hi, lo, reg, l38⟩ (b.status % 16) b.d1 b.d2 = .ok (⟨hi, lo, reg, l38⟩, none) := by
      unfold PNChan.onCC
      split <;> first | omega | rfl
    simp [this, c98, c99, c100, c101, c38, hj]

/-- the scanner state is described by an abstraction `f` (per channel: the four stored items) -/
def PNAbsRel (s : PNScanner) (f : Nat → PNAbs) : Prop :=
  ∀ c (h : c < 16), s[c] = (f c).toChan ∧ (f c).Bounded

def PNRel (s : PNScanner) (past : List Op) : Prop := PNAbsRel s (PNAbs.of past)

theorem pnRel_new : PNRel PNScanner.new [] := by
  intro c h
  simp [PNScanner.new, PNAbs.of, PNAbs.toChan, numMsb, numLsb, regOf, v38Of, PNAbs.Bounded]

theorem pnRel_reset (s : PNScanner) (past : List Op) : PNRel s.reset (past ++ [.reset]) := by
  intro c h
  simp [PNScanner.reset, pnAbs_snoc, PNAbs.step, PNAbs.toChan, numMsbStep, numLsbStep, regStep, v38Step, PNAbs.Bounded]

theorem pnAbs_step_other (c : Nat) (a : PNAbs) (b : Bytes) (h : b.status ≠ 176 + c) : a.step c (.feed b) = a := by
  simp [PNAbs.step, numMsbStep, numLsbStep, regStep, v38Step, ccOn, h]

/-- one feed from ANY state described by an abstraction `f` -/
theorem pn_feed_abs (s : PNScanner) (f : Nat → PNAbs) (hr : PNAbsRel s f) (b : Bytes) (hv : b.Valid) :
    ∃ s', s.feed rawImpl b = .ok (s', justPN (f (b.status - 176)) b) ∧
      PNAbsRel s' (fun c => (f c).step c (.feed b)) := by
  rw [pnScanner_feed s b hv]
  by_cases hcc : 176 ≤ b.status ∧ b.status < 192
  · obtain ⟨hlo, hhi⟩ := hcc
    have hlt : b.status < 240 := by omega
    have h16 : b.status % 16 < 16 := Nat.mod_lt _ (by decide)
    have hch : b.status % 16 = b.status - 176 := by omega
    obtain ⟨hs, hb⟩ := hr _ h16
    have step := pnChan_step (f (b.status % 16)) hb b hv hlo hhi
    have stepb := pnAbs_step_bounded (b.status % 16) (f (b.status % 16)) hb (.feed b) hv
    rw [← hch] at step
    simp only [hlt, if_true]
    rw [hs, step]
    simp only [bind, Except.bind]
    rw [← hch]
    refine ⟨_, rfl, ?_⟩
    intro c hc
    by_cases hc' : c = b.status % 16
    · subst hc'
      rw [Vector.getElem_set_self]
      exact ⟨rfl, stepb⟩
    · rw [Vector.getElem_set_ne _ _ (by omega)]
      simp only [pnAbs_step_other c _ b (by omega)]
      exact hr c hc
  · have hj : justPN (f (b.status - 176)) b = none := by
      unfold justPN
      have : ¬ (176 ≤ b.status ∧ b.status < 192 ∧ (b.d1 = 6 ∨ b.d1 = 96 ∨ b.d1 = 97)) := by omega
      simp [this]
    have hrel : PNAbsRel s (fun c => (f c).step c (.feed b)) := by
      intro c hc
      simp only [pnAbs_step_other c _ b (by omega)]
      exact hr c hc
    rw [hj]
    by_cases hlt : b.status < 240
    · simp only [hlt, if_true]
      rw [pnChan_feed _ b hv]
      have : asCC b = none := by
        rcases asCC_iff b hv with h | h
        · omega
        · exact h.1
      rw [this]
      simp only [bind, Except.bind, Vector.set_getElem_self]
      exact ⟨s, rfl, hrel⟩
    · simp only [hlt, if_false]
      exact ⟨s, rfl, hrel⟩

theorem pn_feed_step (s : PNScanner) (past : List Op) (hr : PNRel s past) (b : Bytes) (hv : b.Valid) :
    ∃ s', s.feed rawImpl b = .ok (s', justifiedPN past b) ∧ PNRel s' (past ++ [.feed b]) := by
  obtain ⟨s', h1, h2⟩ := pn_feed_abs s (PNAbs.of past) hr b hv
  refine ⟨s', h1, ?_⟩
  intro c hc
  rw [pnAbs_snoc]
  exact h2 c hc

theorem pn_step (s : PNScanner) (past : List Op) (hr : PNRel s past) (op : Op) (hv : op.Valid) :
    ∃ s', pnStep s op = .ok (s', expectPN past op) ∧ PNRel s' (past ++ [op]) := by
  cases op with
  | feed b => exact pn_feed_step s past hr b hv
  | reset => exact ⟨s.reset, rfl, pnRel_reset s past⟩

theorem pn_run (s : PNScanner) (pre : List Op) (hr : PNRel s pre) (ops : List Op) (hv : ∀ op ∈ ops, op.Valid) :
    ∃ s', pnRun s ops = .ok (s', expectedPN pre ops) ∧ PNRel s' (pre ++ ops) := by
  induction ops generalizing s pre with
  | nil => exact ⟨s, rfl, by simpa using hr⟩
  | cons op ops ih =>
    obtain ⟨s1, h1, r1⟩ := pn_step s pre hr op (hv op (List.mem_cons_self))
    obtain ⟨s2, h2, r2⟩ := ih s1 (pre ++ [op]) r1 (fun o ho => hv o (List.mem_cons_of_mem _ ho))
    refine ⟨s2, ?_, by simpa using r2⟩
    simp [pnRun, h1, h2, bind, Except.bind, expectedPN]

end Midi

namespace Midi
open Midi.Spec

/-! ### runs from ANY abstractly described state (used by C10, C15, C16) -/

def absAfterPN (f : Nat → PNAbs) : List Op → (Nat → PNAbs)
  | [] => f
  | op :: ops => absAfterPN (fun c => (f c).step c op) ops

def absOutPN (f : Nat → PNAbs) : Op → Option PNMsg
  | .feed b => justPN (f (b.status - 176)) b
  | .reset => none

def absOutsPN (f : Nat → PNAbs) : List Op → List (Option PNMsg)
  | [] => []
  | op :: ops => absOutPN f op :: absOutsPN (fun c => (f c).step c op) ops

theorem pn_step_abs (s : PNScanner) (f : Nat → PNAbs) (hr : PNAbsRel s f) (op : Op) (hv : op.Valid) :
    ∃ s', pnStep s op = .ok (s', absOutPN f op) ∧ PNAbsRel s' (fun c => (f c).step c op) := by
  cases op with
  | feed b => exact pn_feed_abs s f hr b hv
  | reset =>
    refine ⟨s.reset, rfl, ?_⟩
    intro c h
    simp [PNScanner.reset, PNAbs.step, PNAbs.toChan, numMsbStep, numLsbStep, regStep, v38Step, PNAbs.Bounded]

theorem pn_run_abs (s : PNScanner) (f : Nat → PNAbs) (hr : PNAbsRel s f) (ops : List Op) (hv : ∀ op ∈ ops, op.Valid) :
    ∃ s', pnRun s ops = .ok (s', absOutsPN f ops) ∧ PNAbsRel s' (absAfterPN f ops) := by
  induction ops generalizing s f with
  | nil => exact ⟨s, rfl, hr⟩
  | cons op ops ih =>
    obtain ⟨s1, h1, r1⟩ := pn_step_abs s f hr op (hv op (List.mem_cons_self))
    obtain ⟨s2, h2, r2⟩ := ih s1 _ r1 (fun o ho => hv o (List.mem_cons_of_mem _ ho))
    refine ⟨s2, ?_, r2⟩
    simp [pnRun, h1, h2, bind, Except.bind, absOutsPN]

/-- outputs of one channel's abstraction over a list of messages -/
def chanOutsPN (c : Nat) (a : PNAbs) : List Bytes → List (Option PNMsg)
  | [] => []
  | b :: bs => justPN a b :: chanOutsPN c (a.step c (.feed b)) bs

def chanAfterPN (c : Nat) (a : PNAbs) : List Bytes → PNAbs
  | [] => a
  | b :: bs => chanAfterPN c (a.step c (.feed b)) bs

/-- a stream of messages that are all on channel c only consults and moves channel c's abstraction -/
theorem absOuts_single_channel (c : Nat) (f : Nat → PNAbs) (bs : List Bytes) (hb : ∀ b ∈ bs, b.status = 176 + c) :
    absOutsPN f (bs.map .feed) = chanOutsPN c (f c) bs ∧ absAfterPN f (bs.map .feed) c = chanAfterPN c (f c) bs := by
  induction bs generalizing f with
  | nil => exact ⟨rfl, rfl⟩
  | cons b bs ih =>
    have hbs := hb b (List.mem_cons_self)
    have e : b.status - 176 = c := by omega
    have := ih (fun c' => (f c').step c' (.feed b)) (fun x hx => hb x (List.mem_cons_of_mem _ hx))
    simp only [List.map, absOutsPN, absOutPN, chanOutsPN, absAfterPN, chanAfterPN, e]
    exact ⟨by rw [this.1], this.2⟩

theorem chanOutsPN_append (c : Nat) (a : PNAbs) (xs ys : List Bytes) :
    chanOutsPN c a (xs ++ ys) = chanOutsPN c a xs ++ chanOutsPN c (chanAfterPN c a xs) ys := by
  induction xs generalizing a with
  | nil => rfl
  | cons x xs ih => simp [chanOutsPN, chanAfterPN, ih]

/-! ### data independence: helper lemmas for Props/C11 -/

theorem foldl_relabel {α : Type} (g : α → α) (st : α → Op → α) (f : Nat → Nat)
    (h : ∀ acc op, st (g acc) (relabelOp f op) = g (st acc op)) (past : List Op) (acc : α) :
    (past.map (relabelOp f)).foldl st (g acc) = g (past.foldl st acc) := by
  induction past generalizing acc with
  | nil => rfl
  | cons op ops ih => simp only [List.map_cons, List.foldl_cons, h, ih]

theorem foldl_inv {α : Type} (P : α → Prop) (st : α → Op → α)
    (h : ∀ acc op, op.Valid → P acc → P (st acc op)) (past : List Op) (hp : ∀ op ∈ past, op.Valid) (acc : α)
    (ha : P acc) : P (past.foldl st acc) := by
  induction past generalizing acc with
  | nil => exact ha
  | cons op ops ih =>
    exact ih (fun o ho => hp o (List.mem_cons_of_mem _ ho)) _ (h acc op (hp op (List.mem_cons_self ..)) ha)

/-- on a channel below 16, relabelling does not change whether a message is a Control Change on it, nor its controller number -/
theorem relabelB_cc (f : Nat → Nat) (c : Nat) (hc : c < 16) (b : Bytes) :
    ccOn c (relabelB f b) = ccOn c b ∧ (relabelB f b).d1 = b.d1 ∧
      (ccOn c b = true → (relabelB f b).d2 = f b.d2) := by
  unfold relabelB ccOn
  by_cases h : 176 ≤ b.status ∧ b.status < 192
  · simp [h]
  · have : (b.status == 176 + c) = false := by simp only [beq_eq_false_iff_ne]; omega
    simp [h, this]

theorem numMsbStep_relabel (f : Nat → Nat) (c : Nat) (hc : c < 16) (acc : Option Nat) (op : Op) :
    numMsbStep c (acc.map f) (relabelOp f op) = (numMsbStep c acc op).map f := by
  cases op with
  | reset => simp [numMsbStep, relabelOp]
  | feed b =>
    obtain ⟨h1, h2, h3⟩ := relabelB_cc f c hc b
    simp only [numMsbStep, relabelOp, h1, h2]
    by_cases hcc : ccOn c b = true
    · by_cases hn : isNumberMsbCn b.d1 = true <;> simp [hcc, hn, h3 hcc]
    · simp [hcc]

theorem numLsbStep_relabel (f : Nat → Nat) (c : Nat) (hc : c < 16) (acc : Option Nat) (op : Op) :
    numLsbStep c (acc.map f) (relabelOp f op) = (numLsbStep c acc op).map f := by
  cases op with
  | reset => simp [numLsbStep, relabelOp]
  | feed b =>
    obtain ⟨h1, h2, h3⟩ := relabelB_cc f c hc b
    simp only [numLsbStep, relabelOp, h1, h2]
    by_cases hcc : ccOn c b = true
    · by_cases hn : isNumberLsbCn b.d1 = true <;> simp [hcc, hn, h3 hcc]
    · simp [hcc]

theorem regStep_relabel (f : Nat → Nat) (c : Nat) (hc : c < 16) (acc : Bool) (op : Op) :
    regStep c acc (relabelOp f op) = regStep c acc op := by
  cases op with
  | reset => simp [regStep, relabelOp]
  | feed b =>
    obtain ⟨h1, h2, _⟩ := relabelB_cc f c hc b
    simp only [regStep, relabelOp, h1, h2]

theorem v38Step_relabel (f : Nat → Nat) (c : Nat) (hc : c < 16) (acc : Option Nat) (op : Op) :
    v38Step c (acc.map f) (relabelOp f op) = (v38Step c acc op).map f := by
  cases op with
  | reset => simp [v38Step, relabelOp]
  | feed b =>
    obtain ⟨h1, h2, h3⟩ := relabelB_cc f c hc b
    simp only [v38Step, relabelOp, h1, h2]
    by_cases hcc : ccOn c b = true
    · by_cases hn : (isNumberMsbCn b.d1 || isNumberLsbCn b.d1) = true
      · simp [hcc, hn]
      · by_cases h38 : (b.d1 == 38) = true <;> simp [hcc, hn, h38, h3 hcc]
    · simp [hcc]

/-- every stored byte of a valid history is a 7-bit value -/
def optLt (o : Option Nat) : Prop := ∀ v, o = some v → v < 128

theorem numMsb_lt (c : Nat) (past : List Op) (hp : ∀ op ∈ past, op.Valid) : optLt (numMsb past c) := by
  apply foldl_inv optLt (numMsbStep c) _ past hp none (by simp [optLt])
  intro acc op hv ha
  cases op with
  | reset => simp [numMsbStep, optLt]
  | feed b =>
    simp only [numMsbStep]; split
    · intro v hvv; cases hvv; exact hv.2.2.2
    · exact ha

theorem numLsb_lt (c : Nat) (past : List Op) (hp : ∀ op ∈ past, op.Valid) : optLt (numLsb past c) := by
  apply foldl_inv optLt (numLsbStep c) _ past hp none (by simp [optLt])
  intro acc op hv ha
  cases op with
  | reset => simp [numLsbStep, optLt]
  | feed b =>
    simp only [numLsbStep]; split
    · intro v hvv; cases hvv; exact hv.2.2.2
    · exact ha

theorem v38_lt (c : Nat) (past : List Op) (hp : ∀ op ∈ past, op.Valid) : optLt (v38Of past c) := by
  apply foldl_inv optLt (v38Step c) _ past hp none (by simp [optLt])
  intro acc op hv ha
  cases op with
  | reset => simp [v38Step, optLt]
  | feed b =>
    simp only [v38Step]; split
    · simp [optLt]
    · split
      · intro v hvv; cases hvv; exact hv.2.2.2
      · exact ha

end Midi
