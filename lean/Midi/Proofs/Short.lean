/- Helper lemmas about the short-message model (used by the property theorems C01–C03, C06). -/
import Midi.Model.Short
import Midi.Spec.MidiTable
import Midi.Proofs.Bits
namespace Midi
open Midi.Spec

theorem extractType_fin : ∀ s : Fin 256,
    extractType s.val = .ok (if 128 ≤ s.val then some (specType s.val) else none) := by decide +kernel

/-- `extract_type_from_status_byte` succeeds exactly from 0x80 up and then follows the MIDI table -/
theorem extractType_spec (s : Nat) (h : s < 256) :
    extractType s = .ok (if 128 ≤ s then some (specType s) else none) := extractType_fin ⟨s, h⟩

theorem extractType_valid (s : Nat) (h1 : 128 ≤ s) (h : s < 256) :
    extractType s = .ok (some (specType s)) := by rw [extractType_spec s h, if_pos h1]

theorem extractType_invalid (s : Nat) (h1 : s < 128) : extractType s = .ok none := by
  rw [extractType_spec s (by omega), if_neg (by omega)]

/-- case split of a valid status byte into the 7 channel types and 16 system bytes -/
theorem status_cases (s : Nat) (h1 : 128 ≤ s) (h2 : s < 256) :
    (s / 16 = 8 ∨ s / 16 = 9 ∨ s / 16 = 10 ∨ s / 16 = 11 ∨ s / 16 = 12 ∨ s / 16 = 13 ∨ s / 16 = 14) ∨
    (s = 240 ∨ s = 241 ∨ s = 242 ∨ s = 243 ∨ s = 244 ∨ s = 245 ∨ s = 246 ∨ s = 247 ∨ s = 248 ∨ s = 249
      ∨ s = 250 ∨ s = 251 ∨ s = 252 ∨ s = 253 ∨ s = 254 ∨ s = 255) := by omega

theorem qf_ofU7 (d : Nat) (h : d < 128) : QFrame.ofU7 d = .ok (specQFrame d) := by
  have : ∀ d : Fin 128, QFrame.ofU7 d.val = .ok (specQFrame d.val) := by decide +kernel
  exact this ⟨d, h⟩

theorem qf_toU7_spec (d : Nat) (h : d < 128) :
    (specQFrame d).toU7 = if d / 16 = 7 then d - d / 8 % 2 * 8 else d := by
  have : ∀ d : Fin 128, (specQFrame d.val).toU7 = if d.val / 16 = 7 then d.val - d.val / 8 % 2 * 8 else d.val := by
    decide +kernel
  exact this ⟨d, h⟩

theorem specQFrame_valid (d : Nat) (h : d < 128) : (specQFrame d).Valid := by
  have : ∀ d : Fin 128, (specQFrame d.val).Valid := by decide +kernel
  exact this ⟨d, h⟩

/-- `StructuredShortMessage::from_bytes_unchecked` yields the structured form the MIDI table prescribes -/
theorem structured_ofBytes (b : Bytes) (hv : b.Valid) : SMsg.ofBytesUnchecked b = .ok (specStructured b) := by
  obtain ⟨s, d1, d2⟩ := b
  obtain ⟨h1, h2, h3, h4⟩ := hv
  simp only at h1 h2 h3 h4
  unfold SMsg.ofBytesUnchecked
  simp only [extractType_valid s h1 h2]
  rcases status_cases s h1 h2 with h | h
  · rcases h with h | h | h | h | h | h | h <;>
      simp [specStructured, specType, h, build14_eq, h3, h4, bind, Except.bind]
  · rcases h with h | h | h | h | h | h | h | h | h | h | h | h | h | h | h | h <;>
      simp [specStructured, specType, h, build14_eq, h3, h4, bind, Except.bind, qf_ofU7]

theorem structured_ofBytes_invalid (b : Bytes) (h : b.status < 128) :
    SMsg.ofBytesUnchecked b = .error .structuredInvalidStatus := by
  unfold SMsg.ofBytesUnchecked
  simp [extractType_invalid b.status h, bind, Except.bind]

theorem canonD1_facts (s d : Nat) (h : d < 128) :
    canonD1 s (canonD1 s d) = canonD1 s d ∧ canonD1 s d ≤ d := by
  by_cases hs : s = 241
  · subst hs
    have : ∀ d : Fin 128, canonD1 241 (canonD1 241 d.val) = canonD1 241 d.val ∧ canonD1 241 d.val ≤ d.val := by
      decide +kernel
    exact this ⟨d, h⟩
  · unfold canonD1; by_cases c : specDataLen s ≥ 1 <;> simp [hs, c]

/-- the bytes of an implementor's value as seen through its three getters -/
def bytesOf {α} (I : Impl α) (x : α) : Bytes := ⟨I.status x, I.d1 x, I.d2 x⟩

/-- an implementor is lawful at `x`: `to_bytes` agrees with the getters and an overridden
    `to_structured` agrees with the default one -/
def Impl.LawfulAt {α} (I : Impl α) (x : α) : Prop :=
  I.toBytes x = bytesOf I x ∧
  ∀ f, I.toStructuredOverride = some f → SMsg.ofBytesUnchecked (I.toBytes x) = .ok (f x)

theorem rawImpl_lawful (b : Bytes) : rawImpl.LawfulAt b := by
  constructor
  · rfl
  · intro f hf; simp [rawImpl] at hf

theorem msgType_spec {α} (I : Impl α) (x : α) (h1 : 128 ≤ I.status x) (h2 : I.status x < 256) :
    msgType I x = .ok (specType (I.status x)) := by
  unfold msgType
  simp [extractType_valid _ h1 h2, bind, Except.bind]

theorem toStructured_spec {α} (I : Impl α) (x : α) (hl : I.LawfulAt x) (hv : (bytesOf I x).Valid) :
    toStructured I x = .ok (specStructured (bytesOf I x)) := by
  unfold toStructured
  obtain ⟨hb, ho⟩ := hl
  cases hov : I.toStructuredOverride with
  | none => simp only; rw [hb]; exact structured_ofBytes _ hv
  | some f =>
    simp only
    have := ho f hov
    rw [hb, structured_ofBytes _ hv] at this
    injection this with this
    rw [this]

end Midi
