/- Lemmas about the models of `from_str` and `Display` for unsigned integers. -/
import Midi.Spec.Numeric
set_option linter.unusedSimpArgs false
namespace Midi
open Midi.Spec

theorem digitsValue_ge (cs : List Char) (acc : Nat) : acc ≤ digitsValue cs acc := by
  induction cs generalizing acc with
  | nil => simp [digitsValue]
  | cons c cs ih =>
    simp only [digitsValue]
    have := ih (acc * 10 + (c.toNat - 48))
    omega

theorem parseDigits_spec (maxv : Nat) (cs : List Char) (acc v : Nat) :
    parseDigits maxv cs acc = some v ↔
      ((∀ c ∈ cs, c.isDigit = true) ∧ digitsValue cs acc = v ∧ (cs ≠ [] → v ≤ maxv)) := by
  induction cs generalizing acc with
  | nil => simp [parseDigits, digitsValue]
  | cons c cs ih =>
    simp only [parseDigits, digitsValue]
    by_cases hd : c.isDigit = true
    · simp only [hd, if_true]
      by_cases ho : acc * 10 + (c.toNat - 48) > maxv
      · simp only [ho, if_true]
        constructor
        · intro h; cases h
        · rintro ⟨_, h2, h3⟩
          have := digitsValue_ge cs (acc * 10 + (c.toNat - 48))
          have := h3 (by simp)
          omega
      · simp only [ho, if_false]
        rw [ih]
        constructor
        · rintro ⟨h1, h2, h3⟩
          refine ⟨?_, h2, ?_⟩
          · intro c' hc'
            cases hc' with
            | head => exact hd
            | tail _ h => exact h1 c' h
          · intro _
            by_cases hn : cs = []
            · subst hn; simp [digitsValue] at h2; omega
            · exact h3 hn
        · rintro ⟨h1, h2, h3⟩
          refine ⟨fun c' hc' => h1 c' (List.mem_cons_of_mem _ hc'), h2, fun _ => h3 (by simp)⟩
    · simp only [hd]
      constructor
      · intro h; simp at h
      · rintro ⟨h1, _, _⟩
        exact absurd (h1 c (List.mem_cons_self)) hd

theorem parsePrim_spec (maxv : Nat) (s : List Char) (v : Nat) :
    parsePrim maxv s = some v ↔ IsNumeral s ∧ numeralValue s = v ∧ v ≤ maxv := by
  unfold parsePrim IsNumeral numeralValue
  split
  · simp
  · simp
  · simp
  · rename_i rest h1
    rw [parseDigits_spec]
    simp only
    constructor
    · rintro ⟨a, b, c⟩
      have hne : rest ≠ [] := by intro hr; subst hr; simp at h1
      exact ⟨⟨hne, a⟩, b, c hne⟩
    · rintro ⟨⟨a, b⟩, c, d⟩
      exact ⟨b, c, fun _ => d⟩
  · rename_i h1 h2 h3 h4
    rw [parseDigits_spec]
    have hne : s ≠ [] := by intro hr; subst hr; simp at h1
    split
    · rename_i r
      -- s = '+' :: r, r ≠ [] by h4?  impossible: excluded by the previous arms unless r = []
      exfalso
      cases r with
      | nil => exact h2 rfl
      | cons c cs => exact h4 _ rfl
    · constructor
      · rintro ⟨a, b, c⟩; exact ⟨⟨hne, a⟩, b, c hne⟩
      · rintro ⟨⟨a, b⟩, c, d⟩; exact ⟨b, c, fun _ => d⟩

theorem digitsValue_append (xs : List Char) (c : Char) (acc : Nat) :
    digitsValue (xs ++ [c]) acc = digitsValue xs acc * 10 + (c.toNat - 48) := by
  induction xs generalizing acc with
  | nil => simp [digitsValue]
  | cons x xs ih => simp [digitsValue, ih]

theorem digitChar (d : Nat) (h : d < 10) : (Char.ofNat (48 + d)).isDigit = true ∧ (Char.ofNat (48 + d)).toNat - 48 = d
    ∧ Char.ofNat (48 + d) ≠ '+' := by
  have : ∀ d : Fin 10, (Char.ofNat (48 + d.val)).isDigit = true ∧ (Char.ofNat (48 + d.val)).toNat - 48 = d.val
    ∧ Char.ofNat (48 + d.val) ≠ '+' := by decide
  exact this ⟨d, h⟩

theorem displayNat_spec (n : Nat) :
    (∀ c ∈ displayNat n, c.isDigit = true) ∧ digitsValue (displayNat n) 0 = n ∧ displayNat n ≠ [] := by
  induction n using Nat.strongRecOn with
  | _ n ih =>
    unfold displayNat
    by_cases h : n < 10
    · simp only [h, dite_true]
      have := digitChar n h
      simp [digitsValue, this.1, this.2.1]
    · simp only [h, dite_false]
      have ihn := ih (n / 10) (by omega)
      have := digitChar (n % 10) (by omega)
      refine ⟨?_, ?_, by simp⟩
      · intro c hc
        rcases List.mem_append.mp hc with hc | hc
        · exact ihn.1 c hc
        · simp at hc; rw [hc]; exact this.1
      · rw [digitsValue_append, ihn.2.1, this.2.1]; omega

/-- no leading zero (for n ≠ 0) and no sign: the first character is a non-zero digit -/
theorem displayNat_head (n : Nat) : ∃ c cs, displayNat n = c :: cs ∧ c.isDigit = true ∧ (n ≠ 0 → c ≠ '0') ∧ (cs ≠ [] → c ≠ '0') := by
  induction n using Nat.strongRecOn with
  | _ n ih =>
    unfold displayNat
    by_cases h : n < 10
    · simp only [h, dite_true]
      refine ⟨_, [], rfl, (digitChar n h).1, ?_, by simp⟩
      intro hn
      have : ∀ d : Fin 10, d.val ≠ 0 → Char.ofNat (48 + d.val) ≠ '0' := by decide
      exact this ⟨n, h⟩ hn
    · simp only [h, dite_false]
      obtain ⟨c, cs, h1, h2, h3, h4⟩ := ih (n / 10) (by omega)
      refine ⟨c, cs ++ [Char.ofNat (48 + n % 10)], by rw [h1]; rfl, h2, fun _ => h3 (by omega), fun _ => h3 (by omega)⟩

end Midi
