/-
control_change_14_bit_message.rs and parameter_number_message.rs as TRANSLATED (Midi.Gen.CCMsg, Midi.Gen.PNMsgFile,
regenerated on every run): constructors, getters and `to_short_messages` compute exactly what the hand-written
model (Midi.Model.CC14, Midi.Model.PN) computes.
-/
import Midi.Gen.CCMsg
import Midi.Gen.PNMsgFile
import Midi.Proofs.GenTie
set_option linter.unusedSimpArgs false
set_option linter.unusedVariables false
namespace Midi.GenTie
open Midi Midi.Spec Midi.Gen

namespace CCM
abbrev GMsg := CCMsg.ControlChange14BitMessage
def msg (m : GMsg) : CC14Msg := ⟨m.channel, m.msb_controller_number, m.value⟩
def gmsg (m : CC14Msg) : GMsg := ⟨m.channel, m.msb, m.value⟩
@[simp] theorem gmsg_msg (m : GMsg) : gmsg (msg m) = m := rfl
@[simp] theorem msg_gmsg (m : CC14Msg) : msg (gmsg m) = m := rfl

theorem new (channel msb value : Nat) :
    CCMsg.ControlChange14BitMessage.new channel msb value = (CC14Msg.new channel msb value).map gmsg := by
  unfold CCMsg.ControlChange14BitMessage.new CC14Msg.new
  simp only [bind, Except.bind]
  cases cnLsbOf msb with
  | error e => rfl
  | ok o => cases o <;> rfl

theorem lsb (m : GMsg) : m.lsb_controller_number = (msg m).lsb := by
  unfold CCMsg.ControlChange14BitMessage.lsb_controller_number CC14Msg.lsb
  simp only [bind, Except.bind, msg]
  cases cnLsbOf m.msb_controller_number with
  | error e => rfl
  | ok o => cases o <;> rfl

theorem getters (m : GMsg) :
    m.channel_fn = .ok (msg m).channel ∧ m.msb_controller_number_fn = .ok (msg m).msb ∧ m.value_fn = .ok (msg m).value :=
  ⟨rfl, rfl, rfl⟩

theorem to_short_messages {α : Type} (F : Factory α) (m : GMsg) :
    (m.to_short_messages F).map (·.toList) = (msg m).toShortMessages F := by
  unfold CCMsg.ControlChange14BitMessage.to_short_messages CC14Msg.toShortMessages
  simp only [bind, Except.bind, lsb, CCMsg.ControlChange14BitMessage.msb_controller_number_fn, msg]
  cases mkControlChange F m.channel m.msb_controller_number (extractHigh7 m.value) with
  | error e => rfl
  | ok a =>
    simp only
    cases CC14Msg.lsb ⟨m.channel, m.msb_controller_number, m.value⟩ with
    | error e => rfl
    | ok l =>
      simp only
      cases mkControlChange F m.channel l (extractLow7 m.value) <;> rfl

/-- `From<ControlChange14BitMessage> for [T; 2]` is `to_short_messages` -/
theorem from_array {α : Type} (F : Factory α) (m : GMsg) :
    CCMsg.ControlChange14BitMessage.from_array F m = m.to_short_messages F := by
  unfold CCMsg.ControlChange14BitMessage.from_array
  cases m.to_short_messages F <;> rfl

end CCM

namespace PNM
abbrev GMsg := PNMsgFile.ParameterNumberMessage
def dt : PNMsgFile.DataType_ → DataType
  | .DataEntry => .dataEntry | .DataIncrement => .dataIncrement | .DataDecrement => .dataDecrement
def gdt : DataType → PNMsgFile.DataType_
  | .dataEntry => .DataEntry | .dataIncrement => .DataIncrement | .dataDecrement => .DataDecrement
@[simp] theorem gdt_dt (d) : gdt (dt d) = d := by cases d <;> rfl
@[simp] theorem dt_gdt (d) : dt (gdt d) = d := by cases d <;> rfl
def ord : PNMsgFile.DataEntryByteOrder → ByteOrder
  | .MsbFirst => .msbFirst | .LsbFirst => .lsbFirst
def msg (m : GMsg) : PNMsg := ⟨m.channel, m.number, m.value, m.is_registered, m.is_14_bit, dt m.data_type⟩
def gmsg (m : PNMsg) : GMsg := ⟨m.channel, m.number, m.value, m.isRegistered, m.is14Bit, gdt m.dataType⟩
@[simp] theorem gmsg_msg (m : GMsg) : gmsg (msg m) = m := by simp [gmsg, msg]
@[simp] theorem msg_gmsg (m : PNMsg) : msg (gmsg m) = m := by simp [gmsg, msg]

theorem seven_bit (c n v : Nat) (r : Bool) (d : PNMsgFile.DataType_) :
    PNMsgFile.ParameterNumberMessage.seven_bit c n v r d = .ok (gmsg (PNMsg.sevenBit c n v r (dt d))) := by
  simp [PNMsgFile.ParameterNumberMessage.seven_bit, gmsg, PNMsg.sevenBit]

theorem fourteen_bit (c n v : Nat) (r : Bool) :
    PNMsgFile.ParameterNumberMessage.fourteen_bit c n v r = .ok (gmsg (PNMsg.fourteenBit c n v r)) := rfl

/-- the eight public constructors, in declaration order, against the hand-written constructor table -/
theorem ctors (c n v : Nat) :
    PNMsgFile.ParameterNumberMessage.non_registered_7_bit c n v = .ok (gmsg (PNMsg.ctor 0 c n v)) ∧
    PNMsgFile.ParameterNumberMessage.non_registered_14_bit c n v = .ok (gmsg (PNMsg.ctor 1 c n v)) ∧
    PNMsgFile.ParameterNumberMessage.non_registered_decrement c n v = .ok (gmsg (PNMsg.ctor 2 c n v)) ∧
    PNMsgFile.ParameterNumberMessage.non_registered_increment c n v = .ok (gmsg (PNMsg.ctor 3 c n v)) ∧
    PNMsgFile.ParameterNumberMessage.registered_7_bit c n v = .ok (gmsg (PNMsg.ctor 4 c n v)) ∧
    PNMsgFile.ParameterNumberMessage.registered_14_bit c n v = .ok (gmsg (PNMsg.ctor 5 c n v)) ∧
    PNMsgFile.ParameterNumberMessage.registered_decrement c n v = .ok (gmsg (PNMsg.ctor 6 c n v)) ∧
    PNMsgFile.ParameterNumberMessage.registered_increment c n v = .ok (gmsg (PNMsg.ctor 7 c n v)) := by
  refine ⟨rfl, rfl, rfl, rfl, rfl, rfl, rfl, rfl⟩

theorem getters (m : GMsg) :
    m.channel_fn = .ok (msg m).channel ∧ m.number_fn = .ok (msg m).number ∧ m.value_fn = .ok (msg m).value ∧
    m.is_14_bit_fn = .ok (msg m).is14Bit ∧ m.is_registered_fn = .ok (msg m).isRegistered ∧
    (m.data_type_fn).map dt = .ok (msg m).dataType :=
  ⟨rfl, rfl, rfl, rfl, rfl, rfl⟩

theorem to_short_messages {α : Type} (F : Factory α) (m : GMsg) (o : PNMsgFile.DataEntryByteOrder) :
    (m.to_short_messages F o).map (·.toList) = (msg m).toShortMessages F (ord o) := by
  obtain ⟨c, n, v, r, b, d⟩ := m
  have hm : msg ⟨c, n, v, r, b, d⟩ = ⟨c, n, v, r, b, dt d⟩ := rfl
  rw [hm]
  unfold PNMsgFile.ParameterNumberMessage.to_short_messages PNMsg.toShortMessages
  simp only [bind, Except.bind, PNMsgFile.ParameterNumberMessage.build_data_entry_msb_msg,
    PNMsgFile.ParameterNumberMessage.build_data_entry_lsb_msg, PNMsgFile.ParameterNumberMessage.build_data_inc_dec_msg]
  generalize mkControlChange F c (if r = true then Gen.CN.REGISTERED_PARAMETER_NUMBER_MSB else Gen.CN.NON_REGISTERED_PARAMETER_NUMBER_MSB) (extractHigh7 n) = r1
  generalize mkControlChange F c (if r = true then Gen.CN.REGISTERED_PARAMETER_NUMBER_LSB else Gen.CN.NON_REGISTERED_PARAMETER_NUMBER_LSB) (extractLow7 n) = r2
  generalize mkControlChange F c Gen.CN.DATA_ENTRY_MSB (if b = true then extractHigh7 v else v % 256) = r3
  generalize mkControlChange F c Gen.CN.DATA_ENTRY_MSB_LSB (extractLow7 v) = r4
  generalize mkControlChange F c Gen.CN.DATA_INCREMENT (extractLow7 v) = r5
  generalize mkControlChange F c Gen.CN.DATA_DECREMENT (extractLow7 v) = r6
  cases r1 <;> cases r2 <;> cases d <;> cases o <;> cases b <;> simp [dt, ord, Except.map] <;>
    cases r3 <;> cases r4 <;> cases r5 <;> cases r6 <;> first | rfl | simp
/-- `From<ParameterNumberMessage> for [Option<T>; 4]` is the MSB-first encoding -/
theorem from_array {α : Type} (F : Factory α) (m : GMsg) :
    PNMsgFile.ParameterNumberMessage.from_array F m = m.to_short_messages F .MsbFirst := by
  unfold PNMsgFile.ParameterNumberMessage.from_array
  cases m.to_short_messages F .MsbFirst <;> rfl

end PNM
end Midi.GenTie
