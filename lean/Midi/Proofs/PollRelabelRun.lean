/-
Relabelling whole polling-scanner histories (TOp): validity, and commutation with the per-channel projection.
Helper lemmas for Props/TPoll `data_independent`.
-/
import Midi.Props.C14
set_option linter.unusedSimpArgs false
namespace Midi
open Midi.Spec

def relabelTOp (f : Nat → Nat) : TOp → TOp
  | .feed b => .feed (relabelB f b)
  | o => o

theorem relabelTOp_valid (f : Nat → Nat) (hf : ∀ v, v < 128 → f v < 128) (ops : List TOp) (hv : ∀ op ∈ ops, op.Valid) :
    ∀ op ∈ ops.map (relabelTOp f), op.Valid := by
  intro op ho
  obtain ⟨o, hin, rfl⟩ := List.mem_map.1 ho
  cases o with
  | feed b => exact relabelB_valid f hf b (hv _ hin)
  | poll ch => exact hv _ hin
  | reset => trivial
  | tick d => trivial

theorem projectOp_relabel (f : Nat → Nat) (c : Nat) (hc : c < 16) (now : Nat) (op : TOp) :
    projectOp c now (relabelTOp f op) = (projectOp c now op).map (relabelEv f) ∧ nextNow now (relabelTOp f op) = nextNow now op := by
  cases op with
  | feed b =>
    simp only [relabelTOp, projectOp, relabelB, nextNow, and_true]
    by_cases h : 176 ≤ b.status ∧ b.status < 192
    · have h3 : 176 + c < 192 := by omega
      by_cases h2 : b.status = 176 + c <;> simp [h, h2, h3, relabelEv]
    · have : b.status ≠ 176 + c := by omega
      simp [h, this]
  | poll ch => simp only [relabelTOp, projectOp, nextNow, and_true]; split <;> simp [relabelEv]
  | reset => simp [relabelTOp, projectOp, nextNow, relabelEv]
  | tick d => simp [relabelTOp, projectOp, nextNow]

theorem project_relabel (f : Nat → Nat) (c : Nat) (hc : c < 16) (now : Nat) (ops : List TOp) :
    project c now (ops.map (relabelTOp f)) = (project c now ops).map (relabelEv f) := by
  induction ops generalizing now with
  | nil => rfl
  | cons op ops ih =>
    obtain ⟨h1, h2⟩ := projectOp_relabel f c hc now op
    simp only [List.map_cons, project, h1, h2]
    cases projectOp c now op <;> simp [ih]

theorem projectEv_valid (c now : Nat) (ops : List TOp) (hv : ∀ op ∈ ops, op.Valid) : ∀ e ∈ project c now ops, e.Valid := by
  intro e he
  have h := Props.C14.project_valid c now ops hv e he
  cases e with
  | cc cn cv t => exact h.2
  | poll t => trivial
  | reset => trivial

end Midi
