/-
The inherent methods of ControllerNumber (controller_number_mod.rs) as TRANSLATED (Midi.Gen.CnPredicates) are the
hand-written predicates of Midi.Model.Types.
-/
import Midi.Gen.CnPredicates
import Midi.Proofs.GenTie
set_option linter.unusedSimpArgs false
set_option linter.unusedVariables false
namespace Midi.GenTie
open Midi Midi.Gen
namespace CN
open Midi.Gen.CnPredicates

theorem can_be_part (n : Nat) : ControllerNumber.can_be_part_of_14_bit_control_change_message n = .ok (cnCanBePartOf14 n) := rfl

theorem lsb_of (n : Nat) : ControllerNumber.corresponding_14_bit_lsb_controller_number n = cnLsbOf n := by
  unfold ControllerNumber.corresponding_14_bit_lsb_controller_number cnLsbOf
  by_cases h : n ≥ 32 <;> by_cases h2 : n + 32 < 256 <;> simp [h, h2] <;> omega

theorem is_parameter_number (n : Nat) :
    ControllerNumber.is_parameter_number_message_controller_number n = .ok (cnIsParameterNumber n) := by
  rfl

theorem is_channel_mode (n : Nat) :
    ControllerNumber.is_channel_mode_message_controller_number n = .ok (cnIsChannelMode n) := by
  unfold ControllerNumber.is_channel_mode_message_controller_number cnIsChannelMode
  rfl

end CN
end Midi.GenTie
