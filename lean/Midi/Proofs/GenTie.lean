/-
Shared pieces of the translator tie: the modules under Midi/Gen that tools/rs2lean.py regenerates from the Rust
source on every run are proved to behave exactly like the hand-written model the property theorems are about.
-/
import Midi.Gen.Prelude
import Midi.Spec.Runs
set_option linter.unusedSimpArgs false
set_option linter.unusedVariables false
namespace Midi.GenTie
open Midi Midi.Spec Midi.Gen

theorem forEachMut_ok {α : Type} {n : Nat} (v : Vector α n) (f : α → Res α) (g : α → α)
    (h : ∀ x, f x = .ok (g x)) : forEachMut v f = .ok (v.map g) := by
  unfold forEachMut
  have : f = fun x => pure (g x) := by funext x; rw [h]; rfl
  rw [this]
  simp [Vector.mapM_pure]
  rfl

/-- case-split every `match`/`if` on both sides, then close each case by rewriting with what the case says -/
macro "crunch" : tactic =>
  `(tactic| ((repeat' split) <;> (try simp_all) <;> (try subst_vars) <;> (try simp_all) <;> (try omega)))

/-- a hand-model result `(state, output)` read in the translated shape `(output, state)` -/
def back {α σ τ : Type} (f : σ → τ) (r : Res (σ × α)) : Res (α × τ) :=
  match r with
  | .ok p => .ok (p.2, f p.1)
  | .error e => .error e

end Midi.GenTie
