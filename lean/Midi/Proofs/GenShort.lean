/-
The default methods of the traits ShortMessage (short_message.rs) and ShortMessageFactory (short_message_factory.rs)
and the inherent methods of the classification enums, as TRANSLATED (Midi.Gen.ShortMsg, Midi.Gen.FactoryDefaults,
regenerated on every run), are the functions of the hand-written model (Midi.Model.Short / Types), method by method.
-/
import Midi.Gen.ShortMsg
import Midi.Gen.FactoryDefaults
import Midi.Proofs.GenTie
set_option linter.unusedSimpArgs false
set_option linter.unusedVariables false
namespace Midi.GenTie
open Midi Midi.Gen

/-- `do let v ← r; .ok v` is `r` -/
@[simp] theorem bind_ok' {β : Type} (r : Res β) : (r >>= fun v => Except.ok v) = r := by cases r <;> rfl

namespace QF
open Midi.Gen.ShortMsg

theorem extract_type (s : Nat) : extract_type_from_status_byte s = extractType s := by
  unfold extract_type_from_status_byte extractType
  simp only [extract_high_nibble_from_byte, bind, Except.bind]
  by_cases h : highNibble s = 15
  · simp [h, highNibble] at *; simp [h]
  · have h' : ¬ ((s >>> 4) &&& 15) = 15 := by simpa [highNibble] using h
    simp only [highNibble] at *
    simp [h']
    have hb : build_byte_from_nibbles ((s >>> 4) &&& 15) 0 = buildByteFromNibbles ((s >>> 4) &&& 15) 0 := by
      unfold build_byte_from_nibbles buildByteFromNibbles
      by_cases h1 : (s >>> 4) &&& 15 ≤ 15 <;> simp [h1]
    rw [hb]

theorem to_u7 (f : QFrame) : U7.from_ f = .ok f.toU7 := by
  cases f <;> rfl

theorem of_u7 (d : Nat) : TimeCodeQuarterFrame.from_ d = QFrame.ofU7 d := by
  unfold TimeCodeQuarterFrame.from_ QFrame.ofU7
  simp only [extract_high_nibble_from_byte, extract_low_nibble_from_byte, bind, Except.bind, highNibble, lowNibble]
  generalize (d >>> 4) &&& 15 = h
  by_cases h0 : h = 0; · subst h0; rfl
  by_cases h1 : h = 1; · subst h1; rfl
  by_cases h2 : h = 2; · subst h2; rfl
  by_cases h3 : h = 3; · subst h3; rfl
  by_cases h4 : h = 4; · subst h4; rfl
  by_cases h5 : h = 5; · subst h5; rfl
  by_cases h6 : h = 6; · subst h6; rfl
  by_cases h7 : h = 7
  · subst h7
    simp only []
    cases TimeCodeType.ofU8 ((d &&& 6) >>> 1) <;> rfl
  · simp [h0, h1, h2, h3, h4, h5, h6, h7]

end QF

namespace SM
open Midi.Gen.ShortMsg
variable {α β : Type}

theorem to_bytes (I : Impl α) (x : α) : ShortMessage.to_bytes I x = .ok ⟨I.status x, I.d1 x, I.d2 x⟩ := rfl

theorem to_other (I : Impl α) (F : Factory β) (x : α) : ShortMessage.to_other I x F = toOther I F x := by
  unfold ShortMessage.to_other toOther
  simp only [bind_ok']

/-- the DEFAULT `to_structured` (types that do not override it) -/
theorem to_structured (I : Impl α) (x : α) : ShortMessage.to_structured I x = SMsg.ofBytesUnchecked (I.toBytes x) := by
  unfold ShortMessage.to_structured
  simp only [to_other, bind_ok']
  rfl

theorem to_structured_default (I : Impl α) (h : I.toStructuredOverride = none) (x : α) :
    ShortMessage.to_structured I x = toStructured I x := by
  rw [to_structured]; unfold toStructured; rw [h]

theorem type_ (I : Impl α) (x : α) : ShortMessage.type_ I x = msgType I x := by
  unfold ShortMessage.type_ msgType
  simp only [bind, Except.bind, QF.extract_type]
  cases extractType (I.status x) with
  | error e => rfl
  | ok o => cases o <;> rfl

theorem super_type (I : Impl α) (x : α) : ShortMessage.super_type I x = superType I x := by
  unfold ShortMessage.super_type superType
  rw [type_]
  simp only [bind, Except.bind]
  cases msgType I x with
  | error e => rfl
  | ok t => cases t <;> first | rfl | (simp only []; split <;> rfl)

theorem main_category (I : Impl α) (x : α) : ShortMessage.main_category I x = mainCategory I x := by
  unfold ShortMessage.main_category mainCategory
  rw [super_type]

theorem is_note_on (I : Impl α) (x : α) : ShortMessage.is_note_on I x = isNoteOn I x := by
  unfold ShortMessage.is_note_on isNoteOn
  simp only [bind, Except.bind]
  cases toStructured I x with
  | error e => rfl
  | ok s => cases s <;> rfl

theorem is_note_off (I : Impl α) (x : α) : ShortMessage.is_note_off I x = isNoteOff I x := by
  unfold ShortMessage.is_note_off isNoteOff
  simp only [bind, Except.bind]
  cases toStructured I x with
  | error e => rfl
  | ok s => cases s <;> rfl

theorem is_note (I : Impl α) (x : α) : ShortMessage.is_note I x = isNote I x := by
  unfold ShortMessage.is_note isNote
  rw [type_]
  simp only [bind, Except.bind]
  cases msgType I x with
  | error e => rfl
  | ok t => cases t <;> rfl

theorem channel (I : Impl α) (x : α) : ShortMessage.channel I x = Midi.channel I x := by
  unfold ShortMessage.channel Midi.channel
  rw [main_category]
  simp only [bind, Except.bind]
  cases mainCategory I x with
  | error e => rfl
  | ok c => cases c <;> rfl

theorem key_number (I : Impl α) (x : α) : ShortMessage.key_number I x = keyNumber I x := by
  unfold ShortMessage.key_number keyNumber
  rw [type_]
  simp only [bind, Except.bind]
  cases msgType I x with
  | error e => rfl
  | ok t => cases t <;> rfl

theorem velocity (I : Impl α) (x : α) : ShortMessage.velocity I x = Midi.velocity I x := by
  unfold ShortMessage.velocity Midi.velocity
  rw [type_]
  simp only [bind, Except.bind]
  cases msgType I x with
  | error e => rfl
  | ok t => cases t <;> rfl

theorem controller_number (I : Impl α) (x : α) : ShortMessage.controller_number I x = controllerNumber I x := by
  unfold ShortMessage.controller_number controllerNumber
  rw [type_]
  simp only [bind, Except.bind]
  cases msgType I x with
  | error e => rfl
  | ok t => cases t <;> rfl

theorem control_value (I : Impl α) (x : α) : ShortMessage.control_value I x = controlValue I x := by
  unfold ShortMessage.control_value controlValue
  rw [type_]
  simp only [bind, Except.bind]
  cases msgType I x with
  | error e => rfl
  | ok t => cases t <;> rfl

theorem program_number (I : Impl α) (x : α) : ShortMessage.program_number I x = programNumber I x := by
  unfold ShortMessage.program_number programNumber
  rw [type_]
  simp only [bind, Except.bind]
  cases msgType I x with
  | error e => rfl
  | ok t => cases t <;> rfl

theorem pressure_amount (I : Impl α) (x : α) : ShortMessage.pressure_amount I x = pressureAmount I x := by
  unfold ShortMessage.pressure_amount pressureAmount
  rw [type_]
  simp only [bind, Except.bind]
  cases msgType I x with
  | error e => rfl
  | ok t => cases t <;> rfl

theorem pitch_bend_value (I : Impl α) (x : α) : ShortMessage.pitch_bend_value I x = pitchBendValue I x := by
  unfold ShortMessage.pitch_bend_value pitchBendValue
  rw [type_]
  simp only [bind, Except.bind]
  cases msgType I x with
  | error e => rfl
  | ok t => cases t <;> rfl

end SM

namespace FD
open Midi.Gen.FactoryDefaults
variable {α β : Type}


theorem from_other (I : Impl α) (F : Factory β) (x : α) : ShortMessageFactory.from_other I F x = fromOther F I x := by
  unfold ShortMessageFactory.from_other fromOther
  simp only [bind_ok']

theorem channel_message (F : Factory β) (t : MsgType) (ch d1 d2 : Nat) :
    ShortMessageFactory.channel_message F t ch d1 d2 = channelMessage F t ch d1 d2 := by
  unfold ShortMessageFactory.channel_message channelMessage
  simp only [bind_ok']
  cases h : t.superType <;> simp

theorem system_common_message (F : Factory β) (t : MsgType) (d1 d2 : Nat) :
    ShortMessageFactory.system_common_message F t d1 d2 = systemCommonMessage F t d1 d2 := by
  unfold ShortMessageFactory.system_common_message systemCommonMessage
  simp only [bind_ok']
  cases h : t.superType <;> simp

theorem system_real_time_message (F : Factory β) (t : MsgType) :
    ShortMessageFactory.system_real_time_message F t = systemRealTimeMessage F t := by
  unfold ShortMessageFactory.system_real_time_message systemRealTimeMessage
  simp only [bind_ok']
  cases h : t.superType <;> simp

/-- the named constructors with arguments -/
theorem named (F : Factory β) (ch a b v : Nat) (f : QFrame) :
    ShortMessageFactory.note_on F ch a b = mkNoteOn F ch a b ∧
    ShortMessageFactory.note_off F ch a b = mkNoteOff F ch a b ∧
    ShortMessageFactory.control_change F ch a b = mkControlChange F ch a b ∧
    ShortMessageFactory.program_change F ch a = mkProgramChange F ch a ∧
    ShortMessageFactory.polyphonic_key_pressure F ch a b = mkPolyphonicKeyPressure F ch a b ∧
    ShortMessageFactory.channel_pressure F ch a = mkChannelPressure F ch a ∧
    ShortMessageFactory.pitch_bend_change F ch v = mkPitchBendChange F ch v ∧
    ShortMessageFactory.time_code_quarter_frame F f = mkTimeCodeQuarterFrame F f ∧
    ShortMessageFactory.song_position_pointer F v = mkSongPositionPointer F v ∧
    ShortMessageFactory.song_select F a = mkSongSelect F a := by
  refine ⟨?_, ?_, ?_, ?_, ?_, ?_, ?_, ?_, ?_, ?_⟩ <;>
    simp only [ShortMessageFactory.note_on, ShortMessageFactory.note_off, ShortMessageFactory.control_change,
      ShortMessageFactory.program_change, ShortMessageFactory.polyphonic_key_pressure, ShortMessageFactory.channel_pressure,
      ShortMessageFactory.pitch_bend_change, ShortMessageFactory.time_code_quarter_frame,
      ShortMessageFactory.song_position_pointer, ShortMessageFactory.song_select,
      mkNoteOn, mkNoteOff, mkControlChange, mkProgramChange, mkPolyphonicKeyPressure, mkChannelPressure, mkPitchBendChange,
      mkTimeCodeQuarterFrame, mkSongPositionPointer, mkSongSelect, bind_ok']

/-- the parameterless constructors -/
theorem plain (F : Factory β) :
    ShortMessageFactory.system_exclusive_start F = mkSystemExclusiveStart F ∧
    ShortMessageFactory.tune_request F = mkPlain F .tuneRequest ∧
    ShortMessageFactory.system_exclusive_end F = mkPlain F .systemExclusiveEnd ∧
    ShortMessageFactory.timing_clock F = mkPlain F .timingClock ∧
    ShortMessageFactory.start F = mkPlain F .start ∧
    ShortMessageFactory.continue_ F = mkPlain F .continue ∧
    ShortMessageFactory.stop F = mkPlain F .stop ∧
    ShortMessageFactory.active_sensing F = mkPlain F .activeSensing ∧
    ShortMessageFactory.system_reset F = mkPlain F .systemReset := by
  refine ⟨?_, ?_, ?_, ?_, ?_, ?_, ?_, ?_, ?_⟩ <;>
    simp only [ShortMessageFactory.system_exclusive_start, ShortMessageFactory.tune_request,
      ShortMessageFactory.system_exclusive_end, ShortMessageFactory.timing_clock, ShortMessageFactory.start,
      ShortMessageFactory.continue_, ShortMessageFactory.stop, ShortMessageFactory.active_sensing,
      ShortMessageFactory.system_reset, mkSystemExclusiveStart, mkPlain, bind_ok']

theorem from_bytes {β : Type} (F : Factory β) (b : Bytes) : ShortMessageFactory.from_bytes F b = fromBytes F b := by
  unfold ShortMessageFactory.from_bytes fromBytes
  simp only [bind, Except.bind]
  cases extractType b.status with
  | error e => rfl
  | ok o =>
    cases o with
    | none => rfl
    | some t => rfl

end FD
end Midi.GenTie

namespace Midi.GenTie
open Midi Midi.Gen
namespace EN
open Midi.Gen.ShortMsg
theorem type_super_type (t : MsgType) : ShortMessageType.super_type t = .ok t.superType := by cases t <;> rfl
theorem fuzzy_main_category (s : FuzzySuperType) : FuzzyMessageSuperType.main_category s = .ok s.mainCategory := by
  cases s <;> rfl
theorem super_main_category (s : SuperType) : MessageSuperType.main_category s = .ok s.mainCategory := by
  cases s <;> rfl
end EN
end Midi.GenTie
