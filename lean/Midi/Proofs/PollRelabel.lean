/-
Data independence of the polling scanner's per-channel machine: definitions (relabelling of states, events and
outputs, the 7-bit invariant on stored bytes) and step lemmas for Props/C14 `data_independent`.
-/
import Midi.Proofs.Sentences
set_option linter.unusedSimpArgs false
namespace Midi
open Midi.Spec

/-- all bytes stored in a per-channel state of the polling scanner are 7-bit values -/
def PState.Bytes7 : PState → Prop
  | .waitingForNumber first _ _ => ∀ v, first = some v → v < 128
  | .waitingForFirstValue ns => ns.msb < 128 ∧ ns.lsb < 128
  | .valuePending ns _ first _ => ns.msb < 128 ∧ ns.lsb < 128 ∧ first < 128
  | .fourteenComplete ns a b => ns.msb < 128 ∧ ns.lsb < 128 ∧ a < 128 ∧ b < 128

def NumberState.relabel (f : Nat → Nat) (ns : NumberState) : NumberState := { ns with msb := f ns.msb, lsb := f ns.lsb }

/-- the same state with every stored byte sent through `f` (arrival times, flags and the shape stay) -/
def PState.relabel (f : Nat → Nat) : PState → PState
  | .waitingForNumber first r m => .waitingForNumber (first.map f) r m
  | .waitingForFirstValue ns => .waitingForFirstValue (ns.relabel f)
  | .valuePending ns t first m => .valuePending (ns.relabel f) t (f first) m
  | .fourteenComplete ns a b => .fourteenComplete (ns.relabel f) (f a) (f b)

def relabelPOut (f : Nat → Nat) (o : POut) : POut := (o.1.map (relabelMsg f), o.2.map (relabelMsg f))

theorem relabel_seven (f : Nat → Nat) (hf : ∀ v, v < 128 → f v < 128) (ch a b v : Nat) (r : Bool) (d : DataType)
    (ha : a < 128) (hb : b < 128) :
    PNMsg.sevenBit ch (build14 (f a) (f b)) (f v) r d = relabelMsg f (PNMsg.sevenBit ch (build14 a b) v r d) := by
  have n1 : (128 * a + b) / 128 = a := by omega
  have n2 : (128 * a + b) % 128 = b := by omega
  simp [PNMsg.sevenBit, relabelMsg, Sent.build14_eq' _ _ ha hb, Sent.build14_eq' _ _ (hf a ha) (hf b hb), n1, n2]

theorem relabel_fourteen (f : Nat → Nat) (hf : ∀ v, v < 128 → f v < 128) (ch a b x y : Nat) (r : Bool)
    (ha : a < 128) (hb : b < 128) (hx : x < 128) (hy : y < 128) :
    PNMsg.fourteenBit ch (build14 (f a) (f b)) (build14 (f x) (f y)) r
      = relabelMsg f (PNMsg.fourteenBit ch (build14 a b) (build14 x y) r) := by
  have n1 : (128 * a + b) / 128 = a := by omega
  have n2 : (128 * a + b) % 128 = b := by omega
  have v1 : (128 * x + y) / 128 = x := by omega
  have v2 : (128 * x + y) % 128 = y := by omega
  simp [PNMsg.fourteenBit, relabelMsg, Sent.build14_eq' _ _ ha hb, Sent.build14_eq' _ _ (hf a ha) (hf b hb),
    Sent.build14_eq' _ _ hx hy, Sent.build14_eq' _ _ (hf x hx) (hf y hy), n1, n2, v1, v2]


/-- one Control Change through the per-channel state machine: relabelling the stored bytes and the value byte by
    `f` relabels the next state and the reported messages, and nothing else (time stamps included) -/
theorem onCC_relabel (f : Nat → Nat) (hf : ∀ v, v < 128 → f v < 128) (st : PState) (hs : st.Bytes7)
    (now ch cn cv : Nat) (hcv : cv < 128) :
    (st.relabel f).onCC now ch cn (f cv) = ((st.onCC now ch cn cv).1.relabel f, relabelPOut f (st.onCC now ch cn cv).2) := by
  have S := fun a b v r d ha hb => relabel_seven f hf ch a b v r d ha hb
  have F := fun a b x y r ha hb hx hy => relabel_fourteen f hf ch a b x y r ha hb hx hy
  unfold PState.onCC
  split
  all_goals
    cases st with
    | waitingForNumber first r m =>
      cases first <;> simp [PState.processNumberByte, PState.processValueLsb, PState.processValueMsb,
        PState.processValueIncDec, PState.relabel, relabelPOut, NumberState.relabel] <;>
        (try split) <;> simp [PState.relabel, NumberState.relabel] <;> (try split) <;> simp
    | waitingForFirstValue ns =>
      obtain ⟨a, b, r⟩ := ns
      simp only [PState.Bytes7] at hs
      simp [PState.processNumberByte, PState.processValueLsb, PState.processValueMsb, PState.processValueIncDec,
        PState.relabel, relabelPOut, NumberState.relabel, NumberState.number, S a b _ _ _ hs.1 hs.2] <;>
        (try split) <;> simp
    | valuePending ns t first m =>
      obtain ⟨a, b, r⟩ := ns
      simp only [PState.Bytes7] at hs
      cases m <;>
      simp [PState.processNumberByte, PState.processValueLsb, PState.processValueMsb, PState.processValueIncDec,
        PState.relabel, relabelPOut, NumberState.relabel, NumberState.number, resolvePending, completePending,
        S a b _ _ _ hs.1 hs.2.1, F a b _ _ _ hs.1 hs.2.1 hs.2.2 hcv, F a b _ _ _ hs.1 hs.2.1 hcv hs.2.2] <;>
        (try split) <;> simp
    | fourteenComplete ns x y =>
      obtain ⟨a, b, r⟩ := ns
      simp only [PState.Bytes7] at hs
      simp [PState.processNumberByte, PState.processValueLsb, PState.processValueMsb, PState.processValueIncDec,
        PState.relabel, relabelPOut, NumberState.relabel, NumberState.number,
        S a b _ _ _ hs.1 hs.2.1, F a b _ _ _ hs.1 hs.2.1 hs.2.2.1 hcv] <;>
        (try split) <;> simp


theorem onCC_bytes7 (st : PState) (hs : st.Bytes7) (now ch cn cv : Nat) (hcv : cv < 128) :
    (st.onCC now ch cn cv).1.Bytes7 := by
  unfold PState.onCC
  split
  all_goals
    cases st with
    | waitingForNumber first r m =>
      cases first <;> cases m <;> (try simp [PState.Bytes7] at hs) <;>
        (try simp [PState.processNumberByte, PState.processValueLsb, PState.processValueMsb,
          PState.processValueIncDec, PState.Bytes7, hcv, *])
    | waitingForFirstValue ns =>
      simp only [PState.Bytes7] at hs
      simp [PState.processNumberByte, PState.processValueLsb, PState.processValueMsb, PState.processValueIncDec,
        PState.Bytes7, hs.1, hs.2, hcv] <;> (try split) <;> (try simp [*])
    | valuePending ns t first m =>
      simp only [PState.Bytes7] at hs
      cases m <;>
      simp [PState.processNumberByte, PState.processValueLsb, PState.processValueMsb, PState.processValueIncDec,
        PState.Bytes7, completePending, hs.1, hs.2.1, hs.2.2, hcv] <;> (try split) <;> (try simp [*])
    | fourteenComplete ns x y =>
      simp only [PState.Bytes7] at hs
      simp [PState.processNumberByte, PState.processValueLsb, PState.processValueMsb, PState.processValueIncDec,
        PState.Bytes7, hs.1, hs.2.1, hs.2.2.1, hs.2.2.2, hcv] <;> (try split) <;> (try simp [*])

def PChan.relabel (f : Nat → Nat) (c : PChan) : PChan := { c with state := c.state.relabel f }

def relabelEv (f : Nat → Nat) : PEv → PEv
  | .cc cn cv now => .cc cn (f cv) now
  | e => e
def _root_.Midi.Spec.PEv.Valid : PEv → Prop
  | .cc _ cv _ => cv < 128
  | _ => True

theorem ev_relabel (f : Nat → Nat) (hf : ∀ v, v < 128 → f v < 128) (ch : Nat) (c : PChan) (hs : c.state.Bytes7)
    (e : PEv) (he : e.Valid) :
    (c.relabel f).ev ch (relabelEv f e) = (((c.ev ch e).1).relabel f, relabelPOut f (c.ev ch e).2)
      ∧ (c.ev ch e).1.state.Bytes7 := by
  cases e with
  | cc cn cv now =>
    simp only [PEv.Valid] at he
    simp only [PChan.ev, relabelEv, PChan.relabel, onCC_relabel f hf c.state hs now ch cn cv he]
    exact ⟨trivial, onCC_bytes7 c.state hs now ch cn cv he⟩
  | reset =>
    simp [PChan.ev, relabelEv, PChan.relabel, PState.default, PState.relabel, relabelPOut, PState.Bytes7]
  | poll now =>
    obtain ⟨to, st⟩ := c
    simp only at hs
    cases st with
    | valuePending ns t first m =>
      obtain ⟨a, b, r⟩ := ns
      simp only [PState.Bytes7] at hs
      have S := relabel_seven f hf ch a b first r .dataEntry hs.1 hs.2.1
      simp only [PChan.ev, relabelEv, PChan.relabel, PChan.poll, PState.relabel]
      by_cases hto : now - t < to <;> cases m <;>
        simp [hto, PState.relabel, relabelPOut, resolvePending, NumberState.relabel, NumberState.number, S,
          PState.Bytes7, hs.1, hs.2.1, hs.2.2]
    | _ => simpa [PChan.ev, relabelEv, PChan.relabel, PChan.poll, PState.relabel, relabelPOut] using hs

end Midi
