/- Bit operations on `Nat` rewritten to `/`, `%`, `*`, `+` (then `omega` decides). -/
import Midi.Model.Bits
namespace Midi

theorem and_7f (v : Nat) : v &&& 0x7f = v % 128 := by
  have : (0x7f : Nat) = 2 ^ 7 - 1 := rfl
  rw [this, Nat.and_two_pow_sub_one_eq_mod]
theorem and_0f (v : Nat) : v &&& 0x0f = v % 16 := by
  have : (0x0f : Nat) = 2 ^ 4 - 1 := rfl
  rw [this, Nat.and_two_pow_sub_one_eq_mod]
theorem and_1 (v : Nat) : v &&& 1 = v % 2 := by
  have : (1 : Nat) = 2 ^ 1 - 1 := rfl
  rw [this, Nat.and_two_pow_sub_one_eq_mod]
theorem shr_7 (v : Nat) : v >>> 7 = v / 128 := by rw [Nat.shiftRight_eq_div_pow]
theorem shr_4 (v : Nat) : v >>> 4 = v / 16 := by rw [Nat.shiftRight_eq_div_pow]
theorem shr_1 (v : Nat) : v >>> 1 = v / 2 := by rw [Nat.shiftRight_eq_div_pow]
theorem shl_7 (v : Nat) : v <<< 7 = v * 128 := by rw [Nat.shiftLeft_eq]
theorem shl_4 (v : Nat) : v <<< 4 = v * 16 := by rw [Nat.shiftLeft_eq]
theorem shl_1 (v : Nat) : v <<< 1 = v * 2 := by rw [Nat.shiftLeft_eq]

/-- `a ||| b = a + b` when `a` is a multiple of `2^i` and `b < 2^i` -/
theorem or_eq_add_of_mul (i a b : Nat) (hb : b < 2 ^ i) : (2 ^ i * a) ||| b = 2 ^ i * a + b :=
  (Nat.two_pow_add_eq_or_of_lt hb a).symm

theorem or_eq_add_16 (a b : Nat) (ha : a % 16 = 0) (hb : b < 16) : a ||| b = a + b := by
  have h : a = 2 ^ 4 * (a / 16) := by omega
  rw [h]; exact or_eq_add_of_mul 4 _ _ hb
theorem or_eq_add_128 (a b : Nat) (ha : a % 128 = 0) (hb : b < 128) : a ||| b = a + b := by
  have h : a = 2 ^ 7 * (a / 128) := by omega
  rw [h]; exact or_eq_add_of_mul 7 _ _ hb
theorem or_eq_add_2 (a b : Nat) (ha : a % 2 = 0) (hb : b < 2) : a ||| b = a + b := by
  have h : a = 2 ^ 1 * (a / 2) := by omega
  rw [h]; exact or_eq_add_of_mul 1 _ _ hb

@[simp] theorem extractHigh7_eq (v : Nat) : extractHigh7 v = v / 128 % 128 := by
  unfold extractHigh7; rw [shr_7, and_7f]; omega
@[simp] theorem extractLow7_eq (v : Nat) : extractLow7 v = v % 128 := by
  unfold extractLow7; rw [and_7f]; omega
theorem build14_eq (hi lo : Nat) (hh : hi < 128) (hl : lo < 128) : build14 hi lo = hi * 128 + lo := by
  unfold build14; rw [shl_7]
  have : hi * 128 % 65536 = hi * 128 := by omega
  rw [this, or_eq_add_128 _ _ (by omega) hl]
@[simp] theorem extractChannel_eq (b : Nat) : extractChannel b = b % 16 := by
  unfold extractChannel; exact and_0f b
@[simp] theorem lowNibble_eq (b : Nat) : lowNibble b = b % 16 := by
  unfold lowNibble; exact and_0f b
@[simp] theorem highNibble_eq (b : Nat) : highNibble b = b / 16 % 16 := by
  unfold highNibble; rw [shr_4, and_0f]
theorem buildStatusByte_eq (t c : Nat) (ht : t % 16 = 0) (hc : c < 16) : buildStatusByte t c = t + c := by
  unfold buildStatusByte; exact or_eq_add_16 t c ht hc
theorem buildByteFromNibbles_eq (hi : Nat) (h : hi < 16) : buildByteFromNibbles hi 0 = .ok (hi * 16) := by
  unfold buildByteFromNibbles
  rw [if_pos (by omega), shl_4]
  have : hi * 16 % 256 = hi * 16 := by omega
  rw [this, or_eq_add_16 _ _ (by omega) (by omega)]; rfl

end Midi
