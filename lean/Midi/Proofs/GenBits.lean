/-
bit_util.rs and the nibble helpers of short_message.rs as TRANSLATED (Midi.Gen.BitUtil, Midi.Gen.ShortMsg): each is,
by `rfl`, the hand-written definition of Midi.Model.Bits / Types.
-/
import Midi.Gen.BitUtil
import Midi.Gen.ShortMsg
import Midi.Proofs.GenTie
import Midi.Proofs.Bits
set_option linter.unusedSimpArgs false
set_option linter.unusedVariables false
namespace Midi.GenTie
open Midi Midi.Gen

namespace BU
theorem high7 (v : Nat) : BitUtil.extract_high_7_bit_value_from_14_bit_value v = .ok (extractHigh7 v) := rfl
theorem low7 (v : Nat) : BitUtil.extract_low_7_bit_value_from_14_bit_value v = .ok (extractLow7 v) := rfl
theorem build14 (h l : Nat) : BitUtil.build_14_bit_value_from_two_7_bit_values h l = .ok (Midi.build14 h l) := rfl
theorem status (t c : Nat) : BitUtil.build_status_byte t c = .ok (buildStatusByte t c) := rfl
theorem channel (b : Nat) : BitUtil.extract_channel_from_status_byte b = .ok (extractChannel b) := rfl
theorem mtc (t d : Nat) : ShortMsg.build_mtc_quarter_frame_data_byte t d = .ok (buildMtc t d) := rfl
theorem low_nibble (v : Nat) : ShortMsg.extract_low_nibble_from_byte v = .ok (lowNibble v) := rfl
theorem high_nibble (v : Nat) : ShortMsg.extract_high_nibble_from_byte v = .ok (highNibble v) := rfl
theorem from_nibbles (h l : Nat) : ShortMsg.build_byte_from_nibbles h l = buildByteFromNibbles h l := by
  unfold ShortMsg.build_byte_from_nibbles buildByteFromNibbles
  by_cases h1 : h ≤ 15 <;> by_cases h2 : l ≤ 15 <;> simp [h1, h2]
end BU
end Midi.GenTie
