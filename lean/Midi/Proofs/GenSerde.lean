/-
The validating `TryFrom<Unchecked..>` impls behind `#[serde(try_from = ..)]` of ControlChange14BitMessage and
ParameterNumberMessage as TRANSLATED (Midi.Gen.CCMsg / PNMsgFile): the hand-written serde model (Midi.Model.Serde) is
field-wise deserialization followed by exactly these functions.
-/
import Midi.Gen.CCMsg
import Midi.Gen.PNMsgFile
import Midi.Proofs.GenMsg
import Midi.Model.Serde
set_option linter.unusedSimpArgs false
set_option linter.unusedVariables false
namespace Midi.GenTie
open Midi Midi.Gen

namespace SER
/-- the validating `TryFrom<UncheckedControlChange14BitMessage>`: never panics; accepts exactly MSB controller numbers
    below 32 and then keeps the three fields -/
theorem cc14_try_from (c n v : Nat) :
    CCMsg.ControlChange14BitMessage.try_from ⟨c, n, v⟩ = .ok (if n < 32 then some ⟨c, n, v⟩ else none) := by
  unfold CCMsg.ControlChange14BitMessage.try_from cnLsbOf
  by_cases h : n < 32
  · have h1 : ¬ n ≥ 32 := by omega
    have h2 : ¬ n + 32 ≥ 256 := by omega
    simp [h, h1, h2, bind, Except.bind]
  · have h1 : n ≥ 32 := by omega
    simp [h, h1, bind, Except.bind]

/-- field-wise deserialization (each field through the restricted integer's own deserializer) followed by the
    TRANSLATED validation -/
def deCC14T (ch msb value : Int) : Option CC14Msg :=
  match deNewtype 15 ch, deNewtype 127 msb, deNewtype 16383 value with
  | some c, some n, some v =>
    (match CCMsg.ControlChange14BitMessage.try_from ⟨c, n, v⟩ with
     | .ok (some m) => some (CCM.msg m)
     | _ => none)
  | _, _, _ => none

/-- the hand-written serde model of a 14-bit CC message is exactly that -/
theorem deCC14_eq (ch msb value : Int) : deCC14 ch msb value = deCC14T ch msb value := by
  unfold deCC14 deCC14T
  cases deNewtype 15 ch <;> cases deNewtype 127 msb <;> cases deNewtype 16383 value <;> try rfl
  rename_i c n v
  simp only [cc14_try_from]
  by_cases h : n < 32 <;> simp [h, CCM.msg]

theorem pn_try_from (c n v : Nat) (r b : Bool) (d : PNMsgFile.DataType_) :
    PNMsgFile.ParameterNumberMessage.try_from ⟨c, n, v, r, b, d⟩ =
      .ok (if (if b then d = .DataEntry else v ≤ 127) then some ⟨c, n, v, r, b, d⟩ else none) := by
  unfold PNMsgFile.ParameterNumberMessage.try_from
  cases b <;> cases d <;> simp <;> (by_cases h : v ≤ 127 <;> simp [h] <;> omega)

def gdt? (x : Int) : Option PNMsgFile.DataType_ := (deDataType x).map PNM.gdt

def dePNT (ch number value reg is14 dt : Int) : Option PNMsg :=
  match deNewtype 15 ch, deNewtype 16383 number, deNewtype 16383 value, deBool reg, deBool is14, gdt? dt with
  | some c, some n, some v, some r, some b, some d =>
    (match PNMsgFile.ParameterNumberMessage.try_from ⟨c, n, v, r, b, d⟩ with
     | .ok (some m) => some (PNM.msg m)
     | _ => none)
  | _, _, _, _, _, _ => none

theorem dePN_eq (ch number value reg is14 dt : Int) : dePN ch number value reg is14 dt = dePNT ch number value reg is14 dt := by
  unfold dePN dePNT gdt?
  cases deNewtype 15 ch <;> cases deNewtype 16383 number <;> cases deNewtype 16383 value <;> cases deBool reg <;>
    cases deBool is14 <;> cases deDataType dt <;> try rfl
  rename_i c n v r b d
  simp only [Option.map, pn_try_from]
  cases b <;> cases d <;> simp [PNM.gdt, PNM.msg, PNM.dt] <;> (by_cases h : v ≤ 127 <;> simp [h])
end SER
end Midi.GenTie
