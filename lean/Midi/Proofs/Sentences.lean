/- Helper lemmas for C12: totals of reports, gap lemmas, selection and unit steps of the polling scanner. -/
import Midi.Proofs.Polling
import Midi.Proofs.Bits
import Midi.Spec.Grammar
set_option linter.unusedSimpArgs false
set_option linter.unusedVariables false
namespace Midi.Sent
open Midi Midi.Spec

/-- messages of one call result -/
def outL (o : POut) : List PNMsg := o.1.toList ++ o.2.toList

/-- all messages reported by a channel over a list of events -/
def tot (ch : Nat) (c : PChan) (es : List PEv) : List PNMsg := reports (c.evs ch es).2

theorem tot_nil (ch : Nat) (c : PChan) : tot ch c [] = [] := rfl

theorem tot_cons (ch : Nat) (c : PChan) (e : PEv) (es : List PEv) :
    tot ch c (e :: es) = outL (c.ev ch e).2 ++ tot ch (c.ev ch e).1 es := by
  simp [tot, PChan.evs, reports, outL]

/-- the event list of a gap -/
def gapEvs (g : List GapEv) : List PEv := g.map GapEv.toEv

theorem ev_other (ch : Nat) (c : PChan) (cn cv now : Nat) (h : ¬ (cn = 6 ∨ cn = 38 ∨ (96 ≤ cn ∧ cn ≤ 101))) :
    c.ev ch (.cc cn cv now) = (c, (none, none)) := by
  have : c.state.onCC now ch cn cv = (c.state, (none, none)) := by
    unfold PState.onCC
    split <;> first | omega | rfl
  simp [PChan.ev, this]

/-- what a pending state turns into when a late poll hits it -/
def Settled (c c1 : PChan) : Prop :=
  c1 = c ∨ ∃ ns arr f k, c.state = .valuePending ns arr f k ∧ c1 = { c with state := .waitingForFirstValue ns }

/-- an unrestricted gap: whatever it reports is what was owed; afterwards the state is unchanged or settled -/
theorem gap_outer (ch : Nat) (gap : List GapEv) : ∀ (c : PChan) (hv : ∀ g ∈ gap, g.Valid) (rest : List PEv) (Y : List PNMsg),
    (∀ c1, Settled c c1 → tot ch c1 rest = flush ch c1 ++ Y) →
    tot ch c (gapEvs gap ++ rest) = flush ch c ++ Y := by
  induction gap with
  | nil => intro c hv rest Y K; exact K c (Or.inl rfl)
  | cons g gap ih =>
    intro c hv rest Y K
    have hvg := hv g List.mem_cons_self
    have hv' : ∀ g ∈ gap, g.Valid := fun g hg => hv g (List.mem_cons_of_mem _ hg)
    cases g with
    | other cn cv now =>
      simp only [gapEvs, List.map_cons, List.cons_append, GapEv.toEv, tot_cons]
      rw [ev_other ch c cn cv now hvg]
      simp only [outL, Option.toList, List.nil_append]
      exact ih c hv' rest Y K
    | poll now =>
      simp only [gapEvs, List.map_cons, List.cons_append, GapEv.toEv, tot_cons]
      obtain ⟨to, st⟩ := c
      cases st with
      | valuePending ns arr f k =>
        by_cases hlt : now - arr < to
        · simp only [PChan.ev, PChan.poll, hlt, if_true, outL, Option.toList, List.nil_append]
          exact ih _ hv' rest Y K
        · simp only [PChan.ev, PChan.poll, hlt, if_false]
          have := ih { timeout := to, state := .waitingForFirstValue ns } hv' rest Y (by
            intro c1 hc1
            apply K
            rcases hc1 with h | ⟨_, _, _, _, h, _⟩
            · right; exact ⟨ns, arr, f, k, rfl, h⟩
            · simp at h)
          simp only [gapEvs] at this
          rw [this]
          cases k <;> simp [outL, resolvePending, flush]
      | _ =>
        simp only [PChan.ev, PChan.poll, outL, Option.toList, List.nil_append]
        exact ih _ hv' rest Y K

/-- a gap inside a two-message unit (polls early w.r.t. the stamp of the pending byte) has no effect -/
theorem gap_inner (ch : Nat) (gap : List GapEv) (c : PChan) (ns : NumberState) (t0 f : Nat) (k : Bool)
    (hs : c.state = .valuePending ns t0 f k)
    (hv : ∀ g ∈ gap, g.Valid) (he : ∀ g ∈ gap, ∀ t, g = .poll t → t - t0 < c.timeout) (rest : List PEv) :
    tot ch c (gapEvs gap ++ rest) = tot ch c rest := by
  induction gap with
  | nil => rfl
  | cons g gap ih =>
    have hvg := hv g List.mem_cons_self
    have heg := he g List.mem_cons_self
    have ih' := ih (fun g hg => hv g (List.mem_cons_of_mem _ hg)) (fun g hg => he g (List.mem_cons_of_mem _ hg))
    cases g with
    | other cn cv now =>
      simp only [gapEvs, List.map_cons, List.cons_append, GapEv.toEv, tot_cons]
      rw [ev_other ch c cn cv now hvg]
      simp only [outL, Option.toList, List.nil_append]
      exact ih'
    | poll now =>
      simp only [gapEvs, List.map_cons, List.cons_append, GapEv.toEv, tot_cons]
      have hlt := heg now rfl
      have : c.ev ch (.poll now) = (c, (none, none)) := by
        simp [PChan.ev, PChan.poll, hs, hlt]
      rw [this]
      simp only [outL, Option.toList, List.nil_append]
      exact ih'

def nsOf (number : Nat) (reg : Bool) : NumberState := { msb := number / 128, lsb := number % 128, isRegistered := reg }

theorem nsOf_number (number : Nat) (reg : Bool) (h : number < 16384) : (nsOf number reg).number = number := by
  simp only [nsOf, NumberState.number]
  rw [build14_eq _ _ (by omega) (by omega)]; omega

@[simp] theorem nsOf_isReg (number : Nat) (reg : Bool) : (nsOf number reg).isRegistered = reg := rfl

theorem build14_eq' (hi lo : Nat) (hh : hi < 128) (hl : lo < 128) : build14 hi lo = 128 * hi + lo := by
  rw [build14_eq hi lo hh hl]; omega

def flushSt (ch : Nat) (st : PState) : List PNMsg :=
  match st with
  | .valuePending ns _ f true => [.sevenBit ch ns.number f ns.isRegistered .dataEntry]
  | _ => []

theorem flush_eq (ch : Nat) (c : PChan) : flush ch c = flushSt ch c.state := rfl

def selP (reg msbFirst : Bool) (number : Nat) : Nat × Nat :=
  if msbFirst then (if reg then 101 else 99, number / 128) else (if reg then 100 else 98, number % 128)
def selQ (reg msbFirst : Bool) (number : Nat) : Nat × Nat :=
  if msbFirst then (if reg then 100 else 98, number % 128) else (if reg then 101 else 99, number / 128)

theorem sel_bytes (st : PState) (reg msbFirst : Bool) (number t1 t2 ch : Nat) :
    outL (st.onCC t1 ch (selP reg msbFirst number).1 (selP reg msbFirst number).2).2 = flushSt ch st ∧
    (∀ ns arr f k, (st.onCC t1 ch (selP reg msbFirst number).1 (selP reg msbFirst number).2).1 ≠ .valuePending ns arr f k) ∧
    ((st.onCC t1 ch (selP reg msbFirst number).1 (selP reg msbFirst number).2).1.onCC t2 ch
        (selQ reg msbFirst number).1 (selQ reg msbFirst number).2) = (.waitingForFirstValue (nsOf number reg), (none, none)) := by
  rcases st with ⟨_ | v, r, _ | _⟩ | ns | ⟨ns, arr, f, _ | _⟩ | ⟨ns, a, b⟩ <;> cases reg <;> cases msbFirst <;>
    simp [selP, selQ, PState.onCC, PState.processNumberByte, outL, flushSt, nsOf, resolvePending]


/-- the channel state between the value units of a block with number state `ns`: `r` is the retained MSB,
    `tcur` the time of the last message -/
def UState (ns : NumberState) (r tcur : Nat) (first a14 : Bool) (st : PState) : Prop :=
  (a14 = true ∧ first = false ∧ ∃ b, st = .fourteenComplete ns r b) ∨
  (a14 = false ∧ st = .waitingForFirstValue ns) ∨
  (a14 = false ∧ first = false ∧ ∃ f, st = .valuePending ns tcur f true)

theorem UState_settled {ns : NumberState} {r tcur : Nat} {first a14 : Bool} {c c1 : PChan}
    (hs : Settled c c1) (hU : UState ns r tcur first a14 c.state) :
    UState ns r tcur first a14 c1.state ∧ c1.timeout = c.timeout := by
  rcases hs with rfl | ⟨ns', arr, f, k, h1, rfl⟩
  · exact ⟨hU, rfl⟩
  · refine ⟨?_, rfl⟩
    rcases hU with ⟨_, _, b, hb⟩ | ⟨_, hb⟩ | ⟨ha, hf, f', hb⟩
    · rw [hb] at h1; simp at h1
    · rw [hb] at h1; simp at h1
    · rw [hb] at h1; simp at h1
      right; left; exact ⟨ha, by simp [h1.1]⟩

theorem tot_cc (ch : Nat) (c : PChan) (cn cv now : Nat) (rest : List PEv) :
    tot ch c (.cc cn cv now :: rest) =
      outL (c.state.onCC now ch cn cv).2 ++ tot ch { c with state := (c.state.onCC now ch cn cv).1 } rest := by
  rw [tot_cons]; rfl

theorem u_msb {ns : NumberState} {r tcur : Nat} {first a14 : Bool} {st : PState}
    (hU : UState ns r tcur first a14 st) (ch v now : Nat) :
    (st.onCC now ch 6 v).1 = .valuePending ns now v true ∧ outL (st.onCC now ch 6 v).2 = flushSt ch st := by
  rcases hU with ⟨_, _, b, rfl⟩ | ⟨_, rfl⟩ | ⟨ha, hf, f', rfl⟩ <;>
    simp [PState.onCC, PState.processValueMsb, outL, flushSt]

theorem u_lsb_after_msb (ns : NumberState) (ch t0 m now l : Nat) :
    (PState.valuePending ns t0 m true).onCC now ch 38 l =
      (.fourteenComplete ns m l, (some (.fourteenBit ch ns.number (build14 m l) ns.isRegistered), none)) := by
  simp [PState.onCC, PState.processValueLsb, completePending]

theorem u_further (ns : NumberState) (ch r b now l : Nat) :
    (PState.fourteenComplete ns r b).onCC now ch 38 l =
      (.fourteenComplete ns r l, (some (.fourteenBit ch ns.number (build14 r l) ns.isRegistered), none)) := by
  simp [PState.onCC, PState.processValueLsb]

theorem u_lsb_first (ns : NumberState) (ch now l : Nat) :
    (PState.waitingForFirstValue ns).onCC now ch 38 l = (.valuePending ns now l false, (none, none)) := by
  simp [PState.onCC, PState.processValueLsb]

theorem u_msb_after_lsb (ns : NumberState) (ch t0 l now m : Nat) :
    (PState.valuePending ns t0 l false).onCC now ch 6 m =
      (.fourteenComplete ns m l, (some (.fourteenBit ch ns.number (build14 m l) ns.isRegistered), none)) := by
  simp [PState.onCC, PState.processValueMsb, completePending]

theorem u_incDec {ns : NumberState} {r tcur : Nat} {first a14 : Bool} {st : PState}
    (hU : UState ns r tcur first a14 st) (ch v now : Nat) (inc : Bool) :
    (st.onCC now ch (if inc then 96 else 97) v).1 = .waitingForFirstValue ns ∧
    outL (st.onCC now ch (if inc then 96 else 97) v).2 =
      flushSt ch st ++ [.sevenBit ch ns.number v ns.isRegistered (if inc then .dataIncrement else .dataDecrement)] := by
  rcases hU with ⟨_, _, b, rfl⟩ | ⟨_, rfl⟩ | ⟨ha, hf, f', rfl⟩ <;> cases inc <;>
    simp [PState.onCC, PState.processValueIncDec, outL, flushSt]


/-! ### schedules, consumed from the front -/

def endTime (t : Nat) : List Timed → Nat
  | [] => t
  | m :: ms => endTime m.now ms

def chainFrom (t : Nat) : List Timed → Prop
  | [] => True
  | m :: ms => (m.inner = true → m.t0 = t) ∧ chainFrom m.now ms

def GapsOk (τ : Nat) (sched : List Timed) : Prop := ∀ m ∈ sched, innerPollsEarly τ m ∧ ∀ g ∈ m.gap, g.Valid

def key (m : Timed) : Nat × Nat × Bool := (m.cn, m.cv, m.inner)

def evsOf (tEnd : Nat) (sched : List Timed) : List PEv := schedEvents sched ++ [.poll tEnd]

theorem evsOf_cons (tEnd : Nat) (m : Timed) (ms : List Timed) :
    evsOf tEnd (m :: ms) = gapEvs m.gap ++ (.cc m.cn m.cv m.now :: evsOf tEnd ms) := by
  simp [evsOf, schedEvents, Timed.events, gapEvs]

def ushape (u : VUnit) : List (Nat × Nat × Bool) :=
  match u.msgs with
  | [a, c] => [(a.1, a.2, false), (c.1, c.2, true)]
  | l => l.map (fun p => (p.1, p.2, false))

theorem shape_eq (b : Block) :
    b.shape = b.selection.map (fun p => (p.1, p.2, false)) ++ b.units.flatMap ushape := rfl

/-- what the rest of the sentence (after the current block) has to deliver -/
def Cont (ch τ tEnd : Nat) (tailShape : List (Nat × Nat × Bool)) (Y : List PNMsg) : Prop :=
  ∀ (c : PChan) (tcur : Nat) (sched : List Timed), c.timeout = τ →
    (∀ ns arr f, c.state = .valuePending ns arr f true → arr = tcur) →
    sched.map key = tailShape → chainFrom tcur sched → GapsOk τ sched → endTime tcur sched + τ ≤ tEnd →
    tot ch c (evsOf tEnd sched) = flush ch c ++ Y

theorem GapsOk_cons {τ : Nat} {m : Timed} {ms : List Timed} (h : GapsOk τ (m :: ms)) :
    (innerPollsEarly τ m ∧ ∀ g ∈ m.gap, g.Valid) ∧ GapsOk τ ms :=
  ⟨h m List.mem_cons_self, fun x hx => h x (List.mem_cons_of_mem _ hx)⟩

theorem map_key_cons {sched : List Timed} {x : Nat × Nat × Bool} {xs : List (Nat × Nat × Bool)}
    (h : sched.map key = x :: xs) :
    ∃ m sched', sched = m :: sched' ∧ (m.cn = x.1 ∧ m.cv = x.2.1 ∧ m.inner = x.2.2) ∧ sched'.map key = xs := by
  cases sched with
  | nil => simp at h
  | cons m sched' =>
    simp only [List.map_cons, List.cons.injEq] at h
    refine ⟨m, sched', rfl, ?_, h.2⟩
    rw [← h.1]; simp [key]

theorem units_run (ch τ tEnd number : Nat) (reg : Bool) (hn : number < 16384)
    (tailShape : List (Nat × Nat × Bool)) (Y : List PNMsg) (K : Cont ch τ tEnd tailShape Y) :
    ∀ (us : List VUnit) (first a14 : Bool) (r : Nat) (c : PChan) (tcur : Nat) (sched : List Timed),
      unitsOk first a14 us = true → (∀ u ∈ us, u.Valid) → r < 128 → c.timeout = τ →
      UState (nsOf number reg) r tcur first a14 c.state →
      sched.map key = us.flatMap ushape ++ tailShape → chainFrom tcur sched → GapsOk τ sched →
      endTime tcur sched + τ ≤ tEnd →
      tot ch c (evsOf tEnd sched) = flush ch c ++ (intendedUnits ch number reg r us ++ Y) := by
  intro us
  induction us with
  | nil =>
    intro first a14 r c tcur sched hok hval hr hto hU hmap hch hg hend
    simp only [List.flatMap_nil, List.nil_append, intendedUnits] at hmap ⊢
    refine K c tcur sched hto ?_ hmap hch hg hend
    intro ns arr f hst
    rcases hU with ⟨_, _, b, hb⟩ | ⟨_, hb⟩ | ⟨ha, hf, f', hb⟩ <;> rw [hb] at hst <;> simp at hst
    exact hst.2.1.symm
  | cons u us ih =>
    intro first a14 r c tcur sched hok hval hr hto hU hmap hch hg hend
    have hvu := hval u List.mem_cons_self
    have hval' : ∀ u ∈ us, u.Valid := fun u hu => hval u (List.mem_cons_of_mem _ hu)
    have hnum := nsOf_number number reg hn
    cases u with
    | msbAlone v =>
      simp only [List.flatMap_cons, ushape, VUnit.msgs, List.map_cons, List.map_nil, List.cons_append,
        List.nil_append] at hmap
      obtain ⟨m, sched', rfl, ⟨hcn, hcv, hin⟩, hmap'⟩ := map_key_cons hmap
      simp only at hcn hcv hin
      · skip
        obtain ⟨⟨hpe, hgv⟩, hg'⟩ := GapsOk_cons hg
        rw [evsOf_cons]
        apply gap_outer ch m.gap c hgv
        intro c1 hs
        obtain ⟨hU1, hto1⟩ := UState_settled hs hU
        obtain ⟨h1, h2⟩ := u_msb hU1 ch v m.now
        rw [hcn, hcv, tot_cc, h1, h2]
        simp only [unitsOk, VUnit.is14, Bool.true_and] at hok
        rw [ih false false r _ m.now sched' hok hval' hr (by simp [hto1, hto])
          (by right; right; exact ⟨rfl, rfl, v, rfl⟩) hmap' hch.2 hg' hend]
        simp [flush_eq, flushSt, intendedUnits, hnum, PNMsg.sevenBit]
    | incDec inc v =>
      simp only [List.flatMap_cons, ushape, VUnit.msgs, List.map_cons, List.map_nil, List.cons_append,
        List.nil_append] at hmap
      obtain ⟨m, sched', rfl, ⟨hcn, hcv, hin⟩, hmap'⟩ := map_key_cons hmap
      simp only at hcn hcv hin
      · skip
        obtain ⟨⟨hpe, hgv⟩, hg'⟩ := GapsOk_cons hg
        rw [evsOf_cons]
        apply gap_outer ch m.gap c hgv
        intro c1 hs
        obtain ⟨hU1, hto1⟩ := UState_settled hs hU
        obtain ⟨h1, h2⟩ := u_incDec hU1 ch v m.now inc
        rw [hcn, hcv, tot_cc, h1, h2]
        simp only [unitsOk, VUnit.is14, Bool.true_and] at hok
        rw [ih false false r _ m.now sched' hok hval' hr (by simp [hto1, hto])
          (by right; left; exact ⟨rfl, rfl⟩) hmap' hch.2 hg' hend]
        simp [flush_eq, flushSt, intendedUnits, hnum, PNMsg.sevenBit]
    | further l =>
      simp only [List.flatMap_cons, ushape, VUnit.msgs, List.map_cons, List.map_nil, List.cons_append,
        List.nil_append] at hmap
      obtain ⟨m, sched', rfl, ⟨hcn, hcv, hin⟩, hmap'⟩ := map_key_cons hmap
      simp only at hcn hcv hin
      · skip
        obtain ⟨⟨hpe, hgv⟩, hg'⟩ := GapsOk_cons hg
        rw [evsOf_cons]
        apply gap_outer ch m.gap c hgv
        intro c1 hs
        obtain ⟨hU1, hto1⟩ := UState_settled hs hU
        simp only [unitsOk, VUnit.is14, Bool.and_eq_true] at hok
        obtain ⟨ha14, hok⟩ := hok
        rcases hU1 with ⟨_, hf, b, hb⟩ | ⟨ha, _⟩ | ⟨ha, _⟩
        · rw [hcn, hcv, tot_cc, hb, u_further]
          rw [ih false true r _ m.now sched' hok hval' hr (by simp [hto1, hto])
            (by left; exact ⟨rfl, rfl, l, rfl⟩) hmap' hch.2 hg' hend]
          have hl : l < 128 := hvu
          simp [flush_eq, flushSt, intendedUnits, hnum, PNMsg.fourteenBit, outL, build14_eq' r l hr hl, hb]
        · rw [ha] at ha14; simp at ha14
        · rw [ha] at ha14; simp at ha14
    | msbLsb mm l =>
      simp only [List.flatMap_cons, ushape, VUnit.msgs, List.map_cons, List.map_nil, List.cons_append,
        List.nil_append] at hmap
      obtain ⟨m, sched1, rfl, ⟨hcn, hcv, hin⟩, hmap1⟩ := map_key_cons hmap
      obtain ⟨m2, sched', rfl, ⟨hcn2, hcv2, hin2⟩, hmap'⟩ := map_key_cons hmap1
      simp only at hcn hcv hin hcn2 hcv2 hin2
      · skip
        obtain ⟨⟨hpe, hgv⟩, hg1⟩ := GapsOk_cons hg
        obtain ⟨⟨hpe2, hgv2⟩, hg'⟩ := GapsOk_cons hg1
        rw [evsOf_cons]
        apply gap_outer ch m.gap c hgv
        intro c1 hs
        obtain ⟨hU1, hto1⟩ := UState_settled hs hU
        obtain ⟨h1, h2⟩ := u_msb hU1 ch mm m.now
        rw [hcn, hcv, tot_cc, h1, h2, evsOf_cons]
        have ht0 : m2.t0 = m.now := hch.2.1 hin2
        rw [gap_inner ch m2.gap _ (nsOf number reg) m.now mm true rfl hgv2
          (by intro g hgm t hgt
              have := hpe2 hin2 g hgm t hgt
              rw [ht0] at this
              simpa [hto1, hto] using this)]
        rw [hcn2, hcv2, tot_cc, u_lsb_after_msb]
        simp only [unitsOk, VUnit.is14, Bool.true_and] at hok
        have hm : mm < 128 := hvu.1
        have hl : l < 128 := hvu.2
        rw [ih false true mm _ m2.now sched' hok hval' hm (by simp [hto1, hto])
          (by left; exact ⟨rfl, rfl, l, rfl⟩) hmap' hch.2.2 hg' hend]
        simp [flush_eq, flushSt, intendedUnits, hnum, PNMsg.fourteenBit, outL, build14_eq' mm l hm hl]
    | lsbMsb l mm =>
      simp only [List.flatMap_cons, ushape, VUnit.msgs, List.map_cons, List.map_nil, List.cons_append,
        List.nil_append] at hmap
      obtain ⟨m, sched1, rfl, ⟨hcn, hcv, hin⟩, hmap1⟩ := map_key_cons hmap
      obtain ⟨m2, sched', rfl, ⟨hcn2, hcv2, hin2⟩, hmap'⟩ := map_key_cons hmap1
      simp only at hcn hcv hin hcn2 hcv2 hin2
      · skip
        obtain ⟨⟨hpe, hgv⟩, hg1⟩ := GapsOk_cons hg
        obtain ⟨⟨hpe2, hgv2⟩, hg'⟩ := GapsOk_cons hg1
        rw [evsOf_cons]
        apply gap_outer ch m.gap c hgv
        intro c1 hs
        obtain ⟨hU1, hto1⟩ := UState_settled hs hU
        simp only [unitsOk, VUnit.is14, Bool.and_eq_true] at hok
        obtain ⟨hfirst, hok⟩ := hok
        have ht0 : m2.t0 = m.now := hch.2.1 hin2
        have hl : l < 128 := hvu.1
        have hm : mm < 128 := hvu.2
        rcases hU1 with ⟨_, hf, _⟩ | ⟨ha, hb⟩ | ⟨_, hf, _⟩
        · rw [hf] at hfirst; simp at hfirst
        · rw [hcn, hcv, tot_cc, hb, u_lsb_first, evsOf_cons]
          rw [gap_inner ch m2.gap _ (nsOf number reg) m.now l false rfl hgv2
            (by intro g hgm t hgt
                have := hpe2 hin2 g hgm t hgt
                rw [ht0] at this
                simpa [hto1, hto] using this)]
          rw [hcn2, hcv2, tot_cc, u_msb_after_lsb]
          rw [ih false true mm _ m2.now sched' hok hval' hm (by simp [hto1, hto])
            (by left; exact ⟨rfl, rfl, l, rfl⟩) hmap' hch.2.2 hg' hend]
          simp [flush_eq, flushSt, intendedUnits, hnum, PNMsg.fourteenBit, outL, build14_eq' mm l hm hl, hb]
        · rw [hf] at hfirst; simp at hfirst


def chainTail : List Timed → Prop
  | [] => True
  | m :: ms => chainFrom m.now ms

theorem chainTail_of_chainFrom {t : Nat} {sched : List Timed} (h : chainFrom t sched) : chainTail sched := by
  cases sched with
  | nil => trivial
  | cons m ms => exact h.2

theorem selection_eq (b : Block) :
    b.selection = [selP b.reg b.msbFirst b.number, selQ b.reg b.msbFirst b.number] := by
  unfold Block.selection selP selQ
  cases b.msbFirst <;> simp

theorem flushSt_notPending (ch : Nat) (st : PState) (h : ∀ ns arr f k, st ≠ .valuePending ns arr f k) :
    flushSt ch st = [] := by
  cases st <;> simp [flushSt]
  rename_i ns arr f k
  exact absurd rfl (h ns arr f k)

theorem Settled_notPending {c c1 : PChan} (hs : Settled c c1) (h : ∀ ns arr f k, c.state ≠ .valuePending ns arr f k) :
    c1 = c := by
  rcases hs with h1 | ⟨ns, arr, f, k, h1, _⟩
  · exact h1
  · exact absurd h1 (h ns arr f k)

/-- one block from ANY channel state, then the rest of the sentence -/
theorem block_run (ch τ tEnd : Nat) (b : Block) (hb : b.Valid)
    (tailShape : List (Nat × Nat × Bool)) (Y : List PNMsg) (K : Cont ch τ tEnd tailShape Y)
    (c : PChan) (hto : c.timeout = τ) (t0 : Nat) (sched : List Timed)
    (hmap : sched.map key = b.shape ++ tailShape) (hch : chainTail sched) (hg : GapsOk τ sched)
    (hend : endTime t0 sched + τ ≤ tEnd) :
    tot ch c (evsOf tEnd sched) = flush ch c ++ (b.intended ch ++ Y) := by
  obtain ⟨hn, hok, hval⟩ := hb
  rw [shape_eq, selection_eq] at hmap
  simp only [List.map_cons, List.map_nil, List.cons_append, List.nil_append] at hmap
  obtain ⟨m1, sched1, rfl, ⟨hcn, hcv, hin⟩, hmap1⟩ := map_key_cons hmap
  obtain ⟨m2, sched', rfl, ⟨hcn2, hcv2, hin2⟩, hmap'⟩ := map_key_cons hmap1
  simp only at hcn hcv hin hcn2 hcv2 hin2
  obtain ⟨⟨hpe, hgv⟩, hg1⟩ := GapsOk_cons hg
  obtain ⟨⟨hpe2, hgv2⟩, hg'⟩ := GapsOk_cons hg1
  rw [evsOf_cons]
  apply gap_outer ch m1.gap c hgv
  intro c1 hs
  have hto1 : c1.timeout = τ := by
    rcases hs with rfl | ⟨_, _, _, _, _, rfl⟩ <;> simp [hto]
  obtain ⟨h1, h2, h3⟩ := sel_bytes c1.state b.reg b.msbFirst b.number m1.now m2.now ch
  rw [hcn, hcv, tot_cc, h1, flush_eq, evsOf_cons]
  congr 1
  have := gap_outer ch m2.gap { c1 with state := (c1.state.onCC m1.now ch (selP b.reg b.msbFirst b.number).1
      (selP b.reg b.msbFirst b.number).2).1 } hgv2 (.cc m2.cn m2.cv m2.now :: evsOf tEnd sched') (b.intended ch ++ Y) (by
    intro c3 hs3
    have := Settled_notPending hs3 h2
    subst this
    rw [hcn2, hcv2, tot_cc, h3, flush_eq, flushSt_notPending ch _ h2]
    simp only [outL, Option.toList, List.nil_append]
    have := units_run ch τ tEnd b.number b.reg hn tailShape Y K b.units true false 0
      { timeout := c1.timeout, state := .waitingForFirstValue (nsOf b.number b.reg) } m2.now sched' hok hval (by omega) hto1
      (by right; left; exact ⟨rfl, rfl⟩) hmap' hch.2 hg' hend
    rw [this]
    simp [flush_eq, flushSt, Block.intended])
  rw [this, flush_eq, flushSt_notPending ch _ h2]
  rfl

/-- the remaining blocks of a sentence -/
theorem blocks_tail (ch τ tEnd : Nat) : ∀ (bs : List Block), (∀ b ∈ bs, b.Valid) →
    Cont ch τ tEnd (bs.flatMap Block.shape) (intended ch bs) := by
  intro bs
  induction bs with
  | nil =>
    intro _ c tcur sched hto hE hmap hch hg hend
    simp only [List.flatMap_nil, List.map_eq_nil_iff] at hmap
    subst hmap
    simp only [endTime] at hend
    simp only [evsOf, schedEvents, List.flatMap_nil, List.nil_append, intended, List.append_nil, tot_cons, tot_nil]
    obtain ⟨to, st⟩ := c
    simp only at hto; subst hto
    cases st with
    | valuePending ns arr f k =>
      cases k with
      | true =>
        have := hE ns arr f rfl
        have hlt : ¬ (tEnd - arr < to) := by omega
        simp [PChan.ev, PChan.poll, hlt, resolvePending, outL, flush]
      | false =>
        by_cases hlt : tEnd - arr < to <;> simp [PChan.ev, PChan.poll, hlt, resolvePending, outL, flush]
    | _ => simp [PChan.ev, PChan.poll, outL, flush]
  | cons b bs ih =>
    intro hv c tcur sched hto hE hmap hch hg hend
    have ih' := ih (fun b hb => hv b (List.mem_cons_of_mem _ hb))
    simp only [List.flatMap_cons, intended] at hmap ⊢
    exact block_run ch τ tEnd b (hv b List.mem_cons_self) _ _ ih' c hto tcur sched hmap
      (chainTail_of_chainFrom hch) hg hend


theorem endTime_eq (sched : List Timed) : ∀ t, endTime t sched = (sched.getLast?.map (·.now)).getD t := by
  induction sched with
  | nil => intro t; rfl
  | cons m ms ih =>
    intro t
    rw [endTime, ih]
    cases ms with
    | nil => rfl
    | cons m' ms' =>
      rw [List.getLast?_cons_cons]
      cases hl : (m' :: ms').getLast? with
      | none => simp at hl
      | some x => rfl

theorem chainTail_of_index (sched : List Timed)
    (h : ∀ i (h : i + 1 < sched.length), sched[i + 1].inner = true → sched[i + 1].t0 = sched[i].now) :
    chainTail sched := by
  cases sched with
  | nil => trivial
  | cons m ms =>
    show chainFrom m.now ms
    induction ms generalizing m with
    | nil => trivial
    | cons m' ms ih =>
      refine ⟨fun hi => h 0 (by simp) hi, ih m' ?_⟩
      intro i hi hin
      exact h (i + 1) (by simp at hi ⊢; omega) hin

end Midi.Sent
