/-
The (N)RPN scanner as TRANSLATED from parameter_number_message_scanner.rs (Midi.Gen.PNScan, regenerated on every
run) computes exactly what the hand-written model (Midi.Model.PN) computes.
-/
import Midi.Gen.PNScan
import Midi.Proofs.GenTie
set_option linter.unusedSimpArgs false
set_option linter.unusedVariables false
namespace Midi.GenTie
open Midi Midi.Spec Midi.Gen

namespace PN
abbrev GChan := PNScan.ScannerForOneChannel
abbrev GScanner := PNScan.ParameterNumberMessageScanner

def chan (s : GChan) : PNChan := ⟨s.number_msb, s.number_lsb, s.is_registered, s.value_lsb⟩
def gchan (s : PNChan) : GChan := ⟨s.numberMsb, s.numberLsb, s.isRegistered, s.valueLsb⟩
@[simp] theorem gchan_chan (s : GChan) : gchan (chan s) = s := rfl
@[simp] theorem chan_gchan (s : PNChan) : chan (gchan s) = s := rfl
@[simp] theorem gchan_comp_chan : gchan ∘ chan = id := by funext x; rfl
@[simp] theorem chan_comp_gchan : chan ∘ gchan = id := by funext x; rfl
def scanner (s : GScanner) : PNScanner := s.scanner_by_channel.map chan
def gscanner (s : PNScanner) : GScanner := ⟨s.map gchan⟩
@[simp] theorem gscanner_scanner (s : GScanner) : gscanner (scanner s) = s := by
  obtain ⟨v⟩ := s
  simp [gscanner, scanner, Vector.map_map]
@[simp] theorem scanner_gscanner (s : PNScanner) : scanner (gscanner s) = s := by
  simp [gscanner, scanner, Vector.map_map]

theorem build_number (s : GChan) : s.build_number = .ok (chan s).buildNumber := by
  obtain ⟨hi, lo, reg, l⟩ := s
  unfold PNScan.ScannerForOneChannel.build_number PNChan.buildNumber
  simp only [chan]
  cases hi <;> cases lo <;> rfl

theorem onCC_other (st : PNChan) (channel cn cv : Nat)
    (h : cn ≠ 98 ∧ cn ≠ 99 ∧ cn ≠ 100 ∧ cn ≠ 101 ∧ cn ≠ 38 ∧ cn ≠ 6 ∧ cn ≠ 96 ∧ cn ≠ 97) :
    st.onCC channel cn cv = .ok (st, none) := by
  unfold PNChan.onCC
  split <;> first | omega | rfl

theorem chan_feed {α : Type} (I : Impl α) (s : GChan) (x : α) :
    s.feed I x = back gchan (PNChan.feed I (chan s) x) := by
  unfold PNScan.ScannerForOneChannel.feed PNChan.feed
  simp only [bind, Except.bind, PNScan.ScannerForOneChannel.process_number_lsb, PNScan.ScannerForOneChannel.process_number_msb,
    PNScan.ScannerForOneChannel.process_value_lsb, PNScan.ScannerForOneChannel.process_value_msb,
    PNScan.ScannerForOneChannel.process_value_inc_dec, PNScan.ScannerForOneChannel.reset_value, build_number]
  cases toStructured I x with
  | error e => rfl
  | ok st =>
    cases st <;> try rfl
    rename_i channel cn cv
    obtain ⟨hi, lo, reg, l⟩ := s
    simp only [chan, gchan, back]
    by_cases h98 : cn = 98
    · subst h98; rfl
    by_cases h99 : cn = 99
    · subst h99; rfl
    by_cases h100 : cn = 100
    · subst h100; rfl
    by_cases h101 : cn = 101
    · subst h101; rfl
    by_cases h38 : cn = 38
    · subst h38; rfl
    by_cases h6 : cn = 6
    · subst h6
      simp only [PNChan.onCC]
      cases PNChan.buildNumber ⟨hi, lo, reg, l⟩ <;> cases l <;> rfl
    by_cases h96 : cn = 96
    · subst h96
      simp only [PNChan.onCC]
      cases PNChan.buildNumber ⟨hi, lo, reg, l⟩ <;> rfl
    by_cases h97 : cn = 97
    · subst h97
      simp only [PNChan.onCC]
      cases PNChan.buildNumber ⟨hi, lo, reg, l⟩ <;> rfl
    · rw [onCC_other _ _ _ _ ⟨h98, h99, h100, h101, h38, h6, h96, h97⟩]
      simp [h98, h99, h100, h101, h38, h6, h96, h97]

theorem feed {α : Type} (I : Impl α) (s : GScanner) (x : α) :
    s.feed I x = back gscanner (PNScanner.feed I (scanner s) x) := by
  unfold PNScan.ParameterNumberMessageScanner.feed PNScanner.feed
  simp only [bind, Except.bind, chan_feed]
  obtain ⟨v⟩ := s
  simp only [back, scanner, gscanner]
  cases channel I x with
  | error e => rfl
  | ok c =>
    cases c with
    | none => simp [Vector.map_map]
    | some ch =>
      by_cases h : ch < 16
      · simp only [h, dite_true, Vector.getElem_map]
        cases PNChan.feed I (chan v[ch]) x with
        | error e => rfl
        | ok p => simp [Vector.map_set, Vector.map_map]
      · simp [h]

theorem reset (s : GScanner) : s.reset = .ok ((), gscanner (scanner s).reset) := by
  unfold PNScan.ParameterNumberMessageScanner.reset
  rw [forEachMut_ok _ _ (fun _ => gchan {})]
  · obtain ⟨v⟩ := s
    simp [bind, Except.bind, scanner, gscanner, PNScanner.reset, Vector.map_map]
  · intro p; rfl

theorem new : PNScan.ParameterNumberMessageScanner.new = .ok (gscanner PNScanner.new) := by
  simp [PNScan.ParameterNumberMessageScanner.new, gscanner, PNScanner.new]
  rfl

theorem default_eq : (default : GScanner) = gscanner PNScanner.new := by
  simp [gscanner, PNScanner.new]
  rfl

def gstep (s : GScanner) : Op → Res (Option PNMsg × GScanner)
  | .feed b => s.feed rawImpl b
  | .reset => do let (_, s') ← s.reset; .ok (none, s')

def grun (s : GScanner) : List Op → Res (List (Option PNMsg) × GScanner)
  | [] => .ok ([], s)
  | op :: ops => do
    let (o, s') ← gstep s op
    let (os, s'') ← grun s' ops
    .ok (o :: os, s'')

theorem gstep_eq (s : GScanner) (op : Op) : gstep s op = back gscanner (pnStep (scanner s) op) := by
  cases op with
  | feed b => exact feed rawImpl s b
  | reset => simp [gstep, pnStep, reset, back, bind, Except.bind]

theorem grun_eq (s : GScanner) (ops : List Op) : grun s ops = back gscanner (pnRun (scanner s) ops) := by
  induction ops generalizing s with
  | nil => simp [grun, pnRun, back]
  | cons op ops ih =>
    simp only [grun, pnRun, gstep_eq, bind, Except.bind]
    cases pnStep (scanner s) op with
    | error e => rfl
    | ok p =>
      simp only [back, ih, scanner_gscanner]
      cases pnRun p.1 ops <;> rfl

end PN
end Midi.GenTie
