/- Scanners take `&impl ShortMessage`: what they do depends only on the three bytes of the message. -/
import Midi.Props.C03
import Midi.Proofs.Polling
set_option linter.unusedSimpArgs false
namespace Midi
open Midi.Spec

theorem channel_impl_indep {α} (I : Impl α) (x : α) : channel I x = channel rawImpl (bytesOf I x) := rfl

theorem toStructured_impl_indep {α} (I : Impl α) (x : α) (hl : I.LawfulAt x) :
    toStructured I x = toStructured rawImpl (bytesOf I x) := by
  have := (Props.C03.derived_from_getters I x hl).1
  unfold Props.C03.accessors at this
  exact congrArg (fun t => t.2.2.2.2.2.2.2.2.2.2.2.2.2.2) this

/-- for ANY lawful implementor of the trait, all three scanners behave exactly as on the RawShortMessage with the
    same bytes (so every scanner theorem stated for RawShortMessage input holds for Structured and third-party
    messages as well) -/
theorem scanners_see_only_bytes {α} (I : Impl α) (x : α) (hl : I.LawfulAt x) :
    (∀ s : CCScanner, s.feed I x = s.feed rawImpl (bytesOf I x)) ∧
    (∀ s : PNScanner, s.feed I x = s.feed rawImpl (bytesOf I x)) ∧
    (∀ (now : Nat) (s : PScanner), s.feed I now x = s.feed rawImpl now (bytesOf I x)) := by
  have hs := toStructured_impl_indep I x hl
  have hs' : toStructured rawImpl (bytesOf I x) = toStructured rawImpl (bytesOf rawImpl (bytesOf I x)) := rfl
  refine ⟨?_, ?_, ?_⟩
  · intro s
    unfold CCScanner.feed CCChan.feed
    rw [channel_impl_indep, hs]
  · intro s
    unfold PNScanner.feed PNChan.feed
    rw [channel_impl_indep, hs]
  · intro now s
    unfold PScanner.feed PChan.feed
    rw [channel_impl_indep, hs]

end Midi
