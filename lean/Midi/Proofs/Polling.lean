/- The polling scanner: feeds of valid messages reduced to `PState.onCC`; per-channel frame lemmas. -/
import Midi.Model.Polling
import Midi.Spec.PollRuns
import Midi.Proofs.PN
set_option linter.unusedSimpArgs false
set_option linter.unusedVariables false
namespace Midi
open Midi.Spec

theorem pChan_feed (now : Nat) (c : PChan) (b : Bytes) (hv : b.Valid) :
    PChan.feed rawImpl now c b =
      match asCC b with
      | some (channel, cn, cv) => .ok ({ c with state := (c.state.onCC now channel cn cv).1 }, (c.state.onCC now channel cn cv).2)
      | none => .ok (c, (none, none)) := by
  unfold PChan.feed
  rw [raw_structured b hv]
  have := structured_cc b hv
  cases h : asCC b with
  | some t =>
    obtain ⟨ch, n, v⟩ := t
    rw [this.1 ch n v h]
    simp [bind, Except.bind]
  | none =>
    have hn := this.2 h
    simp only [bind, Except.bind]

/-- feeding a valid message: system messages do nothing; a channel message goes to its channel's sub-scanner -/
theorem pScanner_feed (now : Nat) (s : PScanner) (b : Bytes) (hv : b.Valid) :
    s.feed rawImpl now b =
      if b.status < 240 then
        (have h : b.status % 16 < 16 := Nat.mod_lt _ (by decide)
         do let (c', out) ← (s[b.status % 16]'h).feed rawImpl now b
            .ok (s.set (b.status % 16) c' h, out))
      else .ok (s, (none, none)) := by
  unfold PScanner.feed
  rw [raw_channel b hv]
  unfold specChannel
  by_cases h : b.status < 240
  · have h16 : b.status % 16 < 16 := Nat.mod_lt _ (by decide)
    simp [h, bind, Except.bind, h16]
  · simp [h, bind, Except.bind]

/-- complete description of one feed of a valid message -/
theorem pScanner_feed_cases (now : Nat) (s : PScanner) (b : Bytes) (hv : b.Valid) :
    (176 ≤ b.status ∧ b.status < 192 ∧
      ∃ h : b.status - 176 < 16,
        s.feed rawImpl now b =
          .ok (s.set (b.status - 176)
                { s[b.status - 176] with state := (s[b.status - 176].state.onCC now (b.status - 176) b.d1 b.d2).1 } h,
               (s[b.status - 176].state.onCC now (b.status - 176) b.d1 b.d2).2)) ∨
    (¬ (176 ≤ b.status ∧ b.status < 192) ∧ s.feed rawImpl now b = .ok (s, (none, none))) := by
  rw [pScanner_feed now s b hv]
  by_cases hcc : 176 ≤ b.status ∧ b.status < 192
  · left
    obtain ⟨hlo, hhi⟩ := hcc
    have hlt : b.status < 240 := by omega
    have hch : b.status % 16 = b.status - 176 := by omega
    have h16 : b.status - 176 < 16 := by omega
    refine ⟨hlo, hhi, h16, ?_⟩
    have hasc : asCC b = some (b.status % 16, b.d1, b.d2) := by
      rcases asCC_iff b hv with h | h
      · exact h.1
      · omega
    simp only [hlt, if_true]
    rw [pChan_feed now _ b hv, hasc]
    simp only [bind, Except.bind]
    simp only [hch]
  · right
    refine ⟨hcc, ?_⟩
    by_cases hlt : b.status < 240
    · simp only [hlt, if_true]
      rw [pChan_feed now _ b hv]
      have : asCC b = none := by
        rcases asCC_iff b hv with h | h
        · omega
        · exact h.1
      rw [this]
      simp only [bind, Except.bind, Vector.set_getElem_self]
    · simp only [hlt, if_false]

end Midi

namespace Midi
open Midi.Spec

/-- one operation, seen from channel `c`: it either is an event of that channel (and the scanner does exactly what
    the channel's sub-scanner does, returning its result) or leaves that channel untouched; never panics -/
theorem p_step_channel (c : Nat) (hc : c < 16) (now : Nat) (s : PScanner) (op : TOp) (hv : op.Valid) :
    ∃ s' o, pStep now s op = .ok ((nextNow now op, s'), o) ∧
      (match projectOp c now op with
       | some e => s'[c] = (s[c].ev c e).1 ∧ o = (s[c].ev c e).2
       | none => s'[c] = s[c]) := by
  cases op with
  | feed b =>
    rcases pScanner_feed_cases now s b hv with ⟨hlo, hhi, h16, hf⟩ | ⟨hn, hf⟩
    · refine ⟨_, _, by simp only [pStep, hf, bind, Except.bind]; rfl, ?_⟩
      by_cases hcc : b.status = 176 + c
      · have e : b.status - 176 = c := by omega
        simp only [projectOp, hcc, if_true]
        subst e
        simp [Vector.getElem_set_self, PChan.ev]
      · simp only [projectOp, hcc, if_false]
        rw [Vector.getElem_set_ne _ _ (by omega)]
    · refine ⟨_, _, by simp only [pStep, hf, bind, Except.bind]; rfl, ?_⟩
      have hcc : ¬ b.status = 176 + c := by omega
      simp only [projectOp, hcc, if_false]
  | poll ch =>
    have hch : ch < 16 := hv
    refine ⟨_, _, by simp only [pStep, PScanner.poll, hch, dite_true, bind, Except.bind]; rfl, ?_⟩
    by_cases he : ch = c
    · subst he
      simp [projectOp, Vector.getElem_set_self, PChan.ev]
    · simp only [projectOp, he, if_false]
      rw [Vector.getElem_set_ne _ _ (by omega)]
  | reset =>
    refine ⟨_, _, rfl, ?_⟩
    simp [projectOp, PScanner.reset, PChan.ev]
  | tick d =>
    exact ⟨_, _, rfl, by simp [projectOp]⟩

/-- Any history: the polling scanner never panics, and for every channel the final sub-scanner state and the
    outputs of the operations that concern the channel are exactly those of that channel's sub-scanner run alone
    on the channel's own events. -/
theorem p_run_channel (c : Nat) (hc : c < 16) (now : Nat) (s : PScanner) (ops : List TOp) (hv : ∀ op ∈ ops, op.Valid) :
    ∃ now' s' outs, pRun now s ops = .ok ((now', s'), outs) ∧ outs.length = ops.length ∧
      s'[c] = (s[c].evs c (project c now ops)).1 ∧
      outputsOn c now ops outs = (s[c].evs c (project c now ops)).2 := by
  induction ops generalizing now s with
  | nil => exact ⟨now, s, [], rfl, rfl, rfl, rfl⟩
  | cons op ops ih =>
    obtain ⟨s1, o, h1, hp⟩ := p_step_channel c hc now s op (hv op (List.mem_cons_self))
    obtain ⟨now2, s2, outs, h2, hl, hs, ho⟩ := ih (nextNow now op) s1
      (fun o ho => hv o (List.mem_cons_of_mem _ ho))
    refine ⟨now2, s2, o :: outs, by simp [pRun, h1, h2, bind, Except.bind], by simp [hl], ?_, ?_⟩
    · simp only [project]
      cases hpo : projectOp c now op with
      | none => simp only [hpo] at hp; rw [hs, hp]
      | some e => simp only [hpo] at hp; rw [hs, hp.1]; simp [PChan.evs]
    · simp only [project, outputsOn]
      cases hpo : projectOp c now op with
      | none => simp only [hpo] at hp; rw [ho, hp]
      | some e => simp only [hpo] at hp; rw [ho, hp.1, hp.2]; simp [PChan.evs]

/-- no event changes a channel's timeout -/
theorem ev_timeout (ch : Nat) (c : PChan) (e : PEv) : (c.ev ch e).1.timeout = c.timeout := by
  cases e with
  | reset => rfl
  | cc cn cv now => rfl
  | poll now =>
    simp only [PChan.ev, PChan.poll]
    split
    · split <;> rfl
    · rfl

theorem evs_timeout (ch : Nat) (c : PChan) (es : List PEv) : (c.evs ch es).1.timeout = c.timeout := by
  induction es generalizing c with
  | nil => rfl
  | cons e es ih => simp only [PChan.evs]; rw [ih, ev_timeout]


end Midi
