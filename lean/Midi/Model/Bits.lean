/-
bit_util.rs and the private nibble helpers of short_message.rs.
`u8` / `u16` values are `Nat`s; `as u8` is `% 256`, a `u16` shift wraps `% 65536`.
-/
import Midi.Model.Prim
namespace Midi

/-- `U7(((value.get() >> 7) & 0x7f) as u8)` -/
def extractHigh7 (v : Nat) : Nat := ((v >>> 7) &&& 0x7f) % 256
/-- `U7((value.get() & 0x7f) as u8)` -/
def extractLow7 (v : Nat) : Nat := (v &&& 0x7f) % 256
/-- `U14((u16::from(high) << 7) | u16::from(low))` -/
def build14 (high low : Nat) : Nat := ((high <<< 7) % 65536) ||| low
/-- `type_byte | channel.get()` -/
def buildStatusByte (typeByte channel : Nat) : Nat := typeByte ||| channel
/-- `Channel(byte & 0x0f)` -/
def extractChannel (byte : Nat) : Nat := byte &&& 0x0f
/-- `U4(value & 0x0f)` -/
def lowNibble (value : Nat) : Nat := value &&& 0x0f
/-- `(byte >> 4) & 0x0f` -/
def highNibble (byte : Nat) : Nat := (byte >>> 4) &&& 0x0f
/-- `(high_nibble << 4) | low_nibble` with the two `debug_assert!`s -/
def buildByteFromNibbles (hi lo : Nat) : Res Nat :=
  if hi ≤ 0xf ∧ lo ≤ 0xf then .ok (((hi <<< 4) % 256) ||| lo) else .error .nibbleDebugAssert

end Midi
