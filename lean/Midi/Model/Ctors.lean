/- Uniform dispatch over the named constructors of ShortMessageFactory (used by the driver and by C06). -/
import Midi.Model.Short
namespace Midi

inductive Ctor
  | noteOff | noteOn | polyphonicKeyPressure | controlChange | programChange | channelPressure
  | pitchBendChange | systemExclusiveStart | timeCodeQuarterFrame | songPositionPointer | songSelect
  | tuneRequest | systemExclusiveEnd | timingClock | start | continue | stop | activeSensing | systemReset
  deriving DecidableEq, Repr, Inhabited

def Ctor.all : List Ctor :=
  [.noteOff, .noteOn, .polyphonicKeyPressure, .controlChange, .programChange, .channelPressure,
   .pitchBendChange, .systemExclusiveStart, .timeCodeQuarterFrame, .songPositionPointer, .songSelect,
   .tuneRequest, .systemExclusiveEnd, .timingClock, .start, .continue, .stop, .activeSensing, .systemReset]

def Ctor.name : Ctor → String
  | .noteOff => "note_off" | .noteOn => "note_on" | .polyphonicKeyPressure => "polyphonic_key_pressure"
  | .controlChange => "control_change" | .programChange => "program_change"
  | .channelPressure => "channel_pressure" | .pitchBendChange => "pitch_bend_change"
  | .systemExclusiveStart => "system_exclusive_start" | .timeCodeQuarterFrame => "time_code_quarter_frame"
  | .songPositionPointer => "song_position_pointer" | .songSelect => "song_select"
  | .tuneRequest => "tune_request" | .systemExclusiveEnd => "system_exclusive_end"
  | .timingClock => "timing_clock" | .start => "start" | .continue => "continue" | .stop => "stop"
  | .activeSensing => "active_sensing" | .systemReset => "system_reset"

def Ctor.ofName? (s : String) : Option Ctor := Ctor.all.find? (fun c => c.name == s)

/-- the message type the constructor is named after -/
def Ctor.msgType : Ctor → MsgType
  | .noteOff => .noteOff | .noteOn => .noteOn | .polyphonicKeyPressure => .polyphonicKeyPressure
  | .controlChange => .controlChange | .programChange => .programChange | .channelPressure => .channelPressure
  | .pitchBendChange => .pitchBendChange | .systemExclusiveStart => .systemExclusiveStart
  | .timeCodeQuarterFrame => .timeCodeQuarterFrame | .songPositionPointer => .songPositionPointer
  | .songSelect => .songSelect | .tuneRequest => .tuneRequest | .systemExclusiveEnd => .systemExclusiveEnd
  | .timingClock => .timingClock | .start => .start | .continue => .continue | .stop => .stop
  | .activeSensing => .activeSensing | .systemReset => .systemReset

/-- quarter frame from its line-protocol code: piece 0..6 with nibble `a`; piece 7 with hours bit `a`, type `b` -/
def QFrame.ofCode (piece a b : Nat) : QFrame :=
  match piece with
  | 0 => .frameCountLs a | 1 => .frameCountMs a | 2 => .secondsLs a | 3 => .secondsMs a
  | 4 => .minutesLs a | 5 => .minutesMs a | 6 => .hoursLs a
  | _ => .last (a != 0) (match b with | 0 => .fps24 | 1 => .fps25 | 2 => .fps30DropFrame | _ => .fps30NonDrop)

/-- arguments within the ranges of their Rust types (up to three: a, b, c; unused ones are 0) -/
def Ctor.ArgsValid (k : Ctor) (a b c : Nat) : Prop :=
  match k with
  | .noteOff | .noteOn | .polyphonicKeyPressure | .controlChange => a < 16 ∧ b < 128 ∧ c < 128
  | .programChange | .channelPressure => a < 16 ∧ b < 128 ∧ c = 0
  | .pitchBendChange => a < 16 ∧ b < 16384 ∧ c = 0
  | .timeCodeQuarterFrame => (a < 7 ∧ b < 16 ∧ c = 0) ∨ (a = 7 ∧ b < 2 ∧ c < 4)
  | .songPositionPointer => a < 16384 ∧ b = 0 ∧ c = 0
  | .songSelect => a < 128 ∧ b = 0 ∧ c = 0
  | _ => a = 0 ∧ b = 0 ∧ c = 0

instance Ctor.decArgsValid (k : Ctor) (a b c : Nat) : Decidable (k.ArgsValid a b c) := by
  cases k <;> unfold Ctor.ArgsValid <;> infer_instance

/-- call the named constructor of factory `F` -/
def modelNamed {α} (F : Factory α) (k : Ctor) (a b c : Nat) : Res α :=
  match k with
  | .noteOff => mkNoteOff F a b c
  | .noteOn => mkNoteOn F a b c
  | .polyphonicKeyPressure => mkPolyphonicKeyPressure F a b c
  | .controlChange => mkControlChange F a b c
  | .programChange => mkProgramChange F a b
  | .channelPressure => mkChannelPressure F a b
  | .pitchBendChange => mkPitchBendChange F a b
  | .systemExclusiveStart => mkSystemExclusiveStart F
  | .timeCodeQuarterFrame => mkTimeCodeQuarterFrame F (QFrame.ofCode a b c)
  | .songPositionPointer => mkSongPositionPointer F a
  | .songSelect => mkSongSelect F a
  | .tuneRequest => mkPlain F .tuneRequest
  | .systemExclusiveEnd => mkPlain F .systemExclusiveEnd
  | .timingClock => mkPlain F .timingClock
  | .start => mkPlain F .start
  | .continue => mkPlain F .continue
  | .stop => mkPlain F .stop
  | .activeSensing => mkPlain F .activeSensing
  | .systemReset => mkPlain F .systemReset

end Midi
