/-
parameter_number_message.rs and parameter_number_message_scanner.rs.
-/
import Midi.Model.Short
namespace Midi

inductive DataType
  | dataEntry | dataIncrement | dataDecrement
  deriving DecidableEq, Repr, Inhabited

def DataType.code : DataType → Nat
  | .dataEntry => 0 | .dataIncrement => 1 | .dataDecrement => 2

inductive ByteOrder
  | msbFirst | lsbFirst
  deriving DecidableEq, Repr, Inhabited

structure PNMsg where
  channel : Nat
  number : Nat
  value : Nat
  isRegistered : Bool
  is14Bit : Bool
  dataType : DataType
  deriving DecidableEq, Repr, Inhabited

/-- what the checked public constructors can build -/
def PNMsg.Valid (m : PNMsg) : Prop :=
  m.channel < 16 ∧ m.number < 16384 ∧
  (if m.is14Bit then m.value < 16384 ∧ m.dataType = .dataEntry else m.value < 128)
instance PNMsg.decValid (m : PNMsg) : Decidable m.Valid := by unfold PNMsg.Valid; infer_instance

/-- `seven_bit`: `value: value.into()` (U7 → U14) -/
def PNMsg.sevenBit (channel number value : Nat) (isRegistered : Bool) (dataType : DataType) : PNMsg :=
  ⟨channel, number, value, isRegistered, false, dataType⟩
/-- `fourteen_bit`: 14-bit value always means data entry -/
def PNMsg.fourteenBit (channel number value : Nat) (isRegistered : Bool) : PNMsg :=
  ⟨channel, number, value, isRegistered, true, .dataEntry⟩

/-- the eight public constructors, by index (declaration order in the source) -/
def PNMsg.ctor (i : Nat) (channel number value : Nat) : PNMsg :=
  match i with
  | 0 => .sevenBit channel number value false .dataEntry        -- non_registered_7_bit
  | 1 => .fourteenBit channel number value false                -- non_registered_14_bit
  | 2 => .sevenBit channel number value false .dataDecrement    -- non_registered_decrement
  | 3 => .sevenBit channel number value false .dataIncrement    -- non_registered_increment
  | 4 => .sevenBit channel number value true .dataEntry         -- registered_7_bit
  | 5 => .fourteenBit channel number value true                 -- registered_14_bit
  | 6 => .sevenBit channel number value true .dataDecrement     -- registered_decrement
  | _ => .sevenBit channel number value true .dataIncrement     -- registered_increment

open Gen.CN in
/-- `to_short_messages`: four slots; `messages[i]` indexing with `i ≤ 3` (the model keeps the index explicit) -/
def PNMsg.toShortMessages {α} (F : Factory α) (m : PNMsg) (order : ByteOrder) : Res (List (Option α)) := do
  let set (ms : List (Option α)) (i : Nat) (x : α) : Res (List (Option α)) :=
    if i < 4 then .ok (ms.set i (some x)) else .error .indexOutOfBounds
  let ms : List (Option α) := [none, none, none, none]
  let i := 0
  -- number MSB
  let x ← mkControlChange F m.channel
    (if m.isRegistered then REGISTERED_PARAMETER_NUMBER_MSB else NON_REGISTERED_PARAMETER_NUMBER_MSB)
    (extractHigh7 m.number)
  let ms ← set ms i x
  let i := i + 1
  -- number LSB
  let x ← mkControlChange F m.channel
    (if m.isRegistered then REGISTERED_PARAMETER_NUMBER_LSB else NON_REGISTERED_PARAMETER_NUMBER_LSB)
    (extractLow7 m.number)
  let ms ← set ms i x
  let i := i + 1
  let dataEntryMsb : Res α :=
    mkControlChange F m.channel DATA_ENTRY_MSB
      (if m.is14Bit then extractHigh7 m.value else m.value % 256)      -- `U7(self.value.get() as u8)`
  let dataEntryLsb : Res α := mkControlChange F m.channel DATA_ENTRY_MSB_LSB (extractLow7 m.value)
  let incDec (cn : Nat) : Res α := mkControlChange F m.channel cn (extractLow7 m.value)
  match m.dataType with
  | .dataEntry =>
    match order with
    | .msbFirst => do
      let x ← dataEntryMsb
      let ms ← set ms i x
      let i := i + 1
      if m.is14Bit then do
        let y ← dataEntryLsb
        set ms i y
      else .ok ms
    | .lsbFirst => do
      let (ms, i) ← (if m.is14Bit then do
          let y ← dataEntryLsb
          let ms ← set ms i y
          .ok (ms, i + 1)
        else .ok (ms, i) : Res (List (Option α) × Nat))
      let x ← dataEntryMsb
      set ms i x
  | .dataIncrement => do
    let x ← incDec DATA_INCREMENT
    set ms i x
  | .dataDecrement => do
    let x ← incDec DATA_DECREMENT
    set ms i x

/-- `From<ParameterNumberMessage> for [Option<T>; 4]` -/
def PNMsg.toArray {α} (F : Factory α) (m : PNMsg) : Res (List (Option α)) := m.toShortMessages F .msbFirst

/-! ### scanner -/

structure PNChan where
  numberMsb : Option Nat := none
  numberLsb : Option Nat := none
  isRegistered : Bool := false
  valueLsb : Option Nat := none
  deriving DecidableEq, Repr, Inhabited

abbrev PNScanner := Vector PNChan 16
def PNScanner.new : PNScanner := Vector.replicate 16 {}

/-- `build_number` -/
def PNChan.buildNumber (st : PNChan) : Option Nat :=
  match st.numberLsb with
  | none => none
  | some l => match st.numberMsb with
    | none => none
    | some m => some (build14 m l)

/-- the `match controller_number.get()` of `ScannerForOneChannel::feed` -/
def PNChan.onCC (st : PNChan) (channel cn cv : Nat) : Res (PNChan × Option PNMsg) :=
  match cn with
  | 98 => .ok ({ st with valueLsb := none, numberLsb := some cv, isRegistered := false }, none)
  | 99 => .ok ({ st with valueLsb := none, numberMsb := some cv, isRegistered := false }, none)
  | 100 => .ok ({ st with valueLsb := none, numberLsb := some cv, isRegistered := true }, none)
  | 101 => .ok ({ st with valueLsb := none, numberMsb := some cv, isRegistered := true }, none)
  | 38 => .ok ({ st with valueLsb := some cv }, none)
  | 6 =>
    match st.buildNumber with
    | none => .ok (st, none)
    | some number =>
      match st.valueLsb with
      | some l => .ok (st, some (.fourteenBit channel number (build14 cv l) st.isRegistered))
      | none => .ok (st, some (.sevenBit channel number cv st.isRegistered .dataEntry))
  | 96 =>
    match st.buildNumber with
    | none => .ok (st, none)
    | some number => .ok (st, some (.sevenBit channel number cv st.isRegistered .dataIncrement))
  | 97 =>
    match st.buildNumber with
    | none => .ok (st, none)
    | some number => .ok (st, some (.sevenBit channel number cv st.isRegistered .dataDecrement))
  | _ => .ok (st, none)

/-- `ScannerForOneChannel::feed` -/
def PNChan.feed {α} (I : Impl α) (st : PNChan) (x : α) : Res (PNChan × Option PNMsg) := do
  match ← toStructured I x with
  | .controlChange channel cn cv => st.onCC channel cn cv
  | _ => .ok (st, none)

/-- `ParameterNumberMessageScanner::feed` -/
def PNScanner.feed {α} (I : Impl α) (s : PNScanner) (x : α) : Res (PNScanner × Option PNMsg) := do
  match ← channel I x with
  | none => .ok (s, none)
  | some ch =>
    if h : ch < 16 then do
      let (st', out) ← s[ch].feed I x
      .ok (s.set ch st', out)
    else .error .indexOutOfBounds

def PNScanner.reset (s : PNScanner) : PNScanner := s.map (fun _ => {})

end Midi
