/-
The enums of short_message.rs: ShortMessageType (discriminants from the regenerated table),
super types, main category, time code types and quarter frames with their U7 codec.
-/
import Midi.Model.Bits
import Midi.Gen.MessageTypes
import Midi.Gen.ControllerNumbers
namespace Midi

inductive MsgType
  | noteOff | noteOn | polyphonicKeyPressure | controlChange | programChange | channelPressure
  | pitchBendChange | systemExclusiveStart | timeCodeQuarterFrame | songPositionPointer | songSelect
  | systemCommonUndefined1 | systemCommonUndefined2 | tuneRequest | systemExclusiveEnd | timingClock
  | systemRealTimeUndefined1 | start | continue | stop | systemRealTimeUndefined2 | activeSensing
  | systemReset
  deriving DecidableEq, Repr, Inhabited

open Gen in
/-- `u8::from(ShortMessageType)` (num_enum IntoPrimitive): the `repr(u8)` discriminant -/
def MsgType.toU8 : MsgType → Nat
  | .noteOff => MT.NoteOff | .noteOn => MT.NoteOn | .polyphonicKeyPressure => MT.PolyphonicKeyPressure
  | .controlChange => MT.ControlChange | .programChange => MT.ProgramChange
  | .channelPressure => MT.ChannelPressure | .pitchBendChange => MT.PitchBendChange
  | .systemExclusiveStart => MT.SystemExclusiveStart | .timeCodeQuarterFrame => MT.TimeCodeQuarterFrame
  | .songPositionPointer => MT.SongPositionPointer | .songSelect => MT.SongSelect
  | .systemCommonUndefined1 => MT.SystemCommonUndefined1 | .systemCommonUndefined2 => MT.SystemCommonUndefined2
  | .tuneRequest => MT.TuneRequest | .systemExclusiveEnd => MT.SystemExclusiveEnd
  | .timingClock => MT.TimingClock | .systemRealTimeUndefined1 => MT.SystemRealTimeUndefined1
  | .start => MT.Start | .continue => MT.Continue | .stop => MT.Stop
  | .systemRealTimeUndefined2 => MT.SystemRealTimeUndefined2 | .activeSensing => MT.ActiveSensing
  | .systemReset => MT.SystemReset

def MsgType.all : List MsgType :=
  [.noteOff, .noteOn, .polyphonicKeyPressure, .controlChange, .programChange, .channelPressure,
   .pitchBendChange, .systemExclusiveStart, .timeCodeQuarterFrame, .songPositionPointer, .songSelect,
   .systemCommonUndefined1, .systemCommonUndefined2, .tuneRequest, .systemExclusiveEnd, .timingClock,
   .systemRealTimeUndefined1, .start, .continue, .stop, .systemRealTimeUndefined2, .activeSensing,
   .systemReset]

/-- `ShortMessageType::try_from(u8)` (num_enum TryFromPrimitive): the variant with that discriminant -/
def MsgType.ofU8 (n : Nat) : Option MsgType := MsgType.all.find? (fun t => t.toU8 == n)

/-- stable index used by the line protocol (position in `MsgType.all`) -/
def MsgType.idx (t : MsgType) : Nat := (MsgType.all.findIdx (· == t))

inductive SuperType
  | channelVoice | channelMode | systemCommon | systemRealTime | systemExclusive
  deriving DecidableEq, Repr, Inhabited

inductive FuzzySuperType
  | channel | systemCommon | systemRealTime | systemExclusive
  deriving DecidableEq, Repr, Inhabited

inductive MainCategory
  | channel | system
  deriving DecidableEq, Repr, Inhabited

def SuperType.code : SuperType → Nat
  | .channelVoice => 0 | .channelMode => 1 | .systemCommon => 2 | .systemRealTime => 3 | .systemExclusive => 4
def FuzzySuperType.code : FuzzySuperType → Nat
  | .channel => 0 | .systemCommon => 1 | .systemRealTime => 2 | .systemExclusive => 3
def MainCategory.code : MainCategory → Nat
  | .channel => 0 | .system => 1

/-- `ShortMessageType::super_type` -/
def MsgType.superType : MsgType → FuzzySuperType
  | .noteOn | .noteOff | .channelPressure | .polyphonicKeyPressure | .pitchBendChange | .programChange
  | .controlChange => .channel
  | .timingClock | .systemRealTimeUndefined1 | .start | .continue | .stop | .systemRealTimeUndefined2
  | .activeSensing | .systemReset => .systemRealTime
  | .timeCodeQuarterFrame | .songPositionPointer | .songSelect | .systemCommonUndefined1
  | .systemCommonUndefined2 | .tuneRequest | .systemExclusiveEnd => .systemCommon
  | .systemExclusiveStart => .systemExclusive

/-- `FuzzyMessageSuperType::main_category` -/
def FuzzySuperType.mainCategory (s : FuzzySuperType) : MainCategory :=
  if s = .channel then .channel else .system

/-- `MessageSuperType::main_category` -/
def SuperType.mainCategory : SuperType → MainCategory
  | .channelMode | .channelVoice => .channel
  | .systemCommon | .systemRealTime | .systemExclusive => .system

/-- `extract_type_from_status_byte` (the `Err` case is `none`) -/
def extractType (statusByte : Nat) : Res (Option MsgType) :=
  let hi := highNibble statusByte
  if hi = 0xf then .ok (MsgType.ofU8 statusByte)
  else do
    let b ← buildByteFromNibbles hi 0
    .ok (MsgType.ofU8 b)

/-! ### controller number predicates (controller_number_mod.rs) -/

def cnCanBePartOf14 (n : Nat) : Bool := n < 64
/-- `corresponding_14_bit_lsb_controller_number`; `self.0 + 32` can overflow only for n ≥ 224 -/
def cnLsbOf (n : Nat) : Res (Option Nat) :=
  if n ≥ 32 then .ok none else if n + 32 ≥ 256 then .error .addOverflow else .ok (some (n + 32))
def cnIsParameterNumber (n : Nat) : Bool :=
  n == 98 || n == 99 || n == 100 || n == 101 || n == 38 || n == 6 || n == 96 || n == 97
/-- `*self >= controller_numbers::<the constant named in the source>` -/
def cnIsChannelMode (n : Nat) : Bool := n ≥ Gen.channelModeThreshold

/-! ### time code -/

inductive TimeCodeType
  | fps24 | fps25 | fps30DropFrame | fps30NonDrop
  deriving DecidableEq, Repr, Inhabited

open Gen in
def TimeCodeType.toU8 : TimeCodeType → Nat
  | .fps24 => TC.Fps24 | .fps25 => TC.Fps25 | .fps30DropFrame => TC.Fps30DropFrame
  | .fps30NonDrop => TC.Fps30NonDrop

def TimeCodeType.all : List TimeCodeType := [.fps24, .fps25, .fps30DropFrame, .fps30NonDrop]
def TimeCodeType.ofU8 (n : Nat) : Option TimeCodeType := TimeCodeType.all.find? (fun t => t.toU8 == n)

inductive QFrame
  | frameCountLs (v : Nat) | frameCountMs (v : Nat) | secondsLs (v : Nat) | secondsMs (v : Nat)
  | minutesLs (v : Nat) | minutesMs (v : Nat) | hoursLs (v : Nat)
  | last (hoursMsBit : Bool) (tct : TimeCodeType)
  deriving DecidableEq, Repr, Inhabited

def QFrame.Valid : QFrame → Prop
  | .frameCountLs v | .frameCountMs v | .secondsLs v | .secondsMs v | .minutesLs v | .minutesMs v
  | .hoursLs v => v < 16
  | .last _ _ => True

instance QFrame.decValid (f : QFrame) : Decidable f.Valid := by cases f <;> unfold QFrame.Valid <;> infer_instance

/-- `build_mtc_quarter_frame_data_byte` -/
def buildMtc (frameType data : Nat) : Nat := ((frameType <<< 4) % 256) ||| data

/-- `From<TimeCodeQuarterFrame> for U7` -/
def QFrame.toU7 : QFrame → Nat
  | .frameCountLs v => buildMtc 0 v | .frameCountMs v => buildMtc 1 v | .secondsLs v => buildMtc 2 v
  | .secondsMs v => buildMtc 3 v | .minutesLs v => buildMtc 4 v | .minutesMs v => buildMtc 5 v
  | .hoursLs v => buildMtc 6 v
  | .last b t =>
    let bit0 := if b then 1 else 0
    let bit12 := (t.toU8 <<< 1) % 256
    buildMtc 7 (bit12 ||| bit0)

/-- `From<U7> for TimeCodeQuarterFrame` -/
def QFrame.ofU7 (data : Nat) : Res QFrame :=
  match highNibble data with
  | 0 => .ok (.frameCountLs (lowNibble data))
  | 1 => .ok (.frameCountMs (lowNibble data))
  | 2 => .ok (.secondsLs (lowNibble data))
  | 3 => .ok (.secondsMs (lowNibble data))
  | 4 => .ok (.minutesLs (lowNibble data))
  | 5 => .ok (.minutesMs (lowNibble data))
  | 6 => .ok (.hoursLs (lowNibble data))
  | 7 =>
    match TimeCodeType.ofU8 ((data &&& 0b0000110) >>> 1) with
    | some t => .ok (.last ((data &&& 0b0000001) != 0) t)
    | none => .error .unknownTimeCodeType
  | _ => .error .qfUnreachable

end Midi
