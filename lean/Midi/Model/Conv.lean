/-
newtype_macros.rs: the six range-restricted integer types (`newtype!`) and the five conversion macros.
A value of a newtype is modelled as the mathematical value (`Int`) of its payload; the range is an explicit
predicate, never a subtype, because C04 is about values escaping their range.
-/
import Midi.Model.Prim
import Midi.Gen.Conversions
import Midi.Gen.Features
namespace Midi

/-- pointer widths Rust supports -/
def pointerWidths : List Nat := [16, 32, 64]

def ntDef? (i : Nat) : Option NewtypeDef := Gen.newtypes[i]?

/-- `is_valid(number)`: `number >= 0.into() && number <= $max.into()`, evaluated in the type of `number`
    (`From<$repr>` into that type is lossless, so this is the comparison of mathematical values). -/
def NewtypeDef.isValid (T : NewtypeDef) (x : Int) : Bool := 0 ≤ x && x ≤ (T.max : Int)

/-- the set of values a source type can hold -/
def Ty.Holds (pw : Nat) : Ty → Int → Prop
  | .prim p, x => p.InRange pw x
  | .nt i, x => match ntDef? i with | some T => 0 ≤ x ∧ x ≤ (T.max : Int) | none => False

/-- One conversion, as the macro body computes it.  `none` = `Err(TryFromGreaterError)`; an entry that refers
    to an unknown newtype yields `none` as well (the extractor reports that separately). -/
def convModel (pw : Nat) (e : ConvEntry) (x : Int) : Option Int :=
  match e.kind, e.src, e.dst with
  -- impl_from_newtype_to_newtype: `Self(value.0 as _)`
  | .fromNN, .nt _, .nt j => (ntDef? j).map (fun B => B.repr.cast pw x)
  -- impl_from_newtype_to_primitive: `value.0 as _`
  | .fromNP, .nt _, .prim p => some (p.cast pw x)
  -- impl_from_primitive_to_newtype: `Self(value as _)`
  | .fromPN, .prim _, .nt j => (ntDef? j).map (fun B => B.repr.cast pw x)
  -- impl_try_from_newtype_to_newtype: `if !Self::is_valid(value.0) { Err } else { Ok(Self(value.0 as _)) }`
  | .tryNN, .nt _, .nt j => (ntDef? j).bind (fun B => if B.isValid x then some (B.repr.cast pw x) else none)
  -- impl_try_from_primitive_to_newtype: `if !Self::is_valid(value) { Err } else { Ok(Self(value as _)) }`
  | .tryPN, .prim _, .nt j => (ntDef? j).bind (fun B => if B.isValid x then some (B.repr.cast pw x) else none)
  -- hand-written delegation `T::try_from(<V>::from(value))`: widen to V, then the macro body for V
  | .tryPNvia q, .prim _, .nt j =>
      let y := q.cast pw x
      (ntDef? j).bind (fun B => if B.isValid y then some (B.repr.cast pw y) else none)
  | _, _, _ => none

def ConvKind.isTry : ConvKind → Bool
  | .tryNN | .tryPN | .tryPNvia _ => true
  | _ => false

/-- upper bound of the destination: the newtype's max, or the primitive's maximum -/
def Ty.upper (pw : Nat) : Ty → Option Int
  | .prim p => some (p.maxVal pw)
  | .nt i => (ntDef? i).map (fun T => (T.max : Int))

/-! ### `new`, constants -/

/-- does some block of `new` that asserts `is_valid(value)` survive cfg-stripping in this configuration? -/
def newAssertActive (cfg : Config) : Bool :=
  Gen.newAssertGuards.any (fun p => p.2 && p.1.eval cfg)

/-- `T::new(value)`; `value` is any value of the representation type -/
def newModel (cfg : Config) (T : NewtypeDef) (v : Nat) : Res Nat :=
  if newAssertActive cfg && !(T.isValid v) then .error .newAssert else .ok v

/-- every set of features a build can enable (subsets of the declared features and optional dependencies),
    with and without the verification cfg flag -/
def sublists {α} : List α → List (List α)
  | [] => [[]]
  | x :: xs => let r := sublists xs; r ++ r.map (x :: ·)

def allConfigs : List Config := (sublists Gen.enableableFeatures).map (fun fs => { features := fs })

def NewtypeDef.minConst (_ : NewtypeDef) : Nat := 0     -- `pub const MIN: $name = $name(0)`
def NewtypeDef.maxConst (T : NewtypeDef) : Nat := T.max -- `pub const MAX: $name = $name($max)`
def NewtypeDef.default (_ : NewtypeDef) : Nat := 0      -- derive(Default) on a tuple struct of an integer

/-! ### parsing and printing (models of `core`'s `u8::from_str` / `u16::from_str` and `Display`) -/

/-- the digit loop of `from_str_radix(_, 10)` for an unsigned type with maximum `maxv`:
    `result.checked_mul(10)?.checked_add(digit)?` -/
def parseDigits (maxv : Nat) : List Char → Nat → Option Nat
  | [], acc => some acc
  | c :: cs, acc =>
    if c.isDigit then
      let acc' := acc * 10 + (c.toNat - 48)
      if acc' > maxv then none else parseDigits maxv cs acc'
    else none

/-- `<unsigned>::from_str`: empty → Err; a lone sign → Err; one leading `+` is accepted; `-` is not a digit -/
def parsePrim (maxv : Nat) (s : List Char) : Option Nat :=
  match s with
  | [] => none
  | ['+'] => none
  | ['-'] => none
  | '+' :: rest => parseDigits maxv rest 0
  | _ => parseDigits maxv s 0

/-- `FromStr for $name`: parse the primitive, then range-check -/
def parseNewtype (pw : Nat) (T : NewtypeDef) (s : List Char) : Option Nat :=
  match parsePrim (T.repr.maxVal pw).toNat s with
  | none => none
  | some p => if T.isValid p then some p else none

/-- decimal digits, most significant first (`Display` for an unsigned integer) -/
def displayNat (n : Nat) : List Char :=
  if h : n < 10 then [Char.ofNat (48 + n)] else displayNat (n / 10) ++ [Char.ofNat (48 + n % 10)]
decreasing_by omega

/-- alignment requested in a format spec -/
inductive Align | left | right | center
deriving DecidableEq, Repr

/-- the parts of a `{:...}` format spec that integer `Display` looks at (and `precision`, which it ignores) -/
structure FmtSpec where
  fill : Char := ' '
  align : Option Align := none
  plus : Bool := false
  zero : Bool := false
  width : Option Nat := none
  precision : Option Nat := none

/-- `core::fmt::Formatter::pad_integral` for a non-negative integer without a radix prefix: the derived
    `Display` of a restricted integer hands the caller's formatter to the primitive's `Display` -/
def padIntegral (f : FmtSpec) (digits : List Char) : List Char :=
  let sign := if f.plus then ['+'] else []
  let len := sign.length + digits.length
  match f.width with
  | none => sign ++ digits
  | some w =>
    if w ≤ len then sign ++ digits
    else if f.zero then sign ++ List.replicate (w - len) '0' ++ digits
    else
      let pad := w - len
      match f.align.getD .right with
      | .left => sign ++ digits ++ List.replicate pad f.fill
      | .right => List.replicate pad f.fill ++ sign ++ digits
      | .center => List.replicate (pad / 2) f.fill ++ sign ++ digits ++ List.replicate ((pad + 1) / 2) f.fill

def displayWith (f : FmtSpec) (n : Nat) : List Char := padIntegral f (displayNat n)

end Midi
