/-
short_message.rs (trait ShortMessage with its default methods), raw_short_message.rs,
short_message_factory.rs.  The trait is a record of the three getters (plus the two overridable
methods the crate itself overrides); every default method is one generic definition.
-/
import Midi.Model.Structured
namespace Midi

/-- An implementation of `trait ShortMessage`: the three required getters, and the two default
    methods that implementations in the crate override (`to_bytes` may be overridden by anyone). -/
structure Impl (α : Type) where
  status : α → Nat
  d1 : α → Nat
  d2 : α → Nat
  toBytes : α → Bytes := fun x => ⟨status x, d1 x, d2 x⟩
  /-- `some f` when `to_structured` is overridden (StructuredShortMessage returns `*self`) -/
  toStructuredOverride : Option (α → SMsg) := none

/-- An implementation of `trait ShortMessageFactory` -/
structure Factory (α : Type) extends Impl α where
  ofBytesUnchecked : Bytes → Res α

/-- the `to_bytes` of an implementor agrees with its getters (true of the default) -/
def Impl.ConsistentBytes (I : Impl α) : Prop := ∀ x, I.toBytes x = ⟨I.status x, I.d1 x, I.d2 x⟩

/-- RawShortMessage -/
def rawImpl : Impl Bytes := { status := (·.status), d1 := (·.d1), d2 := (·.d2) }
def rawFactory : Factory Bytes := { rawImpl with ofBytesUnchecked := fun b => .ok b }

/-- StructuredShortMessage -/
def structuredImpl : Impl SMsg :=
  { status := SMsg.statusByte, d1 := SMsg.dataByte1, d2 := SMsg.dataByte2,
    toStructuredOverride := some id }
def structuredFactory : Factory SMsg := { structuredImpl with ofBytesUnchecked := SMsg.ofBytesUnchecked }

section defaults
variable {α β : Type}

/-- `to_other` -/
def toOther (I : Impl α) (F : Factory β) (x : α) : Res β := F.ofBytesUnchecked (I.toBytes x)

/-- `to_structured` -/
def toStructured (I : Impl α) (x : α) : Res SMsg :=
  match I.toStructuredOverride with
  | some f => .ok (f x)
  | none => SMsg.ofBytesUnchecked (I.toBytes x)

/-- `type` -/
def msgType (I : Impl α) (x : α) : Res MsgType := do
  match ← extractType (I.status x) with
  | some t => .ok t
  | none => .error .invalidStatusByte

/-- `super_type` -/
def superType (I : Impl α) (x : α) : Res SuperType := do
  let t ← msgType I x
  match t with
  | .noteOn | .noteOff | .channelPressure | .polyphonicKeyPressure | .pitchBendChange
  | .programChange => .ok .channelVoice
  | .controlChange => if cnIsChannelMode (I.d1 x) then .ok .channelMode else .ok .channelVoice
  | .timingClock | .systemRealTimeUndefined1 | .start | .continue | .stop | .systemRealTimeUndefined2
  | .activeSensing | .systemReset => .ok .systemRealTime
  | .timeCodeQuarterFrame | .songPositionPointer | .songSelect | .systemCommonUndefined1
  | .systemCommonUndefined2 | .tuneRequest | .systemExclusiveEnd => .ok .systemCommon
  | .systemExclusiveStart => .ok .systemExclusive

/-- `main_category` -/
def mainCategory (I : Impl α) (x : α) : Res MainCategory := do
  let s ← superType I x
  .ok s.mainCategory

/-- `is_note_on` -/
def isNoteOn (I : Impl α) (x : α) : Res Bool := do
  match ← toStructured I x with
  | .noteOn _ _ velocity => .ok (velocity > 0)
  | _ => .ok false

/-- `is_note_off` -/
def isNoteOff (I : Impl α) (x : α) : Res Bool := do
  match ← toStructured I x with
  | .noteOff _ _ _ => .ok true
  | .noteOn _ _ velocity => .ok (velocity == 0)
  | _ => .ok false

/-- `is_note` -/
def isNote (I : Impl α) (x : α) : Res Bool := do
  let t ← msgType I x
  .ok (t == .noteOn || t == .noteOff)

/-- `channel` -/
def channel (I : Impl α) (x : α) : Res (Option Nat) := do
  let c ← mainCategory I x
  if c ≠ .channel then .ok none else .ok (some (extractChannel (I.status x)))

/-- `key_number` -/
def keyNumber (I : Impl α) (x : α) : Res (Option Nat) := do
  match ← msgType I x with
  | .noteOff | .noteOn | .polyphonicKeyPressure => .ok (some (I.d1 x))
  | _ => .ok none

/-- `velocity` -/
def velocity (I : Impl α) (x : α) : Res (Option Nat) := do
  match ← msgType I x with
  | .noteOff | .noteOn => .ok (some (I.d2 x))
  | _ => .ok none

/-- `controller_number` -/
def controllerNumber (I : Impl α) (x : α) : Res (Option Nat) := do
  let t ← msgType I x
  if t ≠ .controlChange then .ok none else .ok (some (I.d1 x))

/-- `control_value` -/
def controlValue (I : Impl α) (x : α) : Res (Option Nat) := do
  let t ← msgType I x
  if t ≠ .controlChange then .ok none else .ok (some (I.d2 x))

/-- `program_number` -/
def programNumber (I : Impl α) (x : α) : Res (Option Nat) := do
  let t ← msgType I x
  if t ≠ .programChange then .ok none else .ok (some (I.d1 x))

/-- `pressure_amount` -/
def pressureAmount (I : Impl α) (x : α) : Res (Option Nat) := do
  match ← msgType I x with
  | .polyphonicKeyPressure => .ok (some (I.d2 x))
  | .channelPressure => .ok (some (I.d1 x))
  | _ => .ok none

/-- `pitch_bend_value` -/
def pitchBendValue (I : Impl α) (x : α) : Res (Option Nat) := do
  let t ← msgType I x
  if t ≠ .pitchBendChange then .ok none else .ok (some (build14 (I.d2 x) (I.d1 x)))

end defaults

/-! ### ShortMessageFactory default methods -/
section factory
variable {α β : Type}

/-- `from_bytes`; `none` is `Err(FromBytesError)` -/
def fromBytes (F : Factory α) (b : Bytes) : Res (Option α) := do
  match ← extractType b.status with
  | none => .ok none
  | some _ => do
    let m ← F.ofBytesUnchecked b
    .ok (some m)

/-- `from_other` -/
def fromOther (F : Factory β) (I : Impl α) (x : α) : Res β := toOther I F x

def channelMessage (F : Factory α) (t : MsgType) (ch d1 d2 : Nat) : Res α :=
  if t.superType ≠ .channel then .error .categoryAssert
  else F.ofBytesUnchecked ⟨buildStatusByte t.toU8 ch, d1, d2⟩

def systemCommonMessage (F : Factory α) (t : MsgType) (d1 d2 : Nat) : Res α :=
  if t.superType ≠ .systemCommon then .error .categoryAssert
  else F.ofBytesUnchecked ⟨t.toU8, d1, d2⟩

def systemRealTimeMessage (F : Factory α) (t : MsgType) : Res α :=
  if t.superType ≠ .systemRealTime then .error .categoryAssert
  else F.ofBytesUnchecked ⟨t.toU8, 0, 0⟩

def mkNoteOn (F : Factory α) (ch key vel : Nat) : Res α :=
  F.ofBytesUnchecked ⟨buildStatusByte MsgType.noteOn.toU8 ch, key, vel⟩
def mkNoteOff (F : Factory α) (ch key vel : Nat) : Res α :=
  F.ofBytesUnchecked ⟨buildStatusByte MsgType.noteOff.toU8 ch, key, vel⟩
def mkControlChange (F : Factory α) (ch cn cv : Nat) : Res α :=
  F.ofBytesUnchecked ⟨buildStatusByte MsgType.controlChange.toU8 ch, cn, cv⟩
def mkProgramChange (F : Factory α) (ch pn : Nat) : Res α :=
  F.ofBytesUnchecked ⟨buildStatusByte MsgType.programChange.toU8 ch, pn, 0⟩
def mkPolyphonicKeyPressure (F : Factory α) (ch key pa : Nat) : Res α :=
  F.ofBytesUnchecked ⟨buildStatusByte MsgType.polyphonicKeyPressure.toU8 ch, key, pa⟩
def mkChannelPressure (F : Factory α) (ch pa : Nat) : Res α :=
  F.ofBytesUnchecked ⟨buildStatusByte MsgType.channelPressure.toU8 ch, pa, 0⟩
/-- `U7((v & 0x7f) as u8)`, `U7((v >> 7) as u8)` -/
def mkPitchBendChange (F : Factory α) (ch v : Nat) : Res α :=
  F.ofBytesUnchecked ⟨buildStatusByte MsgType.pitchBendChange.toU8 ch, (v &&& 0x7f) % 256, (v >>> 7) % 256⟩
def mkSystemExclusiveStart (F : Factory α) : Res α :=
  F.ofBytesUnchecked ⟨MsgType.systemExclusiveStart.toU8, 0, 0⟩
def mkTimeCodeQuarterFrame (F : Factory α) (f : QFrame) : Res α :=
  F.ofBytesUnchecked ⟨MsgType.timeCodeQuarterFrame.toU8, f.toU7, 0⟩
def mkSongPositionPointer (F : Factory α) (p : Nat) : Res α :=
  F.ofBytesUnchecked ⟨MsgType.songPositionPointer.toU8, (p &&& 0x7f) % 256, (p >>> 7) % 256⟩
def mkSongSelect (F : Factory α) (n : Nat) : Res α :=
  F.ofBytesUnchecked ⟨MsgType.songSelect.toU8, n, 0⟩
/-- the parameterless constructors: `(type.into(), U7::MIN, U7::MIN)` -/
def mkPlain (F : Factory α) (t : MsgType) : Res α := F.ofBytesUnchecked ⟨t.toU8, 0, 0⟩

end factory

end Midi
