/-
Primitive vocabulary of the model: panic sites, Rust primitive integer types with their ranges and
wrap-around casts, the shapes of the tables regenerated from the source (`Midi/Gen/*`), cfg guards.
Core Lean only (no imports) so that the driver links as a native executable.
-/
namespace Midi

/-- One constructor per source site that can panic (assert!, expect, unreachable!, index, debug overflow). -/
inductive Panic
  | invalidStatusByte        -- short_message.rs  `type()`: expect("invalid status byte detected")
  | structuredInvalidStatus  -- structured_short_message.rs from_bytes_unchecked: expect("invalid status byte")
  | unknownTimeCodeType      -- short_message.rs From<U7> for TimeCodeQuarterFrame: expect("unknown time code type")
  | qfUnreachable            -- same function: unreachable!()
  | nibbleDebugAssert        -- build_byte_from_nibbles debug_assert!
  | newAssert                -- newtype_macros.rs `new`: assert!(is_valid(value))
  | cc14MsbAssert            -- ControlChange14BitMessage::new assert!
  | cc14LsbImpossible        -- lsb_controller_number / scanner: expect("impossible")
  | categoryAssert           -- short_message_factory.rs generic constructors assert_eq!
  | testUtilExpect           -- test_util.rs try_into().expect(..)
  | indexOutOfBounds         -- array indexing
  | addOverflow              -- debug-build `+` overflow on u8 (`self.0 + 32`)
  deriving DecidableEq, Repr, Inhabited

def Panic.code : Panic → Nat
  | .invalidStatusByte => 1 | .structuredInvalidStatus => 2 | .unknownTimeCodeType => 3
  | .qfUnreachable => 4 | .nibbleDebugAssert => 5 | .newAssert => 6 | .cc14MsbAssert => 7
  | .cc14LsbImpossible => 8 | .categoryAssert => 9 | .testUtilExpect => 10
  | .indexOutOfBounds => 11 | .addOverflow => 12

abbrev Res (α : Type) := Except Panic α

deriving instance DecidableEq for Except

/-- status byte and two data bytes -/
structure Bytes where
  status : Nat
  d1 : Nat
  d2 : Nat
  deriving DecidableEq, Repr, Inhabited

/-- what `(u8, U7, U7)` can hold when the U7s are in range -/
def Bytes.InRange (b : Bytes) : Prop := b.status < 256 ∧ b.d1 < 128 ∧ b.d2 < 128
/-- a short message with a valid status byte -/
def Bytes.Valid (b : Bytes) : Prop := 128 ≤ b.status ∧ b.status < 256 ∧ b.d1 < 128 ∧ b.d2 < 128

instance Bytes.decInRange (b : Bytes) : Decidable b.InRange := by unfold Bytes.InRange; infer_instance
instance Bytes.decValid (b : Bytes) : Decidable b.Valid := by unfold Bytes.Valid; infer_instance

/-- Rust primitive integer types -/
inductive PrimTy
  | u8 | i8 | u16 | i16 | u32 | i32 | u64 | i64 | u128 | i128 | usize | isize
  deriving DecidableEq, Repr, Inhabited

/-- bit width; pointer width is a parameter (16, 32 or 64) -/
def PrimTy.bits (pw : Nat) : PrimTy → Nat
  | .u8 | .i8 => 8 | .u16 | .i16 => 16 | .u32 | .i32 => 32 | .u64 | .i64 => 64
  | .u128 | .i128 => 128 | .usize | .isize => pw

def PrimTy.signed : PrimTy → Bool
  | .i8 | .i16 | .i32 | .i64 | .i128 | .isize => true
  | _ => false

def PrimTy.minVal (pw : Nat) (t : PrimTy) : Int :=
  if t.signed then - (2 ^ (t.bits pw - 1) : Nat) else 0
def PrimTy.maxVal (pw : Nat) (t : PrimTy) : Int :=
  if t.signed then (2 ^ (t.bits pw - 1) : Nat) - 1 else (2 ^ (t.bits pw) : Nat) - 1

def PrimTy.InRange (pw : Nat) (t : PrimTy) (x : Int) : Prop := t.minVal pw ≤ x ∧ x ≤ t.maxVal pw
instance PrimTy.decInRange (pw t x) : Decidable (PrimTy.InRange pw t x) := by unfold PrimTy.InRange; infer_instance

/-- Rust's `x as t` for integer `x` (two's-complement truncation / reinterpretation). -/
def PrimTy.cast (pw : Nat) (t : PrimTy) (x : Int) : Int :=
  let m : Int := (2 ^ (t.bits pw) : Nat)
  let r := x % m     -- Int.emod: 0 ≤ r < m
  if t.signed then (if r ≥ m / 2 then r - m else r) else r

def PrimTy.name : PrimTy → String
  | .u8 => "u8" | .i8 => "i8" | .u16 => "u16" | .i16 => "i16" | .u32 => "u32" | .i32 => "i32"
  | .u64 => "u64" | .i64 => "i64" | .u128 => "u128" | .i128 => "i128" | .usize => "usize" | .isize => "isize"

def PrimTy.ofName? : String → Option PrimTy
  | "u8" => some .u8 | "i8" => some .i8 | "u16" => some .u16 | "i16" => some .i16 | "u32" => some .u32
  | "i32" => some .i32 | "u64" => some .u64 | "i64" => some .i64 | "u128" => some .u128
  | "i128" => some .i128 | "usize" => some .usize | "isize" => some .isize | _ => none

/-- one `newtype!` invocation -/
structure NewtypeDef where
  name : String
  repr : PrimTy
  max : Nat
  deriving Repr, Inhabited

/-- source / target of a conversion: a primitive or a newtype (by name) -/
inductive Ty
  | prim (t : PrimTy)
  | nt (idx : Nat)   -- index into `Gen.newtypes`
  deriving DecidableEq, Repr, Inhabited

/-- which of the five conversion macros -/
inductive ConvKind
  | fromNN | fromNP | fromPN | tryNN | tryPN
  /-- hand-written `TryFrom<P> for T` that delegates: `T::try_from(<V>::from(value))` -/
  | tryPNvia (via : PrimTy)
  deriving DecidableEq, Repr, Inhabited

structure ConvEntry where
  kind : ConvKind
  src : Ty
  dst : Ty
  deriving DecidableEq, Repr, Inhabited

/-- cfg predicates -/
inductive Guard
  | feature (idx : Nat)   -- index into `Gen.featureNames`
  | flag (idx : Nat)
  | not (g : Guard)
  | all (gs : List Guard)
  | any (gs : List Guard)
  deriving Repr, Inhabited

/-- a build configuration: enabled features and `--cfg` flags -/
structure Config where
  features : List Nat
  flags : List Nat := []
  deriving Repr, Inhabited

mutual
def Guard.eval (c : Config) : Guard → Bool
  | .feature n => c.features.contains n
  | .flag n => c.flags.contains n
  | .not g => !(Guard.eval c g)
  | .all gs => Guard.evalAll c gs
  | .any gs => Guard.evalAny c gs
def Guard.evalAll (c : Config) : List Guard → Bool
  | [] => true
  | g :: gs => Guard.eval c g && Guard.evalAll c gs
def Guard.evalAny (c : Config) : List Guard → Bool
  | [] => false
  | g :: gs => Guard.eval c g || Guard.evalAny c gs
end

end Midi
