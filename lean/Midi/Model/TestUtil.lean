/- test_util.rs: shorthand constructors taking primitives, `try_into().expect(..)` on every argument. -/
import Midi.Model.Short
import Midi.Model.CC14
import Midi.Model.PN
namespace Midi

/-- `value.try_into().expect("not a valid ...")` for a newtype with maximum `max` -/
def tuConv (max v : Nat) : Res Nat := if v ≤ max then .ok v else .error .testUtilExpect

def tuU4 := tuConv 15
def tuU7 := tuConv 127
def tuU14 := tuConv 16383
def tuChannel := tuConv 15
def tuKeyNumber := tuConv 127
def tuControllerNumber := tuConv 127

/-- `short(status, d1, d2)`: `Msg::from_bytes(..).expect("invalid status byte")` -/
def tuShort (s d1 d2 : Nat) : Res Bytes := do
  let a ← tuU7 d1
  let b ← tuU7 d2
  match ← fromBytes rawFactory ⟨s, a, b⟩ with
  | some m => .ok m
  | none => .error .testUtilExpect

def tuNoteOn (ch k v : Nat) : Res Bytes := do
  let c ← tuChannel ch; let k ← tuKeyNumber k; let v ← tuU7 v; mkNoteOn rawFactory c k v
def tuNoteOff (ch k v : Nat) : Res Bytes := do
  let c ← tuChannel ch; let k ← tuKeyNumber k; let v ← tuU7 v; mkNoteOff rawFactory c k v
def tuControlChange (ch n v : Nat) : Res Bytes := do
  let c ← tuChannel ch; let n ← tuControllerNumber n; let v ← tuU7 v; mkControlChange rawFactory c n v
def tuProgramChange (ch p : Nat) : Res Bytes := do
  let c ← tuChannel ch; let p ← tuU7 p; mkProgramChange rawFactory c p
def tuPolyphonicKeyPressure (ch k p : Nat) : Res Bytes := do
  let c ← tuChannel ch; let k ← tuKeyNumber k; let p ← tuU7 p; mkPolyphonicKeyPressure rawFactory c k p
def tuChannelPressure (ch p : Nat) : Res Bytes := do
  let c ← tuChannel ch; let p ← tuU7 p; mkChannelPressure rawFactory c p
def tuPitchBendChange (ch v : Nat) : Res Bytes := do
  let c ← tuChannel ch; let v ← tuU14 v; mkPitchBendChange rawFactory c v
def tuSongPositionPointer (p : Nat) : Res Bytes := do
  let p ← tuU14 p; mkSongPositionPointer rawFactory p
def tuSongSelect (n : Nat) : Res Bytes := do
  let n ← tuU7 n; mkSongSelect rawFactory n

end Midi

namespace Midi

/-- `control_change_14_bit(channel, msb_controller_number, value)`: three conversions, then `new` -/
def tuControlChange14Bit (ch msb value : Nat) : Res CC14Msg := do
  let c ← tuChannel ch; let n ← tuControllerNumber msb; let v ← tuU14 value
  CC14Msg.new c n v

/-- `nrpn`, `nrpn_14_bit`, `rpn`, `rpn_14_bit` -/
def tuPn (registered is14 : Bool) (ch number value : Nat) : Res PNMsg := do
  let c ← tuChannel ch; let n ← tuU14 number
  if is14 then do
    let v ← tuU14 value
    .ok (.fourteenBit c n v registered)
  else do
    let v ← tuU7 value
    .ok (.sevenBit c n v registered .dataEntry)

end Midi
