/-
structured_short_message.rs: the enum, `from_bytes_unchecked` and the three byte getters.
-/
import Midi.Model.Types
namespace Midi

inductive SMsg
  | noteOff (channel keyNumber velocity : Nat)
  | noteOn (channel keyNumber velocity : Nat)
  | polyphonicKeyPressure (channel keyNumber pressureAmount : Nat)
  | controlChange (channel controllerNumber controlValue : Nat)
  | programChange (channel programNumber : Nat)
  | channelPressure (channel pressureAmount : Nat)
  | pitchBendChange (channel pitchBendValue : Nat)
  | systemExclusiveStart
  | timeCodeQuarterFrame (frame : QFrame)
  | songPositionPointer (position : Nat)
  | songSelect (songNumber : Nat)
  | tuneRequest
  | systemExclusiveEnd
  | timingClock
  | start
  | continue
  | stop
  | activeSensing
  | systemReset
  | systemCommonUndefined1
  | systemCommonUndefined2
  | systemRealTimeUndefined1
  | systemRealTimeUndefined2
  deriving DecidableEq, Repr, Inhabited

/-- all fields within the range of their Rust type -/
def SMsg.Valid : SMsg → Prop
  | .noteOff c k v | .noteOn c k v | .polyphonicKeyPressure c k v | .controlChange c k v =>
      c < 16 ∧ k < 128 ∧ v < 128
  | .programChange c p | .channelPressure c p => c < 16 ∧ p < 128
  | .pitchBendChange c v => c < 16 ∧ v < 16384
  | .timeCodeQuarterFrame f => f.Valid
  | .songPositionPointer p => p < 16384
  | .songSelect n => n < 128
  | _ => True

instance SMsg.decValid (m : SMsg) : Decidable m.Valid := by cases m <;> unfold SMsg.Valid <;> infer_instance

/-- `StructuredShortMessage::from_bytes_unchecked` -/
def SMsg.ofBytesUnchecked (b : Bytes) : Res SMsg := do
  let t? ← extractType b.status
  match t? with
  | none => .error .structuredInvalidStatus
  | some t =>
    match t with
    | .noteOff => .ok (.noteOff (extractChannel b.status) b.d1 b.d2)
    | .noteOn => .ok (.noteOn (extractChannel b.status) b.d1 b.d2)
    | .polyphonicKeyPressure => .ok (.polyphonicKeyPressure (extractChannel b.status) b.d1 b.d2)
    | .controlChange => .ok (.controlChange (extractChannel b.status) b.d1 b.d2)
    | .programChange => .ok (.programChange (extractChannel b.status) b.d1)
    | .channelPressure => .ok (.channelPressure (extractChannel b.status) b.d1)
    | .pitchBendChange => .ok (.pitchBendChange (extractChannel b.status) (build14 b.d2 b.d1))
    | .systemExclusiveStart => .ok .systemExclusiveStart
    | .timeCodeQuarterFrame => do
        let f ← QFrame.ofU7 b.d1
        .ok (.timeCodeQuarterFrame f)
    | .songPositionPointer => .ok (.songPositionPointer (build14 b.d2 b.d1))
    | .songSelect => .ok (.songSelect b.d1)
    | .tuneRequest => .ok .tuneRequest
    | .systemExclusiveEnd => .ok .systemExclusiveEnd
    | .timingClock => .ok .timingClock
    | .start => .ok .start
    | .continue => .ok .continue
    | .stop => .ok .stop
    | .activeSensing => .ok .activeSensing
    | .systemReset => .ok .systemReset
    | .systemCommonUndefined1 => .ok .systemCommonUndefined1
    | .systemCommonUndefined2 => .ok .systemCommonUndefined2
    | .systemRealTimeUndefined1 => .ok .systemRealTimeUndefined1
    | .systemRealTimeUndefined2 => .ok .systemRealTimeUndefined2

/-- `status_byte` -/
def SMsg.statusByte : SMsg → Nat
  | .noteOff c _ _ => buildStatusByte MsgType.noteOff.toU8 c
  | .noteOn c _ _ => buildStatusByte MsgType.noteOn.toU8 c
  | .polyphonicKeyPressure c _ _ => buildStatusByte MsgType.polyphonicKeyPressure.toU8 c
  | .controlChange c _ _ => buildStatusByte MsgType.controlChange.toU8 c
  | .programChange c _ => buildStatusByte MsgType.programChange.toU8 c
  | .channelPressure c _ => buildStatusByte MsgType.channelPressure.toU8 c
  | .pitchBendChange c _ => buildStatusByte MsgType.pitchBendChange.toU8 c
  | .systemExclusiveStart => MsgType.systemExclusiveStart.toU8
  | .timeCodeQuarterFrame _ => MsgType.timeCodeQuarterFrame.toU8
  | .songPositionPointer _ => MsgType.songPositionPointer.toU8
  | .songSelect _ => MsgType.songSelect.toU8
  | .tuneRequest => MsgType.tuneRequest.toU8
  | .systemExclusiveEnd => MsgType.systemExclusiveEnd.toU8
  | .timingClock => MsgType.timingClock.toU8
  | .start => MsgType.start.toU8
  | .continue => MsgType.continue.toU8
  | .stop => MsgType.stop.toU8
  | .activeSensing => MsgType.activeSensing.toU8
  | .systemReset => MsgType.systemReset.toU8
  | .systemCommonUndefined1 => MsgType.systemCommonUndefined1.toU8
  | .systemCommonUndefined2 => MsgType.systemCommonUndefined2.toU8
  | .systemRealTimeUndefined1 => MsgType.systemRealTimeUndefined1.toU8
  | .systemRealTimeUndefined2 => MsgType.systemRealTimeUndefined2.toU8

/-- `data_byte_1` -/
def SMsg.dataByte1 : SMsg → Nat
  | .noteOff _ k _ | .noteOn _ k _ | .polyphonicKeyPressure _ k _ | .controlChange _ k _ => k
  | .programChange _ p | .channelPressure _ p => p
  | .pitchBendChange _ v => extractLow7 v
  | .timeCodeQuarterFrame f => f.toU7
  | .songPositionPointer p => extractLow7 p
  | .songSelect n => n
  | _ => 0

/-- `data_byte_2` -/
def SMsg.dataByte2 : SMsg → Nat
  | .noteOff _ _ v | .noteOn _ _ v | .polyphonicKeyPressure _ _ v | .controlChange _ _ v => v
  | .pitchBendChange _ v => extractHigh7 v
  | .songPositionPointer p => extractHigh7 p
  | _ => 0

end Midi
