/-
polling_parameter_number_message_scanner.rs.  Time is a natural number of nanoseconds supplied by the caller
(`Instant::now()` = `now`, `arrival_time.elapsed()` = `now - arrival`, truncated subtraction like the
saturating `elapsed`); `Duration` timeouts are nanosecond counts.
-/
import Midi.Model.PN
namespace Midi

structure NumberState where
  msb : Nat
  lsb : Nat
  isRegistered : Bool
  deriving DecidableEq, Repr, Inhabited

/-- `NumberState::number` -/
def NumberState.number (n : NumberState) : Nat := build14 n.msb n.lsb

inductive PState
  /-- WaitingForNumberCompletion { first_number_byte, is_registered, is_msb } -/
  | waitingForNumber (first : Option Nat) (isRegistered : Bool) (isMsb : Bool)
  /-- WaitingForFirstValueByte(NumberState) -/
  | waitingForFirstValue (ns : NumberState)
  /-- ValuePending { number_state, arrival_time, first_value_byte, is_msb } -/
  | valuePending (ns : NumberState) (arrival : Nat) (first : Nat) (isMsb : Bool)
  /-- FourteenBitValueComplete { number_state, value_msb, value_lsb } -/
  | fourteenComplete (ns : NumberState) (valueMsb valueLsb : Nat)
  deriving DecidableEq, Repr, Inhabited

/-- `State::default()` -/
def PState.default : PState := .waitingForNumber none false false

structure PChan where
  timeout : Nat := 0
  state : PState := PState.default
  deriving DecidableEq, Repr, Inhabited

abbrev PScanner := Vector PChan 16

/-- `PollingParameterNumberMessageScanner::new(timeout)` -/
def PScanner.new (timeout : Nat) : PScanner := Vector.replicate 16 { timeout := timeout }
/-- `Default` (derived): every channel `ScannerForOneChannel::default()` (zero timeout) -/
def PScanner.default : PScanner := Vector.replicate 16 {}

abbrev POut := Option PNMsg × Option PNMsg

/-- `ValuePendingState::resolve` -/
def resolvePending (channel : Nat) (ns : NumberState) (first : Nat) (isMsb : Bool) : Option PNMsg :=
  if isMsb then some (.sevenBit channel ns.number first ns.isRegistered .dataEntry) else none

/-- `process_expected_value_byte_when_pending` -/
def completePending (channel : Nat) (ns : NumberState) (first : Nat) (isMsb : Bool) (byte : Nat) : PState × Option PNMsg :=
  let valueMsb := if isMsb then first else byte
  let valueLsb := if isMsb then byte else first
  (.fourteenComplete ns valueMsb valueLsb,
   some (.fourteenBit channel ns.number (build14 valueMsb valueLsb) ns.isRegistered))

/-- `process_number_byte` -/
def PState.processNumberByte (st : PState) (byte : Nat) (isRegistered isMsb : Bool) (channel : Nat) :
    PState × Option PNMsg :=
  match st with
  | .waitingForNumber first _ stIsMsb =>
    match first with
    | some stateByte =>
      if stIsMsb == isMsb then (.waitingForNumber (some byte) isRegistered isMsb, none)
      else (.waitingForFirstValue
              { msb := if stIsMsb then stateByte else byte, lsb := if stIsMsb then byte else stateByte,
                isRegistered := isRegistered }, none)
    | none => (.waitingForNumber (some byte) isRegistered isMsb, none)
  | .waitingForFirstValue ns | .fourteenComplete ns _ _ =>
    (.waitingForFirstValue
      { lsb := if isMsb then ns.lsb else byte, msb := if isMsb then byte else ns.msb, isRegistered := isRegistered }, none)
  | .valuePending ns _ first pIsMsb =>
    (.waitingForFirstValue
      { lsb := if isMsb then ns.lsb else byte, msb := if isMsb then byte else ns.msb, isRegistered := isRegistered },
     resolvePending channel ns first pIsMsb)

/-- `process_value_lsb` -/
def PState.processValueLsb (st : PState) (now channel valueLsb : Nat) : PState × Option PNMsg :=
  match st with
  | .waitingForNumber _ _ _ => (st, none)
  | .waitingForFirstValue ns => (.valuePending ns now valueLsb false, none)
  | .valuePending ns _ first isMsb =>
    if isMsb then completePending channel ns first isMsb valueLsb
    else (.waitingForFirstValue ns, none)
  | .fourteenComplete ns valueMsb _ =>
    (.fourteenComplete ns valueMsb valueLsb,
     some (.fourteenBit channel ns.number (build14 valueMsb valueLsb) ns.isRegistered))

/-- `process_value_msb` -/
def PState.processValueMsb (st : PState) (now channel valueMsb : Nat) : PState × Option PNMsg :=
  match st with
  | .waitingForNumber _ _ _ => (st, none)
  | .waitingForFirstValue ns => (.valuePending ns now valueMsb true, none)
  | .valuePending ns _ first isMsb =>
    if isMsb then
      (.valuePending ns now valueMsb true, some (.sevenBit channel ns.number first ns.isRegistered .dataEntry))
    else completePending channel ns first isMsb valueMsb
  | .fourteenComplete ns _ _ => (.valuePending ns now valueMsb true, none)

/-- `process_value_inc_dec` -/
def PState.processValueIncDec (st : PState) (channel : Nat) (dataType : DataType) (value : Nat) : PState × POut :=
  match st with
  | .waitingForNumber _ _ _ => (st, (none, none))
  | .waitingForFirstValue ns =>
    (.waitingForFirstValue ns, (some (.sevenBit channel ns.number value ns.isRegistered dataType), none))
  | .valuePending ns _ first isMsb =>
    if isMsb then
      (.waitingForFirstValue ns,
        (some (.sevenBit channel ns.number first ns.isRegistered .dataEntry),
         some (.sevenBit channel ns.number value ns.isRegistered dataType)))
    else (.waitingForFirstValue ns, (none, none))
  | .fourteenComplete ns _ _ =>
    (.waitingForFirstValue ns, (some (.sevenBit channel ns.number value ns.isRegistered dataType), none))

/-- the `match controller_number.get()` of `ScannerForOneChannel::feed` -/
def PState.onCC (st : PState) (now channel cn cv : Nat) : PState × POut :=
  let one (r : PState × Option PNMsg) : PState × POut := (r.1, (r.2, none))
  match cn with
  | 98 => one (st.processNumberByte cv false false channel)
  | 99 => one (st.processNumberByte cv false true channel)
  | 100 => one (st.processNumberByte cv true false channel)
  | 101 => one (st.processNumberByte cv true true channel)
  | 38 => one (st.processValueLsb now channel cv)
  | 6 => one (st.processValueMsb now channel cv)
  | 96 => st.processValueIncDec channel .dataIncrement cv
  | 97 => st.processValueIncDec channel .dataDecrement cv
  | _ => (st, (none, none))

/-- `ScannerForOneChannel::feed` -/
def PChan.feed {α} (I : Impl α) (now : Nat) (c : PChan) (x : α) : Res (PChan × POut) := do
  match ← toStructured I x with
  | .controlChange channel cn cv =>
    let r := c.state.onCC now channel cn cv
    .ok ({ c with state := r.1 }, r.2)
  | _ => .ok (c, (none, none))

/-- `ScannerForOneChannel::poll` -/
def PChan.poll (now : Nat) (c : PChan) (channel : Nat) : PChan × Option PNMsg :=
  match c.state with
  | .valuePending ns arrival first isMsb =>
    if now - arrival < c.timeout then (c, none)
    else ({ c with state := .waitingForFirstValue ns }, resolvePending channel ns first isMsb)
  | _ => (c, none)

/-- `PollingParameterNumberMessageScanner::feed` -/
def PScanner.feed {α} (I : Impl α) (now : Nat) (s : PScanner) (x : α) : Res (PScanner × POut) := do
  match ← channel I x with
  | none => .ok (s, (none, none))
  | some ch =>
    if h : ch < 16 then do
      let (c', out) ← s[ch].feed I now x
      .ok (s.set ch c', out)
    else .error .indexOutOfBounds

/-- `PollingParameterNumberMessageScanner::poll(channel)` -/
def PScanner.poll (now : Nat) (s : PScanner) (channel : Nat) : Res (PScanner × Option PNMsg) :=
  if h : channel < 16 then
    let r := s[channel].poll now channel
    .ok (s.set channel r.1, r.2)
  else .error .indexOutOfBounds

/-- `reset`: every channel's state back to the default; the timeout stays -/
def PScanner.reset (s : PScanner) : PScanner := s.map (fun c => { c with state := PState.default })

end Midi
