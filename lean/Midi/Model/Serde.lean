/-
Deserialization (serde feature) as serde's derive behaves.  Inputs are the integers found at the places where the
data format carries numbers (any integer: negative, huge); structural mismatches (wrong JSON type, missing field)
always fail in serde itself and are exercised on the real code only.
 * newtypes:      `#[serde(try_from = "u16")]`  — u16 visitor (range check), then the range-checked `TryFrom<u16>`
 * RawShortMessage: `#[serde(try_from = "(u8, U7, U7)")]` — the tuple, then `TryFrom<(u8, U7, U7)>` = `from_bytes`
 * ControlChange14BitMessage / ParameterNumberMessage: `try_from` a field-wise deserialized shadow struct, validated
 * StructuredShortMessage, TimeCodeQuarterFrame, TimeCodeType, DataType: plain derive (variant by name, fields by name)
 * ShortMessageType: serde_repr (u8 discriminant)
-/
import Midi.Model.Conv
import Midi.Model.CC14
import Midi.Model.PN
namespace Midi

def deU8 (x : Int) : Option Nat := if 0 ≤ x ∧ x ≤ 255 then some x.toNat else none
def deU16 (x : Int) : Option Nat := if 0 ≤ x ∧ x ≤ 65535 then some x.toNat else none
def deBool (x : Int) : Option Bool := if x = 0 then some false else if x = 1 then some true else none

/-- newtype with maximum `max`: `u16::deserialize` then `TryFrom<u16>` (`is_valid`) -/
def deNewtype (max : Nat) (x : Int) : Option Nat :=
  match deU16 x with
  | none => none
  | some v => if v ≤ max then some v else none

/-- RawShortMessage -/
def deRaw (s d1 d2 : Int) : Option Bytes :=
  match deU8 s, deNewtype 127 d1, deNewtype 127 d2 with
  | some s, some a, some b =>
    -- `RawShortMessage::try_from((u8, U7, U7))` = `from_bytes`
    (match fromBytes rawFactory ⟨s, a, b⟩ with
     | .ok (some m) => some m
     | _ => none)
  | _, _, _ => none

/-- ControlChange14BitMessage: fields, then the constructor's condition -/
def deCC14 (ch msb value : Int) : Option CC14Msg :=
  match deNewtype 15 ch, deNewtype 127 msb, deNewtype 16383 value with
  | some c, some n, some v => if n < 32 then some ⟨c, n, v⟩ else none
  | _, _, _ => none

def deDataType (x : Int) : Option DataType :=
  if x = 0 then some .dataEntry else if x = 1 then some .dataIncrement else if x = 2 then some .dataDecrement else none

/-- ParameterNumberMessage: fields, then consistency of resolution, value and data type -/
def dePN (ch number value reg is14 dt : Int) : Option PNMsg :=
  match deNewtype 15 ch, deNewtype 16383 number, deNewtype 16383 value, deBool reg, deBool is14, deDataType dt with
  | some c, some n, some v, some r, some b, some d =>
    let m : PNMsg := ⟨c, n, v, r, b, d⟩
    if (if b then d = .dataEntry else v ≤ 127) then some m else none
  | _, _, _, _, _, _ => none

/-- ShortMessageType via serde_repr -/
def deMsgType (x : Int) : Option MsgType :=
  match deU8 x with
  | some n => MsgType.ofU8 n
  | none => none

/-- TimeCodeType by variant index (an unknown variant name is index ≥ 4) -/
def deTimeCodeType (i : Int) : Option TimeCodeType :=
  if i = 0 then some .fps24 else if i = 1 then some .fps25 else if i = 2 then some .fps30DropFrame
  else if i = 3 then some .fps30NonDrop else none

/-- TimeCodeQuarterFrame: variant `piece` 0..6 with a U4, or 7 = Last { bool, TimeCodeType } -/
def deQFrame (piece a b : Int) : Option QFrame :=
  if piece = 7 then
    match deBool a, deTimeCodeType b with
    | some x, some t => some (.last x t)
    | _, _ => none
  else
    match deNewtype 15 a with
    | none => none
    | some v =>
      if piece = 0 then some (.frameCountLs v) else if piece = 1 then some (.frameCountMs v)
      else if piece = 2 then some (.secondsLs v) else if piece = 3 then some (.secondsMs v)
      else if piece = 4 then some (.minutesLs v) else if piece = 5 then some (.minutesMs v)
      else if piece = 6 then some (.hoursLs v) else none

/-- StructuredShortMessage: variant index (declaration order) and up to three field values -/
def deStructured (variant f1 f2 f3 : Int) : Option SMsg :=
  let ch := deNewtype 15 f1
  let k := deNewtype 127 f2
  let v := deNewtype 127 f3
  if variant = 0 then (match ch, k, v with | some c, some k, some v => some (.noteOff c k v) | _, _, _ => none)
  else if variant = 1 then (match ch, k, v with | some c, some k, some v => some (.noteOn c k v) | _, _, _ => none)
  else if variant = 2 then (match ch, k, v with | some c, some k, some v => some (.polyphonicKeyPressure c k v) | _, _, _ => none)
  else if variant = 3 then (match ch, k, v with | some c, some k, some v => some (.controlChange c k v) | _, _, _ => none)
  else if variant = 4 then (match ch, k with | some c, some p => some (.programChange c p) | _, _ => none)
  else if variant = 5 then (match ch, k with | some c, some p => some (.channelPressure c p) | _, _ => none)
  else if variant = 6 then (match ch, deNewtype 16383 f2 with | some c, some p => some (.pitchBendChange c p) | _, _ => none)
  else if variant = 7 then some .systemExclusiveStart
  else if variant = 8 then (deQFrame f1 f2 f3).map .timeCodeQuarterFrame
  else if variant = 9 then (deNewtype 16383 f1).map .songPositionPointer
  else if variant = 10 then (deNewtype 127 f1).map .songSelect
  else if variant = 11 then some .tuneRequest else if variant = 12 then some .systemExclusiveEnd
  else if variant = 13 then some .timingClock else if variant = 14 then some .start
  else if variant = 15 then some .continue else if variant = 16 then some .stop
  else if variant = 17 then some .activeSensing else if variant = 18 then some .systemReset
  else if variant = 19 then some .systemCommonUndefined1 else if variant = 20 then some .systemCommonUndefined2
  else if variant = 21 then some .systemRealTimeUndefined1 else if variant = 22 then some .systemRealTimeUndefined2
  else none

end Midi
