/-
control_change_14_bit_message.rs and control_change_14_bit_message_scanner.rs.
-/
import Midi.Model.Short
namespace Midi

structure CC14Msg where
  channel : Nat
  msb : Nat        -- msb_controller_number
  value : Nat
  deriving DecidableEq, Repr, Inhabited

def CC14Msg.Valid (m : CC14Msg) : Prop := m.channel < 16 ∧ m.msb < 32 ∧ m.value < 16384
instance CC14Msg.decValid (m : CC14Msg) : Decidable m.Valid := by unfold CC14Msg.Valid; infer_instance

/-- `ControlChange14BitMessage::new`: `assert!(msb.corresponding_14_bit_lsb_controller_number().is_some())` -/
def CC14Msg.new (channel msb value : Nat) : Res CC14Msg := do
  match ← cnLsbOf msb with
  | some _ => .ok ⟨channel, msb, value⟩
  | none => .error .cc14MsbAssert

/-- `lsb_controller_number`: `.expect("impossible")` -/
def CC14Msg.lsb (m : CC14Msg) : Res Nat := do
  match ← cnLsbOf m.msb with
  | some l => .ok l
  | none => .error .cc14LsbImpossible

/-- `to_short_messages` -/
def CC14Msg.toShortMessages {α} (F : Factory α) (m : CC14Msg) : Res (List α) := do
  let a ← mkControlChange F m.channel m.msb (extractHigh7 m.value)
  let l ← m.lsb
  let b ← mkControlChange F m.channel l (extractLow7 m.value)
  .ok [a, b]

/-- per-channel scanner state -/
structure CCChan where
  msbCn : Option Nat := none
  valueMsb : Option Nat := none
  deriving DecidableEq, Repr, Inhabited

abbrev CCScanner := Vector CCChan 16

def CCScanner.new : CCScanner := Vector.replicate 16 {}

/-- `process_value_lsb` -/
def CCChan.processValueLsb (st : CCChan) (channel lsbCn valueLsb : Nat) : Res (CCChan × Option CC14Msg) :=
  match st.msbCn with
  | none => .ok (st, none)
  | some msbCn =>
    match st.valueMsb with
    | none => .ok (st, none)
    | some valueMsb => do
      match ← cnLsbOf msbCn with
      | none => .error .cc14LsbImpossible
      | some l =>
        if lsbCn ≠ l then .ok (st, none)
        else do
          let msg ← CC14Msg.new channel msbCn (build14 valueMsb valueLsb)
          .ok (st, some msg)

/-- `ScannerForOneChannel::feed` -/
def CCChan.feed {α} (I : Impl α) (st : CCChan) (x : α) : Res (CCChan × Option CC14Msg) := do
  match ← toStructured I x with
  | .controlChange channel cn cv =>
    if cn ≤ 31 then .ok ({ msbCn := some cn, valueMsb := some cv }, none)
    else if cn ≤ 63 then st.processValueLsb channel cn cv
    else .ok (st, none)
  | _ => .ok (st, none)

/-- `ControlChange14BitMessageScanner::feed` -/
def CCScanner.feed {α} (I : Impl α) (s : CCScanner) (x : α) : Res (CCScanner × Option CC14Msg) := do
  match ← channel I x with
  | none => .ok (s, none)
  | some ch =>
    if h : ch < 16 then do
      let (st', out) ← s[ch].feed I x
      .ok (s.set ch st', out)
    else .error .indexOutOfBounds

/-- `reset`: every sub-scanner back to its initial fields -/
def CCScanner.reset (s : CCScanner) : CCScanner := s.map (fun _ => {})

end Midi
