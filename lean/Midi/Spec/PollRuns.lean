/-
Histories of the polling scanner: feeds, polls, resets and explicit time steps; the per-channel view of such a
history (what one channel's sub-scanner sees, with the time of each event).
-/
import Midi.Model.Polling
import Midi.Spec.History
namespace Midi.Spec
open Midi

/-- an operation on the polling scanner; `tick d` lets `d` nanoseconds pass -/
inductive TOp
  | feed (b : Bytes)
  | poll (ch : Nat)
  | reset
  | tick (d : Nat)
  deriving DecidableEq, Repr, Inhabited

def TOp.Valid : TOp → Prop
  | .feed b => b.Valid
  | .poll ch => ch < 16
  | _ => True
instance TOp.decValid (o : TOp) : Decidable o.Valid := by cases o <;> unfold TOp.Valid <;> infer_instance

/-- the clock after an operation -/
def nextNow (now : Nat) : TOp → Nat
  | .tick d => now + d
  | _ => now

/-- one operation at time `now`: new time, new scanner, what the call returned (a poll's message in slot 1) -/
def pStep (now : Nat) (s : PScanner) : TOp → Res ((Nat × PScanner) × POut)
  | .feed b => do let (s', o) ← s.feed rawImpl now b; .ok ((now, s'), o)
  | .poll ch => do let (s', o) ← s.poll now ch; .ok ((now, s'), (o, none))
  | .reset => .ok ((now, s.reset), (none, none))
  | .tick d => .ok ((now + d, s), (none, none))

def pRun (now : Nat) (s : PScanner) : List TOp → Res ((Nat × PScanner) × List POut)
  | [] => .ok ((now, s), [])
  | op :: ops => do
    let (ns, o) ← pStep now s op
    let (ns', os) ← pRun ns.1 ns.2 ops
    .ok (ns', o :: os)

/-- what one channel's sub-scanner can see -/
inductive PEv
  | cc (cn cv : Nat) (now : Nat)     -- a Control Change on this channel, fed at time `now`
  | poll (now : Nat)                 -- a poll of this channel at time `now`
  | reset
  deriving DecidableEq, Repr, Inhabited

/-- one channel reacting to one event -/
def _root_.Midi.PChan.ev (ch : Nat) (c : PChan) : PEv → PChan × POut
  | .cc cn cv now => ({ c with state := (c.state.onCC now ch cn cv).1 }, (c.state.onCC now ch cn cv).2)
  | .poll now => ((c.poll now ch).1, ((c.poll now ch).2, none))
  | .reset => ({ c with state := PState.default }, (none, none))

def _root_.Midi.PChan.evs (ch : Nat) (c : PChan) : List PEv → PChan × List POut
  | [] => (c, [])
  | e :: es => let r := c.ev ch e; let r' := (r.1).evs ch es; (r'.1, r.2 :: r'.2)

/-- the event channel `c` sees in operation `op` at time `now` (none: the operation does not concern it) -/
def projectOp (c : Nat) (now : Nat) : TOp → Option PEv
  | .feed b => if b.status = 176 + c then some (.cc b.d1 b.d2 now) else none
  | .poll ch => if ch = c then some (.poll now) else none
  | .reset => some .reset
  | .tick _ => none

/-- per-channel view of a history started at time `now` -/
def project (c : Nat) (now : Nat) : List TOp → List PEv
  | [] => []
  | op :: ops =>
    let now' := nextNow now op
    match projectOp c now op with
    | some e => e :: project c now' ops
    | none => project c now' ops

/-- the outputs of the operations that concern channel `c`, in order -/
def outputsOn (c : Nat) (now : Nat) : List TOp → List POut → List POut
  | op :: ops, o :: os =>
    let now' := nextNow now op
    match projectOp c now op with
    | some _ => o :: outputsOn c now' ops os
    | none => outputsOn c now' ops os
  | _, _ => []

/-- messages in a list of call results, in order -/
def reports (os : List POut) : List PNMsg := os.flatMap (fun o => o.1.toList ++ o.2.toList)

end Midi.Spec
