/-
C14 as an executable trace monitor for ONE channel of the polling scanner: it watches the channel's events together
with what each call returned, remembers only facts about the history (latest number bytes, most recent controller-6
and controller-38 values and whether that controller-6 byte has been reported / used, whether a controller-6 byte is
still owed), and rejects a trace as soon as a call's result contradicts the property.
-/
import Midi.Spec.PollRuns
namespace Midi.Spec
open Midi

structure Mon where
  hi : Option Nat := none                    -- latest number MSB (controller 99/101) since reset
  lo : Option Nat := none                    -- latest number LSB (controller 98/100) since reset
  reg : Bool := false                        -- the most recent number byte was controller 100/101
  cc6 : Option (Nat × Bool × Bool) := none   -- most recent controller-6 value, reported as 7-bit?, part of a 14-bit?
  cc38 : Option Nat := none                  -- most recent controller-38 value
  owed : Option Nat := none                  -- feed time of a controller-6 byte that still has to be reported
  deriving DecidableEq, Repr, Inhabited

def Mon.numberOf (m : Mon) : Option Nat :=
  match m.hi, m.lo with
  | some h, some l => some (128 * h + l)
  | _, _ => none

def isContributingCn (cn : Nat) : Bool := cn == 6 || cn == 38 || (96 ≤ cn && cn ≤ 101)

/-- the messages of a call result -/
def outMsgs (o : POut) : List PNMsg := o.1.toList ++ o.2.toList

/-- attribution of one reported message (clauses: channel, number, registered flag, value taken from received bytes).
    `cc6Now`, `cc38Now`: most recent controller-6 / controller-38 values up to and INCLUDING the current message. -/
def attributionOk (ch : Nat) (m : Mon) (e : PEv) (cc6Now cc38Now : Option Nat) (r : PNMsg) : Bool :=
  match m.numberOf with
  | none => false                                   -- nothing may be reported before a number is complete
  | some number =>
    r.channel == ch && r.number == number && r.isRegistered == m.reg &&
    (match r.dataType, r.is14Bit with
     | .dataIncrement, false => (match e with | .cc 96 cv _ => r.value == cv | _ => false)
     | .dataDecrement, false => (match e with | .cc 97 cv _ => r.value == cv | _ => false)
     | .dataEntry, false =>
        -- the most recent controller-6 value received BEFORE the call, not reported before, not part of a 14-bit one
        (match m.cc6 with | some (v, false, false) => r.value == v | _ => false)
     | .dataEntry, true =>
        (match cc6Now, cc38Now with | some a, some b => r.value == 128 * a + b | _, _ => false)
     | _, _ => false)

/-- shape of a call result: a second message only for an increment/decrement that follows a pending MSB — the data
    entry first, then the increment/decrement; a poll returns at most a 7-bit data entry -/
def shapeOk (e : PEv) (o : POut) : Bool :=
  match o.1, o.2 with
  | _, none =>
    (match e, o.1 with
     | .poll _, some r => r.dataType == .dataEntry && !r.is14Bit
     | .reset, some _ => false
     | _, _ => true)
  | none, some _ => false
  | some a, some b =>
    (match e with
     | .cc cn _ _ => (cn == 96 || cn == 97) && a.dataType == .dataEntry && !a.is14Bit && b.dataType != .dataEntry && !b.is14Bit
     | _ => false)

/-- does the result report the owed controller-6 byte `v` (as 7-bit, or as the MSB of a 14-bit value)? -/
def reportsByte (v : Nat) (o : POut) : Bool :=
  (outMsgs o).any (fun r => r.dataType == .dataEntry && (if r.is14Bit then r.value / 128 == v else r.value == v))

/-- one step; `none` = the trace violates the property -/
def Mon.step (ch timeout : Nat) (m : Mon) (e : PEv) (o : POut) : Option Mon :=
  match e with
  | .reset => if (outMsgs o).isEmpty then some {} else none
  | .poll now =>
    let late := match m.owed with | some arr => decide (timeout ≤ now - arr) | none => false
    let okAttr := (outMsgs o).all (attributionOk ch m e (m.cc6.map (·.1)) m.cc38)
    let okLoss := !late || (match m.cc6 with | some (v, _, _) => reportsByte v o | none => false)
    if shapeOk e o && okAttr && okLoss then
      some (if o.1.isSome then { m with cc6 := m.cc6.map (fun p => (p.1, true, p.2.2)), owed := none } else m)
    else none
  | .cc cn cv now =>
    if !isContributingCn cn then (if (outMsgs o).isEmpty then some m else none) else
    let cc6Now := if cn == 6 then some cv else m.cc6.map (·.1)
    let cc38Now := if cn == 38 then some cv else m.cc38
    let okAttr := (outMsgs o).all (attributionOk ch m e cc6Now cc38Now)
    -- a controller-6 byte that is owed must be reported by this (contributing) message
    let okLoss := match m.owed, m.cc6 with
      | some _, some (v, _, _) => reportsByte v o
      | some _, none => false
      | none, _ => true
    if !(shapeOk e o && okAttr && okLoss) then none else
    let rep7 := (outMsgs o).any (fun r => r.dataType == .dataEntry && !r.is14Bit)
    let rep14 := (outMsgs o).any (fun r => r.is14Bit)
    -- marks on the controller-6 byte that was the most recent one BEFORE this message
    let old6 := m.cc6.map (fun p => (p.1, p.2.1 || rep7, p.2.2 || (rep14 && cn != 6)))
    let complete := m.numberOf.isSome
    let m1 : Mon :=
      if cn == 6 then
        { m with cc6 := some (cv, false, rep14), owed := if complete && !rep14 then some now else none }
      else { m with cc6 := old6, owed := none }
    let m2 : Mon :=
      if cn == 38 then { m1 with cc38 := some cv }
      else if cn == 99 || cn == 101 then { m1 with hi := some cv, reg := cn == 101 }
      else if cn == 98 || cn == 100 then { m1 with lo := some cv, reg := cn == 100 }
      else m1
    some m2

/-- run the monitor over a trace (events with the results the calls returned) -/
def Mon.accepts (ch timeout : Nat) (m : Mon) : List (PEv × POut) → Bool
  | [] => true
  | (e, o) :: rest =>
    match m.step ch timeout e o with
    | some m' => m'.accepts ch timeout rest
    | none => false

end Midi.Spec
