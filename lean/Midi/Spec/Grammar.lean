/-
C12: the documented sequence forms of the polling (N)RPN scanner as a grammar, what each sentence is intended to
mean, and the schedules (time, polls, non-contributing traffic) under which it must be decoded.
Everything is per channel (C15 reduces any multi-channel interleaving to this).
-/
import Midi.Spec.PollRuns
namespace Midi.Spec
open Midi

/-- a documented value form after a number selection -/
inductive VUnit
  | msbAlone (v : Nat)            -- [MSB]            7-bit data entry
  | msbLsb (m l : Nat)            -- [MSB, LSB]       14-bit data entry
  | further (l : Nat)             -- [.., LSB]        a further LSB after a 14-bit value: 14-bit with the retained MSB
  | lsbMsb (l m : Nat)            -- [LSB, MSB]       14-bit data entry, only directly after the selection x, y
  | incDec (inc : Bool) (v : Nat) -- increment / decrement
  deriving DecidableEq, Repr, Inhabited

/-- does the unit leave a complete 14-bit value behind (so that a further LSB may follow)? -/
def VUnit.is14 : VUnit → Bool
  | .msbLsb _ _ | .further _ | .lsbMsb _ _ => true
  | _ => false

/-- the side conditions of the documentation: `lsbMsb` only directly after the selection, `further` only directly
    after a 14-bit unit.  `first` = the unit is the first after the selection; `after14` = the previous unit is 14-bit -/
def unitsOk (first after14 : Bool) : List VUnit → Bool
  | [] => true
  | u :: us =>
    (match u with
     | .lsbMsb _ _ => first
     | .further _ => after14
     | _ => true) && unitsOk false u.is14 us

/-- a number selection x, y (in either order) followed by value units -/
structure Block where
  reg : Bool             -- registered (101/100) or non-registered (99/98)
  msbFirst : Bool        -- order of x, y
  number : Nat           -- < 16384
  units : List VUnit
  deriving Repr, Inhabited

def VUnit.Valid : VUnit → Prop
  | .msbAlone v | .further v | .incDec _ v => v < 128
  | .msbLsb a b | .lsbMsb a b => a < 128 ∧ b < 128

def Block.Valid (b : Block) : Prop := b.number < 16384 ∧ unitsOk true false b.units = true ∧ ∀ u ∈ b.units, u.Valid

/-- the (controller number, value) messages of a unit, in order -/
def VUnit.msgs : VUnit → List (Nat × Nat)
  | .msbAlone v => [(6, v)]
  | .msbLsb m l => [(6, m), (38, l)]
  | .further l => [(38, l)]
  | .lsbMsb l m => [(38, l), (6, m)]
  | .incDec inc v => [(if inc then 96 else 97, v)]

def Block.selection (b : Block) : List (Nat × Nat) :=
  let x := (if b.reg then 101 else 99, b.number / 128)
  let y := (if b.reg then 100 else 98, b.number % 128)
  if b.msbFirst then [x, y] else [y, x]

/-- what a block is intended to mean on channel `ch`; `retained` = MSB of the preceding 14-bit value -/
def intendedUnits (ch number : Nat) (reg : Bool) (retained : Nat) : List VUnit → List PNMsg
  | [] => []
  | u :: us =>
    match u with
    | .msbAlone v => ⟨ch, number, v, reg, false, .dataEntry⟩ :: intendedUnits ch number reg retained us
    | .msbLsb m l => ⟨ch, number, 128 * m + l, reg, true, .dataEntry⟩ :: intendedUnits ch number reg m us
    | .further l => ⟨ch, number, 128 * retained + l, reg, true, .dataEntry⟩ :: intendedUnits ch number reg retained us
    | .lsbMsb l m => ⟨ch, number, 128 * m + l, reg, true, .dataEntry⟩ :: intendedUnits ch number reg m us
    | .incDec inc v =>
      ⟨ch, number, v, reg, false, if inc then .dataIncrement else .dataDecrement⟩ :: intendedUnits ch number reg retained us

def Block.intended (ch : Nat) (b : Block) : List PNMsg := intendedUnits ch b.number b.reg 0 b.units
def intended (ch : Nat) (bs : List Block) : List PNMsg := bs.flatMap (Block.intended ch)

/-! ### schedules

A scheduled sentence is the list of per-channel events: the sentence's messages in order, each at its time, with
gaps in between that may contain polls (at their times) and non-contributing Control Changes.  Time never runs
backwards.  Inside a two-message unit (between MSB and LSB of `msbLsb`, between LSB and MSB of `lsbMsb`) a poll
must be early: strictly less than the timeout after the unit's first message. -/

/-- one thing that can happen in a gap -/
inductive GapEv
  | poll (now : Nat)
  | other (cn cv now : Nat)      -- a non-contributing Control Change on the channel
  deriving Repr, Inhabited

def GapEv.time : GapEv → Nat
  | .poll t => t
  | .other _ _ t => t
def GapEv.toEv : GapEv → PEv
  | .poll t => .poll t
  | .other cn cv t => .cc cn cv t
def GapEv.Valid : GapEv → Prop
  | .poll _ => True
  | .other cn _ _ => ¬ (cn = 6 ∨ cn = 38 ∨ (96 ≤ cn ∧ cn ≤ 101))

/-- a message of the sentence with the gap that precedes it and the time it is fed; `inner` = it is the second
    message of a two-message unit, and `t0` then is the time the unit's first message was fed -/
structure Timed where
  gap : List GapEv
  cn : Nat
  cv : Nat
  now : Nat
  inner : Bool := false
  t0 : Nat := 0
  deriving Repr, Inhabited

def Timed.events (m : Timed) : List PEv := m.gap.map GapEv.toEv ++ [.cc m.cn m.cv m.now]

/-- times never decrease along the schedule, starting from `t` -/
def monotoneFrom (t : Nat) : List Timed → Prop
  | [] => True
  | m :: ms => (∀ g ∈ m.gap, t ≤ g.time ∧ g.time ≤ m.now) ∧ t ≤ m.now ∧ monotoneFrom m.now ms

/-- polls inside a two-message unit are early -/
def innerPollsEarly (timeout : Nat) (m : Timed) : Prop :=
  m.inner = true → ∀ g ∈ m.gap, (∀ t, g = .poll t → t - m.t0 < timeout)

/-- the messages of a block, paired with the unit structure (which message is the inner one of a pair) -/
def Block.shape (b : Block) : List (Nat × Nat × Bool) :=
  b.selection.map (fun p => (p.1, p.2, false)) ++
  b.units.flatMap (fun u => match u.msgs with
    | [a, c] => [(a.1, a.2, false), (c.1, c.2, true)]
    | l => l.map (fun p => (p.1, p.2, false)))

/-- `sched` is a schedule of the sentence `bs`: same messages in the same order, inner flags as the units say, and
    every inner message's `t0` is the time of the message before it -/
def IsScheduleOf (bs : List Block) (sched : List Timed) : Prop :=
  sched.map (fun m => (m.cn, m.cv, m.inner)) = bs.flatMap Block.shape ∧
  ∀ i (h : i + 1 < sched.length), sched[i + 1].inner = true → sched[i + 1].t0 = sched[i].now

def Good (timeout t : Nat) (bs : List Block) (sched : List Timed) : Prop :=
  IsScheduleOf bs sched ∧ monotoneFrom t sched ∧ (∀ m ∈ sched, innerPollsEarly timeout m ∧ ∀ g ∈ m.gap, g.Valid)

def schedEvents (sched : List Timed) : List PEv := sched.flatMap Timed.events

/-- what is still owed from before the sentence: the 7-bit message of a pending MSB -/
def flush (ch : Nat) (c : PChan) : List PNMsg :=
  match c.state with
  | .valuePending ns _ f true => [.sevenBit ch ns.number f ns.isRegistered .dataEntry]
  | _ => []

end Midi.Spec
