/-
What the integer conversions, parsing and printing must do, in terms of mathematical values.
-/
import Midi.Model.Conv
namespace Midi.Spec
open Midi

def tyLo (pw : Nat) : Ty → Option Int
  | .prim p => some (p.minVal pw)
  | .nt i => (ntDef? i).map (fun _ => 0)
def tyHi (pw : Nat) : Ty → Option Int
  | .prim p => some (p.maxVal pw)
  | .nt i => (ntDef? i).map (fun T => (T.max : Int))

/-- a conversion keeps the mathematical value; a fallible one fails exactly for values outside the
    destination's range.  `none` = failure -/
def convSpec (pw : Nat) (e : ConvEntry) (x : Int) : Option Int :=
  match tyLo pw e.dst, tyHi pw e.dst with
  | some lo, some hi => if e.kind.isTry then (if lo ≤ x ∧ x ≤ hi then some x else none) else some x
  | _, _ => none

/-- value `v` lies in the range of type `t` -/
def inTy (pw : Nat) (t : Ty) (v : Int) : Prop :=
  match tyLo pw t, tyHi pw t with
  | some lo, some hi => lo ≤ v ∧ v ≤ hi
  | _, _ => False

/-- a table row is numerically faithful: for every value of the source type the macro body yields what
    `convSpec` prescribes, and every produced value lies in the destination's range -/
def Faithful (pw : Nat) (e : ConvEntry) : Prop :=
  ∀ x : Int, inTy pw e.src x → convModel pw e x = convSpec pw e x ∧ ∀ v, convModel pw e x = some v → inTy pw e.dst v

/-- decidable per-row criterion (proved sound in Midi/Proofs/Conv.lean) -/
def entryOk (pw : Nat) (e : ConvEntry) : Bool :=
  let shape := match e.kind, e.src, e.dst with
    | .fromNN, .nt _, .nt _ | .fromNP, .nt _, .prim _ | .fromPN, .prim _, .nt _ | .tryNN, .nt _, .nt _
    | .tryPN, .prim _, .nt _ => true
    -- delegation through `<V>::from(value)`: that `From` impl exists only if V holds every source value
    | .tryPNvia q, .prim p, .nt _ => decide (q.minVal pw ≤ p.minVal pw ∧ p.maxVal pw ≤ q.maxVal pw)
    | _, _, _ => false
  let payloadFits := match e.dst with
    | .nt j => (match ntDef? j with | some B => decide ((B.max : Int) ≤ B.repr.maxVal pw) | none => false)
    | .prim _ => true
  let srcKnown := (tyLo pw e.src).isSome
  let subset := match tyLo pw e.src, tyHi pw e.src, tyLo pw e.dst, tyHi pw e.dst with
    | some sl, some sh, some dl, some dh => decide (dl ≤ sl ∧ sh ≤ dh)
    | _, _, _, _ => false
  shape && payloadFits && srcKnown && (e.kind.isTry || subset)

/-- an unsigned decimal numeral: optional '+', then at least one ASCII digit -/
def digitsValue : List Char → Nat → Nat
  | [], acc => acc
  | c :: cs, acc => digitsValue cs (acc * 10 + (c.toNat - 48))

def IsNumeral (s : List Char) : Prop :=
  let body := match s with | '+' :: r => r | _ => s
  body ≠ [] ∧ ∀ c ∈ body, c.isDigit = true

def numeralValue (s : List Char) : Nat :=
  match s with | '+' :: r => digitsValue r 0 | _ => digitsValue s 0

end Midi.Spec
