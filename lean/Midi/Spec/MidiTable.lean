/-
The MIDI 1.0 status-byte table, written from the specification text (and from the property statements)
with plain arithmetic, independently of the implementation's bit manipulation.  The property theorems
prove the model equal to these functions; the driver evaluates them on the implementation's answers.
-/
import Midi.Model.Structured
namespace Midi.Spec
open Midi

/-- message type of a status byte `128 ≤ s < 256`: high nibble below 0xF0, whole byte from 0xF0 up -/
def specType (s : Nat) : MsgType :=
  match s / 16 with
  | 8 => .noteOff | 9 => .noteOn | 10 => .polyphonicKeyPressure | 11 => .controlChange
  | 12 => .programChange | 13 => .channelPressure | 14 => .pitchBendChange
  | _ =>
    match s % 16 with
    | 0 => .systemExclusiveStart | 1 => .timeCodeQuarterFrame | 2 => .songPositionPointer
    | 3 => .songSelect | 4 => .systemCommonUndefined1 | 5 => .systemCommonUndefined2
    | 6 => .tuneRequest | 7 => .systemExclusiveEnd | 8 => .timingClock
    | 9 => .systemRealTimeUndefined1 | 10 => .start | 11 => .continue | 12 => .stop
    | 13 => .systemRealTimeUndefined2 | 14 => .activeSensing | _ => .systemReset

/-- the byte a message type converts to: status byte with channel 0, or the complete status byte -/
def specTypeByte (s : Nat) : Nat := if s < 240 then s / 16 * 16 else s

def specSuper (b : Bytes) : SuperType :=
  if b.status < 240 then
    (if b.status / 16 = 11 ∧ 120 ≤ b.d1 then .channelMode else .channelVoice)
  else if b.status = 240 then .systemExclusive
  else if b.status < 248 then .systemCommon
  else .systemRealTime

def specFuzzy (s : Nat) : FuzzySuperType :=
  if s < 240 then .channel else if s = 240 then .systemExclusive
  else if s < 248 then .systemCommon else .systemRealTime

def specMain (s : Nat) : MainCategory := if s < 240 then .channel else .system

def specChannel (s : Nat) : Option Nat := if s < 240 then some (s % 16) else none

/-- key number: Note Off, Note On, Polyphonic Key Pressure carry it in data byte 1 -/
def specKey (b : Bytes) : Option Nat :=
  if b.status / 16 = 8 ∨ b.status / 16 = 9 ∨ b.status / 16 = 10 then some b.d1 else none
def specVelocity (b : Bytes) : Option Nat :=
  if b.status / 16 = 8 ∨ b.status / 16 = 9 then some b.d2 else none
def specControllerNumber (b : Bytes) : Option Nat := if b.status / 16 = 11 then some b.d1 else none
def specControlValue (b : Bytes) : Option Nat := if b.status / 16 = 11 then some b.d2 else none
def specProgramNumber (b : Bytes) : Option Nat := if b.status / 16 = 12 then some b.d1 else none
def specPressure (b : Bytes) : Option Nat :=
  if b.status / 16 = 10 then some b.d2 else if b.status / 16 = 13 then some b.d1 else none
def specPitchBend (b : Bytes) : Option Nat :=
  if b.status / 16 = 14 then some (b.d2 * 128 + b.d1) else none
def specIsNote (b : Bytes) : Bool := b.status / 16 = 8 ∨ b.status / 16 = 9
def specIsNoteOn (b : Bytes) : Bool := b.status / 16 = 9 ∧ 0 < b.d2
def specIsNoteOff (b : Bytes) : Bool := b.status / 16 = 8 ∨ (b.status / 16 = 9 ∧ b.d2 = 0)

/-- number of data bytes that carry information for status byte `s` -/
def specDataLen (s : Nat) : Nat :=
  if s < 192 then 2          -- Note Off, Note On, Poly Pressure, Control Change
  else if s < 224 then 1     -- Program Change, Channel Pressure
  else if s < 240 then 2     -- Pitch Bend
  else if s = 241 then 1     -- MTC quarter frame
  else if s = 242 then 2     -- Song Position Pointer
  else if s = 243 then 1     -- Song Select
  else 0

/-- canonical first data byte: zero when unused; bit 3 of a 'last' quarter frame (piece 7) is reserved -/
def canonD1 (s d1 : Nat) : Nat :=
  if specDataLen s ≥ 1 then (if s = 241 ∧ d1 / 16 = 7 then d1 - d1 / 8 % 2 * 8 else d1) else 0
/-- canonical second data byte: zero when unused -/
def canonD2 (s d2 : Nat) : Nat := if specDataLen s ≥ 2 then d2 else 0

/-- the canonical form: information-free parts zeroed (unused data bytes; bit 3 of a 'last' quarter frame) -/
def canon (b : Bytes) : Bytes := ⟨b.status, canonD1 b.status b.d1, canonD2 b.status b.d2⟩

def specTimeCodeType (n : Nat) : TimeCodeType :=
  match n with | 0 => .fps24 | 1 => .fps25 | 2 => .fps30DropFrame | _ => .fps30NonDrop

/-- quarter frame described by a data byte `d < 128`: piece = d / 16, nibble = d % 16 -/
def specQFrame (d : Nat) : QFrame :=
  match d / 16 with
  | 0 => .frameCountLs (d % 16) | 1 => .frameCountMs (d % 16) | 2 => .secondsLs (d % 16)
  | 3 => .secondsMs (d % 16) | 4 => .minutesLs (d % 16) | 5 => .minutesMs (d % 16)
  | 6 => .hoursLs (d % 16)
  | _ => .last (d % 2 = 1) (specTimeCodeType (d / 2 % 4))

/-- the structured form of a valid message -/
def specStructured (b : Bytes) : SMsg :=
  let c := b.status % 16
  match specType b.status with
  | .noteOff => .noteOff c b.d1 b.d2
  | .noteOn => .noteOn c b.d1 b.d2
  | .polyphonicKeyPressure => .polyphonicKeyPressure c b.d1 b.d2
  | .controlChange => .controlChange c b.d1 b.d2
  | .programChange => .programChange c b.d1
  | .channelPressure => .channelPressure c b.d1
  | .pitchBendChange => .pitchBendChange c (b.d2 * 128 + b.d1)
  | .systemExclusiveStart => .systemExclusiveStart
  | .timeCodeQuarterFrame => .timeCodeQuarterFrame (specQFrame b.d1)
  | .songPositionPointer => .songPositionPointer (b.d2 * 128 + b.d1)
  | .songSelect => .songSelect b.d1
  | .tuneRequest => .tuneRequest
  | .systemExclusiveEnd => .systemExclusiveEnd
  | .timingClock => .timingClock
  | .start => .start
  | .continue => .continue
  | .stop => .stop
  | .activeSensing => .activeSensing
  | .systemReset => .systemReset
  | .systemCommonUndefined1 => .systemCommonUndefined1
  | .systemCommonUndefined2 => .systemCommonUndefined2
  | .systemRealTimeUndefined1 => .systemRealTimeUndefined1
  | .systemRealTimeUndefined2 => .systemRealTimeUndefined2

end Midi.Spec
