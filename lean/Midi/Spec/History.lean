/-
Executable statements of what the two pure scanners must report, as functions of the history alone
(written from the property texts C08 and C11), and what the two encoders must produce (C07, C09).
-/
import Midi.Model.CC14
import Midi.Model.PN
namespace Midi.Spec
open Midi

/-- an operation on a scanner: feed one short message (its bytes) or reset -/
inductive Op
  | feed (b : Bytes)
  | reset
  deriving DecidableEq, Repr, Inhabited

def Op.Valid : Op → Prop
  | .feed b => b.Valid
  | .reset => True
instance Op.decValid (o : Op) : Decidable o.Valid := by cases o <;> unfold Op.Valid <;> infer_instance

/-- `b` is a Control Change on channel `c` -/
def ccOn (c : Nat) (b : Bytes) : Bool := b.status == 176 + c

/-! ### 14-bit Control Change -/

/-- most recent Control Change with a controller number below 32 on channel c since creation / reset -/
def msbStep (c : Nat) (acc : Option (Nat × Nat)) : Op → Option (Nat × Nat)
  | .reset => none
  | .feed b => if ccOn c b && b.d1 < 32 then some (b.d1, b.d2) else acc
def lastMsb (past : List Op) (c : Nat) : Option (Nat × Nat) := past.foldl (msbStep c) none

/-- C08: the message that feeding `m` after `past` must report -/
def justified14 (past : List Op) (m : Bytes) : Option CC14Msg :=
  if 176 ≤ m.status ∧ m.status < 192 ∧ 32 ≤ m.d1 ∧ m.d1 < 64 then
    let c := m.status - 176
    match lastMsb past c with
    | some (n, v) => if n = m.d1 - 32 then some ⟨c, n, 128 * v + m.d2⟩ else none
    | none => none
  else none

/-- replace the value byte of every Control Change by `f` of it (everything else untouched) -/
def relabelB (f : Nat → Nat) (b : Bytes) : Bytes :=
  if 176 ≤ b.status ∧ b.status < 192 then ⟨b.status, b.d1, f b.d2⟩ else b
def relabelOp (f : Nat → Nat) : Op → Op
  | .feed b => .feed (relabelB f b)
  | .reset => .reset

/-- C07: the two Control Change messages a 14-bit message encodes to -/
def specCC14Encoding (m : CC14Msg) : List Bytes :=
  [⟨176 + m.channel, m.msb, m.value / 128⟩, ⟨176 + m.channel, m.msb + 32, m.value % 128⟩]

/-! ### (N)RPN -/

def isNumberMsbCn (n : Nat) : Bool := n == 99 || n == 101
def isNumberLsbCn (n : Nat) : Bool := n == 98 || n == 100

/-- latest parameter-number MSB (controller 99/101) on channel c since creation / reset -/
def numMsbStep (c : Nat) (acc : Option Nat) : Op → Option Nat
  | .reset => none
  | .feed b => if ccOn c b && isNumberMsbCn b.d1 then some b.d2 else acc
/-- latest parameter-number LSB (controller 98/100) -/
def numLsbStep (c : Nat) (acc : Option Nat) : Op → Option Nat
  | .reset => none
  | .feed b => if ccOn c b && isNumberLsbCn b.d1 then some b.d2 else acc
/-- was the most recent number byte a registered one (controller 100/101)? -/
def regStep (c : Nat) (acc : Bool) : Op → Bool
  | .reset => false
  | .feed b => if ccOn c b && (isNumberMsbCn b.d1 || isNumberLsbCn b.d1) then (b.d1 == 100 || b.d1 == 101) else acc
/-- controller-38 value received after the most recent number byte -/
def v38Step (c : Nat) (acc : Option Nat) : Op → Option Nat
  | .reset => none
  | .feed b =>
    if ccOn c b && (isNumberMsbCn b.d1 || isNumberLsbCn b.d1) then none
    else if ccOn c b && b.d1 == 38 then some b.d2 else acc

def numMsb (past : List Op) (c : Nat) := past.foldl (numMsbStep c) none
def numLsb (past : List Op) (c : Nat) := past.foldl (numLsbStep c) none
def regOf (past : List Op) (c : Nat) := past.foldl (regStep c) false
def v38Of (past : List Op) (c : Nat) := past.foldl (v38Step c) none

/-- C11: the message that feeding `m` after `past` must report -/
def justifiedPN (past : List Op) (m : Bytes) : Option PNMsg :=
  if 176 ≤ m.status ∧ m.status < 192 ∧ (m.d1 = 6 ∨ m.d1 = 96 ∨ m.d1 = 97) then
    let c := m.status - 176
    match numMsb past c, numLsb past c with
    | some hi, some lo =>
      let number := 128 * hi + lo
      let reg := regOf past c
      if m.d1 = 96 then some ⟨c, number, m.d2, reg, false, .dataIncrement⟩
      else if m.d1 = 97 then some ⟨c, number, m.d2, reg, false, .dataDecrement⟩
      else match v38Of past c with
        | some l => some ⟨c, number, 128 * m.d2 + l, reg, true, .dataEntry⟩
        | none => some ⟨c, number, m.d2, reg, false, .dataEntry⟩
    | _, _ => none
  else none

/-- what relabelling the value bytes by `f` does to a reported message: both halves of the parameter number and
    of a 14-bit value (or the single byte of a 7-bit value) go through `f`; nothing else changes -/
def relabelMsg (f : Nat → Nat) (r : PNMsg) : PNMsg :=
  { r with number := 128 * f (r.number / 128) + f (r.number % 128),
           value := if r.is14Bit then 128 * f (r.value / 128) + f (r.value % 128) else f r.value }

/-- C09: the four slots a (N)RPN message encodes to -/
def specPNEncoding (m : PNMsg) (order : ByteOrder) : List (Option Bytes) :=
  let s := 176 + m.channel
  let numMsbMsg : Bytes := ⟨s, if m.isRegistered then 101 else 99, m.number / 128⟩
  let numLsbMsg : Bytes := ⟨s, if m.isRegistered then 100 else 98, m.number % 128⟩
  match m.dataType with
  | .dataEntry =>
    if m.is14Bit then
      match order with
      | .msbFirst => [some numMsbMsg, some numLsbMsg, some ⟨s, 6, m.value / 128⟩, some ⟨s, 38, m.value % 128⟩]
      | .lsbFirst => [some numMsbMsg, some numLsbMsg, some ⟨s, 38, m.value % 128⟩, some ⟨s, 6, m.value / 128⟩]
    else [some numMsbMsg, some numLsbMsg, some ⟨s, 6, m.value⟩, none]
  | .dataIncrement => [some numMsbMsg, some numLsbMsg, some ⟨s, 96, m.value⟩, none]
  | .dataDecrement => [some numMsbMsg, some numLsbMsg, some ⟨s, 97, m.value⟩, none]

end Midi.Spec
