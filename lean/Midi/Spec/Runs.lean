/- Running the two pure scanners over operation histories (feeds of RawShortMessage values and resets). -/
import Midi.Spec.History
namespace Midi.Spec
open Midi

def ccStep (s : CCScanner) : Op → Res (CCScanner × Option CC14Msg)
  | .feed b => s.feed rawImpl b
  | .reset => .ok (s.reset, none)

/-- final state and the per-operation outputs -/
def ccRun (s : CCScanner) : List Op → Res (CCScanner × List (Option CC14Msg))
  | [] => .ok (s, [])
  | op :: ops => do
    let (s', o) ← ccStep s op
    let (s'', os) ← ccRun s' ops
    .ok (s'', o :: os)

def pnStep (s : PNScanner) : Op → Res (PNScanner × Option PNMsg)
  | .feed b => s.feed rawImpl b
  | .reset => .ok (s.reset, none)

def pnRun (s : PNScanner) : List Op → Res (PNScanner × List (Option PNMsg))
  | [] => .ok (s, [])
  | op :: ops => do
    let (s', o) ← pnStep s op
    let (s'', os) ← pnRun s' ops
    .ok (s'', o :: os)

/-- what the history says each operation of `ops` must report, given the operations `pre` before them -/
def expect14 (pre : List Op) : Op → Option CC14Msg
  | .feed b => justified14 pre b
  | .reset => none
def expected14 (pre : List Op) : List Op → List (Option CC14Msg)
  | [] => []
  | op :: ops => expect14 pre op :: expected14 (pre ++ [op]) ops

def expectPN (pre : List Op) : Op → Option PNMsg
  | .feed b => justifiedPN pre b
  | .reset => none
def expectedPN (pre : List Op) : List Op → List (Option PNMsg)
  | [] => []
  | op :: ops => expectPN pre op :: expectedPN (pre ++ [op]) ops

end Midi.Spec

namespace Midi.Spec
open Midi

/-- does the operation concern channel `c`?  (channel messages on `c`; every reset; never a system message) -/
def opOnChannel (c : Nat) : Op → Bool
  | .feed b => b.status < 240 && b.status % 16 == c
  | .reset => true

/-- the outputs of the operations that concern channel `c`, in order -/
def outsOn {α} (c : Nat) : List Op → List α → List α
  | op :: ops, o :: os => if opOnChannel c op then o :: outsOn c ops os else outsOn c ops os
  | _, _ => []

end Midi.Spec
