/-
What each factory constructor must build, written from the property text with plain arithmetic:
the bytes (status = type byte + channel; 14-bit arguments split into low 7 bits = data byte 1 and high
7 bits = data byte 2; unused data bytes zero).
-/
import Midi.Spec.MidiTable
import Midi.Model.Ctors
namespace Midi.Spec
open Midi

/-- bytes a named constructor describes (arguments a, b, c; unused ones ignored) -/
def specNamed (k : Ctor) (a b c : Nat) : Bytes :=
  match k with
  | .noteOff => ⟨0x80 + a, b, c⟩
  | .noteOn => ⟨0x90 + a, b, c⟩
  | .polyphonicKeyPressure => ⟨0xA0 + a, b, c⟩
  | .controlChange => ⟨0xB0 + a, b, c⟩
  | .programChange => ⟨0xC0 + a, b, 0⟩
  | .channelPressure => ⟨0xD0 + a, b, 0⟩
  | .pitchBendChange => ⟨0xE0 + a, b % 128, b / 128⟩
  | .systemExclusiveStart => ⟨0xF0, 0, 0⟩
  -- piece a in 0..6: nibble b; piece 7 ('last'): hours bit b, time code type c
  | .timeCodeQuarterFrame => ⟨0xF1, if a < 7 then a * 16 + b else 112 + c * 2 + b, 0⟩
  | .songPositionPointer => ⟨0xF2, a % 128, a / 128⟩
  | .songSelect => ⟨0xF3, a, 0⟩
  | .tuneRequest => ⟨0xF6, 0, 0⟩
  | .systemExclusiveEnd => ⟨0xF7, 0, 0⟩
  | .timingClock => ⟨0xF8, 0, 0⟩
  | .start => ⟨0xFA, 0, 0⟩
  | .continue => ⟨0xFB, 0, 0⟩
  | .stop => ⟨0xFC, 0, 0⟩
  | .activeSensing => ⟨0xFE, 0, 0⟩
  | .systemReset => ⟨0xFF, 0, 0⟩

/-- the structured value whose fields are exactly the arguments -/
def specNamedStructured (k : Ctor) (a b c : Nat) : SMsg :=
  match k with
  | .noteOff => .noteOff a b c
  | .noteOn => .noteOn a b c
  | .polyphonicKeyPressure => .polyphonicKeyPressure a b c
  | .controlChange => .controlChange a b c
  | .programChange => .programChange a b
  | .channelPressure => .channelPressure a b
  | .pitchBendChange => .pitchBendChange a b
  | .systemExclusiveStart => .systemExclusiveStart
  | .timeCodeQuarterFrame => .timeCodeQuarterFrame (QFrame.ofCode a b c)
  | .songPositionPointer => .songPositionPointer a
  | .songSelect => .songSelect a
  | .tuneRequest => .tuneRequest
  | .systemExclusiveEnd => .systemExclusiveEnd
  | .timingClock => .timingClock
  | .start => .start
  | .continue => .continue
  | .stop => .stop
  | .activeSensing => .activeSensing
  | .systemReset => .systemReset

/-- category of a type byte: 0 channel, 1 system common, 2 system real time, 3 system exclusive -/
def specCategory (typeByte : Nat) : Nat :=
  if typeByte < 240 then 0 else if typeByte = 240 then 3 else if typeByte < 248 then 1 else 2

/-- generic constructors: `none` = must panic (wrong category), else type, channel and data bytes unchanged -/
def specChannelMessage (typeByte c a b : Nat) : Option Bytes :=
  if specCategory typeByte = 0 then some ⟨typeByte + c, a, b⟩ else none
def specSystemCommonMessage (typeByte a b : Nat) : Option Bytes :=
  if specCategory typeByte = 1 then some ⟨typeByte, a, b⟩ else none
def specSystemRealTimeMessage (typeByte : Nat) : Option Bytes :=
  if specCategory typeByte = 2 then some ⟨typeByte, 0, 0⟩ else none

end Midi.Spec
