/-
C04 (continued): values produced by encoders and scanners are in range — every message a scanner reports, for any
history of valid inputs, is one the checked public constructors can build.
-/
import Midi.Proofs.PN
import Midi.Proofs.Polling
import Midi.Props.C07
import Midi.Props.C09
set_option linter.unusedSimpArgs false
set_option linter.unusedVariables false
namespace Midi.Props.C04S
open Midi Midi.Spec

/-- 14-bit CC scanner: every reported message is valid (channel < 16, MSB controller < 32, value < 16384) -/
theorem cc_reports_valid (o : Option (Nat × Nat)) (hb : Bounded14 o) (b : Bytes) (hv : b.Valid) (m : CC14Msg)
    (h : just14 o b = some m) : m.Valid := by
  unfold just14 at h
  by_cases hc : 176 ≤ b.status ∧ b.status < 192 ∧ 32 ≤ b.d1 ∧ b.d1 < 64
  · simp only [hc, and_self, if_true] at h
    cases o with
    | none => simp at h
    | some p =>
      obtain ⟨n, v⟩ := p
      have hbd := hb n v rfl
      simp only at h
      by_cases hn : n = b.d1 - 32
      · simp only [hn, if_true] at h
        injection h with h; subst h
        have := hv.2.2.2
        refine ⟨?_, ?_, ?_⟩ <;> simp <;> omega
      · simp [hn] at h
  · simp [hc] at h

theorem cc_history_reports_valid (past : List Op) (hp : ∀ op ∈ past, op.Valid) (b : Bytes) (hv : b.Valid) (m : CC14Msg)
    (h : justified14 past b = some m) : m.Valid := by
  obtain ⟨s, _, r⟩ := cc_run CCScanner.new [] ccRel_new past hp
  have hr : CCRel s past := by simpa using r
  by_cases hc : b.status - 176 < 16
  · exact cc_reports_valid _ (hr _ hc).2 b hv m (by rw [← justified14_eq]; exact h)
  · unfold justified14 at h
    have : ¬ (176 ≤ b.status ∧ b.status < 192 ∧ 32 ≤ b.d1 ∧ b.d1 < 64) := by omega
    simp [this] at h

/-- (N)RPN scanner: every reported message is valid (7-bit value <= 127, 14-bit implies data entry, ...) -/
theorem pn_reports_valid (a : PNAbs) (hb : a.Bounded) (b : Bytes) (hv : b.Valid) (m : PNMsg)
    (h : justPN a b = some m) : m.Valid := by
  obtain ⟨hi, lo, reg, l38⟩ := a
  obtain ⟨b1, b2, b3⟩ := hb
  simp only at b1 b2 b3
  have hd2 := hv.2.2.2
  unfold justPN at h
  by_cases hc : 176 ≤ b.status ∧ b.status < 192 ∧ (b.d1 = 6 ∨ b.d1 = 96 ∨ b.d1 = 97)
  · simp only [hc, and_self, if_true] at h
    cases hi with
    | none => simp at h
    | some x =>
      cases lo with
      | none => simp at h
      | some y =>
        have hx := b1 x rfl
        have hy := b2 y rfl
        simp only at h
        by_cases c96 : b.d1 = 96
        · simp only [c96, if_true] at h; injection h with h; subst h
          refine ⟨?_, ?_, ?_⟩ <;> simp <;> omega
        · by_cases c97 : b.d1 = 97
          · simp only [c96, c97, if_true, if_false] at h; injection h with h; subst h
            refine ⟨?_, ?_, ?_⟩ <;> simp <;> omega
          · simp only [c96, c97, if_false] at h
            cases l38 with
            | none => simp only at h; injection h with h; subst h; refine ⟨?_, ?_, ?_⟩ <;> simp <;> omega
            | some z =>
              have hz := b3 z rfl
              simp only at h; injection h with h; subst h
              refine ⟨?_, ?_, ?_⟩ <;> simp <;> omega
  · simp [hc] at h

theorem pn_history_reports_valid (past : List Op) (hp : ∀ op ∈ past, op.Valid) (b : Bytes) (hv : b.Valid) (m : PNMsg)
    (h : justifiedPN past b = some m) : m.Valid := by
  obtain ⟨s, _, r⟩ := pn_run PNScanner.new [] pnRel_new past hp
  have hr : PNRel s past := by simpa using r
  by_cases hc : b.status - 176 < 16
  · exact pn_reports_valid _ (hr _ hc).2 b hv m (by rw [← justifiedPN_eq]; exact h)
  · unfold justifiedPN at h
    have : ¬ (176 ≤ b.status ∧ b.status < 192 ∧ (b.d1 = 6 ∨ b.d1 = 96 ∨ b.d1 = 97)) := by omega
    simp [this] at h

/-- the bytes stored in a polling channel state are 7-bit values -/
def ChanBytesOk (st : PState) : Prop :=
  match st with
  | .waitingForNumber first _ _ => ∀ v, first = some v → v < 128
  | .waitingForFirstValue ns => ns.msb < 128 ∧ ns.lsb < 128
  | .valuePending ns _ f _ => ns.msb < 128 ∧ ns.lsb < 128 ∧ f < 128
  | .fourteenComplete ns a b => ns.msb < 128 ∧ ns.lsb < 128 ∧ a < 128 ∧ b < 128

theorem seven_valid (ch n v : Nat) (r : Bool) (d : DataType) (hc : ch < 16) (hn : n < 16384) (hv : v < 128) :
    (PNMsg.sevenBit ch n v r d).Valid := ⟨hc, hn, by simp [PNMsg.sevenBit]; omega⟩
theorem fourteen_valid (ch n v : Nat) (r : Bool) (hc : ch < 16) (hn : n < 16384) (hv : v < 16384) :
    (PNMsg.fourteenBit ch n v r).Valid := ⟨hc, hn, by simp [PNMsg.fourteenBit]; omega⟩
theorem number_lt (ns : NumberState) (h1 : ns.msb < 128) (h2 : ns.lsb < 128) : ns.number < 16384 := by
  unfold NumberState.number; rw [build14_eq _ _ h1 h2]; omega
theorem b14_lt (a b : Nat) (h1 : a < 128) (h2 : b < 128) : build14 a b < 16384 := by
  rw [build14_eq _ _ h1 h2]; omega

/-- an optional report is valid -/
def OutOk (o : Option PNMsg) : Prop := ∀ m, o = some m → m.Valid

theorem outOk_none : OutOk none := by intro m h; cases h
theorem outOk_some (m : PNMsg) (h : m.Valid) : OutOk (some m) := by
  intro m' h'; injection h' with h'; subst h'; exact h

theorem resolve_ok (ch : Nat) (hc : ch < 16) (ns : NumberState) (f : Nat) (k : Bool)
    (h1 : ns.msb < 128) (h2 : ns.lsb < 128) (hf : f < 128) : OutOk (resolvePending ch ns f k) := by
  unfold resolvePending
  cases k
  · exact outOk_none
  · exact outOk_some _ (seven_valid _ _ _ _ _ hc (number_lt ns h1 h2) hf)

theorem complete_ok (ch : Nat) (hc : ch < 16) (ns : NumberState) (f : Nat) (k : Bool) (b : Nat)
    (h1 : ns.msb < 128) (h2 : ns.lsb < 128) (hf : f < 128) (hb : b < 128) :
    ChanBytesOk (completePending ch ns f k b).1 ∧ OutOk (completePending ch ns f k b).2 := by
  unfold completePending
  cases k
  · exact ⟨⟨h1, h2, hb, hf⟩, outOk_some _ (fourteen_valid _ _ _ _ hc (number_lt ns h1 h2) (b14_lt _ _ hb hf))⟩
  · exact ⟨⟨h1, h2, hf, hb⟩, outOk_some _ (fourteen_valid _ _ _ _ hc (number_lt ns h1 h2) (b14_lt _ _ hf hb))⟩

theorem numberByte_ok (ch : Nat) (hc : ch < 16) (st : PState) (hst : ChanBytesOk st) (b : Nat) (hb : b < 128)
    (r k : Bool) :
    ChanBytesOk (st.processNumberByte b r k ch).1 ∧ OutOk (st.processNumberByte b r k ch).2 := by
  cases st with
  | waitingForNumber first r' k' =>
    cases first with
    | none =>
      refine ⟨?_, outOk_none⟩
      intro v hv; injection hv with hv; omega
    | some sb =>
      have hsb : sb < 128 := hst sb rfl
      simp only [PState.processNumberByte]
      by_cases hk : (k' == k) = true
      · simp only [hk, if_true]
        refine ⟨?_, outOk_none⟩
        intro v hv; injection hv with hv; omega
      · simp only [hk, if_false]
        refine ⟨?_, outOk_none⟩
        cases k' <;> simp [ChanBytesOk] <;> omega
  | waitingForFirstValue ns =>
    obtain ⟨h1, h2⟩ := hst
    refine ⟨?_, outOk_none⟩
    cases k <;> simp [PState.processNumberByte, ChanBytesOk] <;> omega
  | fourteenComplete ns a c =>
    obtain ⟨h1, h2, _, _⟩ := hst
    refine ⟨?_, outOk_none⟩
    cases k <;> simp [PState.processNumberByte, ChanBytesOk] <;> omega
  | valuePending ns arr f k' =>
    obtain ⟨h1, h2, hf⟩ := hst
    refine ⟨?_, resolve_ok ch hc ns f k' h1 h2 hf⟩
    cases k <;> simp [PState.processNumberByte, ChanBytesOk] <;> omega

theorem valueLsb_ok (ch : Nat) (hc : ch < 16) (st : PState) (hst : ChanBytesOk st) (now b : Nat) (hb : b < 128) :
    ChanBytesOk (st.processValueLsb now ch b).1 ∧ OutOk (st.processValueLsb now ch b).2 := by
  cases st with
  | waitingForNumber first r' k' => exact ⟨hst, outOk_none⟩
  | waitingForFirstValue ns => exact ⟨⟨hst.1, hst.2, hb⟩, outOk_none⟩
  | fourteenComplete ns a c =>
    obtain ⟨h1, h2, ha, _⟩ := hst
    exact ⟨⟨h1, h2, ha, hb⟩, outOk_some _ (fourteen_valid _ _ _ _ hc (number_lt ns h1 h2) (b14_lt _ _ ha hb))⟩
  | valuePending ns arr f k' =>
    obtain ⟨h1, h2, hf⟩ := hst
    cases k'
    · exact ⟨⟨h1, h2⟩, outOk_none⟩
    · exact complete_ok ch hc ns f true b h1 h2 hf hb

theorem valueMsb_ok (ch : Nat) (hc : ch < 16) (st : PState) (hst : ChanBytesOk st) (now b : Nat) (hb : b < 128) :
    ChanBytesOk (st.processValueMsb now ch b).1 ∧ OutOk (st.processValueMsb now ch b).2 := by
  cases st with
  | waitingForNumber first r' k' => exact ⟨hst, outOk_none⟩
  | waitingForFirstValue ns => exact ⟨⟨hst.1, hst.2, hb⟩, outOk_none⟩
  | fourteenComplete ns a c =>
    obtain ⟨h1, h2, ha, _⟩ := hst
    exact ⟨⟨h1, h2, hb⟩, outOk_none⟩
  | valuePending ns arr f k' =>
    obtain ⟨h1, h2, hf⟩ := hst
    cases k'
    · exact complete_ok ch hc ns f false b h1 h2 hf hb
    · exact ⟨⟨h1, h2, hb⟩, outOk_some _ (seven_valid _ _ _ _ _ hc (number_lt ns h1 h2) hf)⟩

theorem incDec_ok (ch : Nat) (hc : ch < 16) (st : PState) (hst : ChanBytesOk st) (d : DataType) (b : Nat)
    (hb : b < 128) :
    ChanBytesOk (st.processValueIncDec ch d b).1 ∧ OutOk (st.processValueIncDec ch d b).2.1 ∧
      OutOk (st.processValueIncDec ch d b).2.2 := by
  cases st with
  | waitingForNumber first r' k' => exact ⟨hst, outOk_none, outOk_none⟩
  | waitingForFirstValue ns =>
    exact ⟨⟨hst.1, hst.2⟩, outOk_some _ (seven_valid _ _ _ _ _ hc (number_lt ns hst.1 hst.2) hb), outOk_none⟩
  | fourteenComplete ns a c =>
    obtain ⟨h1, h2, ha, _⟩ := hst
    exact ⟨⟨h1, h2⟩, outOk_some _ (seven_valid _ _ _ _ _ hc (number_lt ns h1 h2) hb), outOk_none⟩
  | valuePending ns arr f k' =>
    obtain ⟨h1, h2, hf⟩ := hst
    cases k'
    · exact ⟨⟨h1, h2⟩, outOk_none, outOk_none⟩
    · exact ⟨⟨h1, h2⟩, outOk_some _ (seven_valid _ _ _ _ _ hc (number_lt ns h1 h2) hf),
        outOk_some _ (seven_valid _ _ _ _ _ hc (number_lt ns h1 h2) hb)⟩

theorem onCC_ok (ch : Nat) (hc : ch < 16) (st : PState) (hst : ChanBytesOk st) (now cn cv : Nat) (hv : cv < 128) :
    ChanBytesOk (st.onCC now ch cn cv).1 ∧ OutOk (st.onCC now ch cn cv).2.1 ∧ OutOk (st.onCC now ch cn cv).2.2 := by
  unfold PState.onCC
  split
  · exact ⟨(numberByte_ok ch hc st hst cv hv _ _).1, (numberByte_ok ch hc st hst cv hv _ _).2, outOk_none⟩
  · exact ⟨(numberByte_ok ch hc st hst cv hv _ _).1, (numberByte_ok ch hc st hst cv hv _ _).2, outOk_none⟩
  · exact ⟨(numberByte_ok ch hc st hst cv hv _ _).1, (numberByte_ok ch hc st hst cv hv _ _).2, outOk_none⟩
  · exact ⟨(numberByte_ok ch hc st hst cv hv _ _).1, (numberByte_ok ch hc st hst cv hv _ _).2, outOk_none⟩
  · exact ⟨(valueLsb_ok ch hc st hst now cv hv).1, (valueLsb_ok ch hc st hst now cv hv).2, outOk_none⟩
  · exact ⟨(valueMsb_ok ch hc st hst now cv hv).1, (valueMsb_ok ch hc st hst now cv hv).2, outOk_none⟩
  · exact incDec_ok ch hc st hst _ cv hv
  · exact incDec_ok ch hc st hst _ cv hv
  · exact ⟨hst, outOk_none, outOk_none⟩

theorem poll_ok (ch : Nat) (hc : ch < 16) (c : PChan) (hst : ChanBytesOk c.state) (now : Nat) :
    ChanBytesOk (c.poll now ch).1.state ∧ OutOk (c.poll now ch).2 := by
  obtain ⟨to, st⟩ := c
  simp only at hst
  cases st with
  | waitingForNumber first r' k' => exact ⟨hst, outOk_none⟩
  | waitingForFirstValue ns => exact ⟨hst, outOk_none⟩
  | fourteenComplete ns a c => exact ⟨hst, outOk_none⟩
  | valuePending ns arr f k' =>
    obtain ⟨h1, h2, hf⟩ := hst
    simp only [PChan.poll]
    by_cases ht : now - arr < to
    · simp only [ht, if_true]; exact ⟨⟨h1, h2, hf⟩, outOk_none⟩
    · simp only [ht, if_false]; exact ⟨⟨h1, h2⟩, resolve_ok ch hc ns f k' h1 h2 hf⟩

/-- MAIN. one event of a polling channel: every reported message is valid and the stored bytes stay 7-bit values -/
theorem polling_event_valid (ch : Nat) (hc : ch < 16) (c : PChan) (hst : ChanBytesOk c.state) (e : PEv)
    (he : match e with | .cc _ cv _ => cv < 128 | _ => True) :
    ChanBytesOk (c.ev ch e).1.state ∧
    (∀ m, (c.ev ch e).2.1 = some m → m.Valid) ∧ (∀ m, (c.ev ch e).2.2 = some m → m.Valid) := by
  cases e with
  | cc cn cv now =>
    simp only at he
    exact onCC_ok ch hc c.state hst now cn cv he
  | poll now =>
    exact ⟨(poll_ok ch hc c hst now).1, (poll_ok ch hc c hst now).2, outOk_none⟩
  | reset =>
    refine ⟨?_, outOk_none, outOk_none⟩
    intro v hv; cases hv

theorem polling_evs_valid (ch : Nat) (hc : ch < 16) (es : List PEv) :
    ∀ (c : PChan), ChanBytesOk c.state →
    (∀ e ∈ es, match e with | .cc _ cv _ => cv < 128 | _ => True) →
    ∀ o ∈ (c.evs ch es).2, (∀ m, o.1 = some m → m.Valid) ∧ (∀ m, o.2 = some m → m.Valid) := by
  induction es with
  | nil => intro c _ _ o ho; simp [PChan.evs] at ho
  | cons e es ih =>
    intro c hst he o ho
    have h1 := polling_event_valid ch hc c hst e (he e (List.mem_cons_self ..))
    simp only [PChan.evs, List.mem_cons] at ho
    rcases ho with ho | ho
    · subst ho; exact h1.2
    · exact ih _ h1.1 (fun e' he' => he e' (List.mem_cons_of_mem _ he')) o ho

/-- MAIN. any sequence of events from a new channel: every reported message is valid -/
theorem polling_reports_valid (ch timeout : Nat) (hc : ch < 16) (es : List PEv)
    (he : ∀ e ∈ es, match e with | .cc _ cv _ => cv < 128 | _ => True) :
    ∀ o ∈ (({ timeout := timeout } : PChan).evs ch es).2, (∀ m, o.1 = some m → m.Valid) ∧ (∀ m, o.2 = some m → m.Valid) := by
  refine polling_evs_valid ch hc es _ ?_ he
  intro v hv; cases hv

end Midi.Props.C04S
