/-
C05  Integer conversions, parsing, ordering and formatting are numerically faithful.
-/
import Midi.Props.C04
set_option linter.unusedSimpArgs false
namespace Midi.Props.C05
open Midi Midi.Spec

/-- Every implemented conversion — into a restricted type, out of one, or between two — preserves the
    mathematical value; the fallible ones accept exactly the values within the destination's range.
    For every pointer width and EVERY value of the source type. -/
theorem conversions_faithful (pw : Nat) (hpw : pw ∈ pointerWidths) (e : ConvEntry) (he : e ∈ Gen.conversions)
    (x : Int) (hx : inTy pw e.src x) : convModel pw e x = convSpec pw e x := by
  have hok : entryOk pw e = true := List.all_eq_true.mp (C04.table_ok pw hpw) e he
  exact (entryOk_sound pw (C04.pw_cases hpw) e hok x hx).1

/-- Parsing accepts exactly the unsigned decimal numerals (digits only, optionally preceded by '+', any
    length, leading zeros included) whose value is in range, and returns that value — for ALL strings. -/
theorem parse_iff (pw : Nat) (hpw : pw ∈ pointerWidths) (T : NewtypeDef) (hT : T ∈ Gen.newtypes)
    (s : List Char) (v : Nat) :
    parseNewtype pw T s = some v ↔ IsNumeral s ∧ numeralValue s = v ∧ v ≤ T.max := by
  have hfit : (T.max : Int) ≤ T.repr.maxVal pw := (C04.consts_in_range.1 T hT).2.2.2 pw hpw
  have hm := maxVal_nonneg pw (C04.pw_cases hpw) T.repr
  have hfit' : T.max ≤ (T.repr.maxVal pw).toNat := by omega
  unfold parseNewtype
  cases hp : parsePrim (T.repr.maxVal pw).toNat s with
  | none =>
    simp only
    constructor
    · intro h; cases h
    · rintro ⟨h1, h2, h3⟩
      have := (parsePrim_spec (T.repr.maxVal pw).toNat s v).mpr ⟨h1, h2, by omega⟩
      rw [hp] at this; cases this
  | some p =>
    have hp' := (parsePrim_spec (T.repr.maxVal pw).toNat s p).mp hp
    simp only
    by_cases hv : p ≤ T.max
    · have : T.isValid p = true := by simp [NewtypeDef.isValid]; exact hv
      simp only [this, if_true]
      constructor
      · intro h; injection h with h; subst h; exact ⟨hp'.1, hp'.2.1, hv⟩
      · rintro ⟨_, h2, _⟩; rw [← h2, hp'.2.1]
    · have hv' : T.isValid p = false := by simp [NewtypeDef.isValid]; omega
      simp only [hv']
      constructor
      · intro h; cases h
      · rintro ⟨_, h2, h3⟩
        have : numeralValue s = p := hp'.2.1
        omega

/-- Display prints the decimal value: digits only, no sign, no leading zero, and they denote the value -/
theorem display_decimal (n : Nat) :
    (∀ c ∈ displayNat n, c.isDigit = true) ∧ digitsValue (displayNat n) 0 = n ∧
    ∃ c cs, displayNat n = c :: cs ∧ c.isDigit = true ∧ (cs ≠ [] → c ≠ '0') := by
  have a := displayNat_spec n
  obtain ⟨c, cs, h1, h2, _, h4⟩ := displayNat_head n
  exact ⟨a.1, a.2.1, c, cs, h1, h2, h4⟩

theorem numeral_no_plus (c : Char) (cs : List Char) (h : c ≠ '+') :
    (IsNumeral (c :: cs) ↔ ∀ x ∈ c :: cs, x.isDigit = true) ∧ numeralValue (c :: cs) = digitsValue (c :: cs) 0 := by
  unfold IsNumeral numeralValue
  constructor
  · split
    · rename_i r heq; injection heq with h1 _; exact absurd h1 h
    · simp
  · split
    · rename_i r heq; injection heq with h1 _; exact absurd h1 h
    · rfl

/-- printing then parsing is the identity on every value of every restricted type -/
theorem display_parse (pw : Nat) (hpw : pw ∈ pointerWidths) (T : NewtypeDef) (hT : T ∈ Gen.newtypes)
    (v : Nat) (hv : v ≤ T.max) : parseNewtype pw T (displayNat v) = some v := by
  rw [parse_iff pw hpw T hT]
  have a := displayNat_spec v
  obtain ⟨c, cs, h1, h2, _, _⟩ := displayNat_head v
  have hplus : c ≠ '+' := by intro h; subst h; simp [Char.isDigit] at h2
  have hn := numeral_no_plus c cs hplus
  rw [h1] at a ⊢
  exact ⟨hn.1.mpr a.1, by rw [hn.2]; exact a.2.1, hv⟩

/-- whatever width, fill, alignment, sign or precision the caller's format spec asks for, the decimal digits are
    printed intact and contiguously; everything around them is fill, zero padding or a plus sign -/
theorem display_with_frame (f : FmtSpec) (n : Nat) :
    ∃ pre post, displayWith f n = pre ++ displayNat n ++ post ∧
      ∀ c ∈ pre ++ post, c = f.fill ∨ c = '0' ∨ c = '+' := by
  unfold displayWith padIntegral
  generalize hs : (if f.plus then ['+'] else []) = sign
  have hsign : ∀ c ∈ sign, c = '+' := by
    intro c hc; subst hs; split at hc <;> simp_all
  simp only
  cases f.width with
  | none => exact ⟨sign, [], by simp, by intro c hc; exact .inr (.inr (hsign c (by simpa using hc)))⟩
  | some w =>
    simp only
    by_cases h1 : w ≤ sign.length + (displayNat n).length
    · rw [if_pos h1]
      exact ⟨sign, [], by simp, by intro c hc; exact .inr (.inr (hsign c (by simpa using hc)))⟩
    · rw [if_neg h1]
      by_cases h2 : f.zero = true
      · rw [if_pos h2]
        refine ⟨sign ++ List.replicate (w - (sign.length + (displayNat n).length)) '0', [], by simp, ?_⟩
        intro c hc
        simp only [List.append_nil, List.mem_append, List.mem_replicate] at hc
        rcases hc with hc | hc
        · exact .inr (.inr (hsign c hc))
        · exact .inr (.inl hc.2)
      · rw [if_neg h2]
        cases f.align.getD .right with
        | left =>
          refine ⟨sign, List.replicate (w - (sign.length + (displayNat n).length)) f.fill, by simp, ?_⟩
          intro c hc
          simp only [List.mem_append, List.mem_replicate] at hc
          rcases hc with hc | hc
          · exact .inr (.inr (hsign c hc))
          · exact .inl hc.2
        | right =>
          refine ⟨List.replicate (w - (sign.length + (displayNat n).length)) f.fill ++ sign, [], by simp, ?_⟩
          intro c hc
          simp only [List.append_nil, List.mem_append, List.mem_replicate] at hc
          rcases hc with hc | hc
          · exact .inl hc.2
          · exact .inr (.inr (hsign c hc))
        | center =>
          refine ⟨List.replicate ((w - (sign.length + (displayNat n).length)) / 2) f.fill ++ sign,
            List.replicate ((w - (sign.length + (displayNat n).length) + 1) / 2) f.fill, by simp, ?_⟩
          intro c hc
          simp only [List.mem_append, List.mem_replicate] at hc
          rcases hc with (hc | hc) | hc
          · exact .inl hc.2
          · exact .inr (.inr (hsign c hc))
          · exact .inl hc.2

/-- the plain `{}` spec prints exactly the digits -/
theorem display_with_default (n : Nat) : displayWith {} n = displayNat n := by
  simp [displayWith, padIntegral]

/-- MIN, MAX and Default have the numeric values 0, max, 0.  Equality and ordering are `derive`d on the
    one-field tuple struct: the model of that derive IS comparison of the payloads (modelled, validated by
    exhaustive correspondence), so they agree with the numeric order by construction. -/
theorem consts_numeric (T : NewtypeDef) : T.minConst = 0 ∧ T.maxConst = T.max ∧ T.default = 0 := ⟨rfl, rfl, rfl⟩

/-! non-vacuity -/
example : IsNumeral ['+', '0', '0', '7'] ∧ numeralValue ['+', '0', '0', '7'] = 7 := by
  refine ⟨⟨by simp, by decide⟩, by decide⟩
example : displayNat 16383 = ['1', '6', '3', '8', '3'] := by decide +kernel
example : displayWith { plus := true, zero := true, width := some 7 } 42 = ['+', '0', '0', '0', '0', '4', '2'] := by decide +kernel
example : displayWith { fill := '*', align := some .center, width := some 5 } 7 = ['*', '*', '7', '*', '*'] := by decide +kernel

end Midi.Props.C05
