/-
Property theorems restated for the code AS TRANSLATED from the Rust source by tools/rs2lean.py:
control_change_14_bit_message.rs and parameter_number_message.rs (Midi/Gen/CCMsg, PNMsgFile) — regenerated from /repo's working tree on every run.
Each theorem follows from the theorem about the hand-written model and the proved equivalence of the translated code
with that model (Midi/Proofs/Gen*.lean), so a change to the source file that alters behaviour breaks these theorems
even where no test input exposes it.
-/
import Midi.Proofs.GenMsg
import Midi.Props.C07
import Midi.Props.C09
set_option linter.unusedSimpArgs false
set_option linter.unusedVariables false

namespace Midi.Props.TMsg
open Midi Midi.Spec Midi.Gen Midi.GenTie

/-- C07 for the translated `ControlChange14BitMessage`: `new` succeeds exactly on MSB controller numbers below 32,
    and the translated `to_short_messages` produces, through both factories, controller n with the high 7 bits then
    controller n + 32 with the low 7 bits on the message's channel -/
theorem cc14_new (ch n v : Nat) (hn : n < 128) :
    CCMsg.ControlChange14BitMessage.new ch n v =
      if n < 32 then .ok ⟨ch, n, v⟩ else .error .cc14MsbAssert := by
  rw [CCM.new, C07.new_ok_iff ch n v hn]
  by_cases h : n < 32 <;> simp [h, Except.map, CCM.gmsg]

theorem cc14_encode (m : CCMsg.ControlChange14BitMessage) (hm : (CCM.msg m).Valid) :
    (m.to_short_messages rawFactory).map (·.toList) = .ok (specCC14Encoding (CCM.msg m)) ∧
    (m.to_short_messages structuredFactory).map (·.toList) =
      .ok [.controlChange m.channel m.msb_controller_number (m.value / 128),
           .controlChange m.channel (m.msb_controller_number + 32) (m.value % 128)] := by
  rw [CCM.to_short_messages, CCM.to_short_messages]
  exact ⟨(C07.encode _ hm).1, (C07.encode _ hm).2.1⟩

/-- C09 for the translated `ParameterNumberMessage`: the eight translated constructors build exactly the messages of
    the constructor table (whose fields C09.constructors pins down), and the translated `to_short_messages` encodes,
    through both factories and in both byte orders, to the specified Control Change sequence -/
theorem pn_constructors (c n v : Nat) :
    PNMsgFile.ParameterNumberMessage.non_registered_7_bit c n v = .ok (PNM.gmsg (PNMsg.ctor 0 c n v)) ∧
    PNMsgFile.ParameterNumberMessage.non_registered_14_bit c n v = .ok (PNM.gmsg (PNMsg.ctor 1 c n v)) ∧
    PNMsgFile.ParameterNumberMessage.non_registered_decrement c n v = .ok (PNM.gmsg (PNMsg.ctor 2 c n v)) ∧
    PNMsgFile.ParameterNumberMessage.non_registered_increment c n v = .ok (PNM.gmsg (PNMsg.ctor 3 c n v)) ∧
    PNMsgFile.ParameterNumberMessage.registered_7_bit c n v = .ok (PNM.gmsg (PNMsg.ctor 4 c n v)) ∧
    PNMsgFile.ParameterNumberMessage.registered_14_bit c n v = .ok (PNM.gmsg (PNMsg.ctor 5 c n v)) ∧
    PNMsgFile.ParameterNumberMessage.registered_decrement c n v = .ok (PNM.gmsg (PNMsg.ctor 6 c n v)) ∧
    PNMsgFile.ParameterNumberMessage.registered_increment c n v = .ok (PNM.gmsg (PNMsg.ctor 7 c n v)) :=
  PNM.ctors c n v

theorem pn_encode (m : PNMsgFile.ParameterNumberMessage) (hm : (PNM.msg m).Valid) (o : PNMsgFile.DataEntryByteOrder) :
    (m.to_short_messages rawFactory o).map (·.toList) = .ok (specPNEncoding (PNM.msg m) (PNM.ord o)) ∧
    (m.to_short_messages structuredFactory o).map (·.toList) =
      .ok ((specPNEncoding (PNM.msg m) (PNM.ord o)).map (Option.map (fun b => SMsg.controlChange m.channel b.d1 b.d2))) := by
  rw [PNM.to_short_messages, PNM.to_short_messages]
  exact ⟨C09.encode_raw _ hm _, C09.encode_structured _ hm _⟩

/-- C09, last clause, for the translated code: the array conversion equals MSB-first encoding (and C07: the array
    conversion of a 14-bit CC message is its encoding) -/
theorem array_conversions {β : Type} (F : Factory β) (m : PNMsgFile.ParameterNumberMessage) (c : CCMsg.ControlChange14BitMessage) :
    PNMsgFile.ParameterNumberMessage.from_array F m = m.to_short_messages F .MsbFirst ∧
    CCMsg.ControlChange14BitMessage.from_array F c = c.to_short_messages F :=
  ⟨PNM.from_array F m, CCM.from_array F c⟩

end Midi.Props.TMsg
