/-
Property theorems restated for the code AS TRANSLATED from the Rust source by tools/rs2lean.py:
`impl ShortMessageFactory for StructuredShortMessage` and `impl ShortMessage for StructuredShortMessage`
(structured_short_message.rs -> Midi/Gen/StructuredImpl) — regenerated from /repo's working tree on every run.
-/
import Midi.Proofs.GenStructured
import Midi.Props.C01
set_option linter.unusedSimpArgs false
set_option linter.unusedVariables false

namespace Midi.Props.TStruct
open Midi Midi.Spec Midi.Gen Midi.GenTie
open Midi.Gen.StructuredImpl

/-- the three translated getters, as a byte triple -/
def bytes (m : SMsg) : Res Bytes := do
  let s ← StructuredShortMessage.status_byte m
  let a ← StructuredShortMessage.data_byte_1 m
  let b ← StructuredShortMessage.data_byte_2 m
  .ok ⟨s, a, b⟩

theorem bytes_eq (m : SMsg) : bytes m = .ok (bytesOf structuredImpl m) := by
  simp [bytes, ST.status_byte, ST.data_byte_1, ST.data_byte_2, bind, Except.bind, bytesOf, structuredImpl]

/-- C01 for the translated decoder: on every valid byte triple it never panics and yields the structured form the
    MIDI table prescribes; on an invalid status byte it panics with the documented message -/
theorem decode (b : Bytes) :
    (b.Valid → StructuredShortMessage.from_bytes_unchecked b = .ok (specStructured b)) ∧
    (b.status < 128 → StructuredShortMessage.from_bytes_unchecked b = .error .structuredInvalidStatus) := by
  rw [ST.from_bytes_unchecked]
  exact ⟨structured_ofBytes b, structured_ofBytes_invalid b⟩

/-- C01: a StructuredShortMessage returns the bytes it was made from with only the information-free parts zeroed
    (`canon`), through the translated decoder and the translated getters -/
theorem bytes_of_decoded (b : Bytes) (hv : b.Valid) :
    ∃ m, StructuredShortMessage.from_bytes_unchecked b = .ok m ∧ bytes m = .ok (canon b) := by
  refine ⟨specStructured b, (decode b).1 hv, ?_⟩
  rw [bytes_eq, (C01.structured_bytes b hv).2]

/-- C01: every valid StructuredShortMessage value is a fixed point of translated getters followed by the translated
    decoder, and of the translated `to_structured` override -/
theorem fixed_point (m : SMsg) (hm : m.Valid) :
    ∃ b, bytes m = .ok b ∧ b.Valid ∧ StructuredShortMessage.from_bytes_unchecked b = .ok m ∧
      StructuredShortMessage.to_structured m = .ok m := by
  have h := C01.structured_fixed m hm
  refine ⟨bytesOf structuredImpl m, bytes_eq m, h.1, ?_, rfl⟩
  rw [ST.from_bytes_unchecked]
  exact h.2.1

/-- C01 for the translated RawShortMessage impls: a RawShortMessage returns exactly the bytes it was made from -/
theorem raw_roundtrip (b : Bytes) :
    ∃ m, RawImpl.RawShortMessage.from_bytes_unchecked b = .ok m ∧
      RawImpl.RawShortMessage.status_byte m = .ok b.status ∧ RawImpl.RawShortMessage.data_byte_1 m = .ok b.d1 ∧
      RawImpl.RawShortMessage.data_byte_2 m = .ok b.d2 :=
  ⟨b, rfl, rfl, rfl, rfl⟩

end Midi.Props.TStruct
