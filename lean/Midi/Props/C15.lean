/-
C15  Scanners keep channels isolated.
-/
import Midi.Proofs.Polling
set_option linter.unusedSimpArgs false
namespace Midi.Props.C15
open Midi Midi.Spec

/-! ### the two pure scanners: isolation follows from the exact history characterisations (C08, C11), because the
history functions of channel `c` ignore everything that is not a Control Change on `c` -/

theorem msb_ignores (c : Nat) (hc : c < 16) (acc : Option (Nat × Nat)) (op : Op) (h : opOnChannel c op = false) (hv : op.Valid) :
    msbStep c acc op = acc := by
  cases op with
  | reset => simp [opOnChannel] at h
  | feed b =>
    apply msbStep_other
    simp [opOnChannel] at h
    intro he
    have h1 : b.status < 240 := by omega
    have := h h1
    omega

theorem lastMsb_filter (c : Nat) (hc : c < 16) (ops : List Op) (hv : ∀ op ∈ ops, op.Valid) :
    lastMsb (ops.filter (opOnChannel c)) c = lastMsb ops c := by
  suffices h : ∀ acc, (ops.filter (opOnChannel c)).foldl (msbStep c) acc = ops.foldl (msbStep c) acc from h none
  induction ops with
  | nil => intro; rfl
  | cons op ops ih =>
    intro acc
    have ih' := ih (fun o ho => hv o (List.mem_cons_of_mem _ ho))
    by_cases h : opOnChannel c op = true
    · simp [List.filter, h, ih']
    · have h' : opOnChannel c op = false := by simpa using h
      simp [List.filter, h', ih', msb_ignores c hc acc op h' (hv op (List.mem_cons_self))]

/-- a report for an operation concerning channel `c` only depends on channel `c`'s own sub-history -/
theorem expect14_local (c : Nat) (pre pre' : List Op) (h : lastMsb pre c = lastMsb pre' c) (op : Op)
    (hon : opOnChannel c op = true) (hv : op.Valid) : expect14 pre op = expect14 pre' op := by
  cases op with
  | reset => rfl
  | feed b =>
    simp [opOnChannel] at hon
    simp only [expect14, justified14]
    by_cases hcc : 176 ≤ b.status ∧ b.status < 192 ∧ 32 ≤ b.d1 ∧ b.d1 < 64
    · have e : b.status - 176 = c := by omega
      simp only [hcc, and_self, if_true, e, h]
    · simp [hcc]

theorem outsOn_expected14 (c : Nat) (hc : c < 16) (ops : List Op) (hv : ∀ op ∈ ops, op.Valid) :
    ∀ pre pre', lastMsb pre c = lastMsb pre' c →
      outsOn c ops (expected14 pre ops) = expected14 pre' (ops.filter (opOnChannel c)) := by
  induction ops with
  | nil => intros; rfl
  | cons op ops ih =>
    intro pre pre' hp
    have hvo := hv op (List.mem_cons_self)
    have ih' := ih (fun o ho => hv o (List.mem_cons_of_mem _ ho))
    by_cases hon : opOnChannel c op = true
    · simp only [expected14, outsOn, hon, if_true, List.filter]
      rw [expect14_local c pre pre' hp op hon hvo]
      congr 1
      apply ih'
      rw [lastMsb_snoc, lastMsb_snoc, hp]
    · have hoff : opOnChannel c op = false := by simpa using hon
      simp only [expected14, outsOn, hoff, List.filter]
      apply ih'
      rw [lastMsb_snoc, msb_ignores c hc _ op hoff hvo]
      exact hp

/-- 14-bit CC scanner: for ANY interleaved multi-channel history, the reports for the operations concerning channel
    `c` are exactly the reports of a scanner of its own that is fed only channel `c`'s inputs (and the resets) -/
theorem isolation_cc (c : Nat) (hc : c < 16) (ops : List Op) (hv : ∀ op ∈ ops, op.Valid) :
    ∃ s s' , ccRun CCScanner.new ops = .ok (s, expected14 [] ops) ∧
      ccRun CCScanner.new (ops.filter (opOnChannel c)) = .ok (s', expected14 [] (ops.filter (opOnChannel c))) ∧
      outsOn c ops (expected14 [] ops) = expected14 [] (ops.filter (opOnChannel c)) := by
  obtain ⟨s, h, _⟩ := cc_run CCScanner.new [] ccRel_new ops hv
  obtain ⟨s', h', _⟩ := cc_run CCScanner.new [] ccRel_new (ops.filter (opOnChannel c))
    (fun o ho => hv o (List.mem_filter.mp ho).1)
  exact ⟨s, s', h, h', outsOn_expected14 c hc ops hv [] [] rfl⟩

/-- every reported message carries the channel of the input that triggered it; system messages (no channel)
    report nothing and move no history function of any channel -/
theorem report_channel_cc (past : List Op) (b : Bytes) (m : CC14Msg) (h : justified14 past b = some m) :
    b.status < 240 ∧ m.channel = b.status % 16 := by
  unfold justified14 at h
  by_cases hc : 176 ≤ b.status ∧ b.status < 192 ∧ 32 ≤ b.d1 ∧ b.d1 < 64
  · simp only [hc, and_self, if_true] at h
    cases hl : lastMsb past (b.status - 176) with
    | none => simp [hl] at h
    | some p =>
      obtain ⟨n, v⟩ := p
      simp only [hl] at h
      by_cases hn : n = b.d1 - 32
      · simp only [hn, if_true] at h
        injection h with h; subst h; simp; omega
      · simp [hn] at h
  · simp [hc] at h

theorem system_inert_cc (past : List Op) (b : Bytes) (hs : 240 ≤ b.status) (c : Nat) (hc : c < 16) :
    justified14 past b = none ∧ lastMsb (past ++ [.feed b]) c = lastMsb past c := by
  constructor
  · simp [justified14]; omega
  · rw [lastMsb_snoc, msbStep_other]; omega

/-! ### (N)RPN scanner -/

theorem pnAbs_ignores (c : Nat) (hc : c < 16) (a : PNAbs) (op : Op) (h : opOnChannel c op = false) (hv : op.Valid) :
    a.step c op = a := by
  cases op with
  | reset => simp [opOnChannel] at h
  | feed b =>
    apply pnAbs_step_other
    simp [opOnChannel] at h
    intro he
    have h1 : b.status < 240 := by omega
    have := h h1
    omega

theorem expectPN_local (c : Nat) (pre pre' : List Op) (h : PNAbs.of pre c = PNAbs.of pre' c) (op : Op)
    (hon : opOnChannel c op = true) (hv : op.Valid) : expectPN pre op = expectPN pre' op := by
  cases op with
  | reset => rfl
  | feed b =>
    simp [opOnChannel] at hon
    simp only [expectPN, justifiedPN_eq, justPN]
    by_cases hcc : 176 ≤ b.status ∧ b.status < 192 ∧ (b.d1 = 6 ∨ b.d1 = 96 ∨ b.d1 = 97)
    · have e : b.status - 176 = c := by omega
      simp only [hcc, and_self, if_true, e, h]
    · simp [hcc]

theorem outsOn_expectedPN (c : Nat) (hc : c < 16) (ops : List Op) (hv : ∀ op ∈ ops, op.Valid) :
    ∀ pre pre', PNAbs.of pre c = PNAbs.of pre' c →
      outsOn c ops (expectedPN pre ops) = expectedPN pre' (ops.filter (opOnChannel c)) := by
  induction ops with
  | nil => intros; rfl
  | cons op ops ih =>
    intro pre pre' hp
    have hvo := hv op (List.mem_cons_self)
    have ih' := ih (fun o ho => hv o (List.mem_cons_of_mem _ ho))
    by_cases hon : opOnChannel c op = true
    · simp only [expectedPN, outsOn, hon, if_true, List.filter]
      rw [expectPN_local c pre pre' hp op hon hvo]
      congr 1
      apply ih'
      rw [pnAbs_snoc, pnAbs_snoc, hp]
    · have hoff : opOnChannel c op = false := by simpa using hon
      simp only [expectedPN, outsOn, hoff, List.filter]
      apply ih'
      rw [pnAbs_snoc, pnAbs_ignores c hc _ op hoff hvo]
      exact hp

/-- (N)RPN scanner: the reports for channel `c` under any interleaved history are those of a scanner of its own -/
theorem isolation_pn (c : Nat) (hc : c < 16) (ops : List Op) (hv : ∀ op ∈ ops, op.Valid) :
    ∃ s s' , pnRun PNScanner.new ops = .ok (s, expectedPN [] ops) ∧
      pnRun PNScanner.new (ops.filter (opOnChannel c)) = .ok (s', expectedPN [] (ops.filter (opOnChannel c))) ∧
      outsOn c ops (expectedPN [] ops) = expectedPN [] (ops.filter (opOnChannel c)) := by
  obtain ⟨s, h, _⟩ := pn_run PNScanner.new [] pnRel_new ops hv
  obtain ⟨s', h', _⟩ := pn_run PNScanner.new [] pnRel_new (ops.filter (opOnChannel c))
    (fun o ho => hv o (List.mem_filter.mp ho).1)
  exact ⟨s, s', h, h', outsOn_expectedPN c hc ops hv [] [] rfl⟩

theorem report_channel_pn (past : List Op) (b : Bytes) (m : PNMsg) (h : justifiedPN past b = some m) :
    b.status < 240 ∧ m.channel = b.status % 16 := by
  unfold justifiedPN at h
  by_cases hc : 176 ≤ b.status ∧ b.status < 192 ∧ (b.d1 = 6 ∨ b.d1 = 96 ∨ b.d1 = 97)
  · simp only [hc, and_self, if_true] at h
    cases h1 : numMsb past (b.status - 176) <;> cases h2 : numLsb past (b.status - 176) <;> simp [h1, h2] at h
    have hch : b.status - 176 = b.status % 16 := by omega
    refine ⟨by omega, ?_⟩
    by_cases c96 : b.d1 = 96
    · simp [c96] at h; rw [← h]; exact hch
    · by_cases c97 : b.d1 = 97
      · simp [c96, c97] at h; rw [← h]; exact hch
      · simp [c96, c97] at h
        cases h3 : v38Of past (b.status - 176) <;> simp [h3] at h <;> rw [← h] <;> exact hch
  · simp [hc] at h

theorem system_inert_pn (past : List Op) (b : Bytes) (hs : 240 ≤ b.status) (c : Nat) (hc : c < 16) :
    justifiedPN past b = none ∧ PNAbs.of (past ++ [.feed b]) c = PNAbs.of past c := by
  constructor
  · simp [justifiedPN]; omega
  · rw [pnAbs_snoc, pnAbs_step_other]; omega

/-! ### polling scanner (feeds, polls, resets and time) -/

/-- does the operation concern channel `c`?  channel messages on `c`, polls of `c`, every reset and every time step -/
def topOnChannel (c : Nat) : TOp → Bool
  | .feed b => b.status < 240 && b.status % 16 == c
  | .poll ch => ch == c
  | .reset => true
  | .tick _ => true

theorem project_filter (c : Nat) (hc : c < 16) (ops : List TOp) (hv : ∀ op ∈ ops, op.Valid) :
    ∀ now, project c now (ops.filter (topOnChannel c)) = project c now ops := by
  induction ops with
  | nil => intro; rfl
  | cons op ops ih =>
    intro now
    have ih' := ih (fun o ho => hv o (List.mem_cons_of_mem _ ho))
    by_cases hon : topOnChannel c op = true
    · simp only [List.filter, hon, project, ih']
    · have hoff : topOnChannel c op = false := by simpa using hon
      have hp : projectOp c now op = none ∧ nextNow now op = now := by
        cases op with
        | feed b =>
          simp [topOnChannel] at hoff
          have hvb : b.Valid := hv _ (List.mem_cons_self)
          refine ⟨?_, rfl⟩
          simp only [projectOp]
          have : ¬ b.status = 176 + c := by
            intro he
            have := hoff (by omega)
            omega
          simp [this]
        | poll ch => simp [topOnChannel] at hoff; simp [projectOp, hoff, nextNow]
        | reset => simp [topOnChannel] at hoff
        | tick d => simp [topOnChannel] at hoff
      simp only [List.filter, hoff, project, hp.1, hp.2, ih']

/-- Polling scanner: under ANY interleaving of feeds on all channels, polls, resets and time steps, the final
    state of channel `c` and the results of the operations concerning `c` are exactly those of channel `c`'s
    sub-scanner run alone on `c`'s own events — hence equal to those of a scanner of its own that is given only
    channel `c`'s inputs, polls, the resets and the same passage of time. -/
theorem isolation_polling (c : Nat) (hc : c < 16) (now timeout : Nat) (ops : List TOp) (hv : ∀ op ∈ ops, op.Valid) :
    ∃ n1 s1 o1 n2 s2 o2,
      pRun now (PScanner.new timeout) ops = .ok ((n1, s1), o1) ∧
      pRun now (PScanner.new timeout) (ops.filter (topOnChannel c)) = .ok ((n2, s2), o2) ∧
      s1[c] = s2[c] ∧
      outputsOn c now ops o1 = outputsOn c now (ops.filter (topOnChannel c)) o2 := by
  obtain ⟨n1, s1, o1, h1, _, hs1, ho1⟩ := p_run_channel c hc now (PScanner.new timeout) ops hv
  obtain ⟨n2, s2, o2, h2, _, hs2, ho2⟩ := p_run_channel c hc now (PScanner.new timeout) (ops.filter (topOnChannel c))
    (fun o ho => hv o (List.mem_filter.mp ho).1)
  refine ⟨n1, s1, o1, n2, s2, o2, h1, h2, ?_, ?_⟩
  · rw [hs1, hs2, project_filter c hc ops hv]
  · rw [ho1, ho2, project_filter c hc ops hv]

theorem resolve_channel (ch : Nat) (ns : NumberState) (f : Nat) (k : Bool) (m : PNMsg)
    (h : resolvePending ch ns f k = some m) : m.channel = ch := by
  cases k <;> simp [resolvePending] at h
  rw [← h]; rfl

theorem complete_channel (ch : Nat) (ns : NumberState) (f : Nat) (k : Bool) (byte : Nat) (m : PNMsg)
    (h : (completePending ch ns f k byte).2 = some m) : m.channel = ch := by
  simp [completePending] at h
  rw [← h]; rfl

theorem numberByte_channel (st : PState) (byte : Nat) (r k : Bool) (ch : Nat) (m : PNMsg)
    (h : (st.processNumberByte byte r k ch).2 = some m) : m.channel = ch := by
  cases st with
  | waitingForNumber first r' k' =>
    cases first <;> simp [PState.processNumberByte] at h
    split at h <;> simp at h
  | waitingForFirstValue ns => simp [PState.processNumberByte] at h
  | fourteenComplete ns a b => simp [PState.processNumberByte] at h
  | valuePending ns arr f k2 =>
    simp only [PState.processNumberByte] at h
    exact resolve_channel ch ns f k2 m h

theorem valueLsb_channel (st : PState) (now ch v : Nat) (m : PNMsg)
    (h : (st.processValueLsb now ch v).2 = some m) : m.channel = ch := by
  cases st with
  | waitingForNumber first r' k' => simp [PState.processValueLsb] at h
  | waitingForFirstValue ns => simp [PState.processValueLsb] at h
  | fourteenComplete ns a b => simp [PState.processValueLsb] at h; rw [← h]; rfl
  | valuePending ns arr f k2 =>
    cases k2 <;> simp only [PState.processValueLsb] at h
    · simp at h
    · exact complete_channel ch ns f true v m h

theorem valueMsb_channel (st : PState) (now ch v : Nat) (m : PNMsg)
    (h : (st.processValueMsb now ch v).2 = some m) : m.channel = ch := by
  cases st with
  | waitingForNumber first r' k' => simp [PState.processValueMsb] at h
  | waitingForFirstValue ns => simp [PState.processValueMsb] at h
  | fourteenComplete ns a b => simp [PState.processValueMsb] at h
  | valuePending ns arr f k2 =>
    cases k2 <;> simp only [PState.processValueMsb] at h
    · exact complete_channel ch ns f false v m h
    · simp at h; rw [← h]; rfl

theorem incDec_channel (st : PState) (ch : Nat) (d : DataType) (v : Nat) (m : PNMsg)
    (h : (st.processValueIncDec ch d v).2.1 = some m ∨ (st.processValueIncDec ch d v).2.2 = some m) : m.channel = ch := by
  cases st with
  | waitingForNumber first r' k' => simp [PState.processValueIncDec] at h
  | waitingForFirstValue ns => simp [PState.processValueIncDec] at h; rw [← h]; rfl
  | fourteenComplete ns a b => simp [PState.processValueIncDec] at h; rw [← h]; rfl
  | valuePending ns arr f k2 =>
    cases k2 <;> simp [PState.processValueIncDec] at h
    rcases h with h | h <;> (rw [← h]; rfl)

/-- every message a channel's sub-scanner reports carries that channel -/
theorem report_channel_polling (ch : Nat) (c : PChan) (e : PEv) (m : PNMsg)
    (h : (c.ev ch e).2.1 = some m ∨ (c.ev ch e).2.2 = some m) : m.channel = ch := by
  obtain ⟨t, st⟩ := c
  cases e with
  | reset => simp [PChan.ev] at h
  | poll now =>
    simp only [PChan.ev, PChan.poll] at h
    cases st <;> simp at h
    rename_i ns arr f k
    by_cases hlt : now - arr < t <;> simp [hlt] at h
    exact resolve_channel ch ns f k m h
  | cc cn cv now =>
    simp only [PChan.ev, PState.onCC] at h
    split at h
    · simp at h; exact numberByte_channel st cv _ _ ch m h
    · simp at h; exact numberByte_channel st cv _ _ ch m h
    · simp at h; exact numberByte_channel st cv _ _ ch m h
    · simp at h; exact numberByte_channel st cv _ _ ch m h
    · simp at h; exact valueLsb_channel st now ch cv m h
    · simp at h; exact valueMsb_channel st now ch cv m h
    · exact incDec_channel st ch _ cv m h
    · exact incDec_channel st ch _ cv m h
    · simp at h

/-- system messages (no channel) never report anything and never affect any channel -/
theorem system_inert_polling (now : Nat) (s : PScanner) (b : Bytes) (hv : b.Valid) (hs : 240 ≤ b.status) :
    s.feed rawImpl now b = .ok (s, (none, none)) := by
  rcases pScanner_feed_cases now s b hv with ⟨_, h, _⟩ | ⟨_, h⟩
  · omega
  · exact h

end Midi.Props.C15
