/-
Property theorems restated for the code AS TRANSLATED from the Rust source by tools/rs2lean.py:
the default methods of the traits ShortMessage (short_message.rs -> Midi/Gen/ShortMsg) and ShortMessageFactory
(short_message_factory.rs -> Midi/Gen/FactoryDefaults) — regenerated from /repo's working tree on every run.
Each theorem follows from the theorem about the hand-written model and the proved equality, method by method, of the
translated default method with the hand-written one (Midi/Proofs/GenShort.lean).
-/
import Midi.Proofs.GenShort
import Midi.Props.C01
import Midi.Props.C02
import Midi.Props.C03
import Midi.Props.C06
set_option linter.unusedSimpArgs false
set_option linter.unusedVariables false

namespace Midi.Props.TShort
open Midi Midi.Spec Midi.Gen Midi.GenTie
open Midi.Gen.ShortMsg Midi.Gen.FactoryDefaults

section
variable {α : Type} (I : Impl α) (x : α)

/-- C02 for the translated default methods: for EVERY implementor and every value with valid bytes, classification
    follows the MIDI status table -/
theorem classification (hv : (bytesOf I x).Valid) :
    ShortMessage.type_ I x = .ok (specType (I.status x)) ∧
    ShortMessage.super_type I x = .ok (specSuper (bytesOf I x)) ∧
    ShortMessage.main_category I x = .ok (specMain (I.status x)) ∧
    ShortMessage.channel I x = .ok (specChannel (I.status x)) := by
  rw [SM.type_, SM.super_type, SM.main_category, SM.channel]
  exact ⟨(C02.type_eq_spec I x hv).1, (C02.super_main_eq_spec I x hv).1, (C02.super_main_eq_spec I x hv).2,
    C02.channel_eq_spec I x hv⟩

/-- C02: the field accessors -/
theorem accessors (hv : (bytesOf I x).Valid) :
    ShortMessage.key_number I x = .ok (specKey (bytesOf I x)) ∧
    ShortMessage.velocity I x = .ok (specVelocity (bytesOf I x)) ∧
    ShortMessage.controller_number I x = .ok (specControllerNumber (bytesOf I x)) ∧
    ShortMessage.control_value I x = .ok (specControlValue (bytesOf I x)) ∧
    ShortMessage.program_number I x = .ok (specProgramNumber (bytesOf I x)) ∧
    ShortMessage.pressure_amount I x = .ok (specPressure (bytesOf I x)) ∧
    ShortMessage.pitch_bend_value I x = .ok (specPitchBend (bytesOf I x)) ∧
    ShortMessage.is_note I x = .ok (specIsNote (bytesOf I x)) := by
  rw [SM.key_number, SM.velocity, SM.controller_number, SM.control_value, SM.program_number, SM.pressure_amount,
    SM.pitch_bend_value, SM.is_note]
  exact C02.accessors_eq_spec I x hv

/-- C02: Note On with velocity 0 counts as note-off -/
theorem note_predicates (hl : I.LawfulAt x) (hv : (bytesOf I x).Valid) :
    ShortMessage.is_note_on I x = .ok (specIsNoteOn (bytesOf I x)) ∧
    ShortMessage.is_note_off I x = .ok (specIsNoteOff (bytesOf I x)) := by
  rw [SM.is_note_on, SM.is_note_off]
  exact C02.note_predicates I x hl hv

/-- C01/C03: the default `to_bytes` is the three getters; the default `to_structured` decodes them; `to_other` and
    `from_other` hand the implementor's bytes to the target factory -/
theorem conversions {β : Type} (F : Factory β) :
    ShortMessage.to_bytes I x = .ok (bytesOf I x) ∧
    ShortMessage.to_structured I x = SMsg.ofBytesUnchecked (I.toBytes x) ∧
    ShortMessage.to_other I x F = F.ofBytesUnchecked (I.toBytes x) ∧
    ShortMessageFactory.from_other I F x = F.ofBytesUnchecked (I.toBytes x) := by
  refine ⟨SM.to_bytes I x, SM.to_structured I x, ?_, ?_⟩
  · rw [SM.to_other]; rfl
  · rw [FD.from_other]; rfl

end

/-- C01 for the translated `from_bytes`: for EVERY implementation of the factory it succeeds exactly when the status
    byte is at least 0x80, and then hands the bytes unchanged to `from_bytes_unchecked` -/
theorem from_bytes_iff {β : Type} (F : Factory β) (b : Bytes) (h : b.InRange) :
    ShortMessageFactory.from_bytes F b = if 128 ≤ b.status then (F.ofBytesUnchecked b).map some else .ok none := by
  rw [FD.from_bytes]; exact C01.fromBytes_iff F b h

/-- C01 for the translated time-code quarter-frame conversions (`From<TimeCodeQuarterFrame> for U7` and back): every
    valid frame encodes to a 7-bit value that decodes to the same frame; every 7-bit value decodes without panic -/
theorem qf_codec (f : QFrame) (hf : f.Valid) :
    ∃ d, ShortMsg.U7.from_ f = .ok d ∧ d < 128 ∧ ShortMsg.TimeCodeQuarterFrame.from_ d = .ok f := by
  refine ⟨f.toU7, QF.to_u7 f, (C01.qf_codec f hf).1, ?_⟩
  rw [QF.of_u7]; exact (C01.qf_codec f hf).2

theorem qf_decode_total (d : Nat) (h : d < 128) :
    ∃ f, ShortMsg.TimeCodeQuarterFrame.from_ d = .ok f ∧ f.Valid := by
  obtain ⟨f, h1, h2, _⟩ := C01.qf_codec' d h
  exact ⟨f, by rw [QF.of_u7]; exact h1, h2⟩

/-- C02 for the translated `extract_type_from_status_byte`: a type exists exactly for status bytes >= 0x80 and is the
    one of the MIDI table -/
theorem extract_type (s : Nat) (hs : s < 256) :
    ShortMsg.extract_type_from_status_byte s = .ok (if 128 ≤ s then some (specType s) else none) := by
  rw [QF.extract_type]
  by_cases h : 128 ≤ s
  · rw [if_pos h]; exact extractType_valid s h hs
  · rw [if_neg h]; exact extractType_invalid s (by omega)

/-- C06 for the translated generic constructors: they panic exactly when the type is not of the category and
    otherwise pass type, channel and data bytes on unchanged -/
theorem generic_constructors {β : Type} (F : Factory β) (t : MsgType) (ch a b : Nat) (hc : ch < 16) :
    ShortMessageFactory.channel_message F t ch a b =
      (match specChannelMessage t.toU8 ch a b with | some bs => F.ofBytesUnchecked bs | none => .error .categoryAssert) ∧
    ShortMessageFactory.system_common_message F t a b =
      (match specSystemCommonMessage t.toU8 a b with | some bs => F.ofBytesUnchecked bs | none => .error .categoryAssert) := by
  rw [FD.channel_message, FD.system_common_message]
  exact ⟨(C06.generic_constructors F t ch a b hc).1, (C06.generic_constructors F t ch a b hc).2.1⟩

/-- C06 for the translated named constructors: each equals the hand-written constructor of the same name, whose bytes
    and fields C06.named_bytes / named_fields / named_raw / named_structured pin down for all arguments -/
theorem named_constructors {β : Type} (F : Factory β) (ch a b v : Nat) (f : QFrame) :
    ShortMessageFactory.note_on F ch a b = modelNamed F .noteOn ch a b ∧
    ShortMessageFactory.note_off F ch a b = modelNamed F .noteOff ch a b ∧
    ShortMessageFactory.control_change F ch a b = modelNamed F .controlChange ch a b ∧
    ShortMessageFactory.program_change F ch a = modelNamed F .programChange ch a 0 ∧
    ShortMessageFactory.polyphonic_key_pressure F ch a b = modelNamed F .polyphonicKeyPressure ch a b ∧
    ShortMessageFactory.channel_pressure F ch a = modelNamed F .channelPressure ch a 0 ∧
    ShortMessageFactory.pitch_bend_change F ch v = modelNamed F .pitchBendChange ch v 0 ∧
    ShortMessageFactory.song_position_pointer F v = modelNamed F .songPositionPointer v 0 0 ∧
    ShortMessageFactory.song_select F a = modelNamed F .songSelect a 0 0 ∧
    ShortMessageFactory.time_code_quarter_frame F f = mkTimeCodeQuarterFrame F f := by
  obtain ⟨h1, h2, h3, h4, h5, h6, h7, h8, h9, h10⟩ := FD.named F ch a b v f
  exact ⟨h1, h2, h3, h4, h5, h6, h7, h9, h10, h8⟩

theorem plain_constructors {β : Type} (F : Factory β) :
    ShortMessageFactory.system_exclusive_start F = modelNamed F .systemExclusiveStart 0 0 0 ∧
    ShortMessageFactory.tune_request F = modelNamed F .tuneRequest 0 0 0 ∧
    ShortMessageFactory.system_exclusive_end F = modelNamed F .systemExclusiveEnd 0 0 0 ∧
    ShortMessageFactory.timing_clock F = modelNamed F .timingClock 0 0 0 ∧
    ShortMessageFactory.start F = modelNamed F .start 0 0 0 ∧
    ShortMessageFactory.continue_ F = modelNamed F .continue 0 0 0 ∧
    ShortMessageFactory.stop F = modelNamed F .stop 0 0 0 ∧
    ShortMessageFactory.active_sensing F = modelNamed F .activeSensing 0 0 0 ∧
    ShortMessageFactory.system_reset F = modelNamed F .systemReset 0 0 0 :=
  FD.plain F

end Midi.Props.TShort
