/-
Property-level facts restated for the bit helpers AS TRANSLATED from bit_util.rs (Midi/Gen/BitUtil, regenerated on
every run): what the shifts, masks and casts compute in arithmetic terms, for every in-range argument.  These are the
facts the encoder / decoder theorems of C01, C06, C07 and C09 rest on.
-/
import Midi.Proofs.GenBits
set_option linter.unusedSimpArgs false
set_option linter.unusedVariables false

namespace Midi.Props.TBits
open Midi Midi.Gen Midi.GenTie

/-- a 14-bit value splits into `v / 128` and `v % 128`, both 7-bit -/
theorem split (v : Nat) (hv : v < 16384) :
    BitUtil.extract_high_7_bit_value_from_14_bit_value v = .ok (v / 128) ∧
    BitUtil.extract_low_7_bit_value_from_14_bit_value v = .ok (v % 128) ∧ v / 128 < 128 ∧ v % 128 < 128 := by
  rw [BU.high7, BU.low7]
  unfold extractHigh7 extractLow7
  rw [shr_7, and_7f, and_7f]
  refine ⟨?_, ?_, by omega, by omega⟩
  · congr 1; omega
  · congr 1; omega

/-- two 7-bit values join to `128 * high + low` -/
theorem join (h l : Nat) (hh : h < 128) (hl : l < 128) :
    BitUtil.build_14_bit_value_from_two_7_bit_values h l = .ok (h * 128 + l) := by
  rw [BU.build14, build14_eq h l hh hl]

/-- splitting then joining is the identity on 14-bit values -/
theorem join_split (v : Nat) (hv : v < 16384) :
    BitUtil.build_14_bit_value_from_two_7_bit_values (v / 128) (v % 128) = .ok v := by
  rw [join _ _ (by omega) (by omega)]; congr 1; omega

/-- status byte = type byte + channel for a type byte with an empty low nibble; the channel is recovered -/
theorem status_channel (t c : Nat) (ht : t % 16 = 0) (hc : c < 16) :
    BitUtil.build_status_byte t c = .ok (t + c) ∧ BitUtil.extract_channel_from_status_byte (t + c) = .ok c := by
  rw [BU.status, BU.channel, buildStatusByte_eq t c ht hc]
  refine ⟨rfl, ?_⟩
  unfold extractChannel
  rw [and_0f]; congr 1; omega

end Midi.Props.TBits
