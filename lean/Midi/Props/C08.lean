/-
C08  14-bit CC scanner reports exactly the justified messages.
`justified14 past m` (Midi/Spec/History.lean) is the property text as a function of the history alone.
-/
import Midi.Proofs.CC14
set_option linter.unusedSimpArgs false
namespace Midi.Props.C08
open Midi Midi.Spec

/-- For ALL finite histories of feeds (any valid short message) and resets, of any length: the scanner never
    panics, every operation reports exactly what the history justifies, and so does the next input. -/
theorem exact (past : List Op) (hp : ∀ op ∈ past, op.Valid) (m : Bytes) (hm : m.Valid) :
    ∃ s s', ccRun CCScanner.new past = .ok (s, expected14 [] past) ∧
      s.feed rawImpl m = .ok (s', justified14 past m) := by
  obtain ⟨s, h, r⟩ := cc_run CCScanner.new [] ccRel_new past hp
  obtain ⟨s', h', _⟩ := cc_feed_step s past (by simpa using r) m hm
  exact ⟨s, s', h, h'⟩

/-- every other input yields nothing -/
theorem nothing_else (past : List Op) (m : Bytes)
    (h : ¬ (176 ≤ m.status ∧ m.status < 192 ∧ 32 ≤ m.d1 ∧ m.d1 < 64)) : justified14 past m = none := by
  simp [justified14, h]

/-- an LSB repeated alone re-reports with the retained MSB (the history function does not forget it) -/
theorem lsb_repeats (past : List Op) (c n v l1 l2 : Nat) (hc : c < 16) (hn : n < 32) :
    let a : Bytes := ⟨176 + c, n, v⟩
    let b1 : Bytes := ⟨176 + c, n + 32, l1⟩
    let b2 : Bytes := ⟨176 + c, n + 32, l2⟩
    justified14 (past ++ [.feed a]) b1 = some ⟨c, n, 128 * v + l1⟩ ∧
    justified14 (past ++ [.feed a, .feed b1]) b2 = some ⟨c, n, 128 * v + l2⟩ := by
  have e : 176 + c - 176 = c := by omega
  have hj : 176 ≤ 176 + c ∧ 176 + c < 192 ∧ 32 ≤ n + 32 ∧ n + 32 < 64 := by omega
  have h32 : ¬ (n + 32 < 32) := by omega
  constructor
  · simp [justified14, hj, e, lastMsb, List.foldl_append, msbStep, ccOn, hn]
  · simp [justified14, hj, e, lastMsb, List.foldl_append, msbStep, ccOn, hn, h32]

/-- a stale MSB is replaced by any newer MSB on that channel; an LSB before any MSB yields nothing -/
theorem stale_replaced (past : List Op) (c n v n' v' l : Nat) (hc : c < 16) (hn : n < 32) (hn' : n' < 32)
    (hne : n ≠ n') :
    justified14 (past ++ [.feed ⟨176 + c, n, v⟩, .feed ⟨176 + c, n', v'⟩]) ⟨176 + c, n + 32, l⟩ = none ∧
    justified14 [] ⟨176 + c, n + 32, l⟩ = none ∧ justified14 (past ++ [.reset]) ⟨176 + c, n + 32, l⟩ = none := by
  have e : 176 + c - 176 = c := by omega
  have hj : 176 ≤ 176 + c ∧ 176 + c < 192 ∧ 32 ≤ n + 32 ∧ n + 32 < 64 := by omega
  refine ⟨?_, ?_, ?_⟩
  · simp [justified14, hj, e, lastMsb, List.foldl_append, msbStep, ccOn, hn, hn']; omega
  · simp [justified14, hj, e, lastMsb]
  · simp [justified14, hj, e, lastMsb, List.foldl_append, msbStep]

/-! ### data independence (justifies the value abstraction of the correspondence's state-space exploration) -/

/-- C08, data independence: the scanner looks at status bytes and controller numbers only.  Relabelling the value
    bytes of every Control Change of the history and of the input by ANY function `f` relabels the two halves of
    the reported value by `f` and changes nothing else (in particular not WHETHER something is reported). -/
theorem data_independent (f : Nat → Nat) (past : List Op) (hp : ∀ op ∈ past, op.Valid) (m : Bytes) (hm : m.Valid) :
    justified14 (past.map (relabelOp f)) (relabelB f m)
      = (justified14 past m).map fun r => { r with value := 128 * f (r.value / 128) + f (r.value % 128) } := by
  unfold justified14
  by_cases h : 176 ≤ m.status ∧ m.status < 192 ∧ 32 ≤ m.d1 ∧ m.d1 < 64
  · have hr : relabelB f m = ⟨m.status, m.d1, f m.d2⟩ := by simp [relabelB, h.1, h.2.1]
    have hc : m.status - 176 < 16 := by omega
    have hl := lastMsb_relabel f (m.status - 176) hc past none
    simp only [Option.map_none] at hl
    simp only [hr, h, and_self, if_true, lastMsb, hl]
    cases hq : past.foldl (msbStep (m.status - 176)) none with
    | none => simp
    | some p =>
      have hlt := lastMsb_lt (m.status - 176) past hp none (by simp) p hq
      have hd2 := hm.2.2.2
      obtain ⟨n, v⟩ := p
      simp only [Option.map_some]
      by_cases hn : n = m.d1 - 32
      · have e1 : (128 * v + m.d2) / 128 = v := by omega
        have e2 : (128 * v + m.d2) % 128 = m.d2 := by omega
        simp [hn, e1, e2]
      · simp [hn]
  · have hr : ¬ (176 ≤ (relabelB f m).status ∧ (relabelB f m).status < 192 ∧ 32 ≤ (relabelB f m).d1 ∧ (relabelB f m).d1 < 64) := by
      unfold relabelB; split <;> simpa using h
    simp [h, hr]



/-- the value abstraction used by the state-space exploration of the correspondence is sound for the scanner
    itself: after ANY relabelled history the scanner, fed the relabelled input, reports the relabelled message. -/
theorem scanner_data_independent (f : Nat → Nat) (hf : ∀ v, v < 128 → f v < 128)
    (past : List Op) (hp : ∀ op ∈ past, op.Valid) (m : Bytes) (hm : m.Valid) :
    ∃ s s', ccRun CCScanner.new (past.map (relabelOp f)) = .ok (s, expected14 [] (past.map (relabelOp f))) ∧
      s.feed rawImpl (relabelB f m) = .ok (s', (justified14 past m).map fun r =>
        { r with value := 128 * f (r.value / 128) + f (r.value % 128) }) := by
  rw [← data_independent f past hp m hm]
  exact exact _ (relabel_valid f hf past hp) _ (relabelB_valid f hf m hm)

/-! non-vacuity: collapsing every value to `v % 2` -/
example : justified14 ([.feed ⟨181, 2, 8⟩, .feed ⟨144, 60, 100⟩].map (relabelOp (· % 2))) (relabelB (· % 2) ⟨181, 34, 33⟩)
    = some ⟨5, 2, 1⟩ := by decide

/-! non-vacuity -/
example : justified14 [.feed ⟨181, 2, 8⟩, .feed ⟨144, 60, 100⟩] ⟨181, 34, 33⟩ = some ⟨5, 2, 1057⟩ := by decide

end Midi.Props.C08
