/-
C08  14-bit CC scanner reports exactly the justified messages.
`justified14 past m` (Midi/Spec/History.lean) is the property text as a function of the history alone.
-/
import Midi.Proofs.CC14
set_option linter.unusedSimpArgs false
namespace Midi.Props.C08
open Midi Midi.Spec

/-- For ALL finite histories of feeds (any valid short message) and resets, of any length: the scanner never
    panics, every operation reports exactly what the history justifies, and so does the next input. -/
theorem exact (past : List Op) (hp : ∀ op ∈ past, op.Valid) (m : Bytes) (hm : m.Valid) :
    ∃ s s', ccRun CCScanner.new past = .ok (s, expected14 [] past) ∧
      s.feed rawImpl m = .ok (s', justified14 past m) := by
  obtain ⟨s, h, r⟩ := cc_run CCScanner.new [] ccRel_new past hp
  obtain ⟨s', h', _⟩ := cc_feed_step s past (by simpa using r) m hm
  exact ⟨s, s', h, h'⟩

/-- every other input yields nothing -/
theorem nothing_else (past : List Op) (m : Bytes)
    (h : ¬ (176 ≤ m.status ∧ m.status < 192 ∧ 32 ≤ m.d1 ∧ m.d1 < 64)) : justified14 past m = none := by
  simp [justified14, h]

/-- an LSB repeated alone re-reports with the retained MSB (the history function does not forget it) -/
theorem lsb_repeats (past : List Op) (c n v l1 l2 : Nat) (hc : c < 16) (hn : n < 32) :
    let a : Bytes := ⟨176 + c, n, v⟩
    let b1 : Bytes := ⟨176 + c, n + 32, l1⟩
    let b2 : Bytes := ⟨176 + c, n + 32, l2⟩
    justified14 (past ++ [.feed a]) b1 = some ⟨c, n, 128 * v + l1⟩ ∧
    justified14 (past ++ [.feed a, .feed b1]) b2 = some ⟨c, n, 128 * v + l2⟩ := by
  have e : 176 + c - 176 = c := by omega
  have hj : 176 ≤ 176 + c ∧ 176 + c < 192 ∧ 32 ≤ n + 32 ∧ n + 32 < 64 := by omega
  have h32 : ¬ (n + 32 < 32) := by omega
  constructor
  · simp [justified14, hj, e, lastMsb, List.foldl_append, msbStep, ccOn, hn]
  · simp [justified14, hj, e, lastMsb, List.foldl_append, msbStep, ccOn, hn, h32]

/-- a stale MSB is replaced by any newer MSB on that channel; an LSB before any MSB yields nothing -/
theorem stale_replaced (past : List Op) (c n v n' v' l : Nat) (hc : c < 16) (hn : n < 32) (hn' : n' < 32)
    (hne : n ≠ n') :
    justified14 (past ++ [.feed ⟨176 + c, n, v⟩, .feed ⟨176 + c, n', v'⟩]) ⟨176 + c, n + 32, l⟩ = none ∧
    justified14 [] ⟨176 + c, n + 32, l⟩ = none ∧ justified14 (past ++ [.reset]) ⟨176 + c, n + 32, l⟩ = none := by
  have e : 176 + c - 176 = c := by omega
  have hj : 176 ≤ 176 + c ∧ 176 + c < 192 ∧ 32 ≤ n + 32 ∧ n + 32 < 64 := by omega
  refine ⟨?_, ?_, ?_⟩
  · simp [justified14, hj, e, lastMsb, List.foldl_append, msbStep, ccOn, hn, hn']; omega
  · simp [justified14, hj, e, lastMsb]
  · simp [justified14, hj, e, lastMsb, List.foldl_append, msbStep]

/-! non-vacuity -/
example : justified14 [.feed ⟨181, 2, 8⟩, .feed ⟨144, 60, 100⟩] ⟨181, 34, 33⟩ = some ⟨5, 2, 1057⟩ := by decide

end Midi.Props.C08
