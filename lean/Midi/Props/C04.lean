/-
C04  Restricted integer types never hold an out-of-range value.
The conversion, feature and constant tables (`Gen.*`) are regenerated from /repo's source on every run; these
theorems are re-checked against them.
-/
import Midi.Proofs.Conv
import Midi.Proofs.Parse
import Midi.Proofs.Short
import Midi.Gen.ControllerNumbers
set_option linter.unusedSimpArgs false
namespace Midi.Props.C04
open Midi Midi.Spec

/-- every `impl_from_*!` / `impl_try_from_*!` instantiation in the source passes the per-row criterion, on
    every pointer width -/
theorem table_ok : ∀ pw ∈ pointerWidths, Gen.conversions.all (entryOk pw) = true := by decide +kernel

theorem pw_cases {pw : Nat} (h : pw ∈ pointerWidths) : pw = 16 ∨ pw = 32 ∨ pw = 64 := by
  simpa [pointerWidths] using h

/-- No conversion into a restricted type can produce an out-of-range value: for every implemented conversion,
    every pointer width and EVERY value of the source type (including all of i128 / u128). -/
theorem conversions_in_range (pw : Nat) (hpw : pw ∈ pointerWidths) (e : ConvEntry) (he : e ∈ Gen.conversions)
    (x : Int) (hx : inTy pw e.src x) (v : Int) (hv : convModel pw e x = some v) : inTy pw e.dst v := by
  have hok : entryOk pw e = true := List.all_eq_true.mp (table_ok pw hpw) e he
  exact (entryOk_sound pw (pw_cases hpw) e hok x hx).2 v hv

/-- fallible conversions fail exactly for out-of-range input -/
theorem tryFrom_fails_iff (pw : Nat) (hpw : pw ∈ pointerWidths) (e : ConvEntry) (he : e ∈ Gen.conversions)
    (ht : e.kind.isTry = true) (x : Int) (hx : inTy pw e.src x) :
    (convModel pw e x = none ↔ ¬ inTy pw e.dst x) ∧ (∀ v, convModel pw e x = some v → v = x) := by
  have hok : entryOk pw e = true := List.all_eq_true.mp (table_ok pw hpw) e he
  have hf := (entryOk_sound pw (pw_cases hpw) e hok x hx).1
  rw [hf]
  unfold convSpec inTy
  cases h1 : tyLo pw e.dst <;> cases h2 : tyHi pw e.dst <;> simp [ht]
  all_goals (try (intro v _ _ h; exact h.symm))

/-- parsing never yields an out-of-range value — for ALL strings -/
theorem parse_in_range (pw : Nat) (T : NewtypeDef) (s : List Char) (v : Nat)
    (h : parseNewtype pw T s = some v) : v ≤ T.max := by
  unfold parseNewtype at h
  split at h
  · cases h
  · split at h
    · rename_i hv
      injection h with h; subst h
      simp [NewtypeDef.isValid] at hv
      exact hv
    · cases h

/-- The checked constructor panics exactly for out-of-range input — in EVERY feature configuration a build
    can select (every subset of the declared features and optional dependencies). -/
theorem new_checked : ∀ cfg ∈ allConfigs, newAssertActive cfg = true := by decide

theorem new_checked' (cfg : Config) (hc : cfg ∈ allConfigs) (T : NewtypeDef) (v : Nat) :
    (newModel cfg T v = .ok v ↔ v ≤ T.max) ∧ (newModel cfg T v = .error .newAssert ↔ T.max < v) := by
  have := new_checked cfg hc
  unfold newModel
  rw [this]
  by_cases h : v ≤ T.max
  · have : T.isValid v = true := by simp [NewtypeDef.isValid]; exact h
    simp [this, h]
  · have : T.isValid v = false := by
      simp [NewtypeDef.isValid]; omega
    simp [this, h]; omega

/-- MIN, MAX, Default and every predefined controller number are in range; payloads fit their representation -/
theorem consts_in_range :
    (∀ T ∈ Gen.newtypes, T.minConst ≤ T.max ∧ T.maxConst ≤ T.max ∧ T.default ≤ T.max ∧
      ∀ pw ∈ pointerWidths, (T.max : Int) ≤ T.repr.maxVal pw) ∧
    (∀ n ∈ Gen.controllerNumberValues, n ≤ 127) := by
  refine ⟨by decide +kernel, by decide +kernel⟩

/-- fields and data bytes of every message obtained from valid bytes are in range -/
theorem message_fields_in_range (b : Bytes) (hv : b.Valid) :
    (specStructured b).Valid ∧ (canon b).Valid ∧
    (∀ c, specChannel b.status = some c → c < 16) ∧ (∀ k, specKey b = some k → k < 128) ∧
    (∀ k, specVelocity b = some k → k < 128) ∧ (∀ k, specControllerNumber b = some k → k < 128) ∧
    (∀ k, specControlValue b = some k → k < 128) ∧ (∀ k, specProgramNumber b = some k → k < 128) ∧
    (∀ k, specPressure b = some k → k < 128) ∧ (∀ k, specPitchBend b = some k → k < 16384) := by
  obtain ⟨s, d1, d2⟩ := b
  obtain ⟨h1, h2, h3, h4⟩ := hv
  simp only at h1 h2 h3 h4
  have hc1 := canonD1_facts s d1 h3
  have hc2 : canonD2 s d2 ≤ d2 := by unfold canonD2; split <;> omega
  refine ⟨?_, ⟨h1, h2, by simp [canon]; omega, by simp [canon]; omega⟩, ?_, ?_, ?_, ?_, ?_, ?_, ?_, ?_⟩
  · rcases status_cases s h1 h2 with h | h
    · rcases h with h | h | h | h | h | h | h <;>
        simp [specStructured, specType, h, SMsg.Valid] <;> omega
    · rcases h with h | h | h | h | h | h | h | h | h | h | h | h | h | h | h | h <;>
        simp [specStructured, specType, h, SMsg.Valid, specQFrame_valid d1 h3] <;> omega
  all_goals
    intro k hk
    simp only [specChannel, specKey, specVelocity, specControllerNumber, specControlValue, specProgramNumber,
      specPressure, specPitchBend] at hk
    (repeat' split at hk) <;> simp at hk <;> omega

/-! non-vacuity -/
example : Gen.conversions.length > 100 ∧ allConfigs.length ≥ 2 ∧ Gen.newtypes.length = 6 := by decide +kernel
example : inTy 64 (.prim .i128) (-170141183460469231731687303715884105728) := by
  simp [inTy, tyLo, tyHi, PrimTy.minVal, PrimTy.maxVal, PrimTy.signed, PrimTy.bits]

end Midi.Props.C04
