/-
Property theorems restated for the code AS TRANSLATED from the Rust source by tools/rs2lean.py:
the inherent methods of ControllerNumber (controller_number_mod.rs -> Midi/Gen/CnPredicates) and of the classification
enums (short_message.rs -> Midi/Gen/ShortMsg) — regenerated from /repo's working tree on every run.
-/
import Midi.Proofs.GenCn
import Midi.Proofs.GenShort
import Midi.Props.C02
import Midi.Props.C16
set_option linter.unusedSimpArgs false
set_option linter.unusedVariables false

namespace Midi.Props.TCn
open Midi Midi.Spec Midi.Gen Midi.GenTie
open Midi.Gen.CnPredicates

/-- C16 for the translated predicates, for every controller number 0–127: `can_be_part_of_14_bit..` holds exactly for
    0–63, the LSB sibling is n + 32 exactly for 0–31 (and never overflows), `is_parameter_number..` holds exactly for
    {6, 38, 96–101} -/
theorem predicates (n : Nat) (hn : n < 128) :
    ControllerNumber.can_be_part_of_14_bit_control_change_message n = .ok (decide (n < 64)) ∧
    ControllerNumber.corresponding_14_bit_lsb_controller_number n = .ok (if n < 32 then some (n + 32) else none) ∧
    ControllerNumber.is_parameter_number_message_controller_number n =
      .ok (decide (n ∈ [6, 38, 96, 97, 98, 99, 100, 101])) := by
  have h := C16.predicates ⟨n, hn⟩
  simp only at h
  refine ⟨CN.can_be_part n, ?_, ?_⟩
  · rw [CN.lsb_of, h.2.1]
  · rw [CN.is_parameter_number]
    congr 1
    have := h.2.2
    cases hb : cnIsParameterNumber n <;> simp_all

/-- C02 for the translated predicate: a Control Change is Channel Mode exactly for controller numbers 120–127 -/
theorem channel_mode (n : Nat) : ControllerNumber.is_channel_mode_message_controller_number n = .ok (decide (n ≥ 120)) := by
  rw [CN.is_channel_mode]
  rfl

/-- C02 for the translated classification of message types (type-level super type and main category): total, never
    panics, and the coarse super type refines to the main category the same way the fine one does -/
theorem type_level (t : MsgType) :
    ShortMsg.ShortMessageType.super_type t = .ok t.superType ∧
    ShortMsg.FuzzyMessageSuperType.main_category t.superType = .ok t.superType.mainCategory ∧
    (∀ s : SuperType, ShortMsg.MessageSuperType.main_category s = .ok s.mainCategory) :=
  ⟨EN.type_super_type t, EN.fuzzy_main_category _, EN.super_main_category⟩

end Midi.Props.TCn
