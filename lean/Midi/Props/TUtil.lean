/-
Property theorems restated for test_util.rs AS TRANSLATED by tools/rs2lean.py (Midi/Gen/TestUtil, regenerated from
/repo's working tree on every run).
-/
import Midi.Proofs.GenTestUtil
import Midi.Props.C06
set_option linter.unusedSimpArgs false
set_option linter.unusedVariables false

namespace Midi.Props.TUtil
open Midi Midi.Spec Midi.Gen Midi.GenTie

/-- C06 for the translated shorthands: they panic exactly when an argument is out of range and otherwise build the
    same message as the factory constructor of that name -/
theorem shorthands (x y z : Nat) :
    TestUtil.note_on x y z = (if x ≤ 15 ∧ y ≤ 127 ∧ z ≤ 127 then modelNamed rawFactory .noteOn x y z else .error .testUtilExpect) ∧
    TestUtil.note_off x y z = (if x ≤ 15 ∧ y ≤ 127 ∧ z ≤ 127 then modelNamed rawFactory .noteOff x y z else .error .testUtilExpect) ∧
    TestUtil.control_change x y z = (if x ≤ 15 ∧ y ≤ 127 ∧ z ≤ 127 then modelNamed rawFactory .controlChange x y z else .error .testUtilExpect) ∧
    TestUtil.polyphonic_key_pressure x y z = (if x ≤ 15 ∧ y ≤ 127 ∧ z ≤ 127 then modelNamed rawFactory .polyphonicKeyPressure x y z else .error .testUtilExpect) ∧
    TestUtil.program_change x y = (if x ≤ 15 ∧ y ≤ 127 then modelNamed rawFactory .programChange x y 0 else .error .testUtilExpect) ∧
    TestUtil.channel_pressure x y = (if x ≤ 15 ∧ y ≤ 127 then modelNamed rawFactory .channelPressure x y 0 else .error .testUtilExpect) ∧
    TestUtil.pitch_bend_change x y = (if x ≤ 15 ∧ y ≤ 16383 then modelNamed rawFactory .pitchBendChange x y 0 else .error .testUtilExpect) ∧
    TestUtil.song_position_pointer x = (if x ≤ 16383 then modelNamed rawFactory .songPositionPointer x 0 0 else .error .testUtilExpect) ∧
    TestUtil.song_select x = (if x ≤ 127 then modelNamed rawFactory .songSelect x 0 0 else .error .testUtilExpect) := by
  obtain ⟨a1, a2, a3, a4⟩ := TU.three x y z
  obtain ⟨b1, b2, b3⟩ := TU.two x y
  obtain ⟨c1, c2⟩ := TU.one x
  rw [a1, a2, a3, a4, b1, b2, b3, c1, c2]
  exact C06.test_util_shorthands x y z

/-- C06 / C18 for the translated composite helpers: panic exactly for out-of-range arguments (the 14-bit CC helper also,
    as documented, for an MSB controller number above 31), otherwise the described message -/
theorem composite (x y z : Nat) :
    TestUtil.control_change_14_bit x y z =
      (if x ≤ 15 ∧ y ≤ 127 ∧ z ≤ 16383 then (if y < 32 then .ok ⟨x, y, z⟩ else .error .cc14MsbAssert)
       else .error .testUtilExpect) ∧
    TestUtil.nrpn x y z = (if x ≤ 15 ∧ y ≤ 16383 ∧ z ≤ 127 then .ok ⟨x, y, z, false, false, .dataEntry⟩ else .error .testUtilExpect) ∧
    TestUtil.rpn_14_bit x y z = (if x ≤ 15 ∧ y ≤ 16383 ∧ z ≤ 16383 then .ok ⟨x, y, z, true, true, .dataEntry⟩ else .error .testUtilExpect) := by
  obtain ⟨p1, _, _, p4⟩ := TU.pn x y z
  rw [TU.cc14, p1, p4]
  exact ⟨(C06.test_util_composite x y z true).1, (C06.test_util_composite x y z false).2.1, (C06.test_util_composite x y z true).2.2⟩

/-- `short(status, d1, d2)` panics exactly for data bytes above 127 or a status byte below 0x80 -/
theorem short_eq (s a b : Nat) : TestUtil.short s a b = tuShort s a b := TU.short s a b

end Midi.Props.TUtil
