/-
C19  Deserialization enforces the same invariants as the constructors.
A statement about the MODEL of serde's derive (Midi/Model/Serde.lean); the real Deserialize impls are tied to it by
the correspondence run in the serde + serde_repr configuration.
-/
import Midi.Model.Serde
import Midi.Proofs.Short
import Midi.Props.C09
set_option linter.unusedSimpArgs false
namespace Midi.Props.C19
open Midi Midi.Spec

/-- restricted integers: any input either fails or yields an in-range value; every in-range value deserializes to itself -/
theorem newtype_sound_complete (max : Nat) (hm : max ≤ 65535) (x : Int) :
    (∀ v, deNewtype max x = some v → v ≤ max ∧ (v : Int) = x) ∧ (0 ≤ x ∧ x ≤ max → deNewtype max x = some x.toNat) := by
  unfold deNewtype deU16
  constructor
  · intro v h
    by_cases h1 : 0 ≤ x ∧ x ≤ 65535
    · simp only [h1, and_self, if_true] at h
      by_cases h2 : x.toNat ≤ max
      · simp only [h2, if_true] at h; injection h with h; subst h; exact ⟨h2, by omega⟩
      · simp [h2] at h
    · simp [h1] at h
  · intro ⟨h0, h1⟩
    have h2 : 0 ≤ x ∧ x ≤ 65535 := by omega
    have h3 : x.toNat ≤ max := by omega
    simp [h2, h3]

theorem fromBytes_raw (b : Bytes) (h : b.InRange) : fromBytes rawFactory b = .ok (if 128 ≤ b.status then some b else none) := by
  unfold fromBytes
  by_cases h1 : 128 ≤ b.status
  · rw [if_pos h1, extractType_valid _ h1 h.1]; rfl
  · rw [if_neg h1, extractType_invalid _ (by omega)]; rfl

theorem deNewtype_le (max : Nat) (x : Int) (v : Nat) (h : deNewtype max x = some v) : v ≤ max := by
  unfold deNewtype at h
  split at h
  · cases h
  · split at h
    · injection h with h; omega
    · cases h

theorem deQFrame_valid (p a b : Int) (f : QFrame) (h : deQFrame p a b = some f) : f.Valid := by
  unfold deQFrame at h
  split at h
  · cases h1 : deBool a <;> cases h2 : deTimeCodeType b <;> simp [h1, h2] at h
    subst h; trivial
  · cases h1 : deNewtype 15 a <;> simp [h1] at h
    rename_i v
    have := deNewtype_le 15 a v h1
    (repeat' split at h) <;> simp at h <;> subst h <;> (show v < 16; omega)

/-- short messages: a deserialized RawShortMessage always has a valid status byte and 7-bit data bytes — it could
    have been built by `from_bytes`; and every valid message deserializes from its own bytes -/
theorem raw_sound_complete (s d1 d2 : Int) :
    (∀ m, deRaw s d1 d2 = some m → m.Valid ∧ (m.status : Int) = s ∧ (m.d1 : Int) = d1 ∧ (m.d2 : Int) = d2) ∧
    (∀ b : Bytes, b.Valid → deRaw b.status b.d1 b.d2 = some b) := by
  constructor
  · intro m h
    unfold deRaw at h
    cases hs : deU8 s <;> simp [hs] at h
    cases ha : deNewtype 127 d1 <;> simp [ha] at h
    cases hb : deNewtype 127 d2 <;> simp [hb] at h
    rename_i sv av bv
    have hsr : sv ≤ 255 ∧ (sv : Int) = s := by
      unfold deU8 at hs; split at hs <;> simp at hs; subst hs; omega
    have har := (newtype_sound_complete 127 (by omega) d1).1 av ha
    have hbr := (newtype_sound_complete 127 (by omega) d2).1 bv hb
    have hin : (⟨sv, av, bv⟩ : Bytes).InRange := ⟨by show sv < 256; omega, by show av < 128; omega, by show bv < 128; omega⟩
    rw [fromBytes_raw _ hin] at h
    by_cases h128 : 128 ≤ sv
    · simp [h128] at h; subst h
      exact ⟨⟨h128, by show sv < 256; omega, by show av < 128; omega, by show bv < 128; omega⟩, hsr.2, har.2, hbr.2⟩
    · simp [h128] at h
  · intro b hv
    obtain ⟨h1, h2, h3, h4⟩ := hv
    unfold deRaw
    have e1 : deU8 (b.status : Int) = some b.status := by unfold deU8; simp; omega
    have e2 := (newtype_sound_complete 127 (by omega) (b.d1 : Int)).2 ⟨by omega, by omega⟩
    have e3 := (newtype_sound_complete 127 (by omega) (b.d2 : Int)).2 ⟨by omega, by omega⟩
    simp at e2 e3
    simp only [e1, e2, e3]
    rw [fromBytes_raw _ ⟨h2, h3, h4⟩]
    simp [h1]

/-- 14-bit Control Change messages: MSB controller number 0–31, exactly what `new` accepts -/
theorem cc14_sound_complete (ch msb value : Int) :
    (∀ m, deCC14 ch msb value = some m → m.Valid ∧ CC14Msg.new m.channel m.msb m.value = .ok m) ∧
    (∀ m : CC14Msg, m.Valid → deCC14 m.channel m.msb m.value = some m) := by
  constructor
  · intro m h
    unfold deCC14 at h
    cases h1 : deNewtype 15 ch <;> simp [h1] at h
    cases h2 : deNewtype 127 msb <;> simp [h2] at h
    cases h3 : deNewtype 16383 value <;> simp [h3] at h
    rename_i c n v
    obtain ⟨hn, hm⟩ := h
    subst hm
    have a := (newtype_sound_complete 15 (by omega) ch).1 c h1
    have b := (newtype_sound_complete 16383 (by omega) value).1 v h3
    refine ⟨⟨by show c < 16; omega, hn, by show v < 16384; omega⟩, ?_⟩
    unfold CC14Msg.new cnLsbOf
    have : ¬ n ≥ 32 := by omega
    have h2' : ¬ n + 32 ≥ 256 := by omega
    simp [this, h2', bind, Except.bind]
  · intro m hv
    obtain ⟨h1, h2, h3⟩ := hv
    unfold deCC14
    have e1 := (newtype_sound_complete 15 (by omega) (m.channel : Int)).2 ⟨by omega, by omega⟩
    have e2 := (newtype_sound_complete 127 (by omega) (m.msb : Int)).2 ⟨by omega, by omega⟩
    have e3 := (newtype_sound_complete 16383 (by omega) (m.value : Int)).2 ⟨by omega, by omega⟩
    simp at e1 e2 e3
    simp [e1, e2, e3, h2]

/-- (N)RPN messages: resolution, value and data type consistent — exactly the values of the eight constructors -/
theorem pn_sound_complete (ch number value reg is14 dt : Int) :
    (∀ m, dePN ch number value reg is14 dt = some m →
        m.Valid ∧ ∃ i, i < 8 ∧ PNMsg.ctor i m.channel m.number m.value = m) ∧
    (∀ m : PNMsg, m.Valid →
        dePN m.channel m.number m.value (if m.isRegistered then 1 else 0) (if m.is14Bit then 1 else 0) m.dataType.code = some m) := by
  constructor
  · intro m h
    unfold dePN at h
    cases h1 : deNewtype 15 ch <;> simp [h1] at h
    cases h2 : deNewtype 16383 number <;> simp [h2] at h
    cases h3 : deNewtype 16383 value <;> simp [h3] at h
    cases h4 : deBool reg <;> simp [h4] at h
    cases h5 : deBool is14 <;> simp [h5] at h
    cases h6 : deDataType dt <;> simp [h6] at h
    rename_i c n v r b d
    obtain ⟨hc, hm⟩ := h
    subst hm
    have a1 := (newtype_sound_complete 15 (by omega) ch).1 c h1
    have a2 := (newtype_sound_complete 16383 (by omega) number).1 n h2
    have a3 := (newtype_sound_complete 16383 (by omega) value).1 v h3
    have hv : (⟨c, n, v, r, b, d⟩ : PNMsg).Valid := by
      refine ⟨by show c < 16; omega, by show n < 16384; omega, ?_⟩
      cases b <;> simp at hc ⊢
      · omega
      · exact ⟨by omega, hc⟩
    exact ⟨hv, C09.valid_is_constructed _ hv⟩
  · intro m hv
    obtain ⟨c, n, v, r, b, d⟩ := m
    obtain ⟨h1, h2, h3⟩ := hv
    simp only at h1 h2 h3
    unfold dePN
    have e1 := (newtype_sound_complete 15 (by omega) (c : Int)).2 ⟨by omega, by omega⟩
    have e2 := (newtype_sound_complete 16383 (by omega) (n : Int)).2 ⟨by omega, by omega⟩
    have hv16 : v ≤ 16383 := by cases b <;> simp at h3 <;> omega
    have e3 := (newtype_sound_complete 16383 (by omega) (v : Int)).2 ⟨by omega, by omega⟩
    simp at e1 e2 e3
    cases r <;> cases b <;> cases d <;> simp at h3 <;>
      simp [e1, e2, e3, deBool, deDataType, DataType.code] <;> omega

/-- message types (serde_repr): exactly the 23 discriminants; the structured form, quarter frames and time code
    types are built from range-checked parts only, so every deserialized value is Valid -/
theorem enums_sound :
    (∀ x t, deMsgType x = some t → (t.toU8 : Int) = x) ∧ (∀ t : MsgType, deMsgType t.toU8 = some t) ∧
    (∀ p a b f, deQFrame p a b = some f → f.Valid) ∧
    (∀ v f1 f2 f3 m, deStructured v f1 f2 f3 = some m → m.Valid) := by
  refine ⟨?_, ?_, ?_, ?_⟩
  · intro x t h
    unfold deMsgType deU8 at h
    split at h
    · rename_i n hn
      split at hn <;> simp at hn
      subst hn
      have := List.find?_some h
      simp at this
      omega
    · cases h
  · intro t; cases t <;> decide
  · intro p a b f h; exact deQFrame_valid p a b f h
  · intro v f1 f2 f3 m h
    unfold deStructured at h
    simp only at h
    by_cases h0 : v = 0
    · simp only [h0, if_true] at h
      cases ha : deNewtype 15 f1 <;> cases hb : deNewtype 127 f2 <;> cases hc : deNewtype 127 f3 <;> simp [ha, hb, hc] at h
      subst h
      have := deNewtype_le _ _ _ ha; have := deNewtype_le _ _ _ hb; have := deNewtype_le _ _ _ hc
      simp only [SMsg.Valid]; omega
    simp only [h0, if_false] at h
    by_cases h1 : v = 1
    · simp only [h1, if_true] at h
      cases ha : deNewtype 15 f1 <;> cases hb : deNewtype 127 f2 <;> cases hc : deNewtype 127 f3 <;> simp [ha, hb, hc] at h
      subst h
      have := deNewtype_le _ _ _ ha; have := deNewtype_le _ _ _ hb; have := deNewtype_le _ _ _ hc
      simp only [SMsg.Valid]; omega
    simp only [h1, if_false] at h
    by_cases h2 : v = 2
    · simp only [h2, if_true] at h
      cases ha : deNewtype 15 f1 <;> cases hb : deNewtype 127 f2 <;> cases hc : deNewtype 127 f3 <;> simp [ha, hb, hc] at h
      subst h
      have := deNewtype_le _ _ _ ha; have := deNewtype_le _ _ _ hb; have := deNewtype_le _ _ _ hc
      simp only [SMsg.Valid]; omega
    simp only [h2, if_false] at h
    by_cases h3 : v = 3
    · simp only [h3, if_true] at h
      cases ha : deNewtype 15 f1 <;> cases hb : deNewtype 127 f2 <;> cases hc : deNewtype 127 f3 <;> simp [ha, hb, hc] at h
      subst h
      have := deNewtype_le _ _ _ ha; have := deNewtype_le _ _ _ hb; have := deNewtype_le _ _ _ hc
      simp only [SMsg.Valid]; omega
    simp only [h3, if_false] at h
    by_cases h4 : v = 4
    · simp only [h4, if_true] at h
      cases ha : deNewtype 15 f1 <;> cases hb : deNewtype 127 f2 <;> simp [ha, hb] at h
      subst h
      have := deNewtype_le _ _ _ ha; have := deNewtype_le _ _ _ hb
      simp only [SMsg.Valid]; omega
    simp only [h4, if_false] at h
    by_cases h5 : v = 5
    · simp only [h5, if_true] at h
      cases ha : deNewtype 15 f1 <;> cases hb : deNewtype 127 f2 <;> simp [ha, hb] at h
      subst h
      have := deNewtype_le _ _ _ ha; have := deNewtype_le _ _ _ hb
      simp only [SMsg.Valid]; omega
    simp only [h5, if_false] at h
    by_cases h6 : v = 6
    · simp only [h6, if_true] at h
      cases ha : deNewtype 15 f1 <;> cases hb : deNewtype 16383 f2 <;> simp [ha, hb] at h
      subst h
      have := deNewtype_le _ _ _ ha; have := deNewtype_le _ _ _ hb
      simp only [SMsg.Valid]; omega
    simp only [h6, if_false] at h
    by_cases h7 : v = 7
    · simp only [h7, if_true] at h; injection h with h; subst h; trivial
    simp only [h7, if_false] at h
    by_cases h8 : v = 8
    · simp only [h8, if_true] at h
      cases hq : deQFrame f1 f2 f3 <;> simp [hq] at h
      subst h
      exact deQFrame_valid _ _ _ _ hq
    simp only [h8, if_false] at h
    by_cases h9 : v = 9
    · simp only [h9, if_true] at h
      cases ha : deNewtype 16383 f1 <;> simp [ha] at h
      subst h
      have := deNewtype_le _ _ _ ha
      simp only [SMsg.Valid]; omega
    simp only [h9, if_false] at h
    by_cases h10 : v = 10
    · simp only [h10, if_true] at h
      cases ha : deNewtype 127 f1 <;> simp [ha] at h
      subst h
      have := deNewtype_le _ _ _ ha
      simp only [SMsg.Valid]; omega
    simp only [h10, if_false] at h
    by_cases h11 : v = 11
    · simp only [h11, if_true] at h; injection h with h; subst h; trivial
    simp only [h11, if_false] at h
    by_cases h12 : v = 12
    · simp only [h12, if_true] at h; injection h with h; subst h; trivial
    simp only [h12, if_false] at h
    by_cases h13 : v = 13
    · simp only [h13, if_true] at h; injection h with h; subst h; trivial
    simp only [h13, if_false] at h
    by_cases h14 : v = 14
    · simp only [h14, if_true] at h; injection h with h; subst h; trivial
    simp only [h14, if_false] at h
    by_cases h15 : v = 15
    · simp only [h15, if_true] at h; injection h with h; subst h; trivial
    simp only [h15, if_false] at h
    by_cases h16 : v = 16
    · simp only [h16, if_true] at h; injection h with h; subst h; trivial
    simp only [h16, if_false] at h
    by_cases h17 : v = 17
    · simp only [h17, if_true] at h; injection h with h; subst h; trivial
    simp only [h17, if_false] at h
    by_cases h18 : v = 18
    · simp only [h18, if_true] at h; injection h with h; subst h; trivial
    simp only [h18, if_false] at h
    by_cases h19 : v = 19
    · simp only [h19, if_true] at h; injection h with h; subst h; trivial
    simp only [h19, if_false] at h
    by_cases h20 : v = 20
    · simp only [h20, if_true] at h; injection h with h; subst h; trivial
    simp only [h20, if_false] at h
    by_cases h21 : v = 21
    · simp only [h21, if_true] at h; injection h with h; subst h; trivial
    simp only [h21, if_false] at h
    by_cases h22 : v = 22
    · simp only [h22, if_true] at h; injection h with h; subst h; trivial
    simp only [h22, if_false] at h
    cases h

end Midi.Props.C19
