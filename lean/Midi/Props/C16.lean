/-
C16  Non-contributing messages are transparent; predicates name the contributors.
-/
import Midi.Proofs.Polling
set_option linter.unusedSimpArgs false
namespace Midi.Props.C16
open Midi Midi.Spec

/-- can the message be part of a 14-bit Control Change message?  (a Control Change with controller 0–63) -/
def contributes14 (b : Bytes) : Prop := 176 ≤ b.status ∧ b.status < 192 ∧ b.d1 < 64
/-- can the message be part of an (N)RPN message?  (a Control Change with controller 6, 38, 96–101) -/
def contributesPN (b : Bytes) : Prop :=
  176 ≤ b.status ∧ b.status < 192 ∧ (b.d1 = 6 ∨ b.d1 = 38 ∨ (96 ≤ b.d1 ∧ b.d1 ≤ 101))

/-- 14-bit CC scanner: from EVERY state (reachable or not) a non-contributing valid message reports nothing and
    leaves the scanner in an equal state -/
theorem transparent_cc (s : CCScanner) (b : Bytes) (hv : b.Valid) (hn : ¬ contributes14 b) :
    s.feed rawImpl b = .ok (s, none) := by
  rw [ccScanner_feed s b hv]
  by_cases hlt : b.status < 240
  · simp only [hlt, if_true]
    rw [ccChan_feed _ b hv]
    rcases asCC_iff b hv with ⟨hcc, hlo, hhi⟩ | ⟨hcc, _⟩
    · have h64 : ¬ b.d1 ≤ 31 ∧ ¬ b.d1 ≤ 63 := by unfold contributes14 at hn; omega
      simp [hcc, h64.1, h64.2, bind, Except.bind]
    · simp [hcc, bind, Except.bind]
  · simp [hlt]

theorem pn_onCC_other (st : PNChan) (ch cn cv : Nat) (h : ¬ (cn = 6 ∨ cn = 38 ∨ (96 ≤ cn ∧ cn ≤ 101))) :
    st.onCC ch cn cv = .ok (st, none) := by
  unfold PNChan.onCC
  split <;> first | omega | rfl

/-- (N)RPN scanner: the same -/
theorem transparent_pn (s : PNScanner) (b : Bytes) (hv : b.Valid) (hn : ¬ contributesPN b) :
    s.feed rawImpl b = .ok (s, none) := by
  rw [pnScanner_feed s b hv]
  by_cases hlt : b.status < 240
  · simp only [hlt, if_true]
    rw [pnChan_feed _ b hv]
    rcases asCC_iff b hv with ⟨hcc, hlo, hhi⟩ | ⟨hcc, _⟩
    · have : ¬ (b.d1 = 6 ∨ b.d1 = 38 ∨ (96 ≤ b.d1 ∧ b.d1 ≤ 101)) := by unfold contributesPN at hn; omega
      simp [hcc, pn_onCC_other _ _ _ _ this, bind, Except.bind]
    · simp [hcc, bind, Except.bind]
  · simp [hlt]

theorem p_onCC_other (st : PState) (now ch cn cv : Nat) (h : ¬ (cn = 6 ∨ cn = 38 ∨ (96 ≤ cn ∧ cn ≤ 101))) :
    st.onCC now ch cn cv = (st, (none, none)) := by
  unfold PState.onCC
  split <;> first | omega | rfl

/-- polling scanner: the same, at any time -/
theorem transparent_polling (now : Nat) (s : PScanner) (b : Bytes) (hv : b.Valid) (hn : ¬ contributesPN b) :
    s.feed rawImpl now b = .ok (s, (none, none)) := by
  rcases pScanner_feed_cases now s b hv with ⟨hlo, hhi, h16, hf⟩ | ⟨_, hf⟩
  · have : ¬ (b.d1 = 6 ∨ b.d1 = 38 ∨ (96 ≤ b.d1 ∧ b.d1 ≤ 101)) := by unfold contributesPN at hn; omega
    rw [hf, p_onCC_other _ _ _ _ _ this]
    simp only
    have : ({ timeout := s[b.status - 176].timeout, state := s[b.status - 176].state } : PChan) = s[b.status - 176] := rfl
    rw [this, Vector.set_getElem_self]
  · exact hf

/-- inserting non-contributing messages anywhere never changes what is reported for the rest of the stream -/
theorem insert_anywhere_cc (s : CCScanner) (b : Bytes) (hv : b.Valid) (hn : ¬ contributes14 b) (ops : List Op) :
    ccRun s (.feed b :: ops) = (ccRun s ops).map (fun r => (r.1, none :: r.2)) := by
  simp only [ccRun, ccStep, transparent_cc s b hv hn, bind, Except.bind]
  cases ccRun s ops <;> rfl

theorem insert_anywhere_pn (s : PNScanner) (b : Bytes) (hv : b.Valid) (hn : ¬ contributesPN b) (ops : List Op) :
    pnRun s (.feed b :: ops) = (pnRun s ops).map (fun r => (r.1, none :: r.2)) := by
  simp only [pnRun, pnStep, transparent_pn s b hv hn, bind, Except.bind]
  cases pnRun s ops <;> rfl

theorem insert_anywhere_polling (now : Nat) (s : PScanner) (b : Bytes) (hv : b.Valid) (hn : ¬ contributesPN b)
    (ops : List TOp) :
    pRun now s (.feed b :: ops) = (pRun now s ops).map (fun r => (r.1, (none, none) :: r.2)) := by
  simp only [pRun, pStep, transparent_polling now s b hv hn, bind, Except.bind]
  cases pRun now s ops <;> rfl

/-- ControllerNumber's predicates agree: can_be_part_of_14_bit holds exactly for 0–63, the corresponding LSB controller
    number is n+32 exactly for 0–31 (no overflow for any u8-range controller number below 128), and
    is_parameter_number_message_controller_number holds exactly for {6, 38, 96, 97, 98, 99, 100, 101} -/
theorem predicates : ∀ n : Fin 128,
    (cnCanBePartOf14 n.val = true ↔ n.val < 64) ∧
    cnLsbOf n.val = .ok (if n.val < 32 then some (n.val + 32) else none) ∧
    (cnIsParameterNumber n.val = true ↔ n.val ∈ [6, 38, 96, 97, 98, 99, 100, 101]) := by decide +kernel

/-- the *_LSB constants are their MSB constant + 32 (constants regenerated from the source) -/
theorem lsb_constants : ∀ p ∈ Gen.lsbPairs, p.2 = p.1 + 32 := by decide +kernel

/-- the scanners' notion of a contributing message is the predicates' -/
theorem contributes_matches_predicates (b : Bytes) (h : 176 ≤ b.status ∧ b.status < 192) (hd : b.d1 < 128) :
    (contributes14 b ↔ cnCanBePartOf14 b.d1 = true) ∧ (contributesPN b ↔ cnIsParameterNumber b.d1 = true) := by
  have := predicates ⟨b.d1, hd⟩
  simp only at this
  constructor
  · rw [this.1]; unfold contributes14; omega
  · rw [this.2.2]; unfold contributesPN; simp; omega

/-! non-vacuity -/
example : ¬ contributes14 ⟨0xB3, 64, 5⟩ ∧ ¬ contributesPN ⟨0x93, 6, 5⟩ ∧ contributesPN ⟨0xB3, 98, 5⟩ := by
  unfold contributes14 contributesPN; simp

end Midi.Props.C16
