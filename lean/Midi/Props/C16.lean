/-
C16  Non-contributing messages are transparent; predicates name the contributors.
-/
import Midi.Proofs.Polling
set_option linter.unusedSimpArgs false
namespace Midi.Props.C16
open Midi Midi.Spec

/-- can the message be part of a 14-bit Control Change message?  (a Control Change with controller 0–63) -/
def contributes14 (b : Bytes) : Prop := 176 ≤ b.status ∧ b.status < 192 ∧ b.d1 < 64
/-- can the message be part of an (N)RPN message?  (a Control Change with controller 6, 38, 96–101) -/
def contributesPN (b : Bytes) : Prop :=
  176 ≤ b.status ∧ b.status < 192 ∧ (b.d1 = 6 ∨ b.d1 = 38 ∨ (96 ≤ b.d1 ∧ b.d1 ≤ 101))

/-- 14-bit CC scanner: from EVERY state (reachable or not) a non-contributing valid message reports nothing and
    leaves the scanner in an equal state -/
theorem transparent_cc (s : CCScanner) (b : Bytes) (hv : b.Valid) (hn : ¬ contributes14 b) :
    s.feed rawImpl b = .ok (s, none) := by
  rw [ccScanner_feed s b hv]
  by_cases hlt : b.status < 240
  · simp only [hlt, if_true]
    rw [ccChan_feed _ b hv]
    rcases asCC_iff b hv with ⟨hcc, hlo, hhi⟩ | ⟨hcc, _⟩
    · have h64 : ¬ b.d1 ≤ 31 ∧ ¬ b.d1 ≤ 63 := by unfold contributes14 at hn; omega
      simp [hcc, h64.1, h64.2, bind, Except.bind]
    · simp [hcc, bind, Except.bind]
  · simp [hlt]

theorem pn_onCC_other (st : PNChan) (ch cn cv : Nat) (h : ¬ (cn = 6 ∨ cn = 38 ∨ (96 ≤ cn ∧ cn ≤ 101))) :
    st.onCC ch cn cv = .ok (st, none) := by
  unfold PNChan.onCC
  split <;> first | omega | rfl

/-- (N)RPN scanner: the same -/
theorem transparent_pn (s : PNScanner) (b : Bytes) (hv : b.Valid) (hn : ¬ contributesPN b) :
    s.feed rawImpl b = .ok (s, none) := by
  rw [pnScanner_feed s b hv]
  by_cases hlt : b.status < 240
  · simp only [hlt, if_true]
    rw [pnChan_feed _ b hv]
    rcases asCC_iff b hv with ⟨hcc, hlo, hhi⟩ | ⟨hcc, _⟩
    · have : ¬ (b.d1 = 6 ∨ b.d1 = 38 ∨ (96 ≤ b.d1 ∧ b.d1 ≤ 101)) := by unfold contributesPN at hn; omega
      simp [hcc, pn_onCC_other _ _ _ _ this, bind, Except.bind]
    · simp [hcc, bind, Except.bind]
  · simp [hlt]

theorem p_onCC_other (st : PState) (now ch cn cv : Nat) (h : ¬ (cn = 6 ∨ cn = 38 ∨ (96 ≤ cn ∧ cn ≤ 101))) :
    st.onCC now ch cn cv = (st, (none, none)) := by
  unfold PState.onCC
  split <;> first | omega | rfl

/-- polling scanner: the same, at any time -/
theorem transparent_polling (now : Nat) (s : PScanner) (b : Bytes) (hv : b.Valid) (hn : ¬ contributesPN b) :
    s.feed rawImpl now b = .ok (s, (none, none)) := by
  rcases pScanner_feed_cases now s b hv with ⟨hlo, hhi, h16, hf⟩ | ⟨_, hf⟩
  · have : ¬ (b.d1 = 6 ∨ b.d1 = 38 ∨ (96 ≤ b.d1 ∧ b.d1 ≤ 101)) := by unfold contributesPN at hn; omega
    rw [hf, p_onCC_other _ _ _ _ _ this]
    simp only
    have : ({ timeout := s[b.status - 176].timeout, state := s[b.status - 176].state } : PChan) = s[b.status - 176] := rfl
    rw [this, Vector.set_getElem_self]
  · exact hf

/-- inserting non-contributing messages anywhere never changes what is reported for the rest of the stream -/
theorem insert_anywhere_cc (s : CCScanner) (b : Bytes) (hv : b.Valid) (hn : ¬ contributes14 b) (ops : List Op) :
    ccRun s (.feed b :: ops) = (ccRun s ops).map (fun r => (r.1, none :: r.2)) := by
  simp only [ccRun, ccStep, transparent_cc s b hv hn, bind, Except.bind]
  cases ccRun s ops <;> rfl

theorem insert_anywhere_pn (s : PNScanner) (b : Bytes) (hv : b.Valid) (hn : ¬ contributesPN b) (ops : List Op) :
    pnRun s (.feed b :: ops) = (pnRun s ops).map (fun r => (r.1, none :: r.2)) := by
  simp only [pnRun, pnStep, transparent_pn s b hv hn, bind, Except.bind]
  cases pnRun s ops <;> rfl

theorem insert_anywhere_polling (now : Nat) (s : PScanner) (b : Bytes) (hv : b.Valid) (hn : ¬ contributesPN b)
    (ops : List TOp) :
    pRun now s (.feed b :: ops) = (pRun now s ops).map (fun r => (r.1, (none, none) :: r.2)) := by
  simp only [pRun, pStep, transparent_polling now s b hv hn, bind, Except.bind]
  cases pRun now s ops <;> rfl

/-- runs split at any point -/
theorem ccRun_append (s : CCScanner) (a b : List Op) :
    ccRun s (a ++ b) = (do let (s1, o1) ← ccRun s a; let (s2, o2) ← ccRun s1 b; .ok (s2, o1 ++ o2)) := by
  induction a generalizing s with
  | nil =>
    simp only [List.nil_append, ccRun, bind, Except.bind]
    cases ccRun s b <;> rfl
  | cons x xs ih =>
    simp only [List.cons_append, ccRun, bind, Except.bind]
    cases ccStep s x with
    | error e => rfl
    | ok r =>
      simp only [ih r.1, bind, Except.bind]
      cases ccRun r.1 xs with
      | error e => rfl
      | ok r2 =>
        simp only
        cases ccRun r2.1 b <;> simp

theorem pnRun_append (s : PNScanner) (a b : List Op) :
    pnRun s (a ++ b) = (do let (s1, o1) ← pnRun s a; let (s2, o2) ← pnRun s1 b; .ok (s2, o1 ++ o2)) := by
  induction a generalizing s with
  | nil =>
    simp only [List.nil_append, pnRun, bind, Except.bind]
    cases pnRun s b <;> rfl
  | cons x xs ih =>
    simp only [List.cons_append, pnRun, bind, Except.bind]
    cases pnStep s x with
    | error e => rfl
    | ok r =>
      simp only [ih r.1, bind, Except.bind]
      cases pnRun r.1 xs with
      | error e => rfl
      | ok r2 =>
        simp only
        cases pnRun r2.1 b <;> simp

/-- inserting a non-contributing message ANYWHERE in a stream (after any prefix `a`, before any rest `b`) changes
    nothing but adds one empty result at that position: same final state, same reports for everything else -/
theorem insert_in_the_middle_cc (s : CCScanner) (a b : List Op) (m : Bytes) (hv : m.Valid) (hn : ¬ contributes14 m) :
    ccRun s (a ++ .feed m :: b) =
      (do let (s1, o1) ← ccRun s a; let (s2, o2) ← ccRun s1 b; .ok (s2, o1 ++ none :: o2)) := by
  rw [ccRun_append]
  cases ccRun s a with
  | error e => rfl
  | ok r =>
    simp only [bind, Except.bind, insert_anywhere_cc r.1 m hv hn b]
    cases ccRun r.1 b <;> rfl

theorem insert_in_the_middle_pn (s : PNScanner) (a b : List Op) (m : Bytes) (hv : m.Valid) (hn : ¬ contributesPN m) :
    pnRun s (a ++ .feed m :: b) =
      (do let (s1, o1) ← pnRun s a; let (s2, o2) ← pnRun s1 b; .ok (s2, o1 ++ none :: o2)) := by
  rw [pnRun_append]
  cases pnRun s a with
  | error e => rfl
  | ok r =>
    simp only [bind, Except.bind, insert_anywhere_pn r.1 m hv hn b]
    cases pnRun r.1 b <;> rfl

theorem pRun_append (now : Nat) (s : PScanner) (a b : List TOp) :
    pRun now s (a ++ b) =
      (do let (ns1, o1) ← pRun now s a; let (ns2, o2) ← pRun ns1.1 ns1.2 b; .ok (ns2, o1 ++ o2)) := by
  induction a generalizing now s with
  | nil =>
    simp only [List.nil_append, pRun, bind, Except.bind]
    cases pRun now s b <;> rfl
  | cons x xs ih =>
    simp only [List.cons_append, pRun, bind, Except.bind]
    cases pStep now s x with
    | error e => rfl
    | ok r =>
      simp only [ih r.1.1 r.1.2, bind, Except.bind]
      cases pRun r.1.1 r.1.2 xs with
      | error e => rfl
      | ok r2 =>
        simp only
        cases pRun r2.1.1 r2.1.2 b <;> simp

theorem insert_in_the_middle_polling (now : Nat) (s : PScanner) (a b : List TOp) (m : Bytes) (hv : m.Valid)
    (hn : ¬ contributesPN m) :
    pRun now s (a ++ .feed m :: b) =
      (do let (ns1, o1) ← pRun now s a; let (ns2, o2) ← pRun ns1.1 ns1.2 b; .ok (ns2, o1 ++ (none, none) :: o2)) := by
  rw [pRun_append]
  cases pRun now s a with
  | error e => rfl
  | ok r =>
    simp only [bind, Except.bind, insert_anywhere_polling r.1.1 r.1.2 m hv hn b]
    cases pRun r.1.1 r.1.2 b <;> rfl

/-- ControllerNumber's predicates agree: can_be_part_of_14_bit holds exactly for 0–63, the corresponding LSB controller
    number is n+32 exactly for 0–31 (no overflow for any u8-range controller number below 128), and
    is_parameter_number_message_controller_number holds exactly for {6, 38, 96, 97, 98, 99, 100, 101} -/
theorem predicates : ∀ n : Fin 128,
    (cnCanBePartOf14 n.val = true ↔ n.val < 64) ∧
    cnLsbOf n.val = .ok (if n.val < 32 then some (n.val + 32) else none) ∧
    (cnIsParameterNumber n.val = true ↔ n.val ∈ [6, 38, 96, 97, 98, 99, 100, 101]) := by decide +kernel

/-- the *_LSB constants are their MSB constant + 32 (constants regenerated from the source) -/
theorem lsb_constants : ∀ p ∈ Gen.lsbPairs, p.2 = p.1 + 32 := by decide +kernel

/-- the scanners' notion of a contributing message is the predicates' -/
theorem contributes_matches_predicates (b : Bytes) (h : 176 ≤ b.status ∧ b.status < 192) (hd : b.d1 < 128) :
    (contributes14 b ↔ cnCanBePartOf14 b.d1 = true) ∧ (contributesPN b ↔ cnIsParameterNumber b.d1 = true) := by
  have := predicates ⟨b.d1, hd⟩
  simp only at this
  constructor
  · rw [this.1]; unfold contributes14; omega
  · rw [this.2.2]; unfold contributesPN; simp; omega

/-! non-vacuity -/
example : ¬ contributes14 ⟨0xB3, 64, 5⟩ ∧ ¬ contributesPN ⟨0x93, 6, 5⟩ ∧ contributesPN ⟨0xB3, 98, 5⟩ := by
  unfold contributes14 contributesPN; simp

end Midi.Props.C16
