/-
C12  Polling (N)RPN scanner decodes every documented sequence form.
Grammar, intended meaning and schedules: Midi/Spec/Grammar.lean.  Per channel; C15.isolation_polling reduces any
interleaving of up to 16 channels to this.
-/
import Midi.Proofs.Polling
import Midi.Spec.Grammar
import Midi.Proofs.Sentences
set_option linter.unusedSimpArgs false
set_option linter.unusedVariables false
namespace Midi.Props.C12
open Midi Midi.Spec

/-- a channel state whose stored bytes are 7-bit values (every state reachable by valid messages is) -/
def ChanWF (c : PChan) : Prop :=
  match c.state with
  | .waitingForNumber first _ _ => ∀ v, first = some v → v < 128
  | .waitingForFirstValue ns => ns.msb < 128 ∧ ns.lsb < 128
  | .valuePending ns _ f _ => ns.msb < 128 ∧ ns.lsb < 128 ∧ f < 128
  | .fourteenComplete ns a b => ns.msb < 128 ∧ ns.lsb < 128 ∧ a < 128 ∧ b < 128

/-- time of the last message of a schedule -/
def lastTime (sched : List Timed) : Nat := (sched.getLast?.map (·.now)).getD 0

/-! helper lemmas for `encode_roundtrip` -/

theorem index_of_chainTail (sched : List Timed) (hc : Sent.chainTail sched) :
    ∀ i (h : i + 1 < sched.length), sched[i + 1].inner = true → sched[i + 1].t0 = sched[i].now := by
  cases sched with
  | nil => intro i h; simp at h
  | cons m ms =>
    change Sent.chainFrom m.now ms at hc
    induction ms generalizing m with
    | nil => intro i h; simp at h
    | cons m' ms ih =>
      intro i h hin
      cases i with
      | zero => exact hc.1 hin
      | succ j => exact ih m' hc.2 j (by simp at h ⊢; omega) hin

theorem len3 {l : List Nat} (h : l.length = 3) : ∃ a b c, l = [a, b, c] := by
  match l, h with
  | [a, b, c], _ => exact ⟨a, b, c, rfl⟩
theorem len4 {l : List Nat} (h : l.length = 4) : ∃ a b c d, l = [a, b, c, d] := by
  match l, h with
  | [a, b, c, d], _ => exact ⟨a, b, c, d, rfl⟩


/-- MAIN THEOREM (full statement): from ANY well-formed prior state, for every non-empty sentence of the documented
    grammar on a channel and every good schedule of it (arbitrary gaps with polls — early inside two-message units,
    unrestricted elsewhere — and non-contributing traffic; monotone time), followed by one poll at least `timeout`
    after the last message, the messages reported by feed and poll together are exactly: what was still owed from
    before, then the intended messages, each once and in order. -/
theorem sentences (ch timeout t tEnd : Nat) (c0 : PChan) (hto : c0.timeout = timeout) (hwf : ChanWF c0)
    (bs : List Block) (hne : bs ≠ []) (hb : ∀ b ∈ bs, b.Valid) (sched : List Timed) (hg : Good timeout t bs sched)
    (hend : lastTime sched + timeout ≤ tEnd) :
    reports (c0.evs ch (schedEvents sched ++ [.poll tEnd])).2 = flush ch c0 ++ intended ch bs := by
  obtain ⟨⟨hmap, hidx⟩, _, hgaps⟩ := hg
  cases bs with
  | nil => exact absurd rfl hne
  | cons b bs' =>
    have hK := Sent.blocks_tail ch timeout tEnd bs' (fun b hb' => hb b (List.mem_cons_of_mem _ hb'))
    have hend' : Sent.endTime 0 sched + timeout ≤ tEnd := by
      rw [Sent.endTime_eq]; exact hend
    have := Sent.block_run ch timeout tEnd b (hb b List.mem_cons_self) _ _ hK c0 hto 0 sched
      (by rw [List.flatMap_cons] at hmap; exact hmap) (Sent.chainTail_of_index sched hidx) hgaps hend'
    rw [intended, List.flatMap_cons]
    exact this

/-- Consequently: encoding any ParameterNumberMessage in either byte order, feeding it (at any non-decreasing times)
    and polling after the timeout reports exactly that message, preceded at most by the flush of a value still
    pending from earlier traffic — whatever the scanner was fed before. -/
theorem encode_roundtrip (timeout tEnd : Nat) (c0 : PChan) (hto : c0.timeout = timeout) (hwf : ChanWF c0)
    (m : PNMsg) (hm : m.Valid) (order : ByteOrder) (times : List Nat)
    (hlen : times.length = ((specPNEncoding m order).filterMap id).length)
    (hmono : times.Pairwise (· ≤ ·)) (hend : ∀ t ∈ times, t + timeout ≤ tEnd) :
    reports (c0.evs m.channel
      ((((specPNEncoding m order).filterMap id).zip times).map (fun p => PEv.cc p.1.d1 p.1.d2 p.2) ++ [.poll tEnd])).2
      = flush m.channel c0 ++ [m] := by
  obtain ⟨ch, number, value, reg, is14, dt⟩ := m
  obtain ⟨hch, hn, hv⟩ := hm
  simp only at hch hn hv ⊢
  cases is14 with
  | false =>
    simp only [Bool.false_eq_true, if_false] at hv
    cases dt with
    | dataEntry =>
      simp only [specPNEncoding, List.filterMap_cons, id, List.filterMap_nil, List.length_cons, List.length_nil,
        Bool.false_eq_true, if_false] at hlen ⊢
      obtain ⟨t1, t2, t3, rfl⟩ := len3 hlen
      simp at hmono hend
      have := sentences ch timeout 0 tEnd c0 hto hwf [⟨reg, true, number, [.msbAlone value]⟩] (by simp)
        (by simp [Block.Valid, unitsOk, VUnit.Valid, hn, hv])
        [⟨[], if reg then 101 else 99, number / 128, t1, false, 0⟩, ⟨[], if reg then 100 else 98, number % 128, t2, false, 0⟩,
         ⟨[], 6, value, t3, false, 0⟩]
        ⟨⟨by simp [Block.shape, Block.selection, VUnit.msgs], index_of_chainTail _ (by simp [Sent.chainTail, Sent.chainFrom])⟩,
          by simp [monotoneFrom]; omega, by simp [innerPollsEarly]⟩
        (by simp [lastTime]; omega)
      simpa [schedEvents, Timed.events, intended, Block.intended, intendedUnits] using this
    | dataIncrement =>
      simp only [specPNEncoding, List.filterMap_cons, id, List.filterMap_nil, List.length_cons, List.length_nil,
        Bool.false_eq_true, if_false] at hlen ⊢
      obtain ⟨t1, t2, t3, rfl⟩ := len3 hlen
      simp at hmono hend
      have := sentences ch timeout 0 tEnd c0 hto hwf [⟨reg, true, number, [.incDec true value]⟩] (by simp)
        (by simp [Block.Valid, unitsOk, VUnit.Valid, hn, hv])
        [⟨[], if reg then 101 else 99, number / 128, t1, false, 0⟩, ⟨[], if reg then 100 else 98, number % 128, t2, false, 0⟩,
         ⟨[], 96, value, t3, false, 0⟩]
        ⟨⟨by simp [Block.shape, Block.selection, VUnit.msgs], index_of_chainTail _ (by simp [Sent.chainTail, Sent.chainFrom])⟩,
          by simp [monotoneFrom]; omega, by simp [innerPollsEarly]⟩
        (by simp [lastTime]; omega)
      simpa [schedEvents, Timed.events, intended, Block.intended, intendedUnits] using this
    | dataDecrement =>
      simp only [specPNEncoding, List.filterMap_cons, id, List.filterMap_nil, List.length_cons, List.length_nil,
        Bool.false_eq_true, if_false] at hlen ⊢
      obtain ⟨t1, t2, t3, rfl⟩ := len3 hlen
      simp at hmono hend
      have := sentences ch timeout 0 tEnd c0 hto hwf [⟨reg, true, number, [.incDec false value]⟩] (by simp)
        (by simp [Block.Valid, unitsOk, VUnit.Valid, hn, hv])
        [⟨[], if reg then 101 else 99, number / 128, t1, false, 0⟩, ⟨[], if reg then 100 else 98, number % 128, t2, false, 0⟩,
         ⟨[], 97, value, t3, false, 0⟩]
        ⟨⟨by simp [Block.shape, Block.selection, VUnit.msgs], index_of_chainTail _ (by simp [Sent.chainTail, Sent.chainFrom])⟩,
          by simp [monotoneFrom]; omega, by simp [innerPollsEarly]⟩
        (by simp [lastTime]; omega)
      simpa [schedEvents, Timed.events, intended, Block.intended, intendedUnits] using this
  | true =>
    simp only [if_true] at hv
    obtain ⟨hv, hdt⟩ := hv
    subst hdt
    have hval : 128 * (value / 128) + value % 128 = value := by omega
    cases order with
    | msbFirst =>
      simp only [specPNEncoding, List.filterMap_cons, id, List.filterMap_nil, List.length_cons, List.length_nil,
        if_true] at hlen ⊢
      obtain ⟨t1, t2, t3, t4, rfl⟩ := len4 hlen
      simp at hmono hend
      have := sentences ch timeout 0 tEnd c0 hto hwf [⟨reg, true, number, [.msbLsb (value / 128) (value % 128)]⟩] (by simp)
        (by simp [Block.Valid, unitsOk, VUnit.Valid, hn]; omega)
        [⟨[], if reg then 101 else 99, number / 128, t1, false, 0⟩, ⟨[], if reg then 100 else 98, number % 128, t2, false, 0⟩,
         ⟨[], 6, value / 128, t3, false, 0⟩, ⟨[], 38, value % 128, t4, true, t3⟩]
        ⟨⟨by simp [Block.shape, Block.selection, VUnit.msgs], index_of_chainTail _ (by simp [Sent.chainTail, Sent.chainFrom])⟩,
          by simp [monotoneFrom]; omega, by simp [innerPollsEarly]⟩
        (by simp [lastTime]; omega)
      simpa [schedEvents, Timed.events, intended, Block.intended, intendedUnits, hval] using this
    | lsbFirst =>
      simp only [specPNEncoding, List.filterMap_cons, id, List.filterMap_nil, List.length_cons, List.length_nil,
        if_true] at hlen ⊢
      obtain ⟨t1, t2, t3, t4, rfl⟩ := len4 hlen
      simp at hmono hend
      have := sentences ch timeout 0 tEnd c0 hto hwf [⟨reg, true, number, [.lsbMsb (value % 128) (value / 128)]⟩] (by simp)
        (by simp [Block.Valid, unitsOk, VUnit.Valid, hn]; omega)
        [⟨[], if reg then 101 else 99, number / 128, t1, false, 0⟩, ⟨[], if reg then 100 else 98, number % 128, t2, false, 0⟩,
         ⟨[], 38, value % 128, t3, false, 0⟩, ⟨[], 6, value / 128, t4, true, t3⟩]
        ⟨⟨by simp [Block.shape, Block.selection, VUnit.msgs], index_of_chainTail _ (by simp [Sent.chainTail, Sent.chainFrom])⟩,
          by simp [monotoneFrom]; omega, by simp [innerPollsEarly]⟩
        (by simp [lastTime]; omega)
      simpa [schedEvents, Timed.events, intended, Block.intended, intendedUnits, hval] using this

/-! ### the whole 16-channel scanner -/

/-- C12 for the WHOLE scanner: take ANY interleaved history of valid feeds on all 16 channels, polls, resets and time
    steps on a scanner created with `new(timeout)`, in which channel `c` sees exactly a good schedule of a non-empty
    sentence of the documented grammar followed by one poll after the timeout (what the other 15 channels see is
    arbitrary).  Then the scanner never panics and the messages `feed` and `poll` report for channel `c` are exactly
    the intended ones, each once and in order. -/
theorem sentences_scanner (c : Nat) (hc : c < 16) (now timeout t tEnd : Nat) (ops : List TOp) (hv : ∀ op ∈ ops, op.Valid)
    (bs : List Block) (hne : bs ≠ []) (hb : ∀ b ∈ bs, b.Valid) (sched : List Timed) (hg : Good timeout t bs sched)
    (hend : lastTime sched + timeout ≤ tEnd)
    (hview : project c now ops = schedEvents sched ++ [.poll tEnd]) :
    ∃ n s outs, pRun now (PScanner.new timeout) ops = .ok ((n, s), outs) ∧
      reports (outputsOn c now ops outs) = intended c bs := by
  obtain ⟨n, s, outs, h, _, _, ho⟩ := p_run_channel c hc now (PScanner.new timeout) ops hv
  refine ⟨n, s, outs, h, ?_⟩
  have hnew : (PScanner.new timeout)[c] = ({ timeout := timeout } : PChan) := by simp [PScanner.new]
  rw [ho, hnew, hview]
  have := sentences c timeout t tEnd { timeout := timeout } rfl (by simp [ChanWF, PState.default]) bs hne hb sched hg hend
  rw [this]
  simp [flush, PState.default]

end Midi.Props.C12
