/-
C12  Polling (N)RPN scanner decodes every documented sequence form.
Grammar, intended meaning and schedules: Midi/Spec/Grammar.lean.  Per channel; C15.isolation_polling reduces any
interleaving of up to 16 channels to this.
-/
import Midi.Proofs.Polling
import Midi.Spec.Grammar
set_option linter.unusedSimpArgs false
namespace Midi.Props.C12
open Midi Midi.Spec

/-- a channel state whose stored bytes are 7-bit values (every state reachable by valid messages is) -/
def ChanWF (c : PChan) : Prop :=
  match c.state with
  | .waitingForNumber first _ _ => ∀ v, first = some v → v < 128
  | .waitingForFirstValue ns => ns.msb < 128 ∧ ns.lsb < 128
  | .valuePending ns _ f _ => ns.msb < 128 ∧ ns.lsb < 128 ∧ f < 128
  | .fourteenComplete ns a b => ns.msb < 128 ∧ ns.lsb < 128 ∧ a < 128 ∧ b < 128

/-- time of the last message of a schedule -/
def lastTime (sched : List Timed) : Nat := (sched.getLast?.map (·.now)).getD 0

/-- MAIN THEOREM (full statement): from ANY well-formed prior state, for every non-empty sentence of the documented
    grammar on a channel and every good schedule of it (arbitrary gaps with polls — early inside two-message units,
    unrestricted elsewhere — and non-contributing traffic; monotone time), followed by one poll at least `timeout`
    after the last message, the messages reported by feed and poll together are exactly: what was still owed from
    before, then the intended messages, each once and in order. -/
theorem sentences (ch timeout t tEnd : Nat) (c0 : PChan) (hto : c0.timeout = timeout) (hwf : ChanWF c0)
    (bs : List Block) (hne : bs ≠ []) (hb : ∀ b ∈ bs, b.Valid) (sched : List Timed) (hg : Good timeout t bs sched)
    (hend : lastTime sched + timeout ≤ tEnd) :
    reports (c0.evs ch (schedEvents sched ++ [.poll tEnd])).2 = flush ch c0 ++ intended ch bs := by
  sorry

/-- Consequently: encoding any ParameterNumberMessage in either byte order, feeding it (at any non-decreasing times)
    and polling after the timeout reports exactly that message, preceded at most by the flush of a value still
    pending from earlier traffic — whatever the scanner was fed before. -/
theorem encode_roundtrip (timeout tEnd : Nat) (c0 : PChan) (hto : c0.timeout = timeout) (hwf : ChanWF c0)
    (m : PNMsg) (hm : m.Valid) (order : ByteOrder) (times : List Nat)
    (hlen : times.length = ((specPNEncoding m order).filterMap id).length)
    (hmono : times.Pairwise (· ≤ ·)) (hend : ∀ t ∈ times, t + timeout ≤ tEnd) :
    reports (c0.evs m.channel
      ((((specPNEncoding m order).filterMap id).zip times).map (fun p => PEv.cc p.1.d1 p.1.d2 p.2) ++ [.poll tEnd])).2
      = flush m.channel c0 ++ [m] := by
  sorry

end Midi.Props.C12
