/-
C03  All ShortMessage implementations are observationally equivalent.
-/
import Midi.Props.C01
import Midi.Props.C02
set_option linter.unusedSimpArgs false
namespace Midi.Props.C03
open Midi Midi.Spec

/-- every derived trait method (all accessors and the structured form), as one tuple -/
def accessors {α} (I : Impl α) (x : α) :=
  (msgType I x, superType I x, mainCategory I x, channel I x, keyNumber I x, velocity I x,
   controllerNumber I x, controlValue I x, programNumber I x, pressureAmount I x, pitchBendValue I x,
   isNote I x, isNoteOn I x, isNoteOff I x, toStructured I x)

/-- the same tuple read off the MIDI table -/
def specAccessors (b : Bytes) : Res MsgType × Res SuperType × Res MainCategory × Res (Option Nat) ×
    Res (Option Nat) × Res (Option Nat) × Res (Option Nat) × Res (Option Nat) × Res (Option Nat) ×
    Res (Option Nat) × Res (Option Nat) × Res Bool × Res Bool × Res Bool × Res SMsg :=
  (.ok (specType b.status), .ok (specSuper b), .ok (specMain b.status), .ok (specChannel b.status),
   .ok (specKey b), .ok (specVelocity b), .ok (specControllerNumber b), .ok (specControlValue b),
   .ok (specProgramNumber b), .ok (specPressure b), .ok (specPitchBend b), .ok (specIsNote b),
   .ok (specIsNoteOn b), .ok (specIsNoteOff b), .ok (specStructured b))

/-- (i) For ANY implementor — a universally quantified record of getters, with or without consistent
    `to_bytes` / `to_structured` overrides — every derived method is a function of the three bytes alone:
    it answers exactly what RawShortMessage answers for the same bytes.  No validity hypothesis. -/
theorem derived_from_getters {α} (I : Impl α) (x : α) (hl : I.LawfulAt x) :
    accessors I x = accessors rawImpl (bytesOf I x) ∧
    (∀ {β} (F : Factory β), toOther I F x = toOther rawImpl F (bytesOf I x)) := by
  have hs : toStructured I x = toStructured rawImpl (bytesOf I x) := by
    unfold toStructured
    cases hov : I.toStructuredOverride with
    | none => simp only [rawImpl]; rw [hl.1]
    | some f =>
      simp only [rawImpl]
      have := hl.2 f hov
      rw [hl.1] at this
      exact this.symm
  refine ⟨?_, ?_⟩
  · unfold accessors isNoteOn isNoteOff
    rw [hs]
    rfl
  · intro β F; unfold toOther; rw [hl.1]; rfl

/-- all accessors of a lawful implementor with valid bytes follow the table (C02 in one statement) -/
theorem accessors_eq_spec {α} (I : Impl α) (x : α) (hl : I.LawfulAt x) (hv : (bytesOf I x).Valid) :
    accessors I x = specAccessors (bytesOf I x) := by
  have a := C02.type_eq_spec I x hv
  have b := C02.super_main_eq_spec I x hv
  have c := C02.channel_eq_spec I x hv
  have d := C02.accessors_eq_spec I x hv
  have e := C02.structured_eq_spec I x hl hv
  have f := C02.note_predicates I x hl hv
  unfold accessors specAccessors
  rw [a.1, b.1, b.2, c, d.1, d.2.1, d.2.2.1, d.2.2.2.1, d.2.2.2.2.1, d.2.2.2.2.2.1, d.2.2.2.2.2.2.1,
    d.2.2.2.2.2.2.2, e, f.1, f.2]
  rfl

/-- the table does not look at information-free parts -/
theorem spec_canon (b : Bytes) (hv : b.Valid) : specAccessors (canon b) = specAccessors b := by
  obtain ⟨s, d1, d2⟩ := b
  obtain ⟨h1, h2, h3, h4⟩ := hv
  simp only at h1 h2 h3 h4
  have hq : specQFrame (if d1 / 16 = 7 then d1 - d1 / 8 % 2 * 8 else d1) = specQFrame d1 := by
    have : ∀ d : Fin 128, specQFrame (if d.val / 16 = 7 then d.val - d.val / 8 % 2 * 8 else d.val) = specQFrame d.val := by
      decide +kernel
    exact this ⟨d1, h3⟩
  rcases status_cases s h1 h2 with h | h
  · have e1 : (s < 192) = (s / 16 < 12) := by apply propext; omega
    have e2 : (s < 224) = (s / 16 < 14) := by apply propext; omega
    have e3 : (s < 240) = (s / 16 < 15) := by apply propext; omega
    have n1 : s ≠ 241 := by omega
    rcases h with h | h | h | h | h | h | h <;>
      simp [specAccessors, canon, canonD1, canonD2, specDataLen, specType, specSuper, specMain, specChannel, specKey,
        specVelocity, specControllerNumber, specControlValue, specProgramNumber, specPressure, specPitchBend,
        specIsNote, specIsNoteOn, specIsNoteOff, specStructured, h, e1, e2, e3, n1]
  · rcases h with h | h | h | h | h | h | h | h | h | h | h | h | h | h | h | h <;>
      simp [specAccessors, canon, canonD1, canonD2, specDataLen, specType, specSuper, specMain, specChannel, specKey,
        specVelocity, specControllerNumber, specControlValue, specProgramNumber, specPressure, specPitchBend,
        specIsNote, specIsNoteOn, specIsNoteOff, specStructured, h, hq]

/-- (ii) RawShortMessage and the StructuredShortMessage converted from it agree on every accessor; the only
    difference is that the structured one reports the canonical (information-free parts zeroed) data bytes -/
theorem raw_vs_structured (b : Bytes) (hv : b.Valid) :
    ∃ m, SMsg.ofBytesUnchecked b = .ok m ∧ accessors structuredImpl m = accessors rawImpl b ∧
      bytesOf structuredImpl m = canon b := by
  refine ⟨specStructured b, structured_ofBytes b hv, ?_, (C01.structured_bytes b hv).2⟩
  have hb := (C01.structured_bytes b hv).2
  have hc := (C01.canon_idem b hv).2.1
  have hl : structuredImpl.LawfulAt (specStructured b) := by
    refine ⟨rfl, ?_⟩
    intro f hf
    simp [structuredImpl] at hf
    subst hf
    show SMsg.ofBytesUnchecked (bytesOf structuredImpl (specStructured b)) = _
    rw [hb, structured_ofBytes _ hc]
    have := spec_canon b hv
    simp [specAccessors] at this
    simp [this]
  rw [accessors_eq_spec structuredImpl _ hl (by rw [hb]; exact hc), hb, spec_canon b hv]
  exact (accessors_eq_spec rawImpl b (rawImpl_lawful b) hv).symm

/-- (iii) conversions commute with every accessor: converting any lawful implementor's value to a
    RawShortMessage or to a StructuredShortMessage (to_other / from_other / to_structured) preserves the
    answers of all accessors -/
theorem conversions_commute {α} (I : Impl α) (x : α) (hl : I.LawfulAt x) (hv : (bytesOf I x).Valid) :
    (∃ r, toOther I rawFactory x = .ok r ∧ fromOther rawFactory I x = .ok r ∧
        accessors rawImpl r = accessors I x ∧ bytesOf rawImpl r = bytesOf I x) ∧
    (∃ m, toOther I structuredFactory x = .ok m ∧ fromOther structuredFactory I x = .ok m ∧
        toStructured I x = .ok m ∧
        accessors structuredImpl m = accessors I x ∧ bytesOf structuredImpl m = canon (bytesOf I x)) := by
  have hd := derived_from_getters I x hl
  constructor
  · refine ⟨bytesOf I x, ?_, ?_, hd.1.symm, rfl⟩
    · rw [hd.2]; rfl
    · unfold fromOther; rw [hd.2]; rfl
  · obtain ⟨m, h1, h2, h3⟩ := raw_vs_structured (bytesOf I x) hv
    refine ⟨m, ?_, ?_, ?_, ?_, h3⟩
    · rw [hd.2]; exact h1
    · unfold fromOther; rw [hd.2]; exact h1
    · rw [toStructured_spec I x hl hv, structured_ofBytes _ hv] at *; exact h1
    · rw [h2]; exact hd.1.symm

/-! non-vacuity: both crate implementations and a getter-only implementor are lawful -/
example : rawImpl.LawfulAt ⟨0x93, 60, 0⟩ ∧ (bytesOf rawImpl ⟨0x93, 60, 0⟩).Valid := ⟨rawImpl_lawful _, by decide⟩
example (I : Impl Nat) (h : I.toBytes = fun x => ⟨I.status x, I.d1 x, I.d2 x⟩) (h2 : I.toStructuredOverride = none) (x : Nat) :
    I.LawfulAt x := ⟨by rw [h]; rfl, by intro f hf; rw [h2] at hf; cases hf⟩

end Midi.Props.C03
