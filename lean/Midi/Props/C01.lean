/-
C01  Short messages preserve their bytes: lossless, canonical round trips.
Property theorems only (helper lemmas live in Midi/Proofs).
-/
import Midi.Proofs.Short
set_option linter.unusedSimpArgs false
namespace Midi.Props.C01
open Midi Midi.Spec

/-- `from_bytes` succeeds exactly when the status byte is at least 0x80 — for every factory
    implementation `F`; on success it is `from_bytes_unchecked` of the same bytes. -/
theorem fromBytes_iff {α} (F : Factory α) (b : Bytes) (h : b.InRange) :
    fromBytes F b = if 128 ≤ b.status then (F.ofBytesUnchecked b).map some else .ok none := by
  unfold fromBytes
  by_cases h1 : 128 ≤ b.status
  · rw [if_pos h1, extractType_valid _ h1 h.1]
    cases F.ofBytesUnchecked b <;> rfl
  · rw [if_neg h1, extractType_invalid _ (by omega)]; rfl

/-- RawShortMessage: accepted iff status ≥ 0x80, and then returns exactly the bytes it was made from -/
theorem raw_fromBytes (b : Bytes) (h : b.InRange) :
    fromBytes rawFactory b = .ok (if 128 ≤ b.status then some b else none) := by
  rw [fromBytes_iff _ _ h]; by_cases h1 : 128 ≤ b.status <;> simp [h1, rawFactory, Except.map]

theorem raw_roundtrip (b : Bytes) :
    rawImpl.toBytes b = b ∧ bytesOf rawImpl b = b ∧ rawFactory.ofBytesUnchecked b = .ok b := ⟨rfl, rfl, rfl⟩

/-- StructuredShortMessage: accepted iff status ≥ 0x80, value = the structured form of the MIDI table -/
theorem structured_fromBytes (b : Bytes) (h : b.InRange) :
    fromBytes structuredFactory b = .ok (if 128 ≤ b.status then some (specStructured b) else none) := by
  rw [fromBytes_iff _ _ h]
  by_cases h1 : 128 ≤ b.status
  · have hv : b.Valid := ⟨h1, h.1, h.2.1, h.2.2⟩
    simp [h1, structuredFactory, structured_ofBytes b hv, Except.map]
  · simp [h1]

/-- ... and it returns the bytes with only the information-free parts zeroed (`canon`) -/
theorem structured_bytes (b : Bytes) (hv : b.Valid) :
    structuredImpl.toBytes (specStructured b) = canon b ∧ bytesOf structuredImpl (specStructured b) = canon b := by
  obtain ⟨s, d1, d2⟩ := b
  obtain ⟨h1, h2, h3, h4⟩ := hv
  simp only at h1 h2 h3 h4
  have key : bytesOf structuredImpl (specStructured ⟨s, d1, d2⟩) = canon ⟨s, d1, d2⟩ := by
    rcases status_cases s h1 h2 with h | h
    · have hc : s % 16 < 16 := by omega
      have e1 : (s < 192) = (s / 16 < 12) := by apply propext; omega
      have e2 : (s < 224) = (s / 16 < 14) := by apply propext; omega
      have e3 : (s < 240) = (s / 16 < 15) := by apply propext; omega
      have n1 : s ≠ 241 := by omega
      rcases h with h | h | h | h | h | h | h <;>
        simp [bytesOf, structuredImpl, specStructured, specType, canon, canonD1, canonD2, specDataLen, h, SMsg.statusByte,
          SMsg.dataByte1, SMsg.dataByte2, MsgType.toU8, buildStatusByte_eq _ _ _ hc, e1, e2, e3, n1] <;> omega
    · rcases h with h | h | h | h | h | h | h | h | h | h | h | h | h | h | h | h <;>
        simp [bytesOf, structuredImpl, specStructured, specType, canon, canonD1, canonD2, specDataLen, h, SMsg.statusByte,
          SMsg.dataByte1, SMsg.dataByte2, MsgType.toU8, qf_toU7_spec _ h3] <;> omega
  exact ⟨key, key⟩

/-- the canonical form is canonical: idempotent, valid, and only ever clears bits -/
theorem canon_idem (b : Bytes) (hv : b.Valid) :
    canon (canon b) = canon b ∧ (canon b).Valid ∧ (canon b).status = b.status
      ∧ (canon b).d1 ≤ b.d1 ∧ (canon b).d2 ≤ b.d2 := by
  obtain ⟨s, d1, d2⟩ := b
  obtain ⟨h1, h2, h3, h4⟩ := hv
  simp only at h1 h2 h3 h4
  have hc := canonD1_facts s d1 h3
  have hd : canonD2 s (canonD2 s d2) = canonD2 s d2 ∧ canonD2 s d2 ≤ d2 := by
    unfold canonD2; split <;> simp [*]
  simp only [canon, Bytes.Valid, hc.1, hd.1]
  refine ⟨trivial, ⟨h1, h2, ?_, ?_⟩, trivial, hc.2, hd.2⟩ <;> omega

/-- raw → structured → raw is idempotent: converting the canonical bytes again changes nothing -/
theorem raw_structured_raw_idem (b : Bytes) (hv : b.Valid) :
    SMsg.ofBytesUnchecked (canon b) = SMsg.ofBytesUnchecked b := by
  have hc := canon_idem b hv
  rw [structured_ofBytes b hv, structured_ofBytes _ hc.2.1]
  obtain ⟨s, d1, d2⟩ := b
  obtain ⟨h1, h2, h3, h4⟩ := hv
  simp only at h1 h2 h3 h4
  congr 1
  rcases status_cases s h1 h2 with h | h
  · have e1 : (s < 192) = (s / 16 < 12) := by apply propext; omega
    have e2 : (s < 224) = (s / 16 < 14) := by apply propext; omega
    have e3 : (s < 240) = (s / 16 < 15) := by apply propext; omega
    have n1 : s ≠ 241 := by omega
    rcases h with h | h | h | h | h | h | h <;>
      simp [specStructured, specType, canon, canonD1, canonD2, specDataLen, h, e1, e2, e3, n1]
  · rcases h with h | h | h | h | h | h | h | h | h | h | h | h | h | h | h | h <;>
      simp [specStructured, specType, canon, canonD1, canonD2, specDataLen, h]
    -- quarter frame: clearing the reserved bit does not change the frame
    have : ∀ d : Fin 128, specQFrame (if d.val / 16 = 7 then d.val - d.val / 8 % 2 * 8 else d.val) = specQFrame d.val := by
      decide +kernel
    exact this ⟨d1, h3⟩

/-- every StructuredShortMessage value is a fixed point of all conversions: to bytes and back,
    to_structured, to a RawShortMessage and back -/
theorem structured_fixed (m : SMsg) (hm : m.Valid) :
    (bytesOf structuredImpl m).Valid
    ∧ SMsg.ofBytesUnchecked (structuredImpl.toBytes m) = .ok m
    ∧ toStructured structuredImpl m = .ok m
    ∧ toOther structuredImpl structuredFactory m = .ok m
    ∧ (∀ r, toOther structuredImpl rawFactory m = .ok r → toStructured rawImpl r = .ok m ∧
          fromOther structuredFactory rawImpl r = .ok m) := by
  have hb : structuredImpl.toBytes m = bytesOf structuredImpl m := rfl
  have key : (bytesOf structuredImpl m).Valid ∧ specStructured (bytesOf structuredImpl m) = m := by
    cases m <;> simp only [SMsg.Valid] at hm
    case timeCodeQuarterFrame f =>
      have hq : ∀ f : QFrame, f.Valid → f.toU7 < 128 ∧ specQFrame f.toU7 = f := by
        intro f hf
        have h16 : ∀ v : Fin 16, (QFrame.frameCountLs v.val).toU7 < 128 ∧ specQFrame (QFrame.frameCountLs v.val).toU7 = .frameCountLs v.val
            ∧ (QFrame.frameCountMs v.val).toU7 < 128 ∧ specQFrame (QFrame.frameCountMs v.val).toU7 = .frameCountMs v.val
            ∧ (QFrame.secondsLs v.val).toU7 < 128 ∧ specQFrame (QFrame.secondsLs v.val).toU7 = .secondsLs v.val
            ∧ (QFrame.secondsMs v.val).toU7 < 128 ∧ specQFrame (QFrame.secondsMs v.val).toU7 = .secondsMs v.val
            ∧ (QFrame.minutesLs v.val).toU7 < 128 ∧ specQFrame (QFrame.minutesLs v.val).toU7 = .minutesLs v.val
            ∧ (QFrame.minutesMs v.val).toU7 < 128 ∧ specQFrame (QFrame.minutesMs v.val).toU7 = .minutesMs v.val
            ∧ (QFrame.hoursLs v.val).toU7 < 128 ∧ specQFrame (QFrame.hoursLs v.val).toU7 = .hoursLs v.val := by
          decide +kernel
        cases f with
        | last b t => cases b <;> cases t <;> decide
        | frameCountLs v => have := h16 ⟨v, hf⟩; exact ⟨this.1, this.2.1⟩
        | frameCountMs v => have := h16 ⟨v, hf⟩; exact ⟨this.2.2.1, this.2.2.2.1⟩
        | secondsLs v => have := h16 ⟨v, hf⟩; exact ⟨this.2.2.2.2.1, this.2.2.2.2.2.1⟩
        | secondsMs v => have := h16 ⟨v, hf⟩; exact ⟨this.2.2.2.2.2.2.1, this.2.2.2.2.2.2.2.1⟩
        | minutesLs v => have := h16 ⟨v, hf⟩; exact ⟨this.2.2.2.2.2.2.2.2.1, this.2.2.2.2.2.2.2.2.2.1⟩
        | minutesMs v => have := h16 ⟨v, hf⟩; exact ⟨this.2.2.2.2.2.2.2.2.2.2.1, this.2.2.2.2.2.2.2.2.2.2.2.1⟩
        | hoursLs v => have := h16 ⟨v, hf⟩; exact ⟨this.2.2.2.2.2.2.2.2.2.2.2.2.1, this.2.2.2.2.2.2.2.2.2.2.2.2.2⟩
      have := hq f hm
      simp [bytesOf, structuredImpl, SMsg.statusByte, SMsg.dataByte1, SMsg.dataByte2, MsgType.toU8,
        Bytes.Valid, specStructured, specType, this.1, this.2]
    case songPositionPointer p =>
      simp [bytesOf, structuredImpl, SMsg.statusByte, SMsg.dataByte1, SMsg.dataByte2, MsgType.toU8,
        Bytes.Valid, specStructured, specType]; omega
    case songSelect p =>
      simp [bytesOf, structuredImpl, SMsg.statusByte, SMsg.dataByte1, SMsg.dataByte2, MsgType.toU8,
        Bytes.Valid, specStructured, specType]; omega
    case noteOff c _ _ | noteOn c _ _ | polyphonicKeyPressure c _ _ | controlChange c _ _ | programChange c _
        | channelPressure c _ | pitchBendChange c _ =>
      have hc := hm.1
      have e1 : ∀ t, t % 16 = 0 → (t + c) / 16 = t / 16 := by intro t ht; omega
      have e2 : ∀ t, t % 16 = 0 → (t + c) % 16 = c := by intro t ht; omega
      simp [bytesOf, structuredImpl, SMsg.statusByte, SMsg.dataByte1, SMsg.dataByte2, MsgType.toU8,
        Bytes.Valid, specStructured, specType, buildStatusByte_eq _ _ _ hc, e1, e2] <;> omega
    all_goals
      simp [bytesOf, structuredImpl, SMsg.statusByte, SMsg.dataByte1, SMsg.dataByte2, MsgType.toU8,
        Bytes.Valid, specStructured, specType]
  obtain ⟨hv, hs⟩ := key
  have h2 : SMsg.ofBytesUnchecked (structuredImpl.toBytes m) = .ok m := by
    rw [hb, structured_ofBytes _ hv, hs]
  refine ⟨hv, h2, rfl, h2, ?_⟩
  intro r hr
  have : r = bytesOf structuredImpl m := by
    simp [toOther, rawFactory] at hr; rw [← hr]; rfl
  subst this
  have h3 : toStructured rawImpl (bytesOf structuredImpl m) = .ok m := by
    have hv' : (bytesOf rawImpl (bytesOf structuredImpl m)).Valid := hv
    rw [toStructured_spec rawImpl _ (rawImpl_lawful _) hv']
    exact congrArg _ hs
  refine ⟨h3, ?_⟩
  show SMsg.ofBytesUnchecked (bytesOf structuredImpl m) = _
  rw [structured_ofBytes _ hv, hs]

/-- quarter-frame codec: frame → U7 → frame is the identity for every frame -/
theorem qf_codec (f : QFrame) (hf : f.Valid) : f.toU7 < 128 ∧ QFrame.ofU7 f.toU7 = .ok f := by
  have := (structured_fixed (.timeCodeQuarterFrame f) hf)
  have hv := this.1
  simp [bytesOf, structuredImpl, SMsg.dataByte1, Bytes.Valid] at hv
  have h2 := this.2.1
  refine ⟨hv.2.2.1, ?_⟩
  rw [qf_ofU7 _ hv.2.2.1]
  have h3 : (bytesOf structuredImpl (SMsg.timeCodeQuarterFrame f)).Valid := this.1
  rw [show structuredImpl.toBytes (SMsg.timeCodeQuarterFrame f) = bytesOf structuredImpl (SMsg.timeCodeQuarterFrame f) from rfl,
    structured_ofBytes _ h3] at h2
  simp [specStructured, bytesOf, structuredImpl, SMsg.statusByte, MsgType.toU8, specType, SMsg.dataByte1] at h2
  rw [h2]

/-- U7 → frame → U7 clears only the reserved bit of a 'last' frame -/
theorem qf_codec' (d : Nat) (h : d < 128) :
    ∃ f, QFrame.ofU7 d = .ok f ∧ f.Valid ∧ f.toU7 = if d / 16 = 7 then d - d / 8 % 2 * 8 else d :=
  ⟨specQFrame d, qf_ofU7 d h, specQFrame_valid d h, qf_toU7_spec d h⟩

/-- message type ↔ u8: into then try_from is the identity; try_from succeeds only on a discriminant -/
theorem type_u8_codec :
    (∀ t : MsgType, MsgType.ofU8 t.toU8 = some t ∧ 128 ≤ t.toU8 ∧ t.toU8 < 256) ∧
    (∀ n t, MsgType.ofU8 n = some t → t.toU8 = n) ∧
    (∀ n, n < 256 → ((MsgType.ofU8 n).isSome ↔ n ∈ Gen.messageTypeValues)) := by
  refine ⟨?_, ?_, ?_⟩
  · intro t; cases t <;> decide
  · intro n t h
    have := List.find?_some h
    simpa using this
  · intro n hn
    have : ∀ n : Fin 256, ((MsgType.ofU8 n.val).isSome ↔ n.val ∈ Gen.messageTypeValues) := by decide +kernel
    exact this ⟨n, hn⟩

/-! non-vacuity: concrete instances of the hypotheses -/
example : (⟨0xF1, 0x7A, 5⟩ : Bytes).Valid ∧ canon ⟨0xF1, 0x7A, 5⟩ = ⟨0xF1, 0x72, 0⟩ := by decide
example : (SMsg.pitchBendChange 15 16383).Valid ∧ (QFrame.last true .fps30NonDrop).Valid := by decide

end Midi.Props.C01
