/-
C07  14-bit Control Change: encoding is correct and the scanner inverts it.
-/
import Midi.Proofs.CC14
set_option linter.unusedSimpArgs false
namespace Midi.Props.C07
open Midi Midi.Spec

/-- a message can be created exactly for MSB controller numbers 0–31 (any controller number 0–127) -/
theorem new_ok_iff (ch n v : Nat) (hn : n < 128) :
    CC14Msg.new ch n v = if n < 32 then .ok ⟨ch, n, v⟩ else .error .cc14MsbAssert := by
  unfold CC14Msg.new cnLsbOf
  by_cases h : n < 32
  · have h1 : ¬ n ≥ 32 := by omega
    have h2 : ¬ n + 32 ≥ 256 := by omega
    simp [h, h1, h2, bind, Except.bind]
  · have h1 : n ≥ 32 := by omega
    simp [h, h1, bind, Except.bind]

/-- accessors: LSB controller number = MSB controller number + 32, never panics on a valid message -/
theorem lsb_eq (m : CC14Msg) (hm : m.Valid) : m.lsb = .ok (m.msb + 32) := by
  unfold CC14Msg.lsb cnLsbOf
  have h1 : ¬ m.msb ≥ 32 := by have := hm.2.1; omega
  have h2 : ¬ m.msb + 32 ≥ 256 := by have := hm.2.1; omega
  simp [h1, h2, bind, Except.bind]

/-- encoding: controller n with the high 7 bits, then controller n+32 with the low 7 bits, on the message's
    channel — as RawShortMessages and as StructuredShortMessages -/
theorem encode (m : CC14Msg) (hm : m.Valid) :
    m.toShortMessages rawFactory = .ok (specCC14Encoding m) ∧
    m.toShortMessages structuredFactory =
      .ok [.controlChange m.channel m.msb (m.value / 128), .controlChange m.channel (m.msb + 32) (m.value % 128)] ∧
    (∀ b ∈ specCC14Encoding m, b.Valid) := by
  obtain ⟨hc, hn, hv⟩ := hm
  have hst : buildStatusByte MsgType.controlChange.toU8 m.channel = 176 + m.channel := by
    simp [MsgType.toU8, buildStatusByte_eq _ _ _ hc]
  have hl := lsb_eq m ⟨hc, hn, hv⟩
  have hv1 : m.value / 128 % 128 = m.value / 128 := by omega
  refine ⟨?_, ?_, ?_⟩
  · simp [CC14Msg.toShortMessages, mkControlChange, rawFactory, hl, hst, bind, Except.bind, specCC14Encoding, hv1]
  · have v1 : (⟨176 + m.channel, m.msb, m.value / 128⟩ : Bytes).Valid := cc_valid _ _ _ hc (by omega) (by omega)
    have v2 : (⟨176 + m.channel, m.msb + 32, m.value % 128⟩ : Bytes).Valid := cc_valid _ _ _ hc (by omega) (by omega)
    have e1 : (176 + m.channel) / 16 = 11 := by omega
    have e2 : (176 + m.channel) % 16 = m.channel := by omega
    simp [CC14Msg.toShortMessages, mkControlChange, structuredFactory, hl, hst, bind, Except.bind, hv1,
      structured_ofBytes _ v1, structured_ofBytes _ v2, specStructured, specType, e1, e2]
  · intro b hb
    simp [specCC14Encoding] at hb
    rcases hb with rfl | rfl
    · exact cc_valid _ _ _ hc (by omega) (by omega)
    · exact cc_valid _ _ _ hc (by omega) (by omega)

/-- a scanner state that some per-channel abstraction describes (every reachable state is one) -/
def WF (s : CCScanner) : Prop := ∃ f, CCAbsRel s f

theorem reachable_wf (ops : List Op) (hv : ∀ op ∈ ops, op.Valid) :
    ∃ s outs, ccRun CCScanner.new ops = .ok (s, outs) ∧ WF s := by
  obtain ⟨s, h, r⟩ := cc_run CCScanner.new [] ccRel_new ops hv
  exact ⟨s, _, h, _, r⟩

/-- Feeding the two encoded messages — whatever the scanner has been fed before (any WF state, hence any state
    reachable by any history) — yields nothing for the first and exactly the original message for the second. -/
theorem roundtrip (s : CCScanner) (hs : WF s) (m : CC14Msg) (hm : m.Valid) :
    ∃ s1 s2, s.feed rawImpl ⟨176 + m.channel, m.msb, m.value / 128⟩ = .ok (s1, none) ∧
      s1.feed rawImpl ⟨176 + m.channel, m.msb + 32, m.value % 128⟩ = .ok (s2, some m) ∧ WF s2 := by
  obtain ⟨f, hf⟩ := hs
  obtain ⟨hc, hn, hv⟩ := hm
  have v1 : (⟨176 + m.channel, m.msb, m.value / 128⟩ : Bytes).Valid := cc_valid _ _ _ hc (by omega) (by omega)
  have v2 : (⟨176 + m.channel, m.msb + 32, m.value % 128⟩ : Bytes).Valid := cc_valid _ _ _ hc (by omega) (by omega)
  obtain ⟨s1, h1, r1⟩ := cc_feed_abs s f hf _ v1
  obtain ⟨s2, h2, r2⟩ := cc_feed_abs s1 _ r1 _ v2
  refine ⟨s1, s2, ?_, ?_, _, r2⟩
  · rw [h1]; congr 2
    have : ¬ (32 ≤ m.msb) := by omega
    simp [just14, this]
  · rw [h2]; congr 2
    have e : 176 + m.channel - 176 = m.channel := by omega
    have hon : ccOn m.channel ⟨176 + m.channel, m.msb, m.value / 128⟩ = true := by simp [ccOn]
    have hlt : m.msb < 32 := hn
    have hj : 176 ≤ 176 + m.channel ∧ 176 + m.channel < 192 ∧ 32 ≤ m.msb + 32 ∧ m.msb + 32 < 64 := by omega
    simp only [just14, e, msbStep, hon, hlt, decide_true, Bool.and_self, if_true, hj, and_self]
    simp
    cases m; simp at *; omega

/-! non-vacuity -/
example : WF CCScanner.new := ⟨_, ccRel_new⟩
example : (⟨5, 2, 1057⟩ : CC14Msg).Valid ∧ specCC14Encoding ⟨5, 2, 1057⟩ = [⟨181, 2, 8⟩, ⟨181, 34, 33⟩] := by decide

end Midi.Props.C07
