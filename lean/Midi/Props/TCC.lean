/-
Property theorems restated for the code AS TRANSLATED from the Rust source by tools/rs2lean.py:
control_change_14_bit_message_scanner.rs (Midi/Gen/CCScan) — regenerated from /repo's working tree on every run.
Each theorem follows from the theorem about the hand-written model and the proved equivalence of the translated code
with that model (Midi/Proofs/Gen*.lean), so a change to the source file that alters behaviour breaks these theorems
even where no test input exposes it.
-/
import Midi.Proofs.GenCC
import Midi.Props.C07
import Midi.Props.C08
import Midi.Props.C15
import Midi.Props.C16
import Midi.Props.C17
set_option linter.unusedSimpArgs false
set_option linter.unusedVariables false

namespace Midi.Props.TCC
open Midi Midi.Spec Midi.Gen Midi.GenTie Midi.GenTie.CC

abbrev Scanner := CCScan.ControlChange14BitMessageScanner

/-- `new()` never panics and is `default()` -/
theorem new_is_default : CCScan.ControlChange14BitMessageScanner.new = .ok default := rfl

@[simp] theorem scanner_default : scanner (default : Scanner) = CCScanner.new := by
  rw [default_eq, scanner_gscanner]

/-- C08 for the translated scanner: for ALL histories of valid feeds and resets the translated `feed`/`reset` never
    panic, every operation reports exactly what the history justifies, and so does the next input -/
theorem exact (past : List Op) (hp : ∀ op ∈ past, op.Valid) (m : Bytes) (hm : m.Valid) :
    ∃ s s', grun default past = .ok (expected14 [] past, s) ∧
      s.feed rawImpl m = .ok (justified14 past m, s') := by
  obtain ⟨s, s', h1, h2⟩ := C08.exact past hp m hm
  refine ⟨gscanner s, gscanner s', ?_, ?_⟩
  · rw [grun_eq, scanner_default, h1]; rfl
  · rw [feed, scanner_gscanner, h2]; rfl

/-- C08, data independence, for the translated scanner: relabelling the value bytes of every Control Change of the
    history and of the input by any `f` (into 0..127) relabels the two halves of the reported value, nothing else. -/
theorem data_independent (f : Nat → Nat) (hf : ∀ v, v < 128 → f v < 128)
    (past : List Op) (hp : ∀ op ∈ past, op.Valid) (m : Bytes) (hm : m.Valid) :
    ∃ s s', grun default (past.map (relabelOp f)) = .ok (expected14 [] (past.map (relabelOp f)), s) ∧
      s.feed rawImpl (relabelB f m) = .ok ((justified14 past m).map fun r =>
        { r with value := 128 * f (r.value / 128) + f (r.value % 128) }, s') := by
  rw [← C08.data_independent f past hp m hm]
  exact exact _ (relabel_valid f hf past hp) _ (relabelB_valid f hf m hm)

/-- C07 for the translated scanner: after ANY history, feeding the two encoded messages reports nothing, then
    exactly the original message -/
theorem roundtrip (past : List Op) (hp : ∀ op ∈ past, op.Valid) (m : CC14Msg) (hm : m.Valid) :
    ∃ s s1 s2 outs, grun default past = .ok (outs, s) ∧
      s.feed rawImpl ⟨176 + m.channel, m.msb, m.value / 128⟩ = .ok (none, s1) ∧
      s1.feed rawImpl ⟨176 + m.channel, m.msb + 32, m.value % 128⟩ = .ok (some m, s2) := by
  obtain ⟨s, outs, h, wf⟩ := C07.reachable_wf past hp
  obtain ⟨s1, s2, h1, h2, _⟩ := C07.roundtrip s wf m hm
  refine ⟨gscanner s, gscanner s1, gscanner s2, outs, ?_, ?_, ?_⟩
  · rw [grun_eq, scanner_default, h]; rfl
  · rw [feed, scanner_gscanner, h1]; rfl
  · rw [feed, scanner_gscanner, h2]; rfl

/-- C16 for the translated scanner: from EVERY state a non-contributing valid message reports nothing and leaves
    the scanner equal -/
theorem transparent (s : Scanner) (b : Bytes) (hv : b.Valid) (hn : ¬ C16.contributes14 b) :
    s.feed rawImpl b = .ok (none, s) := by
  rw [feed, C16.transparent_cc _ b hv hn]; simp [back]

/-- C17 for the translated scanner: `reset()` never panics and yields, from EVERY state, exactly `default()` = `new()` -/
theorem reset_is_new (s : Scanner) : s.reset = .ok ((), default) := by
  rw [reset, C17.reset_eq_new_cc, default_eq]

/-- C15 for the translated scanner: the reports for the operations concerning channel `c` in ANY interleaved
    history are exactly the reports of a translated scanner of its own fed only channel `c`'s inputs and the resets -/
theorem isolation (c : Nat) (hc : c < 16) (ops : List Op) (hv : ∀ op ∈ ops, op.Valid) :
    ∃ s s' o o', grun default ops = .ok (o, s) ∧ grun default (ops.filter (opOnChannel c)) = .ok (o', s') ∧
      outsOn c ops o = o' := by
  obtain ⟨s, s', h1, h2, h3⟩ := C15.isolation_cc c hc ops hv
  refine ⟨gscanner s, gscanner s', _, _, ?_, ?_, h3⟩
  · rw [grun_eq, scanner_default, h1]; rfl
  · rw [grun_eq, scanner_default, h2]; rfl

end Midi.Props.TCC
