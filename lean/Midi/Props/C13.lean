/-
C13  Polling scanner honours its timeout.
Per-channel statements about `PChan` (one channel's sub-scanner); by C15.isolation_polling the whole scanner
behaves on each channel exactly like that channel's sub-scanner on the channel's own events.
Time is the mock clock (natural number of nanoseconds); that the real clock is monotone is assumed.
-/
import Midi.Proofs.Polling
set_option linter.unusedSimpArgs false
namespace Midi.Props.C13
open Midi Midi.Spec

/-- poll returns a message ONLY IF a data entry MSB is pending and at least the timeout has passed since it was
    stamped; the message is the 7-bit data entry of that byte, and the channel leaves the pending state -/
theorem poll_some (c : PChan) (now ch : Nat) (m : PNMsg) (h : (c.poll now ch).2 = some m) :
    ∃ ns arr f, c.state = .valuePending ns arr f true ∧ c.timeout ≤ now - arr ∧
      m = .sevenBit ch ns.number f ns.isRegistered .dataEntry ∧
      (c.poll now ch).1 = { c with state := .waitingForFirstValue ns } := by
  obtain ⟨t, st⟩ := c
  cases st <;> simp [PChan.poll] at h
  rename_i ns arr f k
  by_cases hlt : now - arr < t
  · simp [hlt] at h
  · simp [hlt, resolvePending] at h
    cases k <;> simp at h
    refine ⟨ns, arr, f, rfl, by simp at hlt ⊢; omega, h.symm, ?_⟩
    simp [PChan.poll, hlt]

/-- a poll before the timeout returns nothing and has no effect -/
theorem poll_early (c : PChan) (now ch : Nat) (ns : NumberState) (arr f : Nat) (k : Bool)
    (hs : c.state = .valuePending ns arr f k) (h : now - arr < c.timeout) : c.poll now ch = (c, none) := by
  simp [PChan.poll, hs, h]

/-- a poll when nothing is pending returns nothing and has no effect -/
theorem poll_idle (c : PChan) (now ch : Nat) (h : ∀ ns arr f k, c.state ≠ .valuePending ns arr f k) :
    c.poll now ch = (c, none) := by
  obtain ⟨t, st⟩ := c
  cases st <;> simp [PChan.poll]
  rename_i ns arr f k
  exact absurd rfl (h ns arr f k)

/-- "once": after a poll that reported, further polls (at any later or earlier time) return nothing and change
    nothing — until new contributing input arrives -/
theorem poll_once (c : PChan) (now ch : Nat) (m : PNMsg) (h : (c.poll now ch).2 = some m) (now' : Nat) :
    (c.poll now ch).1.poll now' ch = ((c.poll now ch).1, none) := by
  obtain ⟨ns, arr, f, _, _, _, h4⟩ := poll_some c now ch m h
  rw [h4]
  exact poll_idle _ _ _ (by intro a b c d hh; simp at hh)

/-- an unpaired data entry LSB is dropped (not reported) by the first poll after the timeout -/
theorem lsb_dropped (c : PChan) (now ch : Nat) (ns : NumberState) (arr f : Nat)
    (hs : c.state = .valuePending ns arr f false) (h : c.timeout ≤ now - arr) :
    c.poll now ch = ({ c with state := .waitingForFirstValue ns }, none) := by
  have : ¬ (now - arr < c.timeout) := by omega
  simp [PChan.poll, hs, this, resolvePending]

/-- state with all arrival times erased -/
def eraseTime : PState → PState
  | .valuePending ns _ f k => .valuePending ns 0 f k
  | st => st

/-- the mere passage of time never changes what feed returns (nor the state, up to the time stamp) -/
theorem feed_time_indep (st : PState) (t1 t2 ch cn cv : Nat) :
    (st.onCC t1 ch cn cv).2 = (st.onCC t2 ch cn cv).2 ∧
    eraseTime (st.onCC t1 ch cn cv).1 = eraseTime (st.onCC t2 ch cn cv).1 := by
  unfold PState.onCC
  split <;> simp only
  all_goals try exact ⟨trivial, trivial⟩
  all_goals try exact ⟨rfl, rfl⟩
  · -- controller 38
    cases st <;> simp [PState.processValueLsb, eraseTime]
    all_goals (rename_i ns arr f k; cases k <;> simp [completePending, eraseTime])
  · -- controller 6
    cases st <;> simp [PState.processValueMsb, eraseTime]
    all_goals (rename_i ns arr f k; cases k <;> simp [completePending, eraseTime])

/-- a pending byte is always stamped with the time of the feed that delivered it: whenever a feed leaves the channel
    in a pending state, either nothing changed or the pending byte is the current message's value, stamped `now`,
    and the message was controller 6 (MSB) or 38 (LSB) -/
theorem arrival_stamped (st : PState) (now ch cn cv : Nat) (ns : NumberState) (arr f : Nat) (k : Bool)
    (h : (st.onCC now ch cn cv).1 = .valuePending ns arr f k) :
    st = .valuePending ns arr f k ∨ (arr = now ∧ f = cv ∧ cn = (if k then 6 else 38)) := by
  unfold PState.onCC at h
  split at h
  all_goals try (simp only at h)
  · cases st <;> simp [PState.processNumberByte] at h
    rename_i a b c; cases a <;> simp at h; split at h <;> simp at h
  · cases st <;> simp [PState.processNumberByte] at h
    rename_i a b c; cases a <;> simp at h; split at h <;> simp at h
  · cases st <;> simp [PState.processNumberByte] at h
    rename_i a b c; cases a <;> simp at h; split at h <;> simp at h
  · cases st <;> simp [PState.processNumberByte] at h
    rename_i a b c; cases a <;> simp at h; split at h <;> simp at h
  · cases st <;> simp [PState.processValueLsb] at h
    · right; obtain ⟨_, h2, h3, h4⟩ := h; subst h2 h3 h4; simp
    · rename_i ns' arr' f' k'; cases k' <;> simp [completePending] at h
  · cases st <;> simp [PState.processValueMsb] at h
    · right; obtain ⟨_, h2, h3, h4⟩ := h; subst h2 h3 h4; simp
    · rename_i ns' arr' f' k'; cases k' <;> simp [completePending] at h
      right; obtain ⟨_, h2, h3, h4⟩ := h; subst h2 h3 h4; simp
    · right; obtain ⟨_, h2, h3, h4⟩ := h; subst h2 h3 h4; simp
  · cases st <;> simp [PState.processValueIncDec] at h
    rename_i ns' arr' f' k'; cases k' <;> simp at h
  · cases st <;> simp [PState.processValueIncDec] at h
    rename_i ns' arr' f' k'; cases k' <;> simp at h
  · left; exact h

/-- History level, any starting state: if a byte is pending after a sequence of events of one channel, then either
    it was already pending (same byte, same stamp) at the start, or it was fed by a controller-6 (MSB) /
    controller-38 (LSB) message with that value at exactly the stamped time -/
theorem pending_origin' (ch : Nat) (c : PChan) (es : List PEv)
    (ns : NumberState) (arr f : Nat) (k : Bool) (h : (c.evs ch es).1.state = .valuePending ns arr f k) :
    PEv.cc (if k then 6 else 38) f arr ∈ es ∨ c.state = .valuePending ns arr f k := by
  induction es generalizing c with
  | nil => exact Or.inr h
  | cons e es ih =>
    simp only [PChan.evs] at h
    rcases ih (c.ev ch e).1 h with hin | hst
    · exact Or.inl (List.mem_cons_of_mem _ hin)
    · cases e with
      | reset => simp [PChan.ev, PState.default] at hst
      | poll now =>
        right
        simp only [PChan.ev, PChan.poll] at hst
        cases hc : c.state <;> simp [hc] at hst
        rename_i a b d g
        by_cases hlt : now - b < c.timeout
        · simp [hlt, hc] at hst; obtain ⟨h1, h2, h3, h4⟩ := hst; subst h1 h2 h3 h4; rfl
        · simp [hlt] at hst
      | cc cn cv now =>
        simp only [PChan.ev] at hst
        rcases arrival_stamped c.state now ch cn cv ns arr f k hst with hh | ⟨h1, h2, h3⟩
        · exact Or.inr hh
        · left; subst h1 h2 h3; exact List.mem_cons_self

/-- from a channel with nothing pending (a new or reset scanner): a pending byte was fed at its stamped time -/
theorem pending_origin (ch : Nat) (c : PChan) (es : List PEv)
    (h0 : ∀ ns arr f k, c.state ≠ .valuePending ns arr f k)
    (ns : NumberState) (arr f : Nat) (k : Bool) (h : (c.evs ch es).1.state = .valuePending ns arr f k) :
    PEv.cc (if k then 6 else 38) f arr ∈ es := by
  rcases pending_origin' ch c es ns arr f k h with h | h
  · exact h
  · exact absurd h (h0 _ _ _ _)

/-- Putting it together for one channel's whole history from a fresh sub-scanner: a poll at time `now` returns a
    message only if a controller-6 message with that value was fed at some time `arr` with `timeout ≤ now - arr`. -/
theorem poll_report_justified (ch timeout : Nat) (es : List PEv) (now : Nat) (m : PNMsg)
    (h : (((({ timeout := timeout } : PChan).evs ch es).1).poll now ch).2 = some m) :
    ∃ arr f, PEv.cc 6 f arr ∈ es ∧ timeout ≤ now - arr ∧ m.value = f ∧ m.is14Bit = false ∧ m.dataType = .dataEntry := by
  obtain ⟨ns, arr, f, hs, ht, hm, _⟩ := poll_some _ now ch m h
  have ho := pending_origin ch { timeout := timeout } es (by intro a b c d hh; simp [PState.default] at hh) ns arr f true hs
  have hto : (({ timeout := timeout } : PChan).evs ch es).1.timeout = timeout := evs_timeout ch _ es
  refine ⟨arr, f, by simpa using ho, ?_, ?_, ?_, ?_⟩
  · rw [hto] at ht; exact ht
  · rw [hm]; rfl
  · rw [hm]; rfl
  · rw [hm]; rfl

/-! ### the whole 16-channel scanner -/

/-- a Control Change event in a channel's view of a history is a Control Change that was fed on that channel -/
theorem project_cc_origin (c now : Nat) (ops : List TOp) (cn cv t : Nat) (h : PEv.cc cn cv t ∈ project c now ops) :
    TOp.feed ⟨176 + c, cn, cv⟩ ∈ ops := by
  induction ops generalizing now with
  | nil => simp [project] at h
  | cons op ops ih =>
    simp only [project] at h
    cases hp : projectOp c now op with
    | none => rw [hp] at h; exact List.mem_cons_of_mem _ (ih _ h)
    | some e =>
      rw [hp] at h
      rcases List.mem_cons.mp h with h | h
      · subst h
        cases op with
        | feed b =>
          simp only [projectOp] at hp
          split at hp
          · rename_i hs
            injection hp with hp; injection hp with h1 h2 h3
            obtain ⟨s, d1, d2⟩ := b
            simp only at hs h1 h2
            subst hs h1 h2
            exact List.mem_cons_self
          · cases hp
        | poll ch => simp only [projectOp] at hp; split at hp <;> first | (injection hp with hp; cases hp) | cases hp
        | reset => simp only [projectOp] at hp; injection hp with hp; cases hp
        | tick d => simp [projectOp] at hp
      · exact List.mem_cons_of_mem _ (ih _ h)

/-- C13 for the WHOLE scanner: after any interleaving of valid feeds on all 16 channels, polls, resets and time steps
    from `new(timeout)`, a poll of channel `c` returns a message only if a controller-6 message with that value was
    fed ON CHANNEL `c` at a time at least `timeout` before the poll; the message is that 7-bit data entry -/
theorem poll_justified_scanner (c : Nat) (hc : c < 16) (now timeout : Nat) (ops : List TOp) (hv : ∀ op ∈ ops, op.Valid) :
    ∃ n s outs, pRun now (PScanner.new timeout) ops = .ok ((n, s), outs) ∧
      ∀ s' m, s.poll n c = .ok (s', some m) →
        ∃ arr f, TOp.feed ⟨176 + c, 6, f⟩ ∈ ops ∧ timeout ≤ n - arr ∧ m.value = f ∧ m.is14Bit = false ∧
          m.dataType = .dataEntry := by
  obtain ⟨n, s, outs, h, _, hs, _⟩ := p_run_channel c hc now (PScanner.new timeout) ops hv
  refine ⟨n, s, outs, h, ?_⟩
  intro s' m hp
  have hnew : (PScanner.new timeout)[c] = ({ timeout := timeout } : PChan) := by simp [PScanner.new]
  unfold PScanner.poll at hp
  simp only [hc, dite_true] at hp
  injection hp with hp
  injection hp with _ hm
  rw [hs, hnew] at hm
  obtain ⟨arr, f, hmem, ht, h1, h2, h3⟩ := poll_report_justified c timeout (project c now ops) n m hm
  exact ⟨arr, f, project_cc_origin c now ops 6 f arr hmem, ht, h1, h2, h3⟩

end Midi.Props.C13
