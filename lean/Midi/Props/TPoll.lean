/-
Property theorems restated for the code AS TRANSLATED from the Rust source by tools/rs2lean.py:
polling_parameter_number_message_scanner.rs (Midi/Gen/PollScan) — regenerated from /repo's working tree on every run.
Each theorem follows from the theorem about the hand-written model and the proved equivalence of the translated code
with that model (Midi/Proofs/Gen*.lean), so a change to the source file that alters behaviour breaks these theorems
even where no test input exposes it.
-/
import Midi.Proofs.GenPoll
import Midi.Proofs.PollRelabelRun
import Midi.Props.C12
import Midi.Props.C13
import Midi.Props.C14
import Midi.Props.C15
import Midi.Props.C16
import Midi.Props.C17
set_option linter.unusedSimpArgs false
set_option linter.unusedVariables false

namespace Midi.Props.TPoll
open Midi Midi.Spec Midi.Gen Midi.GenTie Midi.GenTie.Poll

abbrev Scanner := PollScan.PollingParameterNumberMessageScanner

/-- the translated `new(timeout)` never panics; `default()` is `new` with a zero timeout (C17) -/
theorem default_is_new_zero : PollScan.PollingParameterNumberMessageScanner.new 0 = .ok default := by
  rw [new, default_eq]; rfl

@[simp] theorem scanner_new (t : Nat) : scanner (gscanner (PScanner.new t)) = PScanner.new t := scanner_gscanner _

/-- C12–C15 for the translated scanner: under ANY interleaving of valid feeds on all channels, polls, resets and time
    steps the translated `feed`/`poll`/`reset` never panic, and for every channel the results of the operations that
    concern it are exactly those of the per-channel machine `PChan.evs` (the object of the C12, C13 and C14 theorems)
    run alone on that channel's own events -/
theorem run_is_channelwise (c : Nat) (hc : c < 16) (now timeout : Nat) (ops : List TOp) (hv : ∀ op ∈ ops, op.Valid) :
    ∃ s0 now' s' outs, PollScan.PollingParameterNumberMessageScanner.new timeout = .ok s0 ∧
      grun now s0 ops = .ok (outs, (now', s')) ∧ outs.length = ops.length ∧
      outputsOn c now ops outs = (({ timeout := timeout } : PChan).evs c (project c now ops)).2 := by
  obtain ⟨n, s, outs, h, hl, _, ho⟩ := p_run_channel c hc now (PScanner.new timeout) ops hv
  refine ⟨gscanner (PScanner.new timeout), n, gscanner s, outs, new timeout, ?_, hl, ?_⟩
  · rw [grun_eq, scanner_new, h]; rfl
  · rw [ho]; simp [PScanner.new]

/-- C14 for the translated scanner as a whole: under ANY interleaving of valid feeds on all 16 channels, polls, resets
    and time steps it never panics and, for every channel, the trace monitor of Spec/Monitor.lean (the property text as
    a history observer) accepts the sequence of (event of that channel, what the translated call returned) -/
theorem monitor_accepts (c : Nat) (hc : c < 16) (now timeout : Nat) (ops : List TOp) (hv : ∀ op ∈ ops, op.Valid) :
    ∃ s0 now' s' outs, PollScan.PollingParameterNumberMessageScanner.new timeout = .ok s0 ∧
      grun now s0 ops = .ok (outs, (now', s')) ∧
      ({} : Mon).accepts c timeout ((project c now ops).zip (outputsOn c now ops outs)) = true := by
  obtain ⟨n, s, outs, h, hacc⟩ := C14.monitor_accepts_scanner c hc now timeout ops hv
  refine ⟨gscanner (PScanner.new timeout), n, gscanner s, outs, new timeout, ?_, hacc⟩
  rw [grun_eq, scanner_new, h]; rfl

/-- C12 for the translated scanner as a whole: in ANY interleaved history in which channel `c` sees a good schedule of a
    non-empty sentence of the documented grammar followed by a poll after the timeout, the translated `feed` / `poll`
    never panic and report for channel `c` exactly the intended messages, each once and in order -/
theorem sentences (c : Nat) (hc : c < 16) (now timeout t tEnd : Nat) (ops : List TOp) (hv : ∀ op ∈ ops, op.Valid)
    (bs : List Block) (hne : bs ≠ []) (hb : ∀ b ∈ bs, b.Valid) (sched : List Timed) (hg : Good timeout t bs sched)
    (hend : C12.lastTime sched + timeout ≤ tEnd)
    (hview : project c now ops = schedEvents sched ++ [.poll tEnd]) :
    ∃ s0 n s outs, PollScan.PollingParameterNumberMessageScanner.new timeout = .ok s0 ∧
      grun now s0 ops = .ok (outs, (n, s)) ∧ reports (outputsOn c now ops outs) = intended c bs := by
  obtain ⟨n, sh, outs, h, hr⟩ := C12.sentences_scanner c hc now timeout t tEnd ops hv bs hne hb sched hg hend hview
  refine ⟨gscanner (PScanner.new timeout), n, gscanner sh, outs, new timeout, ?_, hr⟩
  rw [grun_eq, scanner_new, h]; rfl

/-- C13 for the translated scanner as a whole: after ANY interleaving from `new(timeout)`, the translated `poll(c)`
    returns a message only if a controller-6 message with that value was fed on channel `c` at least `timeout` before
    the poll; the message is that 7-bit data entry -/
theorem poll_justified (c : Nat) (hc : c < 16) (now timeout : Nat) (ops : List TOp) (hv : ∀ op ∈ ops, op.Valid) :
    ∃ s0 n s outs, PollScan.PollingParameterNumberMessageScanner.new timeout = .ok s0 ∧
      grun now s0 ops = .ok (outs, (n, s)) ∧
      ∀ s' m, s.poll c n = .ok (some m, s') →
        ∃ arr f, TOp.feed ⟨176 + c, 6, f⟩ ∈ ops ∧ timeout ≤ n - arr ∧ m.value = f ∧ m.is14Bit = false ∧
          m.dataType = .dataEntry := by
  obtain ⟨n, sh, outs, h, hj⟩ := C13.poll_justified_scanner c hc now timeout ops hv
  refine ⟨gscanner (PScanner.new timeout), n, gscanner sh, outs, new timeout, ?_, ?_⟩
  · rw [grun_eq, scanner_new, h]; rfl
  · intro s' m hp
    rw [poll, scanner_gscanner] at hp
    cases hq : PScanner.poll n sh c with
    | error e => rw [hq] at hp; simp [back] at hp
    | ok r =>
      rw [hq] at hp
      simp only [back] at hp
      injection hp with hp
      injection hp with h1 h2
      exact hj r.1 m (by rw [hq]; cases r; simp_all)

/-- C16 for the translated scanner, at any time, from EVERY state -/
theorem transparent (now : Nat) (s : Scanner) (b : Bytes) (hv : b.Valid) (hn : ¬ C16.contributesPN b) :
    s.feed rawImpl b now = .ok (#v[none, none], s) := by
  rw [feed, C16.transparent_polling now _ b hv hn]; simp [back2, outv]

/-- C17 for the translated scanner: from every state whose channels carry the timeout `t` (all reachable ones do),
    `reset()` never panics and yields exactly `new(t)` -/
theorem reset_is_new (t : Nat) (s : Scanner) (h : C17.UniformTimeout t (scanner s)) :
    ∃ s0, PollScan.PollingParameterNumberMessageScanner.new t = .ok s0 ∧ s.reset = .ok ((), s0) := by
  refine ⟨gscanner (PScanner.new t), new t, ?_⟩
  rw [reset, C17.reset_eq_new_polling t _ h]

/-- C15 for the translated scanner -/
theorem isolation (c : Nat) (hc : c < 16) (now timeout : Nat) (ops : List TOp) (hv : ∀ op ∈ ops, op.Valid) :
    ∃ s0 n1 s1 o1 n2 s2 o2, PollScan.PollingParameterNumberMessageScanner.new timeout = .ok s0 ∧
      grun now s0 ops = .ok (o1, (n1, s1)) ∧
      grun now s0 (ops.filter (C15.topOnChannel c)) = .ok (o2, (n2, s2)) ∧
      outputsOn c now ops o1 = outputsOn c now (ops.filter (C15.topOnChannel c)) o2 := by
  obtain ⟨n1, s1, o1, n2, s2, o2, h1, h2, _, h4⟩ := C15.isolation_polling c hc now timeout ops hv
  refine ⟨gscanner (PScanner.new timeout), n1, gscanner s1, o1, n2, gscanner s2, o2, new timeout, ?_, ?_, h4⟩
  · rw [grun_eq, scanner_new, h1]; rfl
  · rw [grun_eq, scanner_new, h2]; rfl

/-- C14, data independence, for the translated polling scanner as a whole: under ANY interleaving of valid feeds on
    all 16 channels, polls, resets and time steps, relabelling the value byte of every Control Change by any `f`
    (into 0..127) never makes it panic and, on every channel, the results of the relabelled run are the
    `relabelMsg f`-images of the results of the original per-channel run, call by call. -/
theorem data_independent (f : Nat → Nat) (hf : ∀ v, v < 128 → f v < 128)
    (c : Nat) (hc : c < 16) (now timeout : Nat) (ops : List TOp) (hv : ∀ op ∈ ops, op.Valid) :
    ∃ s0 now' s' outs, PollScan.PollingParameterNumberMessageScanner.new timeout = .ok s0 ∧
      grun now s0 (ops.map (relabelTOp f)) = .ok (outs, (now', s')) ∧
      outputsOn c now (ops.map (relabelTOp f)) outs
        = ((({ timeout := timeout } : PChan).evs c (project c now ops)).2).map (relabelPOut f) := by
  obtain ⟨s0, now', s', outs, h0, h1, _, h3⟩ := run_is_channelwise c hc now timeout _ (relabelTOp_valid f hf ops hv)
  refine ⟨s0, now', s', outs, h0, h1, ?_⟩
  rw [h3, project_relabel f c hc]
  have hd := C14.data_independent f hf c (project c now ops) (projectEv_valid c now ops hv) ({ timeout := timeout } : PChan)
    (by simp [PState.default, PState.Bytes7])
  have hr : (({ timeout := timeout } : PChan).relabel f) = { timeout := timeout } := by
    simp [PChan.relabel, PState.default, PState.relabel]
  rw [hr] at hd
  rw [hd]

end Midi.Props.TPoll
