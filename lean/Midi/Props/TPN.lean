/-
Property theorems restated for the code AS TRANSLATED from the Rust source by tools/rs2lean.py:
parameter_number_message_scanner.rs (Midi/Gen/PNScan) — regenerated from /repo's working tree on every run.
Each theorem follows from the theorem about the hand-written model and the proved equivalence of the translated code
with that model (Midi/Proofs/Gen*.lean), so a change to the source file that alters behaviour breaks these theorems
even where no test input exposes it.
-/
import Midi.Proofs.GenPN
import Midi.Props.C10
import Midi.Props.C11
import Midi.Props.C15
import Midi.Props.C16
import Midi.Props.C17
set_option linter.unusedSimpArgs false
set_option linter.unusedVariables false

namespace Midi.Props.TPN
open Midi Midi.Spec Midi.Gen Midi.GenTie Midi.GenTie.PN

abbrev Scanner := PNScan.ParameterNumberMessageScanner

theorem new_is_default : PNScan.ParameterNumberMessageScanner.new = .ok default := rfl

@[simp] theorem scanner_default : scanner (default : Scanner) = PNScanner.new := by
  rw [default_eq, scanner_gscanner]

/-- C11 for the translated scanner -/
theorem exact (past : List Op) (hp : ∀ op ∈ past, op.Valid) (m : Bytes) (hm : m.Valid) :
    ∃ s s', grun default past = .ok (expectedPN [] past, s) ∧
      s.feed rawImpl m = .ok (justifiedPN past m, s') := by
  obtain ⟨s, s', h1, h2⟩ := C11.exact past hp m hm
  refine ⟨gscanner s, gscanner s', ?_, ?_⟩
  · rw [grun_eq, scanner_default, h1]; rfl
  · rw [feed, scanner_gscanner, h2]; rfl

/-- C11, data independence, for the translated scanner: relabelling the value bytes of every Control Change of the
    history and of the input by any `f` (into 0..127) sends the reported message through `relabelMsg f`. -/
theorem data_independent (f : Nat → Nat) (hf : ∀ v, v < 128 → f v < 128)
    (past : List Op) (hp : ∀ op ∈ past, op.Valid) (m : Bytes) (hm : m.Valid) :
    ∃ s s', grun default (past.map (relabelOp f)) = .ok (expectedPN [] (past.map (relabelOp f)), s) ∧
      s.feed rawImpl (relabelB f m) = .ok ((justifiedPN past m).map (relabelMsg f), s') := by
  rw [← C11.data_independent f past hp m hm]
  exact exact _ (relabel_valid f hf past hp) _ (relabelB_valid f hf m hm)

/-- C10 for the translated scanner: after ANY history, feeding the encoding of any message the scanner can
    reconstruct reports nothing until the last Control Change and exactly the original message on it -/
theorem roundtrip (past : List Op) (hp : ∀ op ∈ past, op.Valid) (m : PNMsg) (hm : m.Valid) (order : ByteOrder)
    (ho : m.is14Bit = true → order = .lsbFirst) :
    ∃ s s' outs, grun default past = .ok (outs, s) ∧
      grun s ((C10.encoded m order).map .feed) =
        .ok (List.replicate ((C10.encoded m order).length - 1) none ++ [some m], s') := by
  obtain ⟨s, outs, h, wf⟩ := C10.reachable_wf past hp
  obtain ⟨s', h', _⟩ := C10.roundtrip s wf m hm order ho
  refine ⟨gscanner s, gscanner s', outs, ?_, ?_⟩
  · rw [grun_eq, scanner_default, h]; rfl
  · rw [grun_eq, scanner_gscanner, h']; rfl

theorem transparent (s : Scanner) (b : Bytes) (hv : b.Valid) (hn : ¬ C16.contributesPN b) :
    s.feed rawImpl b = .ok (none, s) := by
  rw [feed, C16.transparent_pn _ b hv hn]; simp [back]

theorem reset_is_new (s : Scanner) : s.reset = .ok ((), default) := by
  rw [reset, C17.reset_eq_new_pn, default_eq]

theorem isolation (c : Nat) (hc : c < 16) (ops : List Op) (hv : ∀ op ∈ ops, op.Valid) :
    ∃ s s' o o', grun default ops = .ok (o, s) ∧ grun default (ops.filter (opOnChannel c)) = .ok (o', s') ∧
      outsOn c ops o = o' := by
  obtain ⟨s, s', h1, h2, h3⟩ := C15.isolation_pn c hc ops hv
  refine ⟨gscanner s, gscanner s', _, _, ?_, ?_, h3⟩
  · rw [grun_eq, scanner_default, h1]; rfl
  · rw [grun_eq, scanner_default, h2]; rfl

end Midi.Props.TPN
