/-
C19 restated for the validation code AS TRANSLATED from the Rust source by tools/rs2lean.py: the `TryFrom<Unchecked..>`
impls that `#[serde(try_from = "..")]` runs after field-wise deserialization (Midi/Gen/CCMsg, PNMsgFile; regenerated
from /repo's working tree on every run).  serde's derive itself stays modelled (field by field, each through the
restricted integer's own range-checked deserializer).
-/
import Midi.Proofs.GenSerde
import Midi.Props.C19
set_option linter.unusedSimpArgs false
set_option linter.unusedVariables false

namespace Midi.Props.TSerde
open Midi Midi.Spec Midi.Gen Midi.GenTie

/-- 14-bit Control Change: whatever integers the input carries, deserialization = fields, then the TRANSLATED
    validation; it yields only messages `new` would build, and accepts every valid message -/
theorem cc14 (ch msb value : Int) :
    (∀ m, SER.deCC14T ch msb value = some m → m.Valid ∧ CC14Msg.new m.channel m.msb m.value = .ok m) ∧
    (∀ m : CC14Msg, m.Valid → SER.deCC14T m.channel m.msb m.value = some m) := by
  have h := C19.cc14_sound_complete ch msb value
  constructor
  · intro m hm; rw [← SER.deCC14_eq] at hm; exact h.1 m hm
  · intro m hm; rw [← SER.deCC14_eq]; exact (C19.cc14_sound_complete m.channel m.msb m.value).2 m hm

/-- the translated validation never panics and accepts exactly MSB controller numbers 0-31 -/
theorem cc14_validation (c n v : Nat) :
    CCMsg.ControlChange14BitMessage.try_from ⟨c, n, v⟩ = .ok (if n < 32 then some ⟨c, n, v⟩ else none) :=
  SER.cc14_try_from c n v

/-- (N)RPN: deserialization = fields, then the TRANSLATED validation; it yields only messages one of the eight public
    constructors builds, and accepts every valid message -/
theorem pn (ch number value reg is14 dt : Int) :
    (∀ m, SER.dePNT ch number value reg is14 dt = some m →
        m.Valid ∧ ∃ i, i < 8 ∧ PNMsg.ctor i m.channel m.number m.value = m) ∧
    (∀ m : PNMsg, m.Valid →
        SER.dePNT m.channel m.number m.value (if m.isRegistered then 1 else 0) (if m.is14Bit then 1 else 0) m.dataType.code = some m) := by
  constructor
  · intro m hm; rw [← SER.dePN_eq] at hm; exact (C19.pn_sound_complete ch number value reg is14 dt).1 m hm
  · intro m hm; rw [← SER.dePN_eq]; exact (C19.pn_sound_complete 0 0 0 0 0 0).2 m hm

/-- the translated validation never panics and accepts exactly: 14-bit implies data entry, 7-bit implies value <= 127 -/
theorem pn_validation (c n v : Nat) (r b : Bool) (d : PNMsgFile.DataType_) :
    PNMsgFile.ParameterNumberMessage.try_from ⟨c, n, v, r, b, d⟩ =
      .ok (if (if b then d = .DataEntry else v ≤ 127) then some ⟨c, n, v, r, b, d⟩ else none) :=
  SER.pn_try_from c n v r b d

end Midi.Props.TSerde
