/-
C02  Classification and field accessors follow the MIDI 1.0 status table.
For every implementation `I` of the trait (record of getters), every value `x` whose bytes are valid.
-/
import Midi.Proofs.Short
set_option linter.unusedSimpArgs false
namespace Midi.Props.C02
open Midi Midi.Spec

section
variable {α : Type} (I : Impl α) (x : α)

/-- type is determined by the status byte alone (high nibble below 0xF0, whole byte from 0xF0 up) -/
theorem type_eq_spec (hv : (bytesOf I x).Valid) :
    msgType I x = .ok (specType (I.status x)) ∧ (specType (I.status x)).toU8 = specTypeByte (I.status x) := by
  refine ⟨msgType_spec I x hv.1 hv.2.1, ?_⟩
  have : ∀ s : Fin 256, 128 ≤ s.val → (specType s.val).toU8 = specTypeByte s.val := by decide +kernel
  exact this ⟨I.status x, hv.2.1⟩ hv.1

/-- super type and main category follow the MIDI 1.0 tables; Control Change is Channel Mode exactly for
    controller numbers 120–127 -/
theorem super_main_eq_spec (hv : (bytesOf I x).Valid) :
    superType I x = .ok (specSuper (bytesOf I x)) ∧ mainCategory I x = .ok (specMain (I.status x)) := by
  obtain ⟨h1, h2, h3, h4⟩ := hv
  simp only [bytesOf] at h1 h2 h3 h4
  have hs : superType I x = .ok (specSuper (bytesOf I x)) := by
    unfold superType
    rw [msgType_spec I x h1 h2]
    rcases status_cases _ h1 h2 with h | h
    · have e3 : (I.status x < 240) := by omega
      rcases h with h | h | h | h | h | h | h <;>
        simp [specType, specSuper, bytesOf, h, e3, bind, Except.bind, cnIsChannelMode]
      by_cases c : 120 ≤ I.d1 x <;> simp [c] <;> omega
    · rcases h with h | h | h | h | h | h | h | h | h | h | h | h | h | h | h | h <;>
        simp [specType, specSuper, bytesOf, h, bind, Except.bind]
  refine ⟨hs, ?_⟩
  unfold mainCategory
  rw [hs]
  simp only [bind, Except.bind, specSuper, specMain, bytesOf]
  by_cases c1 : I.status x < 240
  · by_cases c2 : (I.status x / 16 = 11 ∧ 120 ≤ I.d1 x) <;> simp [c1, c2, SuperType.mainCategory]
  · by_cases c2 : I.status x = 240 <;> by_cases c3 : I.status x < 248 <;>
      simp [c1, c2, c3, SuperType.mainCategory]

/-- the channel is present exactly for channel messages and equals the low nibble -/
theorem channel_eq_spec (hv : (bytesOf I x).Valid) : channel I x = .ok (specChannel (I.status x)) := by
  unfold channel
  rw [(super_main_eq_spec I x hv).2]
  simp only [bind, Except.bind, specMain, specChannel]
  by_cases c1 : I.status x < 240 <;> simp [c1]

/-- each field accessor returns a value exactly for the message types that carry the field, equal to the
    corresponding data byte(s); 14-bit values are data byte 2 x 128 + data byte 1 -/
theorem accessors_eq_spec (hv : (bytesOf I x).Valid) :
    keyNumber I x = .ok (specKey (bytesOf I x)) ∧ velocity I x = .ok (specVelocity (bytesOf I x)) ∧
    controllerNumber I x = .ok (specControllerNumber (bytesOf I x)) ∧
    controlValue I x = .ok (specControlValue (bytesOf I x)) ∧
    programNumber I x = .ok (specProgramNumber (bytesOf I x)) ∧
    pressureAmount I x = .ok (specPressure (bytesOf I x)) ∧
    pitchBendValue I x = .ok (specPitchBend (bytesOf I x)) ∧ isNote I x = .ok (specIsNote (bytesOf I x)) := by
  obtain ⟨h1, h2, h3, h4⟩ := hv
  simp only [bytesOf] at h1 h2 h3 h4
  unfold keyNumber velocity controllerNumber controlValue programNumber pressureAmount pitchBendValue isNote
  simp only [msgType_spec I x h1 h2]
  rcases status_cases _ h1 h2 with h | h
  · rcases h with h | h | h | h | h | h | h <;>
      simp [specType, specKey, specVelocity, specControllerNumber, specControlValue, specProgramNumber, specPressure,
        specPitchBend, specIsNote, bytesOf, h, bind, Except.bind, build14_eq _ _ h4 h3]
  · rcases h with h | h | h | h | h | h | h | h | h | h | h | h | h | h | h | h <;>
      simp [specType, specKey, specVelocity, specControllerNumber, specControlValue, specProgramNumber, specPressure,
        specPitchBend, specIsNote, bytesOf, h, bind, Except.bind]

/-- the structured form has the matching variant and fields -/
theorem structured_eq_spec (hl : I.LawfulAt x) (hv : (bytesOf I x).Valid) :
    toStructured I x = .ok (specStructured (bytesOf I x)) := toStructured_spec I x hl hv

/-- is_note_on / is_note_off treat a Note On with velocity 0 as a note-off -/
theorem note_predicates (hl : I.LawfulAt x) (hv : (bytesOf I x).Valid) :
    isNoteOn I x = .ok (specIsNoteOn (bytesOf I x)) ∧ isNoteOff I x = .ok (specIsNoteOff (bytesOf I x)) := by
  unfold isNoteOn isNoteOff
  rw [toStructured_spec I x hl hv]
  obtain ⟨h1, h2, h3, h4⟩ := hv
  simp only [bytesOf] at h1 h2 h3 h4
  rcases status_cases _ h1 h2 with h | h
  · rcases h with h | h | h | h | h | h | h <;>
      simp [specStructured, specType, specIsNoteOn, specIsNoteOff, bytesOf, h, bind, Except.bind]
    rw [Bool.eq_iff_iff]; simp
  · rcases h with h | h | h | h | h | h | h | h | h | h | h | h | h | h | h | h <;>
      simp [specStructured, specType, specIsNoteOn, specIsNoteOff, bytesOf, h, bind, Except.bind]

end

/-- a message type's own super type / main category agree with those of every message of that type -/
theorem type_level (b : Bytes) (hv : b.Valid) :
    (specType b.status).superType = specFuzzy b.status ∧
    (specType b.status).superType.mainCategory = specMain b.status ∧
    (specSuper b).mainCategory = (specType b.status).superType.mainCategory ∧
    ((specType b.status).superType = .channel ↔ (specSuper b = .channelVoice ∨ specSuper b = .channelMode)) ∧
    ((specType b.status).superType = .systemCommon ↔ specSuper b = .systemCommon) ∧
    ((specType b.status).superType = .systemRealTime ↔ specSuper b = .systemRealTime) ∧
    ((specType b.status).superType = .systemExclusive ↔ specSuper b = .systemExclusive) := by
  obtain ⟨s, d1, d2⟩ := b
  obtain ⟨h1, h2, h3, h4⟩ := hv
  simp only at h1 h2 h3 h4
  have key : ∀ s : Fin 256, 128 ≤ s.val → (specType s.val).superType = specFuzzy s.val ∧
      (specFuzzy s.val).mainCategory = specMain s.val := by decide +kernel
  have k := key ⟨s, h2⟩ h1
  simp only at k
  refine ⟨k.1, by rw [k.1]; exact k.2, ?_, ?_, ?_, ?_, ?_⟩ <;> rw [k.1] <;>
    simp only [specSuper, specFuzzy, specMain] <;> (repeat' split) <;> simp_all [SuperType.mainCategory, FuzzySuperType.mainCategory]

/-- the `u8` conversion of message types is total on the 23 discriminants and partial elsewhere
    (discriminants regenerated from the source) -/
theorem type_u8_table :
    Gen.messageTypeValues = [128, 144, 160, 176, 192, 208, 224] ++ (List.range 16).map (· + 240) ∧
    Gen.messageTypeMin = 128 ∧ Gen.messageTypeMax = 255 ∧
    ∀ n : Fin 256, MsgType.ofU8 n.val = (if n.val ∈ Gen.messageTypeValues then some (specType n.val) else none) := by
  refine ⟨by decide, by decide, by decide, by decide +kernel⟩

/-! non-vacuity -/
example : (bytesOf rawImpl ⟨0xB7, 120, 0⟩).Valid ∧ specSuper ⟨0xB7, 120, 0⟩ = .channelMode
    ∧ specSuper ⟨0xB7, 119, 0⟩ = .channelVoice := by decide
example : specPitchBend ⟨0xE0, 1, 2⟩ = some 257 ∧ specIsNoteOff ⟨0x90, 60, 0⟩ = true := by decide

end Midi.Props.C02
