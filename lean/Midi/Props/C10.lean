/-
C10  (N)RPN scanner inverts the encoder for the sequences it documents.
-/
import Midi.Proofs.PN
import Midi.Props.C09
set_option linter.unusedSimpArgs false
namespace Midi.Props.C10
open Midi Midi.Spec

/-- a scanner state that some per-channel abstraction describes (every reachable state is one) -/
def WF (s : PNScanner) : Prop := ∃ f, PNAbsRel s f

theorem reachable_wf (ops : List Op) (hv : ∀ op ∈ ops, op.Valid) :
    ∃ s outs, pnRun PNScanner.new ops = .ok (s, outs) ∧ WF s := by
  obtain ⟨s, h, r⟩ := pn_run PNScanner.new [] pnRel_new ops hv
  exact ⟨s, _, h, _, r⟩

/-- the Control Change messages of an encoding, in order -/
def encoded (m : PNMsg) (order : ByteOrder) : List Bytes := (specPNEncoding m order).filterMap id

/-- at the level of one channel's abstraction: whatever was stored before, the encoding of `m` yields nothing
    until its last message and exactly `m` on it -/
theorem chan_roundtrip (a : PNAbs) (m : PNMsg) (hm : m.Valid) (order : ByteOrder)
    (ho : m.is14Bit = true → order = .lsbFirst) :
    chanOutsPN m.channel a (encoded m order) =
      List.replicate ((encoded m order).length - 1) none ++ [some m] := by
  obtain ⟨c, n, v, r, b, d⟩ := m
  obtain ⟨hc, hn, h⟩ := hm
  simp only at hc hn h ho
  have e : 176 + c - 176 = c := by omega
  have hj : 176 ≤ 176 + c ∧ 176 + c < 192 := by omega
  have hnum : 128 * (n / 128) + n % 128 = n := by omega
  cases r <;> cases b <;> cases d <;> cases order <;> simp at h ho <;>
    (try have hval : 128 * (v / 128) + v % 128 = v := by omega) <;>
    simp [encoded, specPNEncoding, chanOutsPN, justPN, PNAbs.step, numMsbStep, numLsbStep, regStep, v38Step, ccOn,
      isNumberMsbCn, isNumberLsbCn, e, hj, hnum, List.replicate, *]

/-- Feeding the encoding of any 7-bit, increment or decrement message, or the LSB-first encoding of any 14-bit
    message — regardless of what the scanner was fed before (any WF state) — yields nothing until the last
    Control Change and exactly the original message on it. -/
theorem roundtrip (s : PNScanner) (hs : WF s) (m : PNMsg) (hm : m.Valid) (order : ByteOrder)
    (ho : m.is14Bit = true → order = .lsbFirst) :
    ∃ s', pnRun s ((encoded m order).map .feed) =
        .ok (s', List.replicate ((encoded m order).length - 1) none ++ [some m]) ∧ WF s' := by
  obtain ⟨f, hf⟩ := hs
  have hvalid : ∀ op ∈ (encoded m order).map Op.feed, op.Valid := by
    intro op hop
    simp [encoded] at hop
    obtain ⟨b, hb, rfl⟩ := hop
    exact ((C09.slots m hm order).2.2.2 b hb).1
  have hch : ∀ b ∈ encoded m order, b.status = 176 + m.channel := by
    intro b hb
    simp [encoded] at hb
    exact ((C09.slots m hm order).2.2.2 b hb).2
  obtain ⟨s', h1, r1⟩ := pn_run_abs s f hf _ hvalid
  refine ⟨s', ?_, _, r1⟩
  rw [h1, (absOuts_single_channel m.channel f _ hch).1, chan_roundtrip (f m.channel) m hm order ho]

/-- number selection: the two number bytes (in either order) of a registered / non-registered number -/
def selection (c n : Nat) (reg : Bool) : List Bytes :=
  [⟨176 + c, if reg then 101 else 99, n / 128⟩, ⟨176 + c, if reg then 100 else 98, n % 128⟩]

theorem selection_after (c n : Nat) (reg : Bool) (a : PNAbs) (hn : n < 16384) :
    chanOutsPN c a (selection c n reg) = [none, none] ∧
    chanAfterPN c a (selection c n reg) = ⟨some (n / 128), some (n % 128), reg, none⟩ := by
  have e : 176 + c - 176 = c := by omega
  cases reg <;>
    simp [selection, chanOutsPN, chanAfterPN, justPN, PNAbs.step, numMsbStep, numLsbStep, regStep, v38Step, ccOn,
      isNumberMsbCn, isNumberLsbCn, e]

/-- running form [x, y, MSB, MSB, ...]: after one number selection, each repeated data byte (controller 6, 96 or 97)
    yields a 7-bit data entry / increment / decrement message — for streams of ANY length -/
theorem running_7bit (c n : Nat) (reg : Bool) (a : PNAbs) (hc : c < 16) (hn : n < 16384)
    (vs : List (Nat × Nat)) (hk : ∀ p ∈ vs, p.1 = 6 ∨ p.1 = 96 ∨ p.1 = 97) :
    chanOutsPN c a (selection c n reg ++ vs.map (fun p => ⟨176 + c, p.1, p.2⟩)) =
      [none, none] ++ vs.map (fun p => some ⟨c, n, p.2, reg, false,
        if p.1 = 96 then .dataIncrement else if p.1 = 97 then .dataDecrement else .dataEntry⟩) := by
  rw [chanOutsPN_append, (selection_after c n reg a hn).1, (selection_after c n reg a hn).2]
  congr 1
  have e : 176 + c - 176 = c := by omega
  have hj : 176 ≤ 176 + c ∧ 176 + c < 192 := by omega
  have hnum : 128 * (n / 128) + n % 128 = n := by omega
  induction vs with
  | nil => rfl
  | cons p ps ih =>
    have hp := hk p (List.mem_cons_self)
    have ih' := ih (fun q hq => hk q (List.mem_cons_of_mem _ hq))
    rcases hp with h | h | h <;>
      simp [chanOutsPN, justPN, PNAbs.step, numMsbStep, numLsbStep, regStep, v38Step, ccOn, isNumberMsbCn,
        isNumberLsbCn, e, hj, hnum, h] <;> exact ih'

/-- running form [x, y, LSB, MSB, LSB, MSB, ...]: repeated (LSB, MSB) pairs each yield nothing, then a 14-bit
    data entry message — for streams of ANY length -/
theorem running_14bit (c n : Nat) (reg : Bool) (a : PNAbs) (hc : c < 16) (hn : n < 16384)
    (ps : List (Nat × Nat)) :
    chanOutsPN c a (selection c n reg ++ ps.flatMap (fun p => [⟨176 + c, 38, p.1⟩, ⟨176 + c, 6, p.2⟩])) =
      [none, none] ++ ps.flatMap (fun p => [none, some ⟨c, n, 128 * p.2 + p.1, reg, true, .dataEntry⟩]) := by
  rw [chanOutsPN_append, (selection_after c n reg a hn).1, (selection_after c n reg a hn).2]
  congr 1
  have e : 176 + c - 176 = c := by omega
  have hj : 176 ≤ 176 + c ∧ 176 + c < 192 := by omega
  have hnum : 128 * (n / 128) + n % 128 = n := by omega
  -- invariant: number selected, any stored value LSB (it is overwritten by the next LSB)
  suffices h : ∀ l0 : Option Nat,
      chanOutsPN c ⟨some (n / 128), some (n % 128), reg, l0⟩
        (ps.flatMap (fun p => [⟨176 + c, 38, p.1⟩, ⟨176 + c, 6, p.2⟩])) =
      ps.flatMap (fun p => [none, some ⟨c, n, 128 * p.2 + p.1, reg, true, .dataEntry⟩]) from h none
  induction ps with
  | nil => intro _; rfl
  | cons p ps ih =>
    intro l0
    simp [chanOutsPN, justPN, PNAbs.step, numMsbStep, numLsbStep, regStep, v38Step, ccOn, isNumberMsbCn,
      isNumberLsbCn, e, hj, hnum]
    exact ih (some p.1)

/-! non-vacuity -/
example : WF PNScanner.new := ⟨_, pnRel_new⟩
example : encoded (PNMsg.ctor 1 2 421 8000) .lsbFirst = [⟨178, 99, 3⟩, ⟨178, 98, 37⟩, ⟨178, 38, 64⟩, ⟨178, 6, 62⟩] := by decide

end Midi.Props.C10
