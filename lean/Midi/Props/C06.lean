/-
C06  Factory constructors build exactly the message they describe.
-/
import Midi.Proofs.Short
import Midi.Model.Ctors
import Midi.Model.TestUtil
import Midi.Spec.Constructors
set_option linter.unusedSimpArgs false
namespace Midi.Props.C06
open Midi Midi.Spec

/-- For EVERY factory implementation `F` and all valid arguments, each named constructor hands
    `from_bytes_unchecked` exactly the bytes the property describes: status = type byte + channel,
    14-bit arguments split into low 7 bits (data byte 1) and high 7 bits (data byte 2), unused data bytes zero;
    those bytes are a valid message of the named type. -/
theorem named_bytes {α} (F : Factory α) (k : Ctor) (a b c : Nat) (h : k.ArgsValid a b c) :
    modelNamed F k a b c = F.ofBytesUnchecked (specNamed k a b c) ∧ (specNamed k a b c).Valid ∧
    specType (specNamed k a b c).status = k.msgType := by
  cases k <;> simp only [Ctor.ArgsValid] at h
  case timeCodeQuarterFrame =>
    rcases h with ⟨h1, h2, h3⟩ | ⟨h1, h2, h3⟩
    · have : ∀ a : Fin 7, ∀ b : Fin 16, (QFrame.ofCode a.val b.val 0).toU7 = a.val * 16 + b.val := by decide +kernel
      have := this ⟨a, h1⟩ ⟨b, h2⟩
      subst h3
      simp only [modelNamed, mkTimeCodeQuarterFrame, specNamed, h1, if_true, this, MsgType.toU8, Bytes.Valid]
      refine ⟨rfl, by simp; omega, by decide⟩
    · have : ∀ b : Fin 2, ∀ c : Fin 4, (QFrame.ofCode 7 b.val c.val).toU7 = 112 + c.val * 2 + b.val := by decide +kernel
      have := this ⟨b, h2⟩ ⟨c, h3⟩
      subst h1
      simp only [modelNamed, mkTimeCodeQuarterFrame, specNamed, this, MsgType.toU8, Bytes.Valid]
      refine ⟨rfl, by simp; omega, by decide⟩
  case pitchBendChange =>
    obtain ⟨h1, h2, h3⟩ := h
    have e1 : ∀ t, t % 16 = 0 → (t + a) / 16 = t / 16 := by intro t ht; omega
    simp [modelNamed, mkPitchBendChange, specNamed, MsgType.toU8, buildStatusByte_eq _ _ _ h1, and_7f, shr_7,
      Bytes.Valid, specType, Ctor.msgType, e1]
    refine ⟨?_, by omega⟩
    congr 2 <;> omega
  case songPositionPointer =>
    obtain ⟨h1, h2, h3⟩ := h
    simp [modelNamed, mkSongPositionPointer, specNamed, MsgType.toU8, and_7f, shr_7, Bytes.Valid, specType, Ctor.msgType]
    refine ⟨?_, by omega⟩
    congr 2 <;> omega
  case noteOff | noteOn | polyphonicKeyPressure | controlChange | programChange | channelPressure =>
    have h1 := h.1
    have e1 : ∀ t, t % 16 = 0 → (t + a) / 16 = t / 16 := by intro t ht; omega
    simp [modelNamed, mkNoteOff, mkNoteOn, mkPolyphonicKeyPressure, mkControlChange, mkProgramChange, mkChannelPressure,
      specNamed, MsgType.toU8, buildStatusByte_eq _ _ _ h1, Bytes.Valid, specType, Ctor.msgType, e1] <;> omega
  all_goals
    simp [modelNamed, mkSystemExclusiveStart, mkSongSelect, mkPlain, specNamed, MsgType.toU8, Bytes.Valid, specType,
      Ctor.msgType] <;> omega

/-- the structured form of those bytes has exactly the arguments as its fields (so, by C02, every accessor
    returns exactly the corresponding argument), and the bytes are already canonical -/
theorem named_fields (k : Ctor) (a b c : Nat) (h : k.ArgsValid a b c) :
    specStructured (specNamed k a b c) = specNamedStructured k a b c ∧ canon (specNamed k a b c) = specNamed k a b c := by
  cases k <;> simp only [Ctor.ArgsValid] at h
  case timeCodeQuarterFrame =>
    rcases h with ⟨h1, h2, h3⟩ | ⟨h1, h2, h3⟩
    · have : ∀ a : Fin 7, ∀ b : Fin 16, specStructured (specNamed .timeCodeQuarterFrame a.val b.val 0) = specNamedStructured .timeCodeQuarterFrame a.val b.val 0
          ∧ canon (specNamed .timeCodeQuarterFrame a.val b.val 0) = specNamed .timeCodeQuarterFrame a.val b.val 0 := by decide +kernel
      subst h3; exact this ⟨a, h1⟩ ⟨b, h2⟩
    · have : ∀ b : Fin 2, ∀ c : Fin 4, specStructured (specNamed .timeCodeQuarterFrame 7 b.val c.val) = specNamedStructured .timeCodeQuarterFrame 7 b.val c.val
          ∧ canon (specNamed .timeCodeQuarterFrame 7 b.val c.val) = specNamed .timeCodeQuarterFrame 7 b.val c.val := by decide +kernel
      subst h1; exact this ⟨b, h2⟩ ⟨c, h3⟩
  case noteOff | noteOn | polyphonicKeyPressure | controlChange | programChange | channelPressure | pitchBendChange =>
    have h1 := h.1
    have e1 : ∀ t, t % 16 = 0 → (t + a) / 16 = t / 16 := by intro t ht; omega
    have e2 : ∀ t, t % 16 = 0 → (t + a) % 16 = a := by intro t ht; omega
    have l1 : ∀ t, t ≤ 176 → t + a < 192 := by intro t ht; omega
    have l2 : ∀ t, 192 ≤ t → ¬ (t + a < 192) := by intro t ht; omega
    have l3 : ∀ t, t ≤ 208 → t + a < 224 := by intro t ht; omega
    have l4 : ∀ t, 224 ≤ t → ¬ (t + a < 224) := by intro t ht; omega
    have l5 : ∀ t, t ≤ 224 → t + a < 240 := by intro t ht; omega
    have l6 : ∀ t, t ≤ 224 → t + a ≠ 241 := by intro t ht; omega
    simp [specNamed, specNamedStructured, specStructured, specType, canon, canonD1, canonD2, specDataLen, e1, e2,
      l1, l2, l3, l4, l5, l6] <;> omega
  case songPositionPointer =>
    simp [specNamed, specNamedStructured, specStructured, specType, canon, canonD1, canonD2, specDataLen]; omega
  all_goals
    simp [specNamed, specNamedStructured, specStructured, specType, canon, canonD1, canonD2, specDataLen]

/-- RawShortMessage: the constructor returns exactly those bytes -/
theorem named_raw (k : Ctor) (a b c : Nat) (h : k.ArgsValid a b c) :
    modelNamed rawFactory k a b c = .ok (specNamed k a b c) := (named_bytes rawFactory k a b c h).1

/-- StructuredShortMessage: the constructor returns the value whose fields are the arguments -/
theorem named_structured (k : Ctor) (a b c : Nat) (h : k.ArgsValid a b c) :
    modelNamed structuredFactory k a b c = .ok (specNamedStructured k a b c) := by
  have := named_bytes structuredFactory k a b c h
  rw [this.1]
  show SMsg.ofBytesUnchecked _ = _
  rw [structured_ofBytes _ this.2.1, (named_fields k a b c h).1]

/-- the generic constructors panic exactly when the type is not of that category, and otherwise place type,
    channel and data bytes unchanged — for every factory `F` -/
theorem generic_constructors {α} (F : Factory α) (t : MsgType) (ch a b : Nat) (hc : ch < 16) :
    channelMessage F t ch a b =
      (match specChannelMessage t.toU8 ch a b with | some bs => F.ofBytesUnchecked bs | none => .error .categoryAssert) ∧
    systemCommonMessage F t a b =
      (match specSystemCommonMessage t.toU8 a b with | some bs => F.ofBytesUnchecked bs | none => .error .categoryAssert) ∧
    systemRealTimeMessage F t =
      (match specSystemRealTimeMessage t.toU8 with | some bs => F.ofBytesUnchecked bs | none => .error .categoryAssert) := by
  cases t <;>
    simp [channelMessage, systemCommonMessage, systemRealTimeMessage, specChannelMessage, specSystemCommonMessage,
      specSystemRealTimeMessage, specCategory, MsgType.superType, MsgType.toU8, buildStatusByte_eq _ _ _ hc]

/-- the test_util shorthands panic exactly when an argument is out of range and otherwise build the same
    message as the factory constructor -/
theorem test_util_shorthands (x y z : Nat) :
    tuNoteOn x y z = (if x ≤ 15 ∧ y ≤ 127 ∧ z ≤ 127 then modelNamed rawFactory .noteOn x y z else .error .testUtilExpect) ∧
    tuNoteOff x y z = (if x ≤ 15 ∧ y ≤ 127 ∧ z ≤ 127 then modelNamed rawFactory .noteOff x y z else .error .testUtilExpect) ∧
    tuControlChange x y z = (if x ≤ 15 ∧ y ≤ 127 ∧ z ≤ 127 then modelNamed rawFactory .controlChange x y z else .error .testUtilExpect) ∧
    tuPolyphonicKeyPressure x y z = (if x ≤ 15 ∧ y ≤ 127 ∧ z ≤ 127 then modelNamed rawFactory .polyphonicKeyPressure x y z else .error .testUtilExpect) ∧
    tuProgramChange x y = (if x ≤ 15 ∧ y ≤ 127 then modelNamed rawFactory .programChange x y 0 else .error .testUtilExpect) ∧
    tuChannelPressure x y = (if x ≤ 15 ∧ y ≤ 127 then modelNamed rawFactory .channelPressure x y 0 else .error .testUtilExpect) ∧
    tuPitchBendChange x y = (if x ≤ 15 ∧ y ≤ 16383 then modelNamed rawFactory .pitchBendChange x y 0 else .error .testUtilExpect) ∧
    tuSongPositionPointer x = (if x ≤ 16383 then modelNamed rawFactory .songPositionPointer x 0 0 else .error .testUtilExpect) ∧
    tuSongSelect x = (if x ≤ 127 then modelNamed rawFactory .songSelect x 0 0 else .error .testUtilExpect) := by
  simp only [tuNoteOn, tuNoteOff, tuControlChange, tuPolyphonicKeyPressure, tuProgramChange, tuChannelPressure,
    tuPitchBendChange, tuSongPositionPointer, tuSongSelect, tuChannel, tuKeyNumber, tuControllerNumber, tuU7, tuU14,
    tuConv, modelNamed]
  refine ⟨?_, ?_, ?_, ?_, ?_, ?_, ?_, ?_, ?_⟩ <;>
    (try by_cases h1 : x ≤ 15) <;> (try by_cases h2 : y ≤ 127) <;> (try by_cases h3 : z ≤ 127) <;>
    (try by_cases h4 : y ≤ 16383) <;> (try by_cases h5 : x ≤ 16383) <;> (try by_cases h6 : x ≤ 127) <;>
    simp [*, bind, Except.bind]

/-- the helpers for 14-bit CC and (N)RPN messages: panic exactly for out-of-range arguments (the 14-bit CC helper also,
    as documented for `new`, for an MSB controller number above 31), otherwise the described message -/
theorem test_util_composite (x y z : Nat) (reg : Bool) :
    tuControlChange14Bit x y z =
      (if x ≤ 15 ∧ y ≤ 127 ∧ z ≤ 16383 then (if y < 32 then .ok ⟨x, y, z⟩ else .error .cc14MsbAssert)
       else .error .testUtilExpect) ∧
    tuPn reg false x y z =
      (if x ≤ 15 ∧ y ≤ 16383 ∧ z ≤ 127 then .ok ⟨x, y, z, reg, false, .dataEntry⟩ else .error .testUtilExpect) ∧
    tuPn reg true x y z =
      (if x ≤ 15 ∧ y ≤ 16383 ∧ z ≤ 16383 then .ok ⟨x, y, z, reg, true, .dataEntry⟩ else .error .testUtilExpect) := by
  simp only [tuControlChange14Bit, tuPn, tuChannel, tuControllerNumber, tuU14, tuU7, tuConv, CC14Msg.new, cnLsbOf,
    PNMsg.sevenBit, PNMsg.fourteenBit]
  refine ⟨?_, ?_, ?_⟩
  · by_cases h1 : x ≤ 15 <;> by_cases h2 : y ≤ 127 <;> by_cases h3 : z ≤ 16383 <;> simp [h1, h2, h3, bind, Except.bind]
    by_cases h4 : y < 32
    · have : ¬ 32 ≤ y := by omega
      have h5 : ¬ 224 ≤ y := by omega
      simp [h4, this, h5]
    · have : 32 ≤ y := by omega
      simp [h4, this]
  · by_cases h1 : x ≤ 15 <;> by_cases h2 : y ≤ 16383 <;> by_cases h3 : z ≤ 127 <;> simp [h1, h2, h3, bind, Except.bind]
  · by_cases h1 : x ≤ 15 <;> by_cases h2 : y ≤ 16383 <;> by_cases h3 : z ≤ 16383 <;> simp [h1, h2, h3, bind, Except.bind]

/-! non-vacuity -/
example : Ctor.pitchBendChange.ArgsValid 15 16383 0 ∧ specNamed .pitchBendChange 15 16383 0 = ⟨0xEF, 127, 127⟩ := by decide
example : Ctor.timeCodeQuarterFrame.ArgsValid 7 1 3 ∧ specNamed .timeCodeQuarterFrame 7 1 3 = ⟨0xF1, 0x77, 0⟩ := by decide

end Midi.Props.C06
