/-
C18  Real-time safety — the PANIC half as theorems (the allocation half cannot be expressed by a functional model; it
is monitored on the real code by a counting allocator, see DESIGN.md).
Every potentially panicking source site is an explicit `.error <site>` in the model; these theorems collect, per API
group, that valid input never reaches one, and that the only reachable panics are the documented ones.
-/
import Midi.Props.C03
import Midi.Props.C04
import Midi.Props.C06
import Midi.Props.C07
import Midi.Props.C09
import Midi.Props.C16
import Midi.Proofs.Polling
set_option linter.unusedSimpArgs false
namespace Midi.Props.C18
open Midi Midi.Spec

/-- messages: for any lawful implementor with valid bytes no accessor, classification or conversion panics -/
theorem no_panic_messages {α} (I : Impl α) (x : α) (hl : I.LawfulAt x) (hv : (bytesOf I x).Valid) :
    C03.accessors I x = C03.specAccessors (bytesOf I x) ∧
    (∃ r, toOther I rawFactory x = .ok r) ∧ (∃ m, toOther I structuredFactory x = .ok m) := by
  have c := C03.conversions_commute I x hl hv
  obtain ⟨⟨r, hr, _⟩, ⟨m, hm, _⟩⟩ := c
  exact ⟨C03.accessors_eq_spec I x hl hv, ⟨r, hr⟩, ⟨m, hm⟩⟩

/-- the internal sites are dead for every byte value: `extract_type_from_status_byte` never trips its debug
    assertion, the quarter-frame decoder never reaches `unreachable!` / `expect("unknown time code type")`, the
    LSB controller computation never overflows -/
theorem internal_sites_dead :
    (∀ s : Fin 256, ∃ r, extractType s.val = .ok r) ∧ (∀ d : Fin 128, ∃ f, QFrame.ofU7 d.val = .ok f) ∧
    (∀ n : Fin 128, ∃ r, cnLsbOf n.val = .ok r) := by
  refine ⟨?_, ?_, ?_⟩
  · intro s; exact ⟨_, extractType_spec s.val s.isLt⟩
  · intro d; exact ⟨_, qf_ofU7 d.val d.isLt⟩
  · intro n; exact ⟨_, (C16.predicates n).2.1⟩

/-- constructors with valid arguments never panic (Raw and Structured) -/
theorem no_panic_constructors (k : Ctor) (a b c : Nat) (h : k.ArgsValid a b c) :
    (∃ m, modelNamed rawFactory k a b c = .ok m) ∧ (∃ m, modelNamed structuredFactory k a b c = .ok m) :=
  ⟨⟨_, C06.named_raw k a b c h⟩, ⟨_, C06.named_structured k a b c h⟩⟩

/-- encoders never panic on valid messages -/
theorem no_panic_encoders (m14 : CC14Msg) (h14 : m14.Valid) (mp : PNMsg) (hp : mp.Valid) (order : ByteOrder) :
    (∃ r, m14.toShortMessages rawFactory = .ok r) ∧ (∃ r, m14.toShortMessages structuredFactory = .ok r) ∧
    (∃ r, mp.toShortMessages rawFactory order = .ok r) ∧ (∃ r, mp.toShortMessages structuredFactory order = .ok r) :=
  ⟨⟨_, (C07.encode m14 h14).1⟩, ⟨_, (C07.encode m14 h14).2.1⟩, ⟨_, C09.encode_raw mp hp order⟩,
   ⟨_, C09.encode_structured mp hp order⟩⟩

/-- scanners never panic, for ANY history of valid operations (feed of any valid message, poll of any channel,
    reset, time steps): the `expect("impossible")`, the array index and the internal `new` assertion are dead -/
theorem no_panic_scanners (ops : List Op) (hv : ∀ op ∈ ops, op.Valid) (tops : List TOp) (htv : ∀ op ∈ tops, op.Valid)
    (now timeout : Nat) :
    (∃ r, ccRun CCScanner.new ops = .ok r) ∧ (∃ r, pnRun PNScanner.new ops = .ok r) ∧
    (∃ r, pRun now (PScanner.new timeout) tops = .ok r) := by
  obtain ⟨s, h, _⟩ := cc_run CCScanner.new [] ccRel_new ops hv
  obtain ⟨s', h', _⟩ := pn_run PNScanner.new [] pnRel_new ops hv
  obtain ⟨n, s'', o, h'', _⟩ := p_run_channel 0 (by decide) now (PScanner.new timeout) tops htv
  exact ⟨⟨_, h⟩, ⟨_, h'⟩, ⟨_, h''⟩⟩

/-- panics occur only where documented, and exactly under the documented condition:
    out-of-range arguments to checked constructors (`new`) and shorthand helpers, an MSB controller number above 31
    for a 14-bit Control Change message, a wrong type category for the generic factory constructors -/
theorem documented_panics_only :
    (∀ cfg ∈ allConfigs, ∀ (T : NewtypeDef) (v : Nat), newModel cfg T v = .error .newAssert ↔ T.max < v) ∧
    (∀ ch n v, n < 128 → (CC14Msg.new ch n v = .error .cc14MsbAssert ↔ 32 ≤ n) ∧ (n < 32 → CC14Msg.new ch n v = .ok ⟨ch, n, v⟩)) ∧
    (∀ (t : MsgType) (ch a b : Nat), ch < 16 →
      (channelMessage rawFactory t ch a b = .error .categoryAssert ↔ specCategory t.toU8 ≠ 0) ∧
      (systemCommonMessage rawFactory t a b = .error .categoryAssert ↔ specCategory t.toU8 ≠ 1) ∧
      (systemRealTimeMessage rawFactory t = .error .categoryAssert ↔ specCategory t.toU8 ≠ 2)) ∧
    (∀ x y z, tuNoteOn x y z = .error .testUtilExpect ↔ ¬ (x ≤ 15 ∧ y ≤ 127 ∧ z ≤ 127)) := by
  refine ⟨?_, ?_, ?_, ?_⟩
  · intro cfg hc T v; exact (C04.new_checked' cfg hc T v).2
  · intro ch n v hn
    rw [C07.new_ok_iff ch n v hn]
    by_cases h : n < 32
    · simp [h]
    · simp [h]; omega
  · intro t ch a b hc
    have := C06.generic_constructors rawFactory t ch a b hc
    rw [this.1, this.2.1, this.2.2]
    cases t <;> simp [specChannelMessage, specSystemCommonMessage, specSystemRealTimeMessage, specCategory, MsgType.toU8,
      rawFactory]
  · intro x y z
    rw [(C06.test_util_shorthands x y z).1]
    by_cases h : x ≤ 15 ∧ y ≤ 127 ∧ z ≤ 127
    · simp only [h, and_self, if_true, not_true_eq_false, iff_false]
      have hv : Ctor.noteOn.ArgsValid x y z := by simp [Ctor.ArgsValid]; omega
      rw [C06.named_raw .noteOn x y z hv]
      intro hh; cases hh
    · simp [h]

end Midi.Props.C18
