/-
C09  (N)RPN messages encode to the well-formed Control Change sequence.
-/
import Midi.Proofs.CC14
set_option linter.unusedSimpArgs false
namespace Midi.Props.C09
open Midi Midi.Spec

/-- the eight public constructors build exactly what they describe; 7-bit values are at most 127,
    14-bit implies data entry (arguments: channel < 16, number < 16384, value within U7 resp. U14) -/
theorem constructors (i ch n v : Nat) (hi : i < 8) (hc : ch < 16) (hn : n < 16384)
    (hv : if i = 1 ∨ i = 5 then v < 16384 else v < 128) :
    let m := PNMsg.ctor i ch n v
    m.Valid ∧ m.channel = ch ∧ m.number = n ∧ m.value = v ∧
    m.isRegistered = decide (4 ≤ i) ∧ m.is14Bit = decide (i = 1 ∨ i = 5) ∧
    m.dataType = (if i = 2 ∨ i = 6 then .dataDecrement else if i = 3 ∨ i = 7 then .dataIncrement else .dataEntry) ∧
    (m.is14Bit = false → m.value ≤ 127) ∧ (m.is14Bit = true → m.dataType = .dataEntry) := by
  have : i = 0 ∨ i = 1 ∨ i = 2 ∨ i = 3 ∨ i = 4 ∨ i = 5 ∨ i = 6 ∨ i = 7 := by omega
  rcases this with rfl | rfl | rfl | rfl | rfl | rfl | rfl | rfl <;>
    simp [PNMsg.ctor, PNMsg.sevenBit, PNMsg.fourteenBit, PNMsg.Valid] at hv ⊢ <;> omega

/-- every valid message is built by one of the public constructors -/
theorem valid_is_constructed (m : PNMsg) (hm : m.Valid) : ∃ i, i < 8 ∧ PNMsg.ctor i m.channel m.number m.value = m := by
  obtain ⟨c, n, v, r, b, d⟩ := m
  obtain ⟨_, _, h⟩ := hm
  cases r <;> cases b <;> cases d <;> simp at h
  · exact ⟨0, by omega, rfl⟩
  · exact ⟨3, by omega, rfl⟩
  · exact ⟨2, by omega, rfl⟩
  · exact ⟨1, by omega, rfl⟩
  · exact ⟨4, by omega, rfl⟩
  · exact ⟨7, by omega, rfl⟩
  · exact ⟨6, by omega, rfl⟩
  · exact ⟨5, by omega, rfl⟩

/-- encoding to RawShortMessages: number MSB on 101/99, number LSB on 100/98, then the value bytes in the
    requested order (or 96/97 for increment/decrement); no panic (slot index ≤ 3) -/
theorem encode_raw (m : PNMsg) (hm : m.Valid) (order : ByteOrder) :
    m.toShortMessages rawFactory order = .ok (specPNEncoding m order) := by
  obtain ⟨c, n, v, r, b, d⟩ := m
  obtain ⟨hc, hn, h⟩ := hm
  simp only at hc hn h
  have hst : buildStatusByte MsgType.controlChange.toU8 c = 176 + c := by
    simp [MsgType.toU8, buildStatusByte_eq _ _ _ hc]
  have hn1 : n / 128 % 128 = n / 128 := by omega
  cases r <;> cases b <;> cases d <;> cases order <;> simp at h <;>
    (try have hv1 : v / 128 % 128 = v / 128 := by omega) <;>
    (try have hv2 : v % 256 = v := by omega) <;>
    (try have hv3 : v % 128 = v := by omega) <;>
    simp [PNMsg.toShortMessages, mkControlChange, rawFactory, hst, bind, Except.bind, specPNEncoding, hn1, *]

/-- the same through StructuredShortMessage -/
theorem encode_structured (m : PNMsg) (hm : m.Valid) (order : ByteOrder) :
    m.toShortMessages structuredFactory order =
      .ok ((specPNEncoding m order).map (Option.map (fun b => SMsg.controlChange m.channel b.d1 b.d2))) := by
  obtain ⟨c, n, v, r, b, d⟩ := m
  obtain ⟨hc, hn, h⟩ := hm
  simp only at hc hn h
  have hst : buildStatusByte MsgType.controlChange.toU8 c = 176 + c := by
    simp [MsgType.toU8, buildStatusByte_eq _ _ _ hc]
  have hn1 : n / 128 % 128 = n / 128 := by omega
  have hs : ∀ x y, x < 128 → y < 128 → SMsg.ofBytesUnchecked ⟨176 + c, x, y⟩ = .ok (.controlChange c x y) := by
    intro x y hx hy
    rw [structured_ofBytes _ (cc_valid c x y hc hx hy)]
    have e1 : (176 + c) / 16 = 11 := by omega
    have e2 : (176 + c) % 16 = c := by omega
    simp [specStructured, specType, e1, e2]
  have k1 := hs 101 (n / 128) (by omega) (by omega)
  have k2 := hs 99 (n / 128) (by omega) (by omega)
  have k3 := hs 100 (n % 128) (by omega) (by omega)
  have k4 := hs 98 (n % 128) (by omega) (by omega)
  cases r <;> cases b <;> cases d <;> cases order <;> simp at h <;>
    (try have hv1 : v / 128 % 128 = v / 128 := by omega) <;>
    (try have hv2 : v % 256 = v := by omega) <;>
    (try have hv3 : v % 128 = v := by omega) <;>
    (try have k5 := hs 6 (v / 128) (by omega) (by omega)) <;>
    (try have k6 := hs 38 (v % 128) (by omega) (by omega)) <;>
    (try have k7 := hs 6 v (by omega) (by omega)) <;>
    (try have k8 := hs 96 v (by omega) (by omega)) <;>
    (try have k9 := hs 97 v (by omega) (by omega)) <;>
    simp [PNMsg.toShortMessages, mkControlChange, structuredFactory, hst, bind, Except.bind, specPNEncoding, hn1, *]

/-- exactly the 14-bit messages fill all four slots; the array conversion equals MSB-first encoding; every
    encoded message is a valid Control Change on the message's channel -/
theorem slots (m : PNMsg) (hm : m.Valid) (order : ByteOrder) :
    (specPNEncoding m order).length = 4 ∧
    (((specPNEncoding m order)[3]?).join.isSome = m.is14Bit) ∧
    (∀ {α} (F : Factory α), m.toArray F = m.toShortMessages F .msbFirst) ∧
    (∀ b, some b ∈ specPNEncoding m order → b.Valid ∧ b.status = 176 + m.channel) := by
  obtain ⟨c, n, v, r, b, d⟩ := m
  obtain ⟨hc, hn, h⟩ := hm
  simp only at hc hn h
  refine ⟨?_, ?_, fun F => rfl, ?_⟩
  · cases b <;> cases d <;> cases order <;> simp [specPNEncoding]
  · cases b <;> cases d <;> cases order <;> simp [specPNEncoding] at h ⊢
  · intro x hx
    cases r <;> cases b <;> cases d <;> cases order <;> simp [specPNEncoding] at h hx <;>
      (rcases hx with rfl | rfl | rfl | rfl) <;>
      exact ⟨cc_valid _ _ _ hc (by omega) (by omega), rfl⟩

/-- the controller numbers used are the ones named in the source (regenerated constants) -/
theorem controller_constants :
    Gen.CN.REGISTERED_PARAMETER_NUMBER_MSB = 101 ∧ Gen.CN.NON_REGISTERED_PARAMETER_NUMBER_MSB = 99 ∧
    Gen.CN.REGISTERED_PARAMETER_NUMBER_LSB = 100 ∧ Gen.CN.NON_REGISTERED_PARAMETER_NUMBER_LSB = 98 ∧
    Gen.CN.DATA_ENTRY_MSB = 6 ∧ Gen.CN.DATA_ENTRY_MSB_LSB = 38 ∧ Gen.CN.DATA_INCREMENT = 96 ∧
    Gen.CN.DATA_DECREMENT = 97 := by decide

/-! non-vacuity -/
example : (PNMsg.ctor 5 15 16383 16383).Valid ∧
    specPNEncoding (PNMsg.ctor 5 15 16383 16383) .lsbFirst =
      [some ⟨191, 101, 127⟩, some ⟨191, 100, 127⟩, some ⟨191, 38, 127⟩, some ⟨191, 6, 127⟩] := by decide

end Midi.Props.C09
