/-
C11  (N)RPN scanner reports exactly the justified messages.
`justifiedPN past m` (Midi/Spec/History.lean) is the property text as a function of the history alone.
-/
import Midi.Proofs.PN
set_option linter.unusedSimpArgs false
namespace Midi.Props.C11
open Midi Midi.Spec

/-- For ALL finite histories of feeds (any valid short message) and resets, of any length: the scanner never
    panics, every operation reports exactly what the history justifies, and so does the next input. -/
theorem exact (past : List Op) (hp : ∀ op ∈ past, op.Valid) (m : Bytes) (hm : m.Valid) :
    ∃ s s', pnRun PNScanner.new past = .ok (s, expectedPN [] past) ∧
      s.feed rawImpl m = .ok (s', justifiedPN past m) := by
  obtain ⟨s, h, r⟩ := pn_run PNScanner.new [] pnRel_new past hp
  obtain ⟨s', h', _⟩ := pn_feed_step s past (by simpa using r) m hm
  exact ⟨s, s', h, h'⟩

/-- every other input yields nothing -/
theorem nothing_else (past : List Op) (m : Bytes)
    (h : ¬ (176 ≤ m.status ∧ m.status < 192 ∧ (m.d1 = 6 ∨ m.d1 = 96 ∨ m.d1 = 97))) : justifiedPN past m = none := by
  simp [justifiedPN, h]

/-- nothing is reported unless both a number MSB and a number LSB have been received since creation / reset -/
theorem needs_complete_number (past : List Op) (m : Bytes)
    (h : numMsb past (m.status - 176) = none ∨ numLsb past (m.status - 176) = none) : justifiedPN past m = none := by
  unfold justifiedPN
  split
  · rcases h with h | h <;> simp [h]
  · rfl

/-- every reported message carries the channel of the input, number = 128 x latest MSB + latest LSB, and is
    registered exactly if the most recent number byte was controller 100/101 -/
theorem reported_fields (past : List Op) (m : Bytes) (r : PNMsg) (h : justifiedPN past m = some r) :
    ∃ hi lo, numMsb past (m.status - 176) = some hi ∧ numLsb past (m.status - 176) = some lo ∧
      r.channel = m.status - 176 ∧ r.number = 128 * hi + lo ∧ r.isRegistered = regOf past (m.status - 176) ∧
      (m.d1 = 96 → r = ⟨m.status - 176, 128 * hi + lo, m.d2, regOf past (m.status - 176), false, .dataIncrement⟩) ∧
      (m.d1 = 97 → r = ⟨m.status - 176, 128 * hi + lo, m.d2, regOf past (m.status - 176), false, .dataDecrement⟩) ∧
      (m.d1 = 6 → ∀ l, v38Of past (m.status - 176) = some l →
        r = ⟨m.status - 176, 128 * hi + lo, 128 * m.d2 + l, regOf past (m.status - 176), true, .dataEntry⟩) ∧
      (m.d1 = 6 → v38Of past (m.status - 176) = none →
        r = ⟨m.status - 176, 128 * hi + lo, m.d2, regOf past (m.status - 176), false, .dataEntry⟩) := by
  unfold justifiedPN at h
  split at h
  · rename_i hc
    cases h1 : numMsb past (m.status - 176) <;> cases h2 : numLsb past (m.status - 176) <;> simp [h1, h2] at h
    rename_i hi lo
    refine ⟨hi, lo, rfl, rfl, ?_⟩
    by_cases c96 : m.d1 = 96
    · simp [c96] at h; subst h; simp [c96]
    · by_cases c97 : m.d1 = 97
      · simp [c96, c97] at h; subst h; simp [c97]
      · have c6 : m.d1 = 6 := by omega
        simp [c96, c97] at h
        cases h3 : v38Of past (m.status - 176) <;> simp [h3] at h <;> subst h <;> simp [c6]
  · cases h

/-! non-vacuity -/
example : justifiedPN [.feed ⟨178, 99, 3⟩, .feed ⟨178, 98, 37⟩, .feed ⟨178, 38, 64⟩] ⟨178, 6, 62⟩
    = some ⟨2, 421, 8000, false, true, .dataEntry⟩ := by decide

end Midi.Props.C11
