/-
C11  (N)RPN scanner reports exactly the justified messages.
`justifiedPN past m` (Midi/Spec/History.lean) is the property text as a function of the history alone.
-/
import Midi.Proofs.PN
set_option linter.unusedSimpArgs false
namespace Midi.Props.C11
open Midi Midi.Spec

/-- For ALL finite histories of feeds (any valid short message) and resets, of any length: the scanner never
    panics, every operation reports exactly what the history justifies, and so does the next input. -/
theorem exact (past : List Op) (hp : ∀ op ∈ past, op.Valid) (m : Bytes) (hm : m.Valid) :
    ∃ s s', pnRun PNScanner.new past = .ok (s, expectedPN [] past) ∧
      s.feed rawImpl m = .ok (s', justifiedPN past m) := by
  obtain ⟨s, h, r⟩ := pn_run PNScanner.new [] pnRel_new past hp
  obtain ⟨s', h', _⟩ := pn_feed_step s past (by simpa using r) m hm
  exact ⟨s, s', h, h'⟩

/-- every other input yields nothing -/
theorem nothing_else (past : List Op) (m : Bytes)
    (h : ¬ (176 ≤ m.status ∧ m.status < 192 ∧ (m.d1 = 6 ∨ m.d1 = 96 ∨ m.d1 = 97))) : justifiedPN past m = none := by
  simp [justifiedPN, h]

/-- nothing is reported unless both a number MSB and a number LSB have been received since creation / reset -/
theorem needs_complete_number (past : List Op) (m : Bytes)
    (h : numMsb past (m.status - 176) = none ∨ numLsb past (m.status - 176) = none) : justifiedPN past m = none := by
  unfold justifiedPN
  split
  · rcases h with h | h <;> simp [h]
  · rfl

/-- every reported message carries the channel of the input, number = 128 x latest MSB + latest LSB, and is
    registered exactly if the most recent number byte was controller 100/101 -/
theorem reported_fields (past : List Op) (m : Bytes) (r : PNMsg) (h : justifiedPN past m = some r) :
    ∃ hi lo, numMsb past (m.status - 176) = some hi ∧ numLsb past (m.status - 176) = some lo ∧
      r.channel = m.status - 176 ∧ r.number = 128 * hi + lo ∧ r.isRegistered = regOf past (m.status - 176) ∧
      (m.d1 = 96 → r = ⟨m.status - 176, 128 * hi + lo, m.d2, regOf past (m.status - 176), false, .dataIncrement⟩) ∧
      (m.d1 = 97 → r = ⟨m.status - 176, 128 * hi + lo, m.d2, regOf past (m.status - 176), false, .dataDecrement⟩) ∧
      (m.d1 = 6 → ∀ l, v38Of past (m.status - 176) = some l →
        r = ⟨m.status - 176, 128 * hi + lo, 128 * m.d2 + l, regOf past (m.status - 176), true, .dataEntry⟩) ∧
      (m.d1 = 6 → v38Of past (m.status - 176) = none →
        r = ⟨m.status - 176, 128 * hi + lo, m.d2, regOf past (m.status - 176), false, .dataEntry⟩) := by
  unfold justifiedPN at h
  split at h
  · rename_i hc
    cases h1 : numMsb past (m.status - 176) <;> cases h2 : numLsb past (m.status - 176) <;> simp [h1, h2] at h
    rename_i hi lo
    refine ⟨hi, lo, rfl, rfl, ?_⟩
    by_cases c96 : m.d1 = 96
    · simp [c96] at h; subst h; simp [c96]
    · by_cases c97 : m.d1 = 97
      · simp [c96, c97] at h; subst h; simp [c97]
      · have c6 : m.d1 = 6 := by omega
        simp [c96, c97] at h
        cases h3 : v38Of past (m.status - 176) <;> simp [h3] at h <;> subst h <;> simp [c6]
  · cases h

/-! non-vacuity -/
example : justifiedPN [.feed ⟨178, 99, 3⟩, .feed ⟨178, 98, 37⟩, .feed ⟨178, 38, 64⟩] ⟨178, 6, 62⟩
    = some ⟨2, 421, 8000, false, true, .dataEntry⟩ := by decide

/-! ### data independence (justifies the value abstraction of the correspondence's state-space exploration) -/

/-- C11, data independence: the scanner looks at status bytes and controller numbers only. -/
theorem data_independent (f : Nat → Nat) (past : List Op) (hp : ∀ op ∈ past, op.Valid) (m : Bytes) (hm : m.Valid) :
    justifiedPN (past.map (relabelOp f)) (relabelB f m) = (justifiedPN past m).map (relabelMsg f) := by
  unfold justifiedPN
  by_cases h : 176 ≤ m.status ∧ m.status < 192 ∧ (m.d1 = 6 ∨ m.d1 = 96 ∨ m.d1 = 97)
  · have hr : relabelB f m = ⟨m.status, m.d1, f m.d2⟩ := by simp [relabelB, h.1, h.2.1]
    have hc : m.status - 176 < 16 := by omega
    have e1 := foldl_relabel (Option.map f) (numMsbStep (m.status - 176)) f (numMsbStep_relabel f _ hc) past none
    have e2 := foldl_relabel (Option.map f) (numLsbStep (m.status - 176)) f (numLsbStep_relabel f _ hc) past none
    have e3 := foldl_relabel id (regStep (m.status - 176)) f (regStep_relabel f _ hc) past false
    have e4 := foldl_relabel (Option.map f) (v38Step (m.status - 176)) f (v38Step_relabel f _ hc) past none
    simp only [Option.map_none, id] at e1 e2 e3 e4
    have l1 := numMsb_lt (m.status - 176) past hp
    have l2 := numLsb_lt (m.status - 176) past hp
    have l4 := v38_lt (m.status - 176) past hp
    simp only [numMsb, numLsb, regOf, v38Of] at l1 l2 l4 ⊢
    simp only [hr, h, and_self, if_true, e1, e2, e3, e4]
    have hd2 := hm.2.2.2
    cases hq1 : past.foldl (numMsbStep (m.status - 176)) none with
    | none => simp
    | some hi =>
      cases hq2 : past.foldl (numLsbStep (m.status - 176)) none with
      | none => simp
      | some lo =>
        have hhi := l1 hi hq1
        have hlo := l2 lo hq2
        have n1 : (128 * hi + lo) / 128 = hi := by omega
        have n2 : (128 * hi + lo) % 128 = lo := by omega
        simp only [Option.map_some]
        by_cases h96 : m.d1 = 96
        · simp [h96, relabelMsg, n1, n2]
        · by_cases h97 : m.d1 = 97
          · simp [h97, relabelMsg, n1, n2]
          · cases hq4 : past.foldl (v38Step (m.status - 176)) none with
            | none => simp [h96, h97, relabelMsg, n1, n2]
            | some l =>
              have hl := l4 l hq4
              have v1 : (128 * m.d2 + l) / 128 = m.d2 := by omega
              have v2 : (128 * m.d2 + l) % 128 = l := by omega
              simp [h96, h97, relabelMsg, n1, n2, v1, v2]
  · have hr : ¬ (176 ≤ (relabelB f m).status ∧ (relabelB f m).status < 192 ∧
        ((relabelB f m).d1 = 6 ∨ (relabelB f m).d1 = 96 ∨ (relabelB f m).d1 = 97)) := by
      unfold relabelB; split <;> simpa using h
    simp [h, hr]

/-- ... and so does the scanner itself after ANY relabelled history -/
theorem scanner_data_independent (f : Nat → Nat) (hf : ∀ v, v < 128 → f v < 128)
    (past : List Op) (hp : ∀ op ∈ past, op.Valid) (m : Bytes) (hm : m.Valid) :
    ∃ s s', pnRun PNScanner.new (past.map (relabelOp f)) = .ok (s, expectedPN [] (past.map (relabelOp f))) ∧
      s.feed rawImpl (relabelB f m) = .ok (s', (justifiedPN past m).map (relabelMsg f)) := by
  rw [← data_independent f past hp m hm]
  exact exact _ (relabel_valid f hf past hp) _ (relabelB_valid f hf m hm)

/-! non-vacuity: collapsing every value to `v % 2` -/
example : justifiedPN ([.feed ⟨181, 99, 9⟩, .feed ⟨181, 98, 4⟩, .feed ⟨181, 38, 7⟩].map (relabelOp (· % 2)))
    (relabelB (· % 2) ⟨181, 6, 33⟩) = some ⟨5, 128, 129, false, true, .dataEntry⟩ := by decide

end Midi.Props.C11
