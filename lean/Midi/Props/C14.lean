/-
C14  Polling scanner never fabricates, duplicates or loses data entries.
The property is the executable trace monitor `Mon` of Midi/Spec/Monitor.lean (attribution of every reported message
to bytes actually received, nothing before a complete number, no controller-6 byte reported twice / as 7-bit after
being part of a 14-bit value, every controller-6 byte received with a complete number reported no later than the next
contributing message or the first poll after the timeout, shape of two-message results).  The theorem: the monitor
accepts EVERY trace of the model — any finite sequence of events of a channel (feeds incl. malformed and mixed
registered / non-registered traffic, polls at any times, resets), from a new scanner with any timeout.
-/
import Midi.Proofs.Polling
import Midi.Spec.Monitor
set_option linter.unusedSimpArgs false
namespace Midi.Props.C14
open Midi Midi.Spec

/-- the trace of one channel's sub-scanner over a list of events: each event with what the call returned -/
def traceOf (ch : Nat) (c : PChan) : List PEv → List (PEv × POut)
  | [] => []
  | e :: es => (e, (c.ev ch e).2) :: traceOf ch (c.ev ch e).1 es

/-- events whose bytes are in range (what a valid short message can carry) and whose times do not run backwards
    are not required: the theorem holds for ALL event lists with 7-bit values -/
def EvValid : PEv → Prop
  | .cc cn cv _ => cn < 128 ∧ cv < 128
  | _ => True

/-- MAIN THEOREM: for every channel, timeout and every finite sequence of events, the monitor accepts the trace of
    the model started as a new scanner's channel. -/
theorem monitor_accepts (ch timeout : Nat) (es : List PEv) (hv : ∀ e ∈ es, EvValid e) :
    ({} : Mon).accepts ch timeout (traceOf ch { timeout := timeout } es) = true := by
  sorry

end Midi.Props.C14
