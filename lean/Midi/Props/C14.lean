/-
C14  Polling scanner never fabricates, duplicates or loses data entries.
The property is the executable trace monitor `Mon` of Midi/Spec/Monitor.lean (attribution of every reported message
to bytes actually received, nothing before a complete number, no controller-6 byte reported twice / as 7-bit after
being part of a 14-bit value, every controller-6 byte received with a complete number reported no later than the next
contributing message or the first poll after the timeout, shape of two-message results).  The theorem: the monitor
accepts EVERY trace of the model — any finite sequence of events of a channel (feeds incl. malformed and mixed
registered / non-registered traffic, polls at any times, resets), from a new scanner with any timeout.
-/
import Midi.Proofs.Polling
import Midi.Spec.Monitor
import Midi.Proofs.PollRelabel
set_option linter.unusedSimpArgs false
set_option linter.unusedVariables false
namespace Midi.Props.C14
open Midi Midi.Spec

/-- the trace of one channel's sub-scanner over a list of events: each event with what the call returned -/
def traceOf (ch : Nat) (c : PChan) : List PEv → List (PEv × POut)
  | [] => []
  | e :: es => (e, (c.ev ch e).2) :: traceOf ch (c.ev ch e).1 es

/-- events whose bytes are in range (what a valid short message can carry) and whose times do not run backwards
    are not required: the theorem holds for ALL event lists with 7-bit values -/
def EvValid : PEv → Prop
  | .cc cn cv _ => cn < 128 ∧ cv < 128
  | _ => True

/-! ### the relation between the monitor's memory and the model's per-channel state -/

/-- the monitor remembers exactly the complete number of the model state; its bytes are 7-bit -/
def NumOk (m : Mon) (ns : NumberState) : Prop :=
  m.hi = some ns.msb ∧ m.lo = some ns.lsb ∧ m.reg = ns.isRegistered ∧ ns.msb < 128 ∧ ns.lsb < 128

/-- simulation relation: what the monitor remembers (number bytes, latest controller-6 / controller-38 values with
    their marks, owed byte) as determined by the phase of the model's per-channel state -/
def MInv (m : Mon) : PState → Prop
  | .waitingForNumber none _ _ => m.hi = none ∧ m.lo = none ∧ m.owed = none
  | .waitingForNumber (some b) reg true => m.hi = some b ∧ m.lo = none ∧ m.reg = reg ∧ m.owed = none ∧ b < 128
  | .waitingForNumber (some b) reg false => m.hi = none ∧ m.lo = some b ∧ m.reg = reg ∧ m.owed = none ∧ b < 128
  | .waitingForFirstValue ns => NumOk m ns ∧ m.owed = none
  | .valuePending ns arr f true => NumOk m ns ∧ m.cc6 = some (f, false, false) ∧ m.owed = some arr ∧ f < 128
  | .valuePending ns _ f false => NumOk m ns ∧ m.cc38 = some f ∧ m.owed = none ∧ f < 128
  | .fourteenComplete ns a b => NumOk m ns ∧ (∃ r, m.cc6 = some (a, r, true)) ∧ m.cc38 = some b ∧ m.owed = none ∧ a < 128 ∧ b < 128


theorem div_lem (f cv : Nat) (h : cv < 128) : (f * 128 + cv) / 128 = f := by omega

/-- unfold model transition + monitor step and normalise (all case splits are done by the caller) -/
macro "mon_simp" : tactic => `(tactic|
  simp [PState.onCC, PState.processValueMsb, PState.processValueLsb, PState.processValueIncDec, PState.processNumberByte,
      Mon.step, isContributingCn, outMsgs, shapeOk, MInv, NumOk, Mon.numberOf, resolvePending,
      completePending, attributionOk, reportsByte, PNMsg.sevenBit, PNMsg.fourteenBit, NumberState.number, build14_eq,
      Nat.mul_comm, div_lem, *])


theorem step_98 (ch timeout : Nat) (m : Mon) (st : PState) (cv now : Nat) (hcv : cv < 128) (h : MInv m st) :
    ∃ m', m.step ch timeout (.cc 98 cv now) (st.onCC now ch 98 cv).2 = some m' ∧ MInv m' (st.onCC now ch 98 cv).1 := by
  obtain ⟨hi, lo, reg, cc6, cc38, owed⟩ := m
  cases st with
  | waitingForNumber first r k =>
    cases first <;> cases k <;> simp only [MInv] at h <;> mon_simp
  | waitingForFirstValue ns =>
    simp only [MInv, NumOk] at h
    mon_simp
  | valuePending ns arr f k =>
    cases k <;> simp only [MInv, NumOk] at h <;> mon_simp
  | fourteenComplete ns a b =>
    simp only [MInv, NumOk] at h
    obtain ⟨h1, ⟨r, h2⟩, h3⟩ := h
    mon_simp

theorem step_99 (ch timeout : Nat) (m : Mon) (st : PState) (cv now : Nat) (hcv : cv < 128) (h : MInv m st) :
    ∃ m', m.step ch timeout (.cc 99 cv now) (st.onCC now ch 99 cv).2 = some m' ∧ MInv m' (st.onCC now ch 99 cv).1 := by
  obtain ⟨hi, lo, reg, cc6, cc38, owed⟩ := m
  cases st with
  | waitingForNumber first r k =>
    cases first <;> cases k <;> simp only [MInv] at h <;> mon_simp
  | waitingForFirstValue ns =>
    simp only [MInv, NumOk] at h
    mon_simp
  | valuePending ns arr f k =>
    cases k <;> simp only [MInv, NumOk] at h <;> mon_simp
  | fourteenComplete ns a b =>
    simp only [MInv, NumOk] at h
    obtain ⟨h1, ⟨r, h2⟩, h3⟩ := h
    mon_simp

theorem step_100 (ch timeout : Nat) (m : Mon) (st : PState) (cv now : Nat) (hcv : cv < 128) (h : MInv m st) :
    ∃ m', m.step ch timeout (.cc 100 cv now) (st.onCC now ch 100 cv).2 = some m' ∧ MInv m' (st.onCC now ch 100 cv).1 := by
  obtain ⟨hi, lo, reg, cc6, cc38, owed⟩ := m
  cases st with
  | waitingForNumber first r k =>
    cases first <;> cases k <;> simp only [MInv] at h <;> mon_simp
  | waitingForFirstValue ns =>
    simp only [MInv, NumOk] at h
    mon_simp
  | valuePending ns arr f k =>
    cases k <;> simp only [MInv, NumOk] at h <;> mon_simp
  | fourteenComplete ns a b =>
    simp only [MInv, NumOk] at h
    obtain ⟨h1, ⟨r, h2⟩, h3⟩ := h
    mon_simp

theorem step_101 (ch timeout : Nat) (m : Mon) (st : PState) (cv now : Nat) (hcv : cv < 128) (h : MInv m st) :
    ∃ m', m.step ch timeout (.cc 101 cv now) (st.onCC now ch 101 cv).2 = some m' ∧ MInv m' (st.onCC now ch 101 cv).1 := by
  obtain ⟨hi, lo, reg, cc6, cc38, owed⟩ := m
  cases st with
  | waitingForNumber first r k =>
    cases first <;> cases k <;> simp only [MInv] at h <;> mon_simp
  | waitingForFirstValue ns =>
    simp only [MInv, NumOk] at h
    mon_simp
  | valuePending ns arr f k =>
    cases k <;> simp only [MInv, NumOk] at h <;> mon_simp
  | fourteenComplete ns a b =>
    simp only [MInv, NumOk] at h
    obtain ⟨h1, ⟨r, h2⟩, h3⟩ := h
    mon_simp

theorem step_38 (ch timeout : Nat) (m : Mon) (st : PState) (cv now : Nat) (hcv : cv < 128) (h : MInv m st) :
    ∃ m', m.step ch timeout (.cc 38 cv now) (st.onCC now ch 38 cv).2 = some m' ∧ MInv m' (st.onCC now ch 38 cv).1 := by
  obtain ⟨hi, lo, reg, cc6, cc38, owed⟩ := m
  cases st with
  | waitingForNumber first r k =>
    cases first <;> cases k <;> simp only [MInv] at h <;> mon_simp
  | waitingForFirstValue ns =>
    simp only [MInv, NumOk] at h
    mon_simp
  | valuePending ns arr f k =>
    cases k <;> simp only [MInv, NumOk] at h <;> mon_simp
  | fourteenComplete ns a b =>
    simp only [MInv, NumOk] at h
    obtain ⟨h1, ⟨r, h2⟩, h3⟩ := h
    mon_simp

theorem step_6 (ch timeout : Nat) (m : Mon) (st : PState) (cv now : Nat) (hcv : cv < 128) (h : MInv m st) :
    ∃ m', m.step ch timeout (.cc 6 cv now) (st.onCC now ch 6 cv).2 = some m' ∧ MInv m' (st.onCC now ch 6 cv).1 := by
  obtain ⟨hi, lo, reg, cc6, cc38, owed⟩ := m
  cases st with
  | waitingForNumber first r k =>
    cases first <;> cases k <;> simp only [MInv] at h <;> mon_simp
  | waitingForFirstValue ns =>
    simp only [MInv, NumOk] at h
    mon_simp
  | valuePending ns arr f k =>
    cases k <;> simp only [MInv, NumOk] at h <;> mon_simp
  | fourteenComplete ns a b =>
    simp only [MInv, NumOk] at h
    obtain ⟨h1, ⟨r, h2⟩, h3⟩ := h
    mon_simp

theorem step_96 (ch timeout : Nat) (m : Mon) (st : PState) (cv now : Nat) (hcv : cv < 128) (h : MInv m st) :
    ∃ m', m.step ch timeout (.cc 96 cv now) (st.onCC now ch 96 cv).2 = some m' ∧ MInv m' (st.onCC now ch 96 cv).1 := by
  obtain ⟨hi, lo, reg, cc6, cc38, owed⟩ := m
  cases st with
  | waitingForNumber first r k =>
    cases first <;> cases k <;> simp only [MInv] at h <;> mon_simp
  | waitingForFirstValue ns =>
    simp only [MInv, NumOk] at h
    mon_simp
  | valuePending ns arr f k =>
    cases k <;> simp only [MInv, NumOk] at h <;> mon_simp
  | fourteenComplete ns a b =>
    simp only [MInv, NumOk] at h
    obtain ⟨h1, ⟨r, h2⟩, h3⟩ := h
    mon_simp

theorem step_97 (ch timeout : Nat) (m : Mon) (st : PState) (cv now : Nat) (hcv : cv < 128) (h : MInv m st) :
    ∃ m', m.step ch timeout (.cc 97 cv now) (st.onCC now ch 97 cv).2 = some m' ∧ MInv m' (st.onCC now ch 97 cv).1 := by
  obtain ⟨hi, lo, reg, cc6, cc38, owed⟩ := m
  cases st with
  | waitingForNumber first r k =>
    cases first <;> cases k <;> simp only [MInv] at h <;> mon_simp
  | waitingForFirstValue ns =>
    simp only [MInv, NumOk] at h
    mon_simp
  | valuePending ns arr f k =>
    cases k <;> simp only [MInv, NumOk] at h <;> mon_simp
  | fourteenComplete ns a b =>
    simp only [MInv, NumOk] at h
    obtain ⟨h1, ⟨r, h2⟩, h3⟩ := h
    mon_simp

theorem step_other (ch timeout : Nat) (m : Mon) (st : PState) (cn cv now : Nat)
    (hn : cn ≠ 98 ∧ cn ≠ 99 ∧ cn ≠ 100 ∧ cn ≠ 101 ∧ cn ≠ 38 ∧ cn ≠ 6 ∧ cn ≠ 96 ∧ cn ≠ 97) (h : MInv m st) :
    ∃ m', m.step ch timeout (.cc cn cv now) (st.onCC now ch cn cv).2 = some m' ∧ MInv m' (st.onCC now ch cn cv).1 := by
  have hc : isContributingCn cn = false := by
    simp [isContributingCn]; omega
  have ho : st.onCC now ch cn cv = (st, (none, none)) := by
    unfold PState.onCC
    split <;> first | omega | rfl
  rw [ho]
  simp [Mon.step, hc, outMsgs, h]

theorem step_cc (ch timeout : Nat) (m : Mon) (st : PState) (cn cv now : Nat) (hcv : cv < 128) (h : MInv m st) :
    ∃ m', m.step ch timeout (.cc cn cv now) (st.onCC now ch cn cv).2 = some m' ∧ MInv m' (st.onCC now ch cn cv).1 := by
  by_cases h1 : cn = 98; · subst h1; exact step_98 ch timeout m st cv now hcv h
  by_cases h2 : cn = 99; · subst h2; exact step_99 ch timeout m st cv now hcv h
  by_cases h3 : cn = 100; · subst h3; exact step_100 ch timeout m st cv now hcv h
  by_cases h4 : cn = 101; · subst h4; exact step_101 ch timeout m st cv now hcv h
  by_cases h5 : cn = 38; · subst h5; exact step_38 ch timeout m st cv now hcv h
  by_cases h6 : cn = 6; · subst h6; exact step_6 ch timeout m st cv now hcv h
  by_cases h7 : cn = 96; · subst h7; exact step_96 ch timeout m st cv now hcv h
  by_cases h8 : cn = 97; · subst h8; exact step_97 ch timeout m st cv now hcv h
  exact step_other ch timeout m st cn cv now ⟨h1, h2, h3, h4, h5, h6, h7, h8⟩ h

theorem step_poll (ch timeout : Nat) (m : Mon) (st : PState) (now : Nat) (h : MInv m st) :
    ∃ m', m.step ch timeout (.poll now) (((⟨timeout, st⟩ : PChan).poll now ch).2, none) = some m' ∧
      MInv m' ((⟨timeout, st⟩ : PChan).poll now ch).1.state := by
  obtain ⟨hi, lo, reg, cc6, cc38, owed⟩ := m
  cases st with
  | waitingForNumber first r k =>
    cases first <;> cases k <;> simp only [MInv] at h <;> simp [PChan.poll] <;> mon_simp
  | waitingForFirstValue ns =>
    simp only [MInv, NumOk] at h
    simp [PChan.poll]; mon_simp
  | valuePending ns arr f k =>
    by_cases hlt : now - arr < timeout <;>
    cases k <;> simp only [MInv, NumOk] at h <;> simp [PChan.poll, hlt] <;> mon_simp
  | fourteenComplete ns a b =>
    simp only [MInv, NumOk] at h
    obtain ⟨h1, ⟨r, h2⟩, h3⟩ := h
    simp [PChan.poll]; mon_simp

/-- one event: the monitor accepts what the model returned, and the relation is re-established -/
theorem step_ev (ch timeout : Nat) (m : Mon) (st : PState) (e : PEv) (hv : EvValid e) (h : MInv m st) :
    ∃ m', m.step ch timeout e ((⟨timeout, st⟩ : PChan).ev ch e).2 = some m' ∧
      ((⟨timeout, st⟩ : PChan).ev ch e).1.timeout = timeout ∧
      MInv m' ((⟨timeout, st⟩ : PChan).ev ch e).1.state := by
  cases e with
  | cc cn cv now =>
    obtain ⟨m', h1, h2⟩ := step_cc ch timeout m st cn cv now hv.2 h
    exact ⟨m', h1, rfl, h2⟩
  | poll now =>
    obtain ⟨m', h1, h2⟩ := step_poll ch timeout m st now h
    exact ⟨m', h1, ev_timeout ch _ _, h2⟩
  | reset =>
    exact ⟨{}, by simp [Mon.step, PChan.ev, outMsgs], rfl, by simp [PChan.ev, PState.default, MInv]⟩

theorem accepts_of_inv (ch timeout : Nat) (es : List PEv) (hv : ∀ e ∈ es, EvValid e) :
    ∀ (m : Mon) (st : PState), MInv m st →
      m.accepts ch timeout (traceOf ch ⟨timeout, st⟩ es) = true := by
  induction es with
  | nil => intros; rfl
  | cons e es ih =>
    intro m st h
    obtain ⟨m', h1, h2, h3⟩ := step_ev ch timeout m st e (hv e List.mem_cons_self) h
    simp only [traceOf, Mon.accepts, h1]
    have hc : (PChan.ev ch ⟨timeout, st⟩ e).1 = ⟨timeout, (PChan.ev ch ⟨timeout, st⟩ e).1.state⟩ := by
      generalize PChan.ev ch ⟨timeout, st⟩ e = r at h2
      obtain ⟨⟨t, s⟩, o⟩ := r
      simp only at h2
      subst h2; rfl
    rw [hc]
    exact ih (fun e he => hv e (List.mem_cons_of_mem _ he)) m' _ h3

/-- MAIN THEOREM: for every channel, timeout and every finite sequence of events, the monitor accepts the trace of
    the model started as a new scanner's channel. -/
theorem monitor_accepts (ch timeout : Nat) (es : List PEv) (hv : ∀ e ∈ es, EvValid e) :
    ({} : Mon).accepts ch timeout (traceOf ch { timeout := timeout } es) = true :=
  accepts_of_inv ch timeout es hv {} PState.default (by simp [PState.default, MInv])

/-! ### the whole 16-channel scanner -/

theorem traceOf_eq_zip (ch : Nat) (c : PChan) (es : List PEv) : traceOf ch c es = es.zip (c.evs ch es).2 := by
  induction es generalizing c with
  | nil => rfl
  | cons e es ih => simp [traceOf, PChan.evs, ih]

theorem project_valid (c now : Nat) (ops : List TOp) (hv : ∀ op ∈ ops, op.Valid) : ∀ e ∈ project c now ops, EvValid e := by
  induction ops generalizing now with
  | nil => intro e he; simp [project] at he
  | cons op ops ih =>
    intro e he
    have hop := hv op List.mem_cons_self
    have ih' := ih (nextNow now op) (fun o ho => hv o (List.mem_cons_of_mem _ ho))
    simp only [project] at he
    cases hp : projectOp c now op with
    | none => rw [hp] at he; exact ih' e he
    | some e' =>
      rw [hp] at he
      rcases List.mem_cons.mp he with h | h
      · subst h
        cases op with
        | feed b =>
          simp only [projectOp] at hp
          split at hp
          · injection hp with hp; subst hp
            exact ⟨hop.2.2.1, hop.2.2.2⟩
          · cases hp
        | poll ch => simp only [projectOp] at hp; split at hp <;> first | (injection hp with hp; subst hp; trivial) | cases hp
        | reset => simp only [projectOp] at hp; injection hp with hp; subst hp; trivial
        | tick d => simp [projectOp] at hp
      · exact ih' e h

/-- C14 for the WHOLE scanner: under any interleaving of valid feeds on all 16 channels, polls, resets and time steps,
    started from `new(timeout)` at any time, the scanner never panics and for every channel the monitor accepts the
    sequence of (event of that channel, what the call returned) -/
theorem monitor_accepts_scanner (c : Nat) (hc : c < 16) (now timeout : Nat) (ops : List TOp) (hv : ∀ op ∈ ops, op.Valid) :
    ∃ n s outs, pRun now (PScanner.new timeout) ops = .ok ((n, s), outs) ∧
      ({} : Mon).accepts c timeout ((project c now ops).zip (outputsOn c now ops outs)) = true := by
  obtain ⟨n, s, outs, h, _, _, ho⟩ := p_run_channel c hc now (PScanner.new timeout) ops hv
  refine ⟨n, s, outs, h, ?_⟩
  have hnew : (PScanner.new timeout)[c] = ({ timeout := timeout } : PChan) := by simp [PScanner.new]
  rw [ho, hnew, ← traceOf_eq_zip]
  exact monitor_accepts c timeout _ (project_valid c now ops hv)

/-! ### data independence (justifies the value abstraction of the polling scanner's state-space exploration) -/

/-- C14 / C12, data independence of the polling scanner's per-channel machine, for EVERY finite sequence of events
    (Control Changes with time stamps, polls at any times, resets): relabelling all value bytes by `f` relabels
    the final state and every reported message, and changes nothing else - in particular not WHEN something is
    reported or how many messages there are. -/
theorem data_independent (f : Nat → Nat) (hf : ∀ v, v < 128 → f v < 128) (ch : Nat) (es : List PEv)
    (hv : ∀ e ∈ es, e.Valid) (c : PChan) (hs : c.state.Bytes7) :
    (c.relabel f).evs ch (es.map (relabelEv f)) = (((c.evs ch es).1).relabel f, (c.evs ch es).2.map (relabelPOut f)) := by
  induction es generalizing c with
  | nil => rfl
  | cons e es ih =>
    obtain ⟨h1, h2⟩ := ev_relabel f hf ch c hs e (hv e (List.mem_cons_self ..))
    simp only [List.map_cons, PChan.evs, h1, ih (fun x hx => hv x (List.mem_cons_of_mem _ hx)) _ h2]

/-! non-vacuity: NRPN 9/4 selected, data entry MSB 33 fed at time 5, polled at time 9 with timeout 3; every value
    collapsed to `v % 2` -/
example : (({ timeout := 3 } : PChan).evs 5 ([.cc 99 9 0, .cc 98 4 1, .cc 6 33 5, .poll 9].map (relabelEv (· % 2)))).2
    = [(none, none), (none, none), (none, none), (some ⟨5, 128, 1, false, false, .dataEntry⟩, none)] := by decide

end Midi.Props.C14
