/-
C17  reset() is equivalent to starting over.
-/
import Midi.Proofs.Polling
set_option linter.unusedSimpArgs false
namespace Midi.Props.C17
open Midi Midi.Spec

/-- after reset() the 14-bit CC scanner equals a newly created one — from EVERY state -/
theorem reset_eq_new_cc (s : CCScanner) : s.reset = CCScanner.new := by
  apply Vector.ext; intro i hi; simp [CCScanner.reset, CCScanner.new]

theorem reset_eq_new_pn (s : PNScanner) : s.reset = PNScanner.new := by
  apply Vector.ext; intro i hi; simp [PNScanner.reset, PNScanner.new]

/-- every channel carries the same timeout (true of `new t`, preserved by every operation) -/
def UniformTimeout (t : Nat) (s : PScanner) : Prop := ∀ c (h : c < 16), s[c].timeout = t

theorem uniform_new (t : Nat) : UniformTimeout t (PScanner.new t) := by
  intro c h; simp [PScanner.new]

/-- after any history from `new t` every channel still carries timeout `t` -/
theorem uniform_reachable (t now : Nat) (ops : List TOp) (hv : ∀ op ∈ ops, op.Valid) :
    ∃ n s outs, pRun now (PScanner.new t) ops = .ok ((n, s), outs) ∧ UniformTimeout t s := by
  have h0 := p_run_channel 0 (by decide) now (PScanner.new t) ops hv
  obtain ⟨n, s, outs, h, _, _, _⟩ := h0
  refine ⟨n, s, outs, h, ?_⟩
  intro c hc
  obtain ⟨n', s', outs', h', _, hs, _⟩ := p_run_channel c hc now (PScanner.new t) ops hv
  rw [h] at h'
  injection h' with h'
  injection h' with h1 h2
  injection h1 with h3 h4
  subst h4
  rw [hs, evs_timeout]
  simp [PScanner.new]

/-- after reset() the polling scanner equals a newly created one with the same timeout -/
theorem reset_eq_new_polling (t : Nat) (s : PScanner) (h : UniformTimeout t s) : s.reset = PScanner.new t := by
  apply Vector.ext; intro i hi
  simp [PScanner.reset, PScanner.new]
  have := h i hi
  cases hs : s[i]
  simp [hs] at this
  simp [this]

/-- new() and default() are equal; default() of the polling scanner equals new with a zero timeout -/
theorem new_eq_default : PScanner.default = PScanner.new 0 := rfl

/-- consequently a reset scanner reports, for every subsequent input sequence, exactly what a new scanner reports -/
theorem reset_continuation_cc (s : CCScanner) (ops : List Op) : ccRun s.reset ops = ccRun CCScanner.new ops := by
  rw [reset_eq_new_cc]
theorem reset_continuation_pn (s : PNScanner) (ops : List Op) : pnRun s.reset ops = pnRun PNScanner.new ops := by
  rw [reset_eq_new_pn]
theorem reset_continuation_polling (t now : Nat) (s : PScanner) (h : UniformTimeout t s) (ops : List TOp) :
    pRun now s.reset ops = pRun now (PScanner.new t) ops := by
  rw [reset_eq_new_polling t s h]

/-! A copy of a scanner is the same value; in the model (pure functions on values) it evolves identically and
independently by construction.  That the Rust `Copy` really is a deep copy of plain data is checked on the real
code by the harness (copies made in mid-history, driven down different suffixes). -/

example : UniformTimeout 3 (PScanner.new 3) := uniform_new 3

end Midi.Props.C17
