/-
C03 (continued): code written against the trait cannot tell which representation it was handed — in particular the
three scanners, which take `&impl ShortMessage`.
-/
import Midi.Proofs.ImplIndep
namespace Midi.Props.C03S
open Midi Midi.Spec

/-- For ANY lawful implementor of the trait (RawShortMessage, StructuredShortMessage, a third-party type), all three
    scanners behave exactly as on the RawShortMessage with the same bytes: same new state, same reports.  Hence
    every scanner theorem stated for RawShortMessage input (C07–C17) holds for every implementation. -/
theorem scanners_cannot_tell {α} (I : Impl α) (x : α) (hl : I.LawfulAt x) :
    (∀ s : CCScanner, s.feed I x = s.feed rawImpl (bytesOf I x)) ∧
    (∀ s : PNScanner, s.feed I x = s.feed rawImpl (bytesOf I x)) ∧
    (∀ (now : Nat) (s : PScanner), s.feed I now x = s.feed rawImpl now (bytesOf I x)) :=
  scanners_see_only_bytes I x hl

end Midi.Props.C03S
