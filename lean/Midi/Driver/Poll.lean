/- Driver commands about the polling scanner (`pp ...`): scanner table by id and a global mock clock. -/
import Midi.Driver.Scan
import Midi.Model.Polling
import Midi.Spec.Monitor
import Midi.Spec.Grammar
namespace Midi.Driver
open Midi Midi.Spec

/-- operations of a polling history (for the monitors): most recent first in the table -/
inductive POp
  | feed (b : Bytes) (now : Nat)
  | poll (ch : Nat) (now : Nat)
  | reset
  deriving Repr, Inhabited

/-- monitor states of the 16 channels of one implementation scanner (`none` = already rejected) and its timeout -/
structure MonTab where
  timeout : Nat
  mons : Array (Option Mon)
  /-- per channel: every controller-6 event (value, feed time) since the scanner was created — the executable form of
      C13.poll_report_justified: a poll may report value f only if some controller-6 message with value f was fed at a
      time arr with timeout ≤ now - arr -/
  cc6log : Array (List (Nat × Nat)) := Array.replicate 16 []

structure PollSt where
  now : Nat := 0
  tab : Array (Option (PScanner × List POp)) := #[]
  mon : Array (Option MonTab) := #[]
  flushSnap : Array (Option (List PNMsg)) := #[]

def decodeMsg (cs : List Int) : Option PNMsg :=
  match cs with
  | [c, n, v, r, b, d] =>
    if c < 0 then none else
    some ⟨c.toNat, n.toNat, v.toNat, r != 0, b != 0, if d == 1 then .dataIncrement else if d == 2 then .dataDecrement else .dataEntry⟩
  | _ => none

def decodePOut (cs : List Int) : POut := (decodeMsg (cs.take 6), decodeMsg ((cs.drop 6).take 6))

/-- feed the implementation's result of an event on channel `ch` of scanner `id` to that channel's monitor;
    returns the new tables and a failure description if the monitor rejects -/
def monitorEvent (st : PollSt) (id ch : Nat) (e : PEv) (o : POut) : PollSt × Option String :=
  match getAt st.mon id with
  | none => (st, none)
  | some mt =>
    match (mt.mons[ch]?).join with
    | none => (st, none)
    | some m =>
      match m.step ch mt.timeout e o with
      | some m' => ({ st with mon := setAt st.mon id { mt with mons := mt.mons.set! ch (some m') } }, none)
      | none =>
        ({ st with mon := setAt st.mon id { mt with mons := mt.mons.set! ch none } },
         some s!"c14Monitor channel={ch} timeout={mt.timeout} event={repr e} result={repr o} monitor={repr m}")

/-- monitor bookkeeping for one request, given the cells the IMPLEMENTATION produced -/
def monitorReq (st : PollSt) (args : List String) (impl : Obs) : PollSt × List String :=
  match args with
  | ["new", id, timeout] =>
    match id.toNat?, timeout.toNat? with
    | some id, some t => ({ st with mon := setAt st.mon id { timeout := t, mons := Array.replicate 16 (some {}) } }, [])
    | _, _ => (st, [])
  | ["default", id] =>
    match id.toNat? with
    | some id => ({ st with mon := setAt st.mon id { timeout := 0, mons := Array.replicate 16 (some {}) } }, [])
    | _ => (st, [])
  | ["copy", a, b] =>
    match a.toNat?, b.toNat? with
    | some a, some b => (match getAt st.mon a with | some x => ({ st with mon := setAt st.mon b x }, []) | none => (st, []))
    | _, _ => (st, [])
  | ["reset", id] =>
    match id.toNat? with
    | some id =>
      (List.range 16).foldl (fun (acc : PollSt × List String) ch =>
        let (s', f) := monitorEvent acc.1 id ch .reset (none, none)
        (s', acc.2 ++ f.toList)) (st, [])
    | none => (st, [])
  | ["feed", id, _impl, s, d1, d2] =>
    match id.toNat?, s.toNat?, d1.toNat?, d2.toNat? with
    | some id, some s, some d1, some d2 =>
      let o := decodePOut impl
      if 176 ≤ s && s < 192 then
        let (st', f) := monitorEvent st id (s - 176) (.cc d1 d2 st.now) o
        let st' := if d1 == 6 then
            (match getAt st'.mon id with
             | some mt => { st' with mon := setAt st'.mon id { mt with cc6log := mt.cc6log.modify (s - 176) (fun l => (d2, st.now) :: l.take 64) } }
             | none => st')
          else st'
        (st', f.toList)
      else if (outMsgs o).isEmpty then (st, [])
      else (st, [s!"c14Monitor a message that is not a Control Change reported something: status={s} result={repr o}"])
    | _, _, _, _ => (st, [])
  | ["poll", id, ch] =>
    match id.toNat?, ch.toNat? with
    | some id, some ch =>
      let (st', f) := monitorEvent st id ch (.poll st.now) (decodeMsg impl, none)
      -- C13: a poll's report must be justified by a controller-6 message fed at least `timeout` ago
      let c13 : List String :=
        match decodeMsg impl, getAt st.mon id with
        | some r, some mt =>
          let log := (mt.cc6log[ch]?).getD []
          if !r.is14Bit && r.dataType == .dataEntry && log.any (fun p => p.1 == r.value && decide (mt.timeout ≤ st.now - p.2)) then []
          else [s!"c13Monitor poll reported value={r.value} at now={st.now} timeout={mt.timeout} but no controller-6 message with that value was fed at least the timeout ago: log={repr log}"]
        | _, _ => []
      (st', f.toList ++ c13)
    | _, _ => (st, [])
  | _ => (st, [])

def u64Max : Nat := 18446744073709551615

def pOutObs (o : POut) : Obs := optObs pnObs 6 o.1 ++ optObs pnObs 6 o.2

def evalPP (st : PollSt) (args : List String) : Option (PollSt × Obs × Option Obs) :=
  match args with
  | ["new", id, timeout] => do
      some ({ st with tab := setAt st.tab (← id.toNat?) (PScanner.new (← timeout.toNat?), []) }, opOk, some opOk)
  | ["default", id] => do
      some ({ st with tab := setAt st.tab (← id.toNat?) (PScanner.default, []) }, opOk, some opOk)
  | ["copy", a, b] => do
      let x ← getAt st.tab (← a.toNat?)
      some ({ st with tab := setAt st.tab (← b.toNat?) x }, opOk, some opOk)
  | ["tick", d] => do
      let d ← d.toNat?
      some ({ st with now := min (st.now + d) u64Max }, opOk, some opOk)
  | ["settime", t] => do
      some ({ st with now := ← t.toNat? }, opOk, some opOk)
  | ["reset", id] => do
      let id ← id.toNat?
      let (s, h) ← getAt st.tab id
      some ({ st with tab := setAt st.tab id (s.reset, POp.reset :: h) }, opOk, some opOk)
  | ["feed", id, impl, s, d1, d2] => do
      let id ← id.toNat?
      let (sc, h) ← getAt st.tab id
      let b : Bytes := ⟨← s.toNat?, ← d1.toNat?, ← d2.toNat?⟩
      let run {α} (I : Impl α) (x : α) : PollSt × Obs :=
        match sc.feed I st.now x with
        | .ok (sc', out) => ({ st with tab := setAt st.tab id (sc', POp.feed b st.now :: h) }, pOutObs out)
        | .error p => (st, [cPanic p])
      let (st', o) := match impl with
        | "str" => (match SMsg.ofBytesUnchecked b with | .ok m => run structuredImpl m | .error p => (st, [cPanic p]))
        | "frn" => run foreignImpl b
        | _ => run rawImpl b
      some (st', o, none)
  | ["poll", id, ch] => do
      let id ← id.toNat?
      let ch ← ch.toNat?
      let (sc, h) ← getAt st.tab id
      match sc.poll st.now ch with
      | .ok (sc', out) => some ({ st with tab := setAt st.tab id (sc', POp.poll ch st.now :: h) }, optObs pnObs 6 out, none)
      | .error p => some (st, [cPanic p], none)
  | ["eq", a, b] => do
      let (x, _) ← getAt st.tab (← a.toNat?)
      let (y, _) ← getAt st.tab (← b.toNat?)
      some (st, [cBool (x == y)], none)
  | ["same", a, b] => do
      let (x, _) ← getAt st.tab (← a.toNat?)
      let (y, _) ← getAt st.tab (← b.toNat?)
      some (st, [cBool (x == y)], some [1])
  | ["pollfx", a, b, ch] => do
      -- `a`: the scanner after `poll ch`, `b`: a copy made just before.  C13: a poll before the timeout, and a poll
      -- with nothing pending on that channel, has no effect — the real `==` must then say so.
      let (x, _) ← getAt st.tab (← a.toNat?)
      let (y, _) ← getAt st.tab (← b.toNat?)
      let ch ← ch.toNat?
      let noEffectDue : Bool := match y[ch]? with
        | some c => (match c.state with
            | .valuePending _ arrival _ _ => decide (st.now - arrival < c.timeout)
            | _ => true)
        | none => false
      some (st, [cBool (x == y)], if noEffectDue then some [1] else none)
  | ["isnew", a, timeout] => do        -- == new(timeout), new(0) == default()
      let (x, _) ← getAt st.tab (← a.toNat?)
      let t ← timeout.toNat?
      some (st, [cBool (x == PScanner.new t), cBool (PScanner.new 0 == PScanner.default)], none)
  | ["mustbenew", a, timeout] => do
      let (x, _) ← getAt st.tab (← a.toNat?)
      let t ← timeout.toNat?
      some (st, [cBool (x == PScanner.new t), cBool (PScanner.new 0 == PScanner.default)], some [1, 1])
  | "c12begin" :: id :: ch :: [] => do
      let id ← id.toNat?
      let ch ← ch.toNat?
      let (sc, _) ← getAt st.tab id
      let c ← sc[ch]?
      some ({ st with flushSnap := setAt st.flushSnap id (flush ch c) }, opOk, some opOk)
  | "c12end" :: id :: ch :: toks => do
      let id ← id.toNat?
      let ch ← ch.toNat?
      let fl ← getAt st.flushSnap id
      let bs ← parseBlocks toks
      let cells := (fl ++ intended ch bs).flatMap pnObs
      let expected : Obs := if cells.isEmpty then [0] else cells   -- the empty report list is written as the single cell 0
      some (st, expected, some expected)
  | _ => none
where
  parseUnit (t : String) : Option VUnit :=
    match t.splitOn ":" with
    | ["a", v] => v.toNat?.map VUnit.msbAlone
    | ["p", m, l] => do some (VUnit.msbLsb (← m.toNat?) (← l.toNat?))
    | ["f", l] => l.toNat?.map VUnit.further
    | ["q", l, m] => do some (VUnit.lsbMsb (← l.toNat?) (← m.toNat?))
    | ["i", v] => v.toNat?.map (VUnit.incDec true)
    | ["d", v] => v.toNat?.map (VUnit.incDec false)
    | _ => none
  parseBlocks (toks : List String) : Option (List Block) :=
    let groups := (toks.splitBy (fun _ b => b != "B")).filter (fun g => !g.isEmpty)
    groups.mapM (fun g =>
      match g with
      | "B" :: reg :: mf :: num :: us => do
          let units ← us.mapM parseUnit
          some { reg := reg == "1", msbFirst := mf == "1", number := ← num.toNat?, units := units }
      | _ => none)

end Midi.Driver
