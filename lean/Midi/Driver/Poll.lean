/- Driver commands about the polling scanner (`pp ...`): scanner table by id and a global mock clock. -/
import Midi.Driver.Scan
import Midi.Model.Polling
namespace Midi.Driver
open Midi Midi.Spec

/-- operations of a polling history (for the monitors): most recent first in the table -/
inductive POp
  | feed (b : Bytes) (now : Nat)
  | poll (ch : Nat) (now : Nat)
  | reset
  deriving Repr, Inhabited

structure PollSt where
  now : Nat := 0
  tab : Array (Option (PScanner × List POp)) := #[]

def u64Max : Nat := 18446744073709551615

def pOutObs (o : POut) : Obs := optObs pnObs 6 o.1 ++ optObs pnObs 6 o.2

def evalPP (st : PollSt) (args : List String) : Option (PollSt × Obs × Option Obs) :=
  match args with
  | ["new", id, timeout] => do
      some ({ st with tab := setAt st.tab (← id.toNat?) (PScanner.new (← timeout.toNat?), []) }, opOk, some opOk)
  | ["default", id] => do
      some ({ st with tab := setAt st.tab (← id.toNat?) (PScanner.default, []) }, opOk, some opOk)
  | ["copy", a, b] => do
      let x ← getAt st.tab (← a.toNat?)
      some ({ st with tab := setAt st.tab (← b.toNat?) x }, opOk, some opOk)
  | ["tick", d] => do
      let d ← d.toNat?
      some ({ st with now := min (st.now + d) u64Max }, opOk, some opOk)
  | ["settime", t] => do
      some ({ st with now := ← t.toNat? }, opOk, some opOk)
  | ["reset", id] => do
      let id ← id.toNat?
      let (s, h) ← getAt st.tab id
      some ({ st with tab := setAt st.tab id (s.reset, POp.reset :: h) }, opOk, some opOk)
  | ["feed", id, impl, s, d1, d2] => do
      let id ← id.toNat?
      let (sc, h) ← getAt st.tab id
      let b : Bytes := ⟨← s.toNat?, ← d1.toNat?, ← d2.toNat?⟩
      let run {α} (I : Impl α) (x : α) : PollSt × Obs :=
        match sc.feed I st.now x with
        | .ok (sc', out) => ({ st with tab := setAt st.tab id (sc', POp.feed b st.now :: h) }, pOutObs out)
        | .error p => (st, [cPanic p])
      let (st', o) := match impl with
        | "str" => (match SMsg.ofBytesUnchecked b with | .ok m => run structuredImpl m | .error p => (st, [cPanic p]))
        | "frn" => run foreignImpl b
        | _ => run rawImpl b
      some (st', o, none)
  | ["poll", id, ch] => do
      let id ← id.toNat?
      let ch ← ch.toNat?
      let (sc, h) ← getAt st.tab id
      match sc.poll st.now ch with
      | .ok (sc', out) => some ({ st with tab := setAt st.tab id (sc', POp.poll ch st.now :: h) }, optObs pnObs 6 out, none)
      | .error p => some (st, [cPanic p], none)
  | ["eq", a, b] => do
      let (x, _) ← getAt st.tab (← a.toNat?)
      let (y, _) ← getAt st.tab (← b.toNat?)
      some (st, [cBool (x == y)], none)
  | ["same", a, b] => do
      let (x, _) ← getAt st.tab (← a.toNat?)
      let (y, _) ← getAt st.tab (← b.toNat?)
      some (st, [cBool (x == y)], some [1])
  | ["isnew", a, timeout] => do        -- == new(timeout), new(0) == default()
      let (x, _) ← getAt st.tab (← a.toNat?)
      let t ← timeout.toNat?
      some (st, [cBool (x == PScanner.new t), cBool (PScanner.new 0 == PScanner.default)], none)
  | ["mustbenew", a, timeout] => do
      let (x, _) ← getAt st.tab (← a.toNat?)
      let t ← timeout.toNat?
      some (st, [cBool (x == PScanner.new t), cBool (PScanner.new 0 == PScanner.default)], some [1, 1])
  | _ => none

end Midi.Driver
