/-
Observation vectors: what the line protocol compares.  One `Int` per cell; `-1` = None, `-(100+code)` = panic.
The same vector is produced (a) by the model, (b) by the executable specification, (c) by the Rust harness
from the real crate.
-/
import Midi.Model.Short
import Midi.Spec.MidiTable
namespace Midi.Driver
open Midi Midi.Spec

abbrev Obs := List Int

def cNone : Int := -1
def cOpt (o : Option Nat) : Int := match o with | some v => v | none => cNone
def cBool (b : Bool) : Int := if b then 1 else 0
def cPanic (p : Panic) : Int := -(100 + (p.code : Int))

/-- run a model computation; a panic collapses the whole observation to one panic cell -/
def obsOf (r : Res Obs) : Obs := match r with | .ok o => o | .error p => [cPanic p]

def fnv (h : UInt64) (c : Int) : UInt64 :=
  let c := if c ≤ -100 then -100 else c      -- every panic is the same cell in a digest (sites are compared line by line)
  let x : UInt64 := if c ≥ 0 then UInt64.ofNat c.toNat else (0 : UInt64) - UInt64.ofNat (-c).toNat
  (h ^^^ x) * 0x100000001b3
def fnvInit : UInt64 := 0xcbf29ce484222325
def digest (h : UInt64) (o : Obs) : UInt64 := (o.foldl fnv h) * 31 + 7

def TimeCodeType.idx : TimeCodeType → Nat
  | .fps24 => 0 | .fps25 => 1 | .fps30DropFrame => 2 | .fps30NonDrop => 3

def qfObs : QFrame → Obs
  | .frameCountLs v => [0, v, cNone] | .frameCountMs v => [1, v, cNone] | .secondsLs v => [2, v, cNone]
  | .secondsMs v => [3, v, cNone] | .minutesLs v => [4, v, cNone] | .minutesMs v => [5, v, cNone]
  | .hoursLs v => [6, v, cNone] | .last b t => [7, cBool b, TimeCodeType.idx t]

/-- variant index (declaration order of the Rust enum) and up to three fields -/
def smsgObs : SMsg → Obs
  | .noteOff c k v => [0, c, k, v]
  | .noteOn c k v => [1, c, k, v]
  | .polyphonicKeyPressure c k v => [2, c, k, v]
  | .controlChange c k v => [3, c, k, v]
  | .programChange c p => [4, c, p, cNone]
  | .channelPressure c p => [5, c, p, cNone]
  | .pitchBendChange c v => [6, c, v, cNone]
  | .systemExclusiveStart => [7, cNone, cNone, cNone]
  | .timeCodeQuarterFrame f => 8 :: qfObs f
  | .songPositionPointer p => [9, p, cNone, cNone]
  | .songSelect n => [10, n, cNone, cNone]
  | .tuneRequest => [11, cNone, cNone, cNone]
  | .systemExclusiveEnd => [12, cNone, cNone, cNone]
  | .timingClock => [13, cNone, cNone, cNone]
  | .start => [14, cNone, cNone, cNone]
  | .continue => [15, cNone, cNone, cNone]
  | .stop => [16, cNone, cNone, cNone]
  | .activeSensing => [17, cNone, cNone, cNone]
  | .systemReset => [18, cNone, cNone, cNone]
  | .systemCommonUndefined1 => [19, cNone, cNone, cNone]
  | .systemCommonUndefined2 => [20, cNone, cNone, cNone]
  | .systemRealTimeUndefined1 => [21, cNone, cNone, cNone]
  | .systemRealTimeUndefined2 => [22, cNone, cNone, cNone]

def bytesObs (b : Bytes) : Obs := [b.status, b.d1, b.d2]

/-- every trait method on one message value (model side) -/
def observeMsg {α} (I : Impl α) (x : α) : Res Obs := do
  let tb := I.toBytes x
  let t ← msgType I x
  let sup ← superType I x
  let main ← mainCategory I x
  let ch ← channel I x
  let key ← keyNumber I x
  let vel ← velocity I x
  let cn ← controllerNumber I x
  let cv ← controlValue I x
  let pn ← programNumber I x
  let pa ← pressureAmount I x
  let pb ← pitchBendValue I x
  let n ← isNote I x
  let non ← isNoteOn I x
  let noff ← isNoteOff I x
  let st ← toStructured I x
  let oraw ← toOther I rawFactory x
  let ostr ← toOther I structuredFactory x
  let fraw ← fromOther rawFactory I x
  let ffrn ← fromOther rawFactory I x          -- a foreign byte-preserving factory behaves like Raw's
  let fstr ← fromOther structuredFactory I x
  .ok (([I.status x, I.d1 x, I.d2 x] : Obs) ++ bytesObs tb ++
       ([t.toU8, sup.code, main.code, cOpt ch, cOpt key, cOpt vel, cOpt cn, cOpt cv, cOpt pn, cOpt pa, cOpt pb,
        cBool n, cBool non, cBool noff, t.superType.code, t.superType.mainCategory.code] : Obs) ++
       smsgObs st ++ bytesObs oraw ++ smsgObs ostr ++ bytesObs fraw ++ bytesObs ffrn ++ smsgObs fstr)

/-- the same vector from the executable specification; `canonical` = the implementation reports
    information-free data bytes as zero (StructuredShortMessage) -/
def specMsg (b : Bytes) (canonical : Bool) : Obs :=
  let own := if canonical then canon b else b
  ([own.status, own.d1, own.d2] : Obs) ++ bytesObs own ++
  ([specTypeByte b.status, (specSuper b).code, (specMain b.status).code, cOpt (specChannel b.status),
   cOpt (specKey b), cOpt (specVelocity b), cOpt (specControllerNumber b), cOpt (specControlValue b),
   cOpt (specProgramNumber b), cOpt (specPressure b), cOpt (specPitchBend b), cBool (specIsNote b),
   cBool (specIsNoteOn b), cBool (specIsNoteOff b), (specFuzzy b.status).code, (specMain b.status).code] : Obs) ++
  smsgObs (specStructured b) ++ bytesObs own ++ smsgObs (specStructured b) ++
  bytesObs own ++ bytesObs own ++ smsgObs (specStructured b)

end Midi.Driver
