/- Driver commands about the encoders and the two pure scanners (stateful: scanner tables by id). -/
import Midi.Driver.Ctors
import Midi.Spec.Runs
import Midi.Model.TestUtil
namespace Midi.Driver
open Midi Midi.Spec

def cc14Obs (m : CC14Msg) : Obs := [(m.channel : Int), (m.msb : Int), (m.value : Int)]
def pnObs (m : PNMsg) : Obs :=
  [(m.channel : Int), (m.number : Int), (m.value : Int), cBool m.isRegistered, cBool m.is14Bit, (m.dataType.code : Int)]
def optObs {α} (f : α → Obs) (n : Nat) : Option α → Obs
  | some x => f x
  | none => List.replicate n cNone

/-- message value of the given implementation from bytes, with its `Impl` -/
def feedWith (impl : String) (b : Bytes) (k : {α : Type} → Impl α → α → Obs) : Obs :=
  match impl with
  | "str" => (match SMsg.ofBytesUnchecked b with | .ok m => k structuredImpl m | .error p => [cPanic p])
  | "frn" => k foreignImpl b
  | "ftb" => k foreignTBImpl b
  | _ => k rawImpl b

/-! ### encoders -/

def modelEnc14 (impl : String) (ch cn v : Nat) : Obs :=
  withFactory impl (fun F => obsOf do
    let m ← CC14Msg.new ch cn v
    let l ← m.lsb
    let ms ← m.toShortMessages F
    let bs := ms.map (fun x => F.toBytes x)
    .ok (([(m.channel : Int), (m.msb : Int), (l : Int), (m.value : Int)] : Obs) ++ bs.flatMap bytesObs ++ bs.flatMap bytesObs))

def specEnc14 (ch cn v : Nat) : Obs :=
  if cn < 32 then
    let m : CC14Msg := ⟨ch, cn, v⟩
    let bs := specCC14Encoding m
    ([(ch : Int), (cn : Int), (cn + 32 : Nat), (v : Int)] : Obs) ++ bs.flatMap bytesObs ++ bs.flatMap bytesObs
  else [cPanic .cc14MsbAssert]

def slotObs (o : Option Bytes) : Obs := optObs bytesObs 3 o

def modelEncPN (impl : String) (i ch n v : Nat) (order : ByteOrder) : Obs :=
  withFactory impl (fun F => obsOf do
    let m := PNMsg.ctor i ch n v
    let ms ← m.toShortMessages F order
    let arr ← m.toArray F
    let f := fun (x : List (Option _)) => x.flatMap (fun o => slotObs (o.map F.toBytes))
    .ok (pnObs m ++ f ms ++ f arr))

def specEncPN (i ch n v : Nat) (order : ByteOrder) : Obs :=
  let m := PNMsg.ctor i ch n v
  pnObs m ++ (specPNEncoding m order).flatMap slotObs ++ (specPNEncoding m .msbFirst).flatMap slotObs

/-- `cnpred n`: the three predicates of ControllerNumber + the channel-mode predicate -/
def modelCnPred (n : Nat) : Obs :=
  obsOf do
    let l ← cnLsbOf n
    .ok [cBool (cnCanBePartOf14 n), cOpt l, cBool (cnIsParameterNumber n), cBool (cnIsChannelMode n)]
def specCnPred (n : Nat) : Obs :=
  [cBool (n < 64), (if n < 32 then ((n + 32 : Nat) : Int) else cNone),
   cBool (n == 6 || n == 38 || (96 ≤ n && n ≤ 101)), cBool (120 ≤ n)]

/-- `tu2 <fn> x y z`: the test_util helpers that do not return a short message -/
def modelTu2 (f : String) (x y z : Nat) : Option Obs :=
  let one (r : Res Nat) : Obs := obsOf (do let v ← r; .ok [(v : Int)])
  match f with
  | "u4" => some (one (tuU4 x)) | "u7" => some (one (tuU7 x)) | "u14" => some (one (tuU14 x))
  | "channel" => some (one (tuChannel x)) | "key_number" => some (one (tuKeyNumber x))
  | "controller_number" => some (one (tuControllerNumber x))
  | "control_change_14_bit" => some (obsOf (do let m ← tuControlChange14Bit x y z; .ok (cc14Obs m)))
  | "nrpn" => some (obsOf (do let m ← tuPn false false x y z; .ok (pnObs m)))
  | "nrpn_14_bit" => some (obsOf (do let m ← tuPn false true x y z; .ok (pnObs m)))
  | "rpn" => some (obsOf (do let m ← tuPn true false x y z; .ok (pnObs m)))
  | "rpn_14_bit" => some (obsOf (do let m ← tuPn true true x y z; .ok (pnObs m)))
  | _ => none

/-- what the helpers must do: panic exactly for out-of-range arguments (the 14-bit CC helper also for an MSB controller
    number above 31), otherwise the described value -/
def specTu2 (f : String) (x y z : Nat) : Option Obs :=
  let rng (mx : Nat) : Obs := if x ≤ mx then [(x : Int)] else [cPanic .testUtilExpect]
  let pn (reg is14 : Bool) : Obs :=
    if x ≤ 15 && y ≤ 16383 && z ≤ (if is14 then 16383 else 127) then
      [(x : Int), (y : Int), (z : Int), cBool reg, cBool is14, 0]
    else [cPanic .testUtilExpect]
  match f with
  | "u4" => some (rng 15) | "u7" => some (rng 127) | "u14" => some (rng 16383)
  | "channel" => some (rng 15) | "key_number" => some (rng 127) | "controller_number" => some (rng 127)
  | "control_change_14_bit" =>
      some (if x ≤ 15 && y ≤ 127 && z ≤ 16383 then (if y < 32 then [(x : Int), (y : Int), (z : Int)] else [cPanic .cc14MsbAssert])
            else [cPanic .testUtilExpect])
  | "nrpn" => some (pn false false) | "nrpn_14_bit" => some (pn false true)
  | "rpn" => some (pn true false) | "rpn_14_bit" => some (pn true true)
  | _ => none

/-! ### scanner tables -/

structure ScanSt where
  cc : Array (Option (CCScanner × List Op)) := #[]     -- state and history (most recent first)
  pn : Array (Option (PNScanner × List Op)) := #[]

def setAt {α} (a : Array (Option α)) (i : Nat) (x : α) : Array (Option α) :=
  let a := if i < a.size then a else a ++ Array.replicate (i + 1 - a.size) none
  a.set! i (some x)
def getAt {α} (a : Array (Option α)) (i : Nat) : Option α := (a[i]?).join

def opOk : Obs := [0]

/-- `cc <sub> ...` ; returns (new tables, model cells, spec cells) -/
def evalCC (st : ScanSt) (args : List String) : Option (ScanSt × Obs × Option Obs) :=
  match args with
  | ["new", id] | ["default", id] => do      -- `new()` is `Default::default()`
      let id ← id.toNat?
      some ({ st with cc := setAt st.cc id (CCScanner.new, []) }, opOk, some opOk)
  | ["copy", a, b] => do
      let x ← getAt st.cc (← a.toNat?)
      some ({ st with cc := setAt st.cc (← b.toNat?) x }, opOk, some opOk)
  | ["reset", id] => do
      let id ← id.toNat?
      let (s, h) ← getAt st.cc id
      some ({ st with cc := setAt st.cc id (s.reset, Op.reset :: h) }, opOk, some opOk)
  | ["feed", id, impl, s, d1, d2] => do
      let id ← id.toNat?
      let (sc, h) ← getAt st.cc id
      let b : Bytes := ⟨← s.toNat?, ← d1.toNat?, ← d2.toNat?⟩
      let run {α} (I : Impl α) (x : α) : ScanSt × Obs :=
        match sc.feed I x with
        | .ok (sc', out) => ({ st with cc := setAt st.cc id (sc', Op.feed b :: h) }, optObs cc14Obs 3 out)
        | .error p => (st, [cPanic p])
      let (st', o) := match impl with
        | "str" => (match SMsg.ofBytesUnchecked b with | .ok m => run structuredImpl m | .error p => (st, [cPanic p]))
        | "frn" => run foreignImpl b
        | _ => run rawImpl b
      some (st', o, some (optObs cc14Obs 3 (justified14 h.reverse b)))
  | ["eq", a, b] => do
      let (x, _) ← getAt st.cc (← a.toNat?)
      let (y, _) ← getAt st.cc (← b.toNat?)
      some (st, [cBool (x == y)], none)
  | ["same", a, b] => do          -- the property demands equality here
      let (x, _) ← getAt st.cc (← a.toNat?)
      let (y, _) ← getAt st.cc (← b.toNat?)
      some (st, [cBool (x == y)], some [1])
  | ["isnew", a] => do            -- == new(), == default(), new() == default()
      let (x, _) ← getAt st.cc (← a.toNat?)
      some (st, [cBool (x == CCScanner.new), cBool (x == CCScanner.new), 1], none)
  | ["mustbenew", a] => do
      let (x, _) ← getAt st.cc (← a.toNat?)
      some (st, [cBool (x == CCScanner.new), cBool (x == CCScanner.new), 1], some [1, 1, 1])
  | _ => none

def evalPN (st : ScanSt) (args : List String) : Option (ScanSt × Obs × Option Obs) :=
  match args with
  | ["new", id] | ["default", id] => do
      let id ← id.toNat?
      some ({ st with pn := setAt st.pn id (PNScanner.new, []) }, opOk, some opOk)
  | ["copy", a, b] => do
      let x ← getAt st.pn (← a.toNat?)
      some ({ st with pn := setAt st.pn (← b.toNat?) x }, opOk, some opOk)
  | ["reset", id] => do
      let id ← id.toNat?
      let (s, h) ← getAt st.pn id
      some ({ st with pn := setAt st.pn id (s.reset, Op.reset :: h) }, opOk, some opOk)
  | ["feed", id, impl, s, d1, d2] => do
      let id ← id.toNat?
      let (sc, h) ← getAt st.pn id
      let b : Bytes := ⟨← s.toNat?, ← d1.toNat?, ← d2.toNat?⟩
      let run {α} (I : Impl α) (x : α) : ScanSt × Obs :=
        match sc.feed I x with
        | .ok (sc', out) => ({ st with pn := setAt st.pn id (sc', Op.feed b :: h) }, optObs pnObs 6 out)
        | .error p => (st, [cPanic p])
      let (st', o) := match impl with
        | "str" => (match SMsg.ofBytesUnchecked b with | .ok m => run structuredImpl m | .error p => (st, [cPanic p]))
        | "frn" => run foreignImpl b
        | _ => run rawImpl b
      some (st', o, some (optObs pnObs 6 (justifiedPN h.reverse b)))
  | ["eq", a, b] => do
      let (x, _) ← getAt st.pn (← a.toNat?)
      let (y, _) ← getAt st.pn (← b.toNat?)
      some (st, [cBool (x == y)], none)
  | ["same", a, b] => do
      let (x, _) ← getAt st.pn (← a.toNat?)
      let (y, _) ← getAt st.pn (← b.toNat?)
      some (st, [cBool (x == y)], some [1])
  | ["isnew", a] => do
      let (x, _) ← getAt st.pn (← a.toNat?)
      some (st, [cBool (x == PNScanner.new), cBool (x == PNScanner.new), 1], none)
  | ["mustbenew", a] => do
      let (x, _) ← getAt st.pn (← a.toNat?)
      some (st, [cBool (x == PNScanner.new), cBool (x == PNScanner.new), 1], some [1, 1, 1])
  | _ => none

end Midi.Driver
