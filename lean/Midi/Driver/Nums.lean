/- Driver commands about the restricted integer types: conv, new, parse, display, ord, consts, cnconst. -/
import Midi.Driver.Obs
import Midi.Spec.Numeric
import Midi.Gen.ControllerNumbers
namespace Midi.Driver
open Midi Midi.Spec

/-- pointer width of the platform the harness runs on -/
def platformPw : Nat := 64

def convCells (r : Option Int) : Obs :=
  match r with
  | none => [2, 0]
  | some v => [if v < 0 then 1 else 0, (v.natAbs % 2 ^ 62 : Nat)]

/-- is `x` a value of the row's source type? (requests for other values are never generated) -/
def srcHolds (e : ConvEntry) (x : Int) : Bool :=
  match tyLo platformPw e.src, tyHi platformPw e.src with
  | some lo, some hi => decide (lo ≤ x ∧ x ≤ hi)
  | _, _ => false

/-- rows beyond the modelled table are impls without a model (`Gen.unmodelledConversions`): what is expected of them is
    the specification itself -/
def modelConv (row : Nat) (x : Int) : Option Obs :=
  match Gen.conversions[row]? with
  | some e => if srcHolds e x then some (convCells (convModel platformPw e x)) else none
  | none =>
    match Gen.unmodelledConversions[row - Gen.conversions.length]? with
    | some e => if srcHolds e x then some (convCells (convSpec platformPw e x)) else none
    | none => none
/-- an infallible conversion (`From`) of a source value the destination type cannot hold: no result is both faithful
    and in range (C04 / C05), so whatever the implementation returns differs from this cell -/
def noLawfulResult : Obs := [3, 0]

def specCells (e : ConvEntry) (x : Int) : Obs :=
  match tyLo platformPw e.dst, tyHi platformPw e.dst with
  | some lo, some hi => if !e.kind.isTry && !(decide (lo ≤ x ∧ x ≤ hi)) then noLawfulResult else convCells (convSpec platformPw e x)
  | _, _ => convCells (convSpec platformPw e x)

def specConv (row : Nat) (x : Int) : Option Obs :=
  match Gen.conversions[row]? with
  | some e => some (specCells e x)
  | none => (Gen.unmodelledConversions[row - Gen.conversions.length]?).map (fun e => specCells e x)

def configOfName (s : String) : Config :=
  match s with
  | "std" => { features := [0] }
  | "nostd" => { features := [] }
  | "serde" => { features := [0, 1, 2] }
  | _ => { features := [0] }

def modelNew (cfg : String) (t v : Nat) : Option Obs :=
  (ntDef? t).map (fun T => obsOf do
    let r ← newModel (configOfName cfg) T v
    .ok [(r : Int)])
def specNew (t v : Nat) : Option Obs :=
  (ntDef? t).map (fun T => if v ≤ T.max then [(v : Int)] else [cPanic .newAssert])

def unhex (h : String) : Option (List Char) :=
  if h == "." then some [] else
  let cs := h.toList
  let rec go : List Char → List UInt8 → Option (List UInt8)
    | [], acc => some acc.reverse
    | [_], _ => none
    | a :: b :: rest, acc =>
      let d (c : Char) : Option Nat :=
        if c.isDigit then some (c.toNat - 48) else if 'a' ≤ c ∧ c ≤ 'f' then some (c.toNat - 87) else none
      match d a, d b with
      | some x, some y => go rest (UInt8.ofNat (x * 16 + y) :: acc)
      | _, _ => none
  match go cs [] with
  | none => none
  | some bytes =>
    match String.fromUTF8? (ByteArray.mk bytes.toArray) with
    | some s => some s.toList
    | none => none

def modelParse (t : Nat) (s : List Char) : Option Obs :=
  (ntDef? t).map (fun T => match parseNewtype platformPw T s with | some v => [1, (v : Int)] | none => [0])

/-- executable form of `IsNumeral s ∧ numeralValue s ≤ max` -/
def specParse (t : Nat) (s : List Char) : Option Obs :=
  (ntDef? t).map (fun T =>
    let body := match s with | '+' :: r => r | _ => s
    if !body.isEmpty && body.all Char.isDigit && numeralValue s ≤ T.max then [1, (numeralValue s : Int)] else [0])

/-- the format specs the harness prints with, in the same order as `nums::fmt_spec` -/
def fmtSpecs : Array FmtSpec := #[
  {},                                                     -- {}
  { width := some 5 },                                    -- {:5}
  { zero := true, width := some 5 },                      -- {:05}
  { align := some .left, width := some 5 },               -- {:<5}
  { plus := true },                                       -- {:+}
  { precision := some 2 },                                -- {:.2}
  { align := some .center, width := some 7 },             -- {:^7}
  { fill := '*', align := some .right, width := some 6 }, -- {:*>6}
  { plus := true, zero := true, width := some 7 },        -- {:+07}
  { align := some .right, width := some 1 },              -- {:>1}
  { fill := '_', align := some .center, plus := true, width := some 8 }  -- {:_^+8}
]

def modelDisplay (k v : Nat) : Option Obs :=
  (fmtSpecs[k]?).map (fun f => (displayWith f v).map (fun c => (c.toNat : Int)))
/-- independent decimal printer from Lean's library, framed by the same padding rule -/
def specDisplay (k v : Nat) : Option Obs :=
  (fmtSpecs[k]?).map (fun f => (padIntegral f (Nat.toDigits 10 v)).map (fun c => (c.toNat : Int)))

/-- derived Ord / Eq on the one-field tuple struct: comparison of the payloads (modelled derive) -/
def modelOrd (a b : Nat) : Obs :=
  [cBool (a < b), cBool (a == b), cBool (a > b), (if a < b then 0 else if a == b then 1 else 2), (max a b : Nat), (min a b : Nat)]

def modelConsts (t : Nat) : Option Obs :=
  (ntDef? t).map (fun T => [(T.minConst : Int), (T.maxConst : Int), (T.default : Int)])
def specConsts (t : Nat) : Option Obs := (ntDef? t).map (fun T => [0, (T.max : Int), 0])

def modelCnConst (i : Nat) : Option Obs := (Gen.controllerNumberValues[i]?).map (fun v => [(v : Int)])

/-- the controller numbers MIDI 1.0 assigns to the (N)RPN-related names (C09 `controller_constants`) -/
def standardCn : List (String × Nat) :=
  [("DATA_ENTRY_MSB", 6), ("DATA_ENTRY_MSB_LSB", 38), ("DATA_INCREMENT", 96), ("DATA_DECREMENT", 97),
   ("NON_REGISTERED_PARAMETER_NUMBER_LSB", 98), ("NON_REGISTERED_PARAMETER_NUMBER_MSB", 99),
   ("REGISTERED_PARAMETER_NUMBER_LSB", 100), ("REGISTERED_PARAMETER_NUMBER_MSB", 101)]

/-- what a constant must be by its NAME: the standard number when the properties name one, `X + 32` for an `X_LSB`
    whose `X` exists (C16 `lsb_constants`), otherwise whatever the source says -/
def specCnConst (i : Nat) : Option Obs := do
  let name ← Gen.controllerNumberNames[i]?
  let v ← Gen.controllerNumberValues[i]?
  match standardCn.lookup name with
  | some n => some [(n : Int)]
  | none =>
    if name.endsWith "_LSB" then
      let base := (name.dropEnd 4).toString
      match Gen.controllerNumberNames.idxOf? base with
      | some j => (Gen.controllerNumberValues[j]?).map (fun b => [((b + 32 : Nat) : Int)])
      | none => some [(v : Int)]
    else some [(v : Int)]

end Midi.Driver
