/- Driver commands about factory constructors: `mk`, `mkblk`, `gen`, `genblk`, `tu`. -/
import Midi.Driver.Msg
import Midi.Model.Ctors
import Midi.Model.TestUtil
import Midi.Spec.Constructors
namespace Midi.Driver
open Midi Midi.Spec

def withFactory (impl : String) (f : {α : Type} → Factory α → Obs) : Obs :=
  match impl with
  | "raw" => f rawFactory
  | "str" => f structuredFactory
  | "frn" => f foreignFactory
  | _ => f foreignTBFactory

def modelMk (impl : String) (k : Ctor) (a b c : Nat) : Obs :=
  withFactory impl (fun F => obsOf do
    let m ← modelNamed F k a b c
    observeMsg F.toImpl m)

def specMk (impl : String) (k : Ctor) (a b c : Nat) : Obs :=
  (specMsg (specNamed k a b c) (impl == "str"))

def blkRanges (k : Ctor) (a : Nat) : Nat × Nat :=
  match k with
  | .noteOff | .noteOn | .polyphonicKeyPressure | .controlChange => (128, 128)
  | .programChange | .channelPressure => (128, 1)
  | .pitchBendChange => (16384, 1)
  | .timeCodeQuarterFrame => if a < 7 then (16, 1) else (2, 4)
  | .songPositionPointer => (16384, 1)
  | .songSelect => (128, 1)
  | _ => (1, 1)

def blkArgs (k : Ctor) (a b c : Nat) : Nat × Nat × Nat :=
  match k with
  | .songPositionPointer | .songSelect => (b, 0, 0)
  | _ => (a, b, c)

def mkblkDigest (f : Ctor → Nat → Nat → Nat → Obs) (k : Ctor) (a : Nat) : UInt64 := Id.run do
  let (nb, nc) := blkRanges k a
  let mut h := fnvInit
  for b in [0:nb] do
    for c in [0:nc] do
      let (x, y, z) := blkArgs k a b c
      h := digest h (f k x y z)
  return h

def modelGen (impl fun_ : String) (t ch a b : Nat) : Option Obs :=
  match MsgType.ofU8 t with
  | none => none
  | some ty =>
    some (withFactory impl (fun F => obsOf do
      let m ← match fun_ with
        | "channel_message" => channelMessage F ty ch a b
        | "system_common_message" => systemCommonMessage F ty a b
        | _ => systemRealTimeMessage F ty
      observeMsg F.toImpl m))

def specGen (impl fun_ : String) (t ch a b : Nat) : Obs :=
  let r := match fun_ with
    | "channel_message" => specChannelMessage t ch a b
    | "system_common_message" => specSystemCommonMessage t a b
    | _ => specSystemRealTimeMessage t
  match r with
  | some bs => specMsg bs (impl == "str")
  | none => [cPanic .categoryAssert]

def funCategory (fun_ : String) : Nat :=
  match fun_ with | "channel_message" => 0 | "system_common_message" => 1 | _ => 2

def genblkDigest (f : Nat → Nat → Obs) (fun_ : String) (t : Nat) : UInt64 := Id.run do
  let mut h := fnvInit
  if specCategory t == funCategory fun_ && fun_ != "system_real_time_message" then
    for a in [0:128] do
      for b in [0:128] do
        h := digest h (f a b)
  else
    h := digest h (f 0 0)
    h := digest h (f 127 127)
  return h

def modelTu (fun_ : String) (x y z : Nat) : Option Obs :=
  let r : Option (Res Bytes) := match fun_ with
    | "note_on" => some (tuNoteOn x y z) | "note_off" => some (tuNoteOff x y z)
    | "control_change" => some (tuControlChange x y z)
    | "polyphonic_key_pressure" => some (tuPolyphonicKeyPressure x y z)
    | "program_change" => some (tuProgramChange x y) | "channel_pressure" => some (tuChannelPressure x y)
    | "pitch_bend_change" => some (tuPitchBendChange x y)
    | "song_position_pointer" => some (tuSongPositionPointer x) | "song_select" => some (tuSongSelect x)
    | "short" => some (tuShort x y z)
    | _ => none
  r.map (fun r => obsOf do
    let m ← r
    observeMsg rawImpl m)

/-- shorthands panic exactly when an argument is out of range; otherwise the described message -/
def specTu (fun_ : String) (x y z : Nat) : Option Obs :=
  let mk (ok : Bool) (k : Ctor) (a b c : Nat) : Obs :=
    if ok then specMsg (specNamed k a b c) false else [cPanic .testUtilExpect]
  match fun_ with
  | "note_on" => some (mk (x ≤ 15 && y ≤ 127 && z ≤ 127) .noteOn x y z)
  | "note_off" => some (mk (x ≤ 15 && y ≤ 127 && z ≤ 127) .noteOff x y z)
  | "control_change" => some (mk (x ≤ 15 && y ≤ 127 && z ≤ 127) .controlChange x y z)
  | "polyphonic_key_pressure" => some (mk (x ≤ 15 && y ≤ 127 && z ≤ 127) .polyphonicKeyPressure x y z)
  | "program_change" => some (mk (x ≤ 15 && y ≤ 127) .programChange x y 0)
  | "channel_pressure" => some (mk (x ≤ 15 && y ≤ 127) .channelPressure x y 0)
  | "pitch_bend_change" => some (mk (x ≤ 15 && y ≤ 16383) .pitchBendChange x y 0)
  | "song_position_pointer" => some (mk (x ≤ 16383) .songPositionPointer x 0 0)
  | "song_select" => some (mk (x ≤ 127) .songSelect x 0 0)
  | "short" => some (if x ≥ 128 && x ≤ 255 && y ≤ 127 && z ≤ 127 then specMsg ⟨x, y, z⟩ false else [cPanic .testUtilExpect])
  | _ => none

end Midi.Driver
