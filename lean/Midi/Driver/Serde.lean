/- Driver commands about deserialization (`de ...`), serde + serde_repr configuration. -/
import Midi.Driver.Scan
import Midi.Model.Serde
namespace Midi.Driver
open Midi Midi.Spec

def ntMax (t : Nat) : Option Nat := (ntDef? t).map (·.max)

/-- model cells of a `de` request -/
def modelDe (args : List String) : Option Obs :=
  match args with
  | ["nt", t, x] => do
      let mx ← ntMax (← t.toNat?)
      some (match deNewtype mx (← x.toInt?) with | some v => [1, (v : Int)] | none => [0])
  | ["raw", s, d1, d2] => do
      some (match deRaw (← s.toInt?) (← d1.toInt?) (← d2.toInt?) with
        | some m => obsOf do
            let t ← msgType rawImpl m
            .ok [1, (m.status : Int), (m.d1 : Int), (m.d2 : Int), (t.toU8 : Int)]
        | none => [0])
  | ["cc14", c, n, v] => do
      some (match deCC14 (← c.toInt?) (← n.toInt?) (← v.toInt?) with
        | some m => obsOf do
            let l ← m.lsb
            .ok [1, (m.channel : Int), (m.msb : Int), (m.value : Int), (l : Int)]
        | none => [0])
  | ["pn", c, n, v, r, b, d] => do
      some (match dePN (← c.toInt?) (← n.toInt?) (← v.toInt?) (← r.toInt?) (← b.toInt?) (← d.toInt?) with
        | some m => obsOf do
            let ms ← m.toShortMessages rawFactory .msbFirst
            .ok (1 :: pnObs m ++ [((ms.filter Option.isSome).length : Int)])
        | none => [0])
  | ["smt", x] => do
      some (match deMsgType (← x.toInt?) with | some t => [1, (t.toU8 : Int)] | none => [0])
  | ["qf", p, a, b] => do
      some (match deQFrame (← p.toInt?) (← a.toInt?) (← b.toInt?) with | some f => 1 :: qfObs f | none => [0])
  | ["str", v, f1, f2, f3] => do
      some (match deStructured (← v.toInt?) (← f1.toInt?) (← f2.toInt?) (← f3.toInt?) with
        | some m => 1 :: smsgObs m | none => [0])
  | _ => none

/-- C19 as a predicate on what the implementation returned: either failure, or a value that the checked public
    constructors can build; and the natural representation of a valid value must succeed with that value.
    Returns the cells to compare with: the implementation's own cells when acceptable, else what was expected. -/
def specDe (args : List String) (impl : Obs) : Option Obs :=
  let ints : List (Option Int) := (args.drop 1).map (fun (a : String) => a.toInt?)
  match args.head?, ints with
  | some "nt", [some t, some x] => do
      let mx ← ntMax t.toNat
      if 0 ≤ x ∧ x ≤ mx then some [1, x]                        -- valid representation: must round-trip
      else some (match impl with
        | [1, v] => if 0 ≤ v ∧ v ≤ mx then impl else [0]        -- tolerated only if the value is in range
        | _ => [0])
  | some "raw", [some s, some d1, some d2] =>
      let valid := 128 ≤ s ∧ s ≤ 255 ∧ 0 ≤ d1 ∧ d1 ≤ 127 ∧ 0 ≤ d2 ∧ d2 ≤ 127
      if valid then some [1, s, d1, d2, (specTypeByte s.toNat : Int)]
      else some (match impl with
        | [1, a, b, c, t] => if 128 ≤ a ∧ a ≤ 255 ∧ 0 ≤ b ∧ b ≤ 127 ∧ 0 ≤ c ∧ c ≤ 127 ∧ t = (specTypeByte a.toNat : Int) then impl else [0]
        | _ => [0])
  | some "cc14", [some c, some n, some v] =>
      let valid := 0 ≤ c ∧ c ≤ 15 ∧ 0 ≤ n ∧ n ≤ 31 ∧ 0 ≤ v ∧ v ≤ 16383
      if valid then some [1, c, n, v, n + 32]
      else some (match impl with
        | [1, a, b, d, l] => if 0 ≤ a ∧ a ≤ 15 ∧ 0 ≤ b ∧ b ≤ 31 ∧ 0 ≤ d ∧ d ≤ 16383 ∧ l = b + 32 then impl else [0]
        | _ => [0])
  | some "pn", [some c, some n, some v, some r, some b, some d] =>
      let ok (c n v r b d : Int) : Bool :=
        0 ≤ c && c ≤ 15 && 0 ≤ n && n ≤ 16383 && (r == 0 || r == 1) && (b == 0 || b == 1) && (d == 0 || d == 1 || d == 2) &&
        (if b == 1 then 0 ≤ v && v ≤ 16383 && d == 0 else 0 ≤ v && v ≤ 127)
      if ok c n v r b d then some [1, c, n, v, r, b, d, if b == 1 then 4 else 3]
      else some (match impl with
        | [1, c', n', v', r', b', d', k] => if ok c' n' v' r' b' d' && k == (if b' == 1 then 4 else 3) then impl else [0]
        | _ => [0])
  | some "smt", [some x] =>
      if 0 ≤ x ∧ x ≤ 255 ∧ x.toNat ∈ Gen.messageTypeValues then some [1, x] else some [0]
  | _, _ => none

end Midi.Driver
