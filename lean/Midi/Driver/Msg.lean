/- Driver commands about single short messages: `msg`, `blk`. -/
import Midi.Driver.Obs
namespace Midi.Driver
open Midi Midi.Spec

/-- harness-defined third-party implementors: getters only / overriding `to_bytes` consistently -/
def foreignImpl : Impl Bytes := { status := (·.status), d1 := (·.d1), d2 := (·.d2) }
def foreignFactory : Factory Bytes := { foreignImpl with ofBytesUnchecked := fun b => .ok b }
def foreignTBImpl : Impl Bytes :=
  { status := (·.status), d1 := (·.d1), d2 := (·.d2), toBytes := fun b => ⟨b.status, b.d1, b.d2⟩ }
def foreignTBFactory : Factory Bytes := { foreignTBImpl with ofBytesUnchecked := fun b => .ok b }

/-- `msg <impl> s d1 d2`: `from_bytes`, then every trait method on the result -/
def modelMsg (impl : String) (b : Bytes) : Obs :=
  let go {α} (F : Factory α) : Obs := obsOf do
    match ← fromBytes F b with
    | none => .ok [0]
    | some m => do
      let o ← observeMsg F.toImpl m
      .ok (1 :: o)
  match impl with
  | "raw" => go rawFactory
  | "str" => go structuredFactory
  | "frn" => go foreignFactory
  | _ => go foreignTBFactory

def specMsgLine (impl : String) (b : Bytes) : Obs :=
  if b.status < 128 then [0] else 1 :: specMsg b (impl == "str")

/-- cell subsets of a `msg` observation that belong to one property (`all` = everything).
    Observations of length ≤ 1 (rejected bytes, panics) are always kept whole. -/
def maskKeeps (mask : String) (i : Nat) : Bool :=
  match mask with
  | "c01" => i < 7 || (23 ≤ i && i < 44)
  | "c02" => 7 ≤ i && i < 27
  | "c04" => (1 ≤ i && i < 7) || (10 ≤ i && i < 18) || (24 ≤ i && i < 27) || (28 ≤ i && i < 30) || (31 ≤ i && i < 34)
  | _ => true

def maskCells (mask : String) (o : Obs) : Obs :=
  if o.length ≤ 1 || mask == "all" then o
  else (o.zipIdx.filter (fun p => maskKeeps mask p.2)).map (·.1)

/- `rawx s d1 d2`: `RawShortMessage::try_from((u8, U7, U7))` (= `from_bytes`) and `Into<(u8, U7, U7)>` (the stored tuple);
   `RawShortMessage::from_bytes` called on the concrete type; `from_bytes` of two harness-defined factories -/
/-- harness-defined factory that keeps only the low 7 bits of the status byte -/
def packedFactory : Factory Bytes := { rawImpl with ofBytesUnchecked := fun b => .ok ⟨128 + b.status % 128, b.d1, b.d2⟩ }
/-- harness-defined factory whose unchecked constructor asserts its documented precondition (the harness's own
    assertion has no panic site in the crate; any panic cell differs from what the implementation may print there) -/
def strictFactory : Factory Bytes :=
  { rawImpl with ofBytesUnchecked := fun b => if b.status < 128 then .error .invalidStatusByte else .ok b }

def modelRawx (b : Bytes) : Obs :=
  (obsOf do
    match ← fromBytes rawFactory b with
    | none => .ok [0]
    | some m => .ok (1 :: bytesObs (rawImpl.toBytes m))) ++
  (obsOf do
    match ← fromBytes rawFactory b with
    | none => .ok [0]
    | some m => do
      let t ← msgType rawImpl m
      .ok (1 :: bytesObs (rawImpl.toBytes m) ++ [(t.toU8 : Int)])) ++
  (obsOf do
    match ← fromBytes packedFactory b with
    | none => .ok [0]
    | some m => .ok (1 :: bytesObs (rawImpl.toBytes m))) ++
  (obsOf do
    match ← fromBytes strictFactory b with
    | none => .ok [0]
    | some m => .ok (1 :: bytesObs (rawImpl.toBytes m)))
def specRawx (b : Bytes) : Obs :=
  if b.status < 128 then [0, 0, 0, 0]
  else (1 :: bytesObs b) ++ (1 :: bytesObs b ++ [((specType b.status).toU8 : Int)]) ++ (1 :: bytesObs b) ++ (1 :: bytesObs b)

def blkDigest (mask : String) (f : Bytes → Obs) (s : Nat) : UInt64 := Id.run do
  let mut h := fnvInit
  for d1 in [0:128] do
    for d2 in [0:128] do
      h := digest h (maskCells mask (f ⟨s, d1, d2⟩))
  return h

end Midi.Driver
