import Midi.Model.Prim
import Midi.Model.Bits
import Midi.Model.Types
import Midi.Model.Structured
import Midi.Model.Short
import Midi.Spec.MidiTable
import Midi.Proofs.Bits
