#!/bin/sh
# Build the framework from files on disk only (offline): regenerate tables, build all Lean modules + driver, build the harness.
set -e
cd "$(dirname "$0")"
export CARGO_NET_OFFLINE=true
python3 tools/extract.py
python3 tools/rs2lean.py || true
( cd lean && lake build Midi driver )
( cd lean && for m in Midi/Props/C*.lean Midi/Props/T*.lean; do n=$(basename "$m" .lean); lake build "Midi.Props.$n" || true; done; lake env lean --version > /dev/null )
( cd harness && cargo build --offline --no-default-features --features std --target-dir target/std )
( cd harness && cargo build --offline --no-default-features --features "" --target-dir target/nostd )
( cd harness && cargo build --offline --no-default-features --features with_serde --target-dir target/with_serde )
( cd harness && RUSTFLAGS="-A unexpected_cfgs" cargo build --offline --no-default-features --features real_clock --target-dir target/real_clock )
( cd harness && cargo build --offline --no-default-features --features std --target-dir target/std-noopt --profile noopt )
( cd harness && cargo build --offline --no-default-features --features "" --target-dir target/nostd-noopt --profile noopt )
echo setup-done
