#!/usr/bin/env python3
"""Rust-subset -> Lean 4 translator for the code of helgoboss-midi (thirteen source files, see FILES and MacroGen).

Reads /repo/src/<file>.rs by syntax (tokenizer + recursive-descent parser for the subset of Rust the crate is written
in: structs, enums, traits with default methods, inherent impls, listed `impl Trait for Type` blocks, `impl Default`,
let / let mut / assignment to self.f, a local or local[i] / `+=` on an index local / `for .. in self.f.iter_mut()`,
if / if let / match with literal, range, tuple-variant, struct and or-patterns, struct and variant literals with
`..base`, `?` on Option / Result, early `return`, method and path calls, casts, bit operations, `assert!`,
`assert_eq!`, `debug_assert!`, `matches!`, `unreachable!`, `unsafe { }`, `.expect("..")`, `.into()` / `.try_into()`
with known source and target type) and writes one Lean module per file under lean/Midi/Gen/.  The bodies of the
conversion macros of newtype_macros.rs are translated once with the macro metavariables as parameters (MacroGen).

Translation scheme (continuation-passing at translation time, so early `return`, `?` and mutation need no runtime
support and the output is plain functional Lean):
  * every function becomes a total Lean function into `Res` (= Except Panic);  a `&mut self` method returns
    `(result, self')`, a `&self` / static function returns `result`;  `Result<T, E>` is `Option T`;
  * `self.f = e` becomes `let self := { self with f := e }`; a `&mut` call on `self.f[i]` reads the element
    (index out of bounds = panic `indexOutOfBounds`), calls, and writes the element back;
  * `Instant::now()` is the explicit parameter `now`, `t.elapsed()` is `now - t` (truncated, like the saturating std one);
  * `&impl ShortMessage` parameters become `{α} (I : Impl α) (x : α)`, `T: ShortMessageFactory` becomes
    `{β} (F : Factory β)`; restricted integers and machine integers are `Nat` (`as uN` = `% 2^N`, `<<` on uN drops the
    bits shifted out, `+` on uN is checked addition);  calls into parts of the crate that are not translated (derives,
    num_enum, the tables of extract.py) go to the hand-written model functions listed in the tables below.
The output is deterministic.  Anything outside the subset raises TErr and leaves a module that does not build: the
caller (checklib.Check.translated) treats that as "translator tie unavailable", never as success.  Lean's type
checker is a second line of defence: a mis-resolved conversion between a Nat and an enum does not type-check.
"""
import os, re, sys, json

REPO = os.environ.get("VERIF_REPO", "/repo")
OUT = os.environ.get("VERIF_GEN_OUT") or os.path.join(os.path.dirname(os.path.abspath(__file__)), "..", "lean", "Midi", "Gen")

class TErr(Exception):
    pass

# ------------------------------------------------------------------------------------------------ tokenizer
TOKEN_RE = re.compile(r'''
  (?P<ws>\s+)
 |(?P<str>"(?:\\.|[^"\\])*")
 |(?P<num>0x[0-9a-fA-F_]+|0b[01_]+|\d[\d_]*(?:u8|u16|u32|u64|usize|i32|i64)?)
 |(?P<rawid>r\#[A-Za-z_][A-Za-z0-9_]*)
 |(?P<id>[A-Za-z_][A-Za-z0-9_]*)
 |(?P<life>'[a-z_]+\b(?!'))
 |(?P<op>\.\.=|\.\.|::|->|=>|==|!=|<=|>=|&&|\|\||\+=|-=|>>|<<|[-+*/%=<>!&|^.,;:(){}\[\]\#?@$])
''', re.X)

def strip_comments(s):
    s = re.sub(r"/\*.*?\*/", "", s, flags=re.S)
    out = []
    for line in s.split("\n"):
        q = False; i = 0; cut = None
        while i < len(line):
            c = line[i]
            if c == '"' and (i == 0 or line[i - 1] != '\\'):
                q = not q
            elif not q and line.startswith("//", i):
                cut = i; break
            i += 1
        out.append(line if cut is None else line[:cut])
    return "\n".join(out)

def tokenize(s):
    toks = []; i = 0
    while i < len(s):
        m = TOKEN_RE.match(s, i)
        if not m:
            raise TErr("cannot tokenize at: %r" % s[i:i + 30])
        i = m.end()
        k = m.lastgroup
        if k == "ws":
            continue
        if k == "rawid":
            toks.append(("id", m.group(k)[2:] + "_"))      # r#type -> type_
            continue
        toks.append((k, m.group(k)))
    return toks

# ------------------------------------------------------------------------------------------------ parser
class Parser:
    def __init__(self, toks, keep_trait_impls=()):
        self.t = toks; self.i = 0
        self.keep_trait_impls = set(keep_trait_impls)

    def peek(self, k=0):
        return self.t[self.i + k] if self.i + k < len(self.t) else ("eof", "")

    def at(self, v, k=0):
        t = self.peek(k)
        return t[0] != "str" and t[1] == v

    def eat(self, v):
        if self.at(v):
            self.i += 1; return True
        return False

    def expect(self, v):
        if not self.eat(v):
            raise TErr("expected %r, found %r (token %d)" % (v, self.peek(), self.i))

    def ident(self):
        t = self.peek()
        if t[0] != "id":
            raise TErr("expected identifier, found %r" % (t,))
        self.i += 1
        return t[1]

    # ---- attributes
    def attrs(self):
        derives = []; cfgs = []
        while self.at("#"):
            self.i += 1
            self.eat("!")
            self.expect("[")
            depth = 1; start = self.i
            while depth > 0:
                t = self.peek()
                if t[0] == "eof": raise TErr("unterminated attribute")
                if t[0] != "str" and t[1] == "[": depth += 1
                if t[0] != "str" and t[1] == "]": depth -= 1
                self.i += 1
            body = self.t[start:self.i - 1]
            if body and body[0][1] == "derive":
                derives += [x[1] for x in body[2:] if x[0] == "id"]
            if body and body[0][1] == "cfg":
                cfgs.append(" ".join(x[1] for x in body))
        return derives, cfgs

    # ---- types
    def type(self):
        if self.eat("&"):
            if self.peek()[0] == "life": self.i += 1
            self.eat("mut")
            return {"k": "ref", "inner": self.type()}
        if self.eat("["):
            el = self.type()
            self.expect(";")
            n = self.peek(); self.i += 1
            self.expect("]")
            return {"k": "array", "elem": el, "len": n[1]}
        if self.eat("("):
            els = []
            while not self.at(")"):
                els.append(self.type()); self.eat(",")
            self.expect(")")
            return {"k": "tuple", "elems": els}
        if self.at("impl"):
            self.i += 1
            return {"k": "impl", "trait": self.type()}
        segs = [self.ident()]
        while self.at("::"):
            self.i += 1; segs.append(self.ident())
        args = []
        if self.at("<"):
            self.i += 1
            while not self.at(">") and not self.at(">>"):
                args.append(self.type()); self.eat(",")
            self.close_angle()
        return {"k": "path", "name": segs[-1], "segs": segs, "args": args}

    def close_angle(self):
        if self.at(">>"):
            self.t[self.i] = ("op", ">")              # `>>` closing two generic argument lists: consume one `>`
            return
        self.expect(">")

    # ---- items
    def file(self):
        items = []
        while self.peek()[0] != "eof":
            derives, cfgs = self.attrs()
            if any("test" in c for c in cfgs):
                break                                   # #[cfg(test)] mod tests: everything after is test code
            self.eat("pub")
            if self.at("("):                           # pub(crate)
                while not self.eat(")"): self.i += 1
            if self.at("use"):
                if self.peek(1)[0] == "id" and self.at("as", 2) and self.peek(3)[0] == "id" and self.at(";", 4):
                    items.append({"k": "fnalias", "name": self.peek(3)[1], "target": self.peek(1)[1]})
                while not self.eat(";"): self.i += 1
                continue
            if self.at("type") and self.peek(1)[0] == "id" and self.at("=", 2):
                self.i += 1
                name = self.ident(); self.expect("=")
                t = self.type(); self.expect(";")
                items.append({"k": "alias", "name": name, "type": t}); continue
            if self.at("struct"):
                items.append(self.struct(derives)); continue
            if self.at("enum"):
                items.append(self.enum(derives)); continue
            if self.at("impl"):
                items.append(self.impl()); continue
            if self.at("trait"):
                items.append(self.trait()); continue
            if self.at("unsafe") and self.at("fn", 1) or self.at("fn"):
                f = self.fn(); f["owner"] = None
                items.append({"k": "fn", "fn": f}); continue
            if self.peek()[0] == "id" and self.at("!", 1) and not self.at("macro_rules"):
                # macro invocation at item level (newtype! { .. }, impl_from_..!(..);): tables, read by tools/extract.py
                name = self.ident(); self.i += 1
                depth = 0
                while True:
                    t = self.peek()
                    if t[0] == "eof": break
                    self.i += 1
                    if t[0] != "str" and t[1] in "{([": depth += 1
                    if t[0] != "str" and t[1] in "})]":
                        depth -= 1
                        if depth == 0: break
                self.eat(";")
                macro_seen = [x for x in items if x["k"] == "skipped" and x["what"].startswith("macro invocations")]
                if not macro_seen: items.append({"k": "skipped", "what": "macro invocations (tables regenerated by tools/extract.py)"})
                continue
            if self.at("mod") or self.at("const") or self.at("type") or self.at("macro_rules") or self.at("static"):
                # skipped wholesale (brace / semicolon matching); listed in the generated header
                what = "%s %s" % (self.peek()[1], self.peek(1)[1])
                depth = 0
                while True:
                    t = self.peek()
                    if t[0] == "eof": break
                    self.i += 1
                    if t[0] != "str" and t[1] in "{([": depth += 1
                    if t[0] != "str" and t[1] in "})]":
                        depth -= 1
                        if depth == 0 and t[1] == "}": break
                    if t[0] != "str" and t[1] == ";" and depth == 0: break
                items.append({"k": "skipped", "what": what}); continue
            raise TErr("unexpected token at item level: %r" % (self.peek(),))
        return items

    def generics(self):
        g = []
        self.bounds = getattr(self, "bounds", {})
        if self.at("<"):
            self.i += 1
            while not self.at(">"):
                n = self.ident()
                g.append(n)
                if self.eat(":"):
                    self.bounds[n] = self.type()["name"]
                    while self.eat("+"):
                        self.type()
                self.eat(",")
            self.expect(">")
        return g

    def struct(self, derives):
        self.expect("struct")
        name = self.ident()
        g = self.generics()
        fields = []
        if self.eat(";"):
            return {"k": "struct", "name": name, "generics": g, "fields": fields, "derives": derives}
        if self.at("("):
            depth = 0
            while True:
                t = self.peek(); self.i += 1
                if t[0] == "eof": raise TErr("unterminated tuple struct")
                if t[0] != "str" and t[1] == "(": depth += 1
                if t[0] != "str" and t[1] == ")":
                    depth -= 1
                    if depth == 0: break
            self.expect(";")
            return {"k": "skipped", "what": "tuple struct %s" % name}
        self.expect("{")
        while not self.at("}"):
            self.attrs()
            self.eat("pub")
            if self.at("("):
                while not self.eat(")"): self.i += 1
            fn = self.ident(); self.expect(":"); ft = self.type()
            fields.append((fn, ft)); self.eat(",")
        self.expect("}")
        return {"k": "struct", "name": name, "generics": g, "fields": fields, "derives": derives}

    def enum(self, derives):
        self.expect("enum")
        name = self.ident()
        g = self.generics()
        self.expect("{")
        variants = []
        while not self.at("}"):
            self.attrs()
            vn = self.ident()
            if self.eat("("):
                tys = []
                while not self.at(")"):
                    tys.append(self.type()); self.eat(",")
                self.expect(")")
                variants.append({"name": vn, "kind": "tuple", "types": tys})
            elif self.eat("{"):
                fs = []
                while not self.at("}"):
                    self.attrs()
                    fn = self.ident(); self.expect(":"); ft = self.type()
                    fs.append((fn, ft)); self.eat(",")
                self.expect("}")
                variants.append({"name": vn, "kind": "struct", "fields": fs})
            else:
                if self.eat("="):
                    self.i += 1
                variants.append({"name": vn, "kind": "unit"})
            self.eat(",")
        self.expect("}")
        return {"k": "enum", "name": name, "generics": g, "variants": variants, "derives": derives}

    def impl(self):
        self.expect("impl")
        g = self.generics()
        t1 = self.type()
        trait = None
        if self.eat("for"):
            trait = t1; t1 = self.type()
        self.expect("{")
        key2 = (trait["name"], "<%s>" % trait["args"][0].get("name")) if (trait is not None and trait.get("args")) else None
        if trait is not None and trait["name"] != "Default" and (trait["name"], t1.get("name")) not in self.keep_trait_impls \
                and key2 not in self.keep_trait_impls:
            # trait impls other than Default are glue (From / TryFrom / Display): not translated, listed in the module
            depth = 1
            while depth > 0:
                t = self.peek()
                if t[0] == "eof": raise TErr("unterminated impl")
                if t[0] != "str" and t[1] == "{": depth += 1
                if t[0] != "str" and t[1] == "}": depth -= 1
                self.i += 1
            return {"k": "skipped", "what": "impl %s for %s" % (trait["name"], t1.get("name", t1["k"]))}
        fns = []
        while not self.at("}"):
            self.attrs()
            self.eat("pub")
            if self.at("("):
                while not self.eat(")"): self.i += 1
            if self.at("type") or (self.at("const") and not self.at("fn", 1) and not self.at("unsafe", 1)):
                while not self.eat(";"): self.i += 1
                continue
            f = self.fn()
            if t1.get("name") is None:
                # `impl<T: B> From<X> for [..]`: the functions are named after the source type X; Self is the target type
                f["owner"] = trait["args"][0]["name"]; f["self_type"] = t1
                f["generics"] = list(g) + f["generics"]
                f["bounds"] = dict({x: self.bounds.get(x) for x in g}, **f["bounds"])
            else:
                f["owner"] = t1["name"]
            fns.append(f)
        self.expect("}")
        tname = t1["name"] if t1.get("name") is not None else trait["args"][0]["name"]
        return {"k": "impl", "trait": trait["name"] if trait else None, "type": tname, "generics": g, "fns": fns,
                "key2": list(key2) if key2 else None}

    def trait(self):
        self.expect("trait")
        name = self.ident()
        if self.eat(":"):
            while not self.at("{"): self.i += 1
        self.expect("{")
        fns = []
        while not self.at("}"):
            self.attrs()
            f = self.fn(); f["owner"] = name
            fns.append(f)
        self.expect("}")
        return {"k": "trait", "name": name, "fns": fns}

    def fn(self):
        self.eat("const"); self.eat("unsafe")
        self.expect("fn")
        name = self.ident()
        g = self.generics()
        self.expect("(")
        selfkind = None; params = []; destruct = []
        while not self.at(")"):
            if self.at("&") and (self.at("self", 1) or (self.at("mut", 1) and self.at("self", 2))):
                self.i += 1
                if self.eat("mut"): selfkind = "mut"
                else: selfkind = "ref"
                self.expect("self")
            elif self.at("self"):
                self.i += 1; selfkind = "val"
            elif self.at("("):
                pat = self.pattern()
                self.expect(":"); pt = self.type()
                params.append(("p%d_" % len(params), pt))
                destruct.append((params[-1][0], pat, pt))
            else:
                self.eat("mut")
                pn = self.ident(); self.expect(":"); pt = self.type()
                params.append((pn, pt))
            self.eat(",")
        self.expect(")")
        ret = None
        if self.eat("->"):
            ret = self.type()
        if self.at("where"):
            while not self.at("{") and not self.at(";"): self.i += 1
        body = None if self.eat(";") else self.block()
        return {"name": name, "generics": g, "bounds": {x: self.bounds.get(x) for x in g}, "selfkind": selfkind,
                "params": params, "destruct": destruct, "ret": ret, "body": body}

    # ---- statements / blocks
    def block(self):
        self.expect("{")
        stmts = []; tail = None
        while not self.at("}"):
            if self.at("let"):
                self.i += 1
                self.eat("mut")
                pat = self.pattern()
                ty = None
                if self.eat(":"): ty = self.type()
                self.expect("=")
                e = self.expr()
                self.expect(";")
                stmts.append({"k": "let", "pat": pat, "type": ty, "e": e}); continue
            if self.at("use"):
                self.i += 1
                segs = [self.ident()]; glob = False
                while self.eat("::"):
                    if self.eat("*"): glob = True
                    else: segs.append(self.ident())
                self.expect(";")
                stmts.append({"k": "use", "segs": segs, "glob": glob}); continue
            if self.at("for"):
                self.i += 1
                pat = self.pattern()
                self.expect("in")
                it = self.expr(nostruct=True)
                body = self.block()
                stmts.append({"k": "for", "pat": pat, "iter": it, "body": body}); continue
            e = self.expr()
            if self.at("=") or self.at("+=") or self.at("-="):
                op = self.peek()[1]; self.i += 1
                rhs = self.expr()
                if op != "=":
                    rhs = {"k": "binary", "op": op[0], "a": e, "b": rhs, "index_arith": True}
                if not self.eat(";") and not self.at("}"):
                    raise TErr("expected ';' after assignment")
                stmts.append({"k": "assign", "lhs": e, "e": rhs}); continue
            if self.eat(";"):
                stmts.append({"k": "expr", "e": e}); continue
            if self.at("}"):
                tail = e; break
            if e["k"] in ("if", "iflet", "match", "block"):
                stmts.append({"k": "expr", "e": e}); continue
            raise TErr("expected ';' or '}' after expression, found %r" % (self.peek(),))
        self.expect("}")
        return {"k": "block", "stmts": stmts, "tail": tail}

    # ---- patterns
    def pattern(self):
        alts = [self.pattern1()]
        while self.at("|"):
            self.i += 1; alts.append(self.pattern1())
        return alts[0] if len(alts) == 1 else {"k": "por", "alts": alts}

    def pattern1(self):
        if self.eat("&"):
            self.eat("mut")
            return self.pattern1()
        if self.eat("("):
            p = self.pattern()
            if self.at(","):
                els = [p]
                while self.eat(","):
                    if self.at(")"): break
                    els.append(self.pattern())
                self.expect(")")
                return {"k": "ptuple", "elems": els}
            self.expect(")")
            return p
        t = self.peek()
        if t[0] == "num":
            self.i += 1
            lo = num_value(t[1])
            if self.eat("..="):
                hi = self.peek(); self.i += 1
                return {"k": "prange", "lo": lo, "hi": num_value(hi[1])}
            return {"k": "plit", "v": lo}
        if t[0] == "id" and t[1] == "_":
            self.i += 1
            return {"k": "pwild"}
        if t[0] == "id" and t[1] in ("true", "false"):
            self.i += 1
            return {"k": "pbool", "v": t[1] == "true"}
        if t[0] == "id" and t[1] in ("ref", "mut"):
            self.i += 1
            return self.pattern1()
        segs = [self.ident()]
        while self.at("::"):
            self.i += 1; segs.append(self.ident())
        if self.eat("("):
            args = []
            while not self.at(")"):
                if self.eat(".."): args.append({"k": "prest"})
                else: args.append(self.pattern())
                self.eat(",")
            self.expect(")")
            return {"k": "ptuplestruct", "segs": segs, "args": args}
        if self.at("{"):
            self.i += 1
            fields = []; rest = False
            while not self.at("}"):
                if self.eat(".."): rest = True; continue
                fn = self.ident()
                if self.eat(":"): fp = self.pattern()
                else: fp = {"k": "pident", "segs": [fn]}
                fields.append((fn, fp)); self.eat(",")
            self.expect("}")
            return {"k": "pstruct", "segs": segs, "fields": fields, "rest": rest}
        return {"k": "pident", "segs": segs}

    # ---- expressions (precedence climbing)
    BIN = [("||",), ("&&",), ("==", "!=", "<", ">", "<=", ">="), ("|",), ("^",), ("&",), ("<<", ">>"), ("+", "-"), ("*", "/", "%")]

    def expr(self, nostruct=False, lvl=0):
        if lvl == len(self.BIN):
            return self.cast(nostruct)
        a = self.expr(nostruct, lvl + 1)
        while True:
            t = self.peek()
            if t[0] == "op" and t[1] in self.BIN[lvl] and not (t[1] == "&" and False):
                # `|` at expression level does not occur in the subset except as binary or
                self.i += 1
                b = self.expr(nostruct, lvl + 1)
                a = {"k": "binary", "op": t[1], "a": a, "b": b}
            else:
                return a

    def cast(self, nostruct):
        e = self.unary(nostruct)
        while self.at("as"):
            self.i += 1
            t = self.type()
            e = {"k": "cast", "e": e, "to": t["name"]}
        return e

    def unary(self, nostruct):
        if self.at("*") or self.at("&"):
            self.i += 1
            self.eat("mut")
            return self.unary(nostruct)               # (de)references carry no meaning in the functional model
        if self.at("!") or self.at("-"):
            op = self.peek()[1]; self.i += 1
            return {"k": "unary", "op": op, "e": self.unary(nostruct)}
        return self.postfix(self.primary(nostruct), nostruct)

    def postfix(self, e, nostruct):
        while True:
            if self.at("?"):
                self.i += 1; e = {"k": "try", "e": e}; continue
            if self.at("."):
                self.i += 1
                t = self.peek()
                if t[0] == "num":
                    self.i += 1; e = {"k": "tfield", "e": e, "idx": int(t[1])}; continue
                name = self.ident()
                if self.at("("):
                    e = {"k": "mcall", "recv": e, "name": name, "args": self.args()}
                else:
                    e = {"k": "field", "e": e, "name": name}
                continue
            if self.at("["):
                self.i += 1
                idx = self.expr()
                self.expect("]")
                e = {"k": "index", "e": e, "idx": idx}; continue
            if self.at("("):
                e = {"k": "call", "f": e, "args": self.args()}; continue
            return e

    def args(self):
        self.expect("(")
        a = []
        while not self.at(")"):
            a.append(self.expr()); self.eat(",")
        self.expect(")")
        return a

    def primary(self, nostruct):
        t = self.peek()
        if t[0] == "num":
            self.i += 1
            return {"k": "lit", "v": str(num_value(t[1]))}
        if t[0] == "str":
            self.i += 1
            return {"k": "str", "v": t[1][1:-1]}
        if self.at("("):
            self.i += 1
            if self.eat(")"):
                return {"k": "unit"}
            e = self.expr()
            if self.at(","):
                els = [e]
                while self.eat(","):
                    if self.at(")"): break
                    els.append(self.expr())
                self.expect(")")
                return {"k": "tuple", "elems": els}
            self.expect(")")
            return e
        if self.at("["):
            self.i += 1
            els = []
            if self.at("]"):
                self.i += 1; return {"k": "array", "elems": []}
            first = self.expr()
            if self.eat(";"):
                n = self.expr()
                self.expect("]")
                return {"k": "repeat", "elem": first, "len": n}
            els = [first]
            while self.eat(","):
                if self.at("]"): break
                els.append(self.expr())
            self.expect("]")
            return {"k": "array", "elems": els}
        if self.at("{"):
            return self.block()
        if self.at("|") or self.at("||"):
            # closure: parsed so that the enclosing item can be skipped; never translated
            if not self.eat("||"):
                self.i += 1
                while not self.eat("|"): self.i += 1
            body = self.expr()
            return {"k": "closure", "body": body}
        if self.at("if"):
            self.i += 1
            if self.eat("let"):
                pat = self.pattern()
                self.expect("=")
                e = self.expr(nostruct=True)
                th = self.block()
                el = None
                if self.eat("else"):
                    el = self.primary(False) if self.at("if") else self.block()
                return {"k": "iflet", "pat": pat, "e": e, "then": th, "else": el}
            c = self.expr(nostruct=True)
            th = self.block()
            el = None
            if self.eat("else"):
                el = self.primary(False) if self.at("if") else self.block()
            return {"k": "if", "c": c, "then": th, "else": el}
        if self.at("match"):
            self.i += 1
            e = self.expr(nostruct=True)
            self.expect("{")
            arms = []
            while not self.at("}"):
                self.eat("|")
                pat = self.pattern()
                if self.at("if"):
                    raise TErr("match guards are outside the subset")
                self.expect("=>")
                body = self.expr()
                self.eat(",")
                arms.append((pat, body))
            self.expect("}")
            return {"k": "match", "e": e, "arms": arms}
        if self.at("return"):
            self.i += 1
            if self.at(";") or self.at("}") or self.at(","):
                return {"k": "return", "e": None}
            return {"k": "return", "e": self.expr()}
        if t[0] == "id":
            if t[1] in ("true", "false"):
                self.i += 1
                return {"k": "bool", "v": t[1]}
            if t[1] == "unsafe" and self.at("{", 1):
                self.i += 1
                return self.block()                    # `unsafe { .. }`: the block; its obligations are the model's
            if t[1] in ("while", "loop", "unsafe", "move", "break", "continue", "async", "await"):
                raise TErr("construct %r is outside the subset" % t[1])
            if t[1] == "matches" and self.at("!", 1) and self.at("(", 2):
                self.i += 3
                e = self.expr()
                self.expect(",")
                pat = self.pattern()
                self.eat(",")
                self.expect(")")
                return {"k": "matches", "e": e, "pat": pat}
            if self.at("!", 1) and self.at("(", 2):
                name = self.ident(); self.i += 1
                return {"k": "macro", "name": name, "args": self.args()}
            segs = [self.ident()]
            while self.at("::"):
                self.i += 1
                if self.at("<"):
                    raise TErr("turbofish is outside the subset")
                segs.append(self.ident())
            if self.at("{") and not nostruct and segs[-1][0].isupper():
                self.i += 1
                fields = []; base = None
                while not self.at("}"):
                    if self.eat(".."):
                        base = self.expr(); continue
                    fn = self.ident()
                    if self.eat(":"): fe = self.expr()
                    else: fe = {"k": "path", "segs": [fn]}
                    fields.append((fn, fe)); self.eat(",")
                self.expect("}")
                return {"k": "struct", "segs": segs, "fields": fields, "base": base}
            return {"k": "path", "segs": segs}
        raise TErr("unexpected token in expression: %r" % (t,))

def num_value(tok):
    t = tok.replace("_", "")
    if t.startswith("0x"): return int(t, 16)
    if t.startswith("0b"): return int(t[2:], 2)
    return int(re.sub(r"[a-z].*$", "", t))

def parse_file(path, keep_trait_impls=()):
    s = strip_comments(open(path).read())
    return Parser(tokenize(s), keep_trait_impls).file()

# ------------------------------------------------------------------------------------------------ translation tables
NAT_TYPES = {"U7", "U14", "U4", "Channel", "ControllerNumber", "KeyNumber", "u8", "u16", "u32", "u64", "usize",
             "Duration", "Instant"}
BYTES_TUPLE = {"k": "tuple", "elems": [{"k": "path", "name": "u8", "args": []}, {"k": "path", "name": "U7", "args": []},
                                       {"k": "path", "name": "U7", "args": []}]}
# tuple structs around the byte triple: the value IS the triple
BYTES_NEWTYPES = {"RawShortMessage"}
EXTERN_TYPES = {"RawShortMessage": "Bytes", "TimeCodeType": "TimeCodeType", "ShortMessageType": "MsgType", "MessageSuperType": "SuperType", "MessageMainCategory": "MainCategory",
                "FuzzyMessageSuperType": "FuzzySuperType", "TimeCodeQuarterFrame": "QFrame",
                "ParameterNumberMessage": "PNMsg", "ControlChange14BitMessage": "CC14Msg", "DataType": "DataType",
                "StructuredShortMessage": "SMsg", "bool": "Bool"}
# extern enums: Rust name -> (Lean type, constructor naming = lower-first of the Rust variant name)
EXTERN_ENUMS = {"DataType": "DataType", "StructuredShortMessage": "SMsg", "ShortMessageType": "MsgType",
                "MessageSuperType": "SuperType", "MessageMainCategory": "MainCategory", "FuzzyMessageSuperType": "FuzzySuperType",
                "TimeCodeQuarterFrame": "QFrame", "TimeCodeType": "TimeCodeType"}
# hand-written constructor names that are not the lower-first form of the Rust variant name
EXTERN_VARIANT_NAMES = {("TimeCodeQuarterFrame", "FrameCountLsNibble"): "frameCountLs", ("TimeCodeQuarterFrame", "FrameCountMsNibble"): "frameCountMs",
                        ("TimeCodeQuarterFrame", "SecondsCountLsNibble"): "secondsLs", ("TimeCodeQuarterFrame", "SecondsCountMsNibble"): "secondsMs",
                        ("TimeCodeQuarterFrame", "MinutesCountLsNibble"): "minutesLs", ("TimeCodeQuarterFrame", "MinutesCountMsNibble"): "minutesMs",
                        ("TimeCodeQuarterFrame", "HoursCountLsNibble"): "hoursLs", ("TimeCodeQuarterFrame", "Last"): "last"}
UNREACHABLE_PANICS = {("TimeCodeQuarterFrame", "from"): "qfUnreachable"}
# `T::try_from(x)` / `x.try_into()` into a num_enum type: Option-valued table lookup of the hand-written model
TRY_FROM_U8 = {"ShortMessageType": "Midi.MsgType.ofU8", "TimeCodeType": "Midi.TimeCodeType.ofU8"}
TO_U8 = {"ShortMessageType": "Midi.MsgType.toU8", "TimeCodeType": "Midi.TimeCodeType.toU8"}
EXTERN_ENUM_FILES = [("src/structured_short_message.rs", ["StructuredShortMessage"]),
                     ("src/parameter_number_message.rs", ["DataType"]),
                     ("src/short_message.rs", ["ShortMessageType", "MessageSuperType", "MessageMainCategory", "FuzzyMessageSuperType",
                                               "TimeCodeQuarterFrame", "TimeCodeType"])]
EXTERN_CONSTS = {"U7::MAX": "127", "U14::MAX": "16383", "U4::MAX": "15", "Channel::MAX": "15", "KeyNumber::MAX": "127",
                 "ControllerNumber::MAX": "127", "U7::MIN": "0", "U14::MIN": "0", "U4::MIN": "0", "Channel::MIN": "0", "KeyNumber::MIN": "0",
                 "ControllerNumber::MIN": "0"}
# methods of types outside the translated files, by (receiver type, method)
TYPED_METHODS = {
    ("ShortMessageType", "into"): "Midi.MsgType.toU8",
    ("ShortMessageType", "super_type"): "Midi.MsgType.superType",
    ("MessageSuperType", "main_category"): "Midi.SuperType.mainCategory",
    ("TimeCodeQuarterFrame", "into"): "Midi.QFrame.toU7",
}
# the trait ShortMessage: required methods and the two defaults the crate's own types override (dispatch through Impl)
MSG_REQUIRED = {"status_byte": "status", "data_byte_1": "d1", "data_byte_2": "d2"}
MSG_OVERRIDABLE = {"to_bytes": ("pure", "toBytes"), "to_structured": ("res", "Midi.toStructured")}
# `RawShortMessage::<constructor>(..)` on the concrete type: the trait default through rawFactory (hand-written model)
RAW_STATIC = {"note_on": "Midi.mkNoteOn Midi.rawFactory", "note_off": "Midi.mkNoteOff Midi.rawFactory",
              "control_change": "Midi.mkControlChange Midi.rawFactory", "program_change": "Midi.mkProgramChange Midi.rawFactory",
              "polyphonic_key_pressure": "Midi.mkPolyphonicKeyPressure Midi.rawFactory", "channel_pressure": "Midi.mkChannelPressure Midi.rawFactory",
              "pitch_bend_change": "Midi.mkPitchBendChange Midi.rawFactory", "system_exclusive_start": "Midi.mkSystemExclusiveStart Midi.rawFactory",
              "time_code_quarter_frame": "Midi.mkTimeCodeQuarterFrame Midi.rawFactory", "song_position_pointer": "Midi.mkSongPositionPointer Midi.rawFactory",
              "song_select": "Midi.mkSongSelect Midi.rawFactory", "from_bytes": "Midi.fromBytes Midi.rawFactory",
              "tune_request": "Midi.mkPlain Midi.rawFactory MsgType.tuneRequest", "system_exclusive_end": "Midi.mkPlain Midi.rawFactory MsgType.systemExclusiveEnd",
              "timing_clock": "Midi.mkPlain Midi.rawFactory MsgType.timingClock", "start": "Midi.mkPlain Midi.rawFactory MsgType.start",
              "continue_": "Midi.mkPlain Midi.rawFactory MsgType.«continue»", "stop": "Midi.mkPlain Midi.rawFactory MsgType.stop",
              "active_sensing": "Midi.mkPlain Midi.rawFactory MsgType.activeSensing", "system_reset": "Midi.mkPlain Midi.rawFactory MsgType.systemReset"}
NEWTYPE_MAX = {"U4": 15, "U7": 127, "U14": 16383, "Channel": 15, "KeyNumber": 127, "ControllerNumber": 127}
FACTORY_BY_TYPE = {"StructuredShortMessage": "Midi.structuredFactory", "RawShortMessage": "Midi.rawFactory"}
# path functions of the rest of the crate: (kind, lean) ; kind pure | res (returns Res) | id (identity on its argument)
EXTERN_FNS = {
    "build_14_bit_value_from_two_7_bit_values": ("pure", "Midi.build14"),
    "ParameterNumberMessage::non_registered_7_bit": ("pure", "Midi.PNMsg.ctor 0"),
    "ParameterNumberMessage::non_registered_14_bit": ("pure", "Midi.PNMsg.ctor 1"),
    "ParameterNumberMessage::registered_7_bit": ("pure", "Midi.PNMsg.ctor 4"),
    "ParameterNumberMessage::registered_14_bit": ("pure", "Midi.PNMsg.ctor 5"),
    "ParameterNumberMessage::seven_bit": ("pure", "Midi.PNMsg.sevenBit"),
    "ParameterNumberMessage::fourteen_bit": ("pure", "Midi.PNMsg.fourteenBit"),
    "ControlChange14BitMessage::new": ("res", "Midi.CC14Msg.new"),
    "extract_high_7_bit_value_from_14_bit_value": ("pure", "Midi.extractHigh7"),
    "extract_low_7_bit_value_from_14_bit_value": ("pure", "Midi.extractLow7"),
    "U7": ("id", None), "U14": ("id", None), "U4": ("id", None), "Channel": ("id", None),

    "ControllerNumber": ("id", None), "KeyNumber": ("id", None),
    "extract_type_from_status_byte": ("res", "Midi.extractType"),
    "extract_channel_from_status_byte": ("pure", "Midi.extractChannel"),
    "build_status_byte": ("pure", "Midi.buildStatusByte"),
    "ControllerNumber::from": ("id", None), "KeyNumber::from": ("id", None), "U7::from": ("id", None),

    "Some": ("pure", "some"),
}
# methods of the rest of the crate, by name: kind pure1 (lean f recv), res1, msgres (uses I), id, elapsed
EXTERN_METHODS = {
    "get": ("id", None),
    "is_channel_mode_message_controller_number": ("pure1", "Midi.cnIsChannelMode"),
    "is_some": ("pure1", "Option.isSome"),
    "is_none": ("pure1", "Option.isNone"),
    "to_structured": ("msgres", "Midi.toStructured"),
    "channel": ("msgres", "Midi.channel"),
    "corresponding_14_bit_lsb_controller_number": ("res1", "Midi.cnLsbOf"),
    "elapsed": ("elapsed", None),
}
# .expect("<message>") on an Option: which panic site of the model it is
EXPECT_PANICS = {"unknown time code type": "unknownTimeCodeType",
                 "impossible": "cc14LsbImpossible", "invalid status byte detected": "invalidStatusByte",
                 "invalid status byte": "structuredInvalidStatus"}
# static functions of a `T: ShortMessageFactory` type parameter
FACTORY_FNS = {"control_change": "Midi.mkControlChange F", "from_bytes_unchecked": "F.ofBytesUnchecked"}
# assert!(..) sites: (owner, function) -> panic site of the model
ASSERT_PANICS = {("ControlChange14BitMessage", "new"): "cc14MsbAssert",
                 (None, "build_byte_from_nibbles"): "nibbleDebugAssert",
                 ("ShortMessageFactory", "channel_message"): "categoryAssert",
                 ("ShortMessageFactory", "system_common_message"): "categoryAssert",
                 ("ShortMessageFactory", "system_real_time_message"): "categoryAssert"}
CAST_MOD = {"u8": 2 ** 8, "u16": 2 ** 16, "u32": 2 ** 32, "u64": 2 ** 64, "usize": 2 ** 64}
RESERVED_TYPE_NAMES = {"Res", "Panic", "Impl", "Bytes", "Factory", "SMsg", "PNMsg", "CC14Msg", "DataType"}

LEAN_KEYWORDS = {"continue", "break", "return", "end", "from", "at", "do", "then", "else", "if", "match", "with", "fun", "let", "in", "open", "where"}

def extern_variant(en, vn):
    return EXTERN_VARIANT_NAMES.get((en, vn)) or lower_first(vn)

def lower_first(s):
    n = s[0].lower() + s[1:]
    return "«%s»" % n if n in LEAN_KEYWORDS else n

# ------------------------------------------------------------------------------------------------ code generator
def ind(lines, n=2):
    return [(" " * n) + l for l in lines]

def paren(lines):
    lines = list(lines)
    lines[0] = "(" + lines[0]
    lines[-1] = lines[-1] + ")"
    return lines

class Gen:
    def __init__(self, items, extern_enums, modname, cfg=None):
        cfg = cfg or {}
        self.cfg = cfg
        self.trait_kind = {}                                   # trait name -> message | factory
        self.trait_fns = {}                                    # trait name -> {fn name: fn} (with or without body)
        extra_skipped = []
        if cfg.get("only_traits") is not None:
            kept = []
            for it in items:
                if it["k"] == "trait" and it["name"] in cfg["only_traits"]:
                    kept.append(it)
                elif it["k"] == "impl" and [it.get("trait"), it.get("type")] in [list(x) for x in cfg.get("trait_impls", [])]:
                    kept.append(it)
                elif it["k"] == "fn" and it["fn"]["name"] in cfg.get("only_fns", []):
                    kept.append(it)
                elif it["k"] == "impl" and it.get("trait") is None and it.get("type") in cfg.get("inherent_impls", []):
                    kept.append(it)
                elif it["k"] == "skipped":
                    kept.append(it)
                else:
                    extra_skipped.append("%s %s" % (it["k"], it.get("name") or it.get("type") or (it.get("fn") or {}).get("name", "")))
            items = kept
        self.items = items
        self.modname = modname
        self.structs = {}; self.enums = {}; self.fns = {}      # fns: (owner, name) -> fn
        self.defaults = {}                                     # type -> fn (impl Default)
        self.extern_enum_decls = extern_enums                 # Rust enum name -> parsed enum
        self.tmp = 0
        self.skipped = [it["what"] for it in items if it["k"] == "skipped"] + extra_skipped
        self.type_alias = {it["name"]: it["type"] for it in items if it["k"] == "alias"}
        self.fn_alias = {it["name"]: it["target"] for it in items if it["k"] == "fnalias"}
        self.notes = set()
        for it in items:
            if it["k"] == "struct": self.structs[it["name"]] = it
            elif it["k"] == "enum": self.enums[it["name"]] = it
            elif it["k"] == "impl":
                if it["trait"] is None:
                    for f in it["fns"]:
                        self.fns[(it["type"], f["name"])] = f
                elif it["trait"] == "Default":
                    self.defaults[it["type"]] = it["fns"][0]
                elif [it["trait"], it["type"]] in [list(x) for x in cfg.get("trait_impls", [])] or \
                        (it.get("key2") and it["key2"] in [list(x) for x in cfg.get("trait_impls", [])]):
                    for f in it["fns"]:
                        f["impl_of"] = it["trait"]
                        if it["trait"] == "ShortMessageFactory": f["no_factory_param"] = True
                        fname = f["name"]
                        if f.get("self_type") is not None:
                            fname = f["name"] + "_array"        # `From<X> for [..]`: X::from_array
                            f["name"] = fname
                        self.fns[(it["type"], fname)] = f
                else:
                    raise TErr("impl of trait %s is outside the subset" % it["trait"])
            elif it["k"] == "fn":
                self.fns[(None, it["fn"]["name"])] = it["fn"]
            elif it["k"] == "trait":
                kind = {"ShortMessage": "message", "ShortMessageFactory": "factory"}.get(it["name"])
                if not kind: raise TErr("trait %s is outside the subset" % it["name"])
                self.trait_kind[it["name"]] = kind
                self.trait_fns[it["name"]] = {f["name"]: f for f in it["fns"]}
                for f in it["fns"]:
                    if f["body"] is None: continue
                    if f["name"] in cfg.get("skip_fns", []):
                        self.skipped.append("fn %s::%s (closures / Result: covered by the correspondence check)" % (it["name"], f["name"]))
                        continue
                    f["trait_kind"] = kind
                    self.fns[(it["name"], f["name"])] = f
        self.by_name = {}
        for (o, n), f in self.fns.items():
            self.by_name.setdefault(n, []).append((o, f))
        self.rename = {n: (n + "_" if n in RESERVED_TYPE_NAMES else n) for n in list(self.structs) + list(self.enums)}
        for tn in self.trait_kind: self.rename[tn] = tn
        for (o, n) in self.fns:
            if o and o not in self.rename: self.rename[o] = o        # functions of a type that stays hand-modelled
        self.compute_effects()

    # ---- which functions need the clock / a message implementor
    def compute_effects(self):
        def scan(node, acc):
            if isinstance(node, dict):
                if node.get("k") == "mcall":
                    acc.add(("m", node["name"]))
                if node.get("k") == "call" and node["f"].get("k") == "path":
                    acc.add(("p", "::".join(node["f"]["segs"])))
                for v in node.values(): scan(v, acc)
            elif isinstance(node, (list, tuple)):
                for v in node: scan(v, acc)
        self.calls = {}
        for key, f in self.fns.items():
            acc = set(); scan(f["body"], acc); self.calls[key] = acc
        self.needs_now = set(); self.needs_impl = set(); self.needs_factory = set()
        for key, f in self.fns.items():
            if f.get("trait_kind") == "message": self.needs_impl.add(key)
            if f.get("trait_kind") == "factory": self.needs_factory.add(key)
        for key, f in self.fns.items():
            fac = [g for g in f.get("generics", []) if f.get("bounds", {}).get(g) == "ShortMessageFactory"]
            if len(f.get("generics", [])) > 1 or (f.get("generics") and not fac):
                raise TErr("generic parameters other than one `T: ShortMessageFactory` are outside the subset (%s)" % f["name"])
            if fac: self.needs_factory.add(key)
        for key, f in self.fns.items():
            if any(self.is_msg_type(t) for _, t in f["params"]):
                self.needs_impl.add(key)
            if ("p", "Instant::now") in self.calls[key] or ("m", "elapsed") in self.calls[key]:
                self.needs_now.add(key)
        changed = True
        while changed:
            changed = False
            for key in self.fns:
                for kind, name in self.calls[key]:
                    last = name.split("::")[-1]
                    for (o, f2) in self.by_name.get(last, []):
                        k2 = (o, f2["name"])
                        if k2 == key: continue
                        if k2 in self.needs_now and key not in self.needs_now:
                            self.needs_now.add(key); changed = True

    def is_msg_type(self, t):
        return t["k"] == "ref" and t["inner"]["k"] == "impl" and t["inner"]["trait"]["name"] == "ShortMessage"

    # ---- types
    def ty(self, t, owner=None, generics=(), fngen=()):
        k = t["k"]
        if k == "path" and t["name"] == "Self" and getattr(self, "_self_type", None) is not None:
            return self.ty(self._self_type, owner, generics, fngen)
        if k == "ref": return self.ty(t["inner"], owner, generics, fngen)
        if k == "array": return "(Vector %s %s)" % (self.ty(t["elem"], owner, generics, fngen), t["len"])
        if k == "tuple":
            if not t["elems"]: return "Unit"
            if self.cfg.get("tuple3_bytes") and len(t["elems"]) == 3 and [x.get("name") for x in t["elems"]] == ["u8", "U7", "U7"]:
                return "Bytes"
            return "(" + " × ".join(self.ty(x, owner, generics, fngen) for x in t["elems"]) + ")"
        if k == "impl": raise TErr("impl type in unsupported position")
        n = t["name"]
        if n in self.type_alias and not t["args"]:
            return self.ty(self.type_alias[n], owner, generics, fngen)
        if n == "Self":
            if self.trait_kind.get(owner) == "factory": return "β"
            if self.trait_kind.get(owner) == "message": return "α"
            if owner in NAT_TYPES: return "Nat"
            if owner in EXTERN_TYPES and owner not in self.structs and owner not in self.enums: return EXTERN_TYPES[owner]
            return self.rename[owner]
        if n in fngen: return "β"
        if n in generics: return n
        if n in NAT_TYPES: return "Nat"
        if n in EXTERN_TYPES and n not in self.structs and n not in self.enums and n in self.rename: return EXTERN_TYPES[n]
        if n == "Option": return "(Option %s)" % self.ty(t["args"][0], owner, generics, fngen)
        if n == "Result":
            self.notes.add("`Result<T, E>` with a unit-like error is modelled as `Option T` (`Err(_)` = none)")
            return "(Option %s)" % self.ty(t["args"][0], owner, generics, fngen)
        if n in self.rename:
            if t["args"]:
                return "(%s %s)" % (self.rename[n], " ".join(self.ty(a, owner, generics) for a in t["args"]))
            return self.rename[n]
        if n in EXTERN_TYPES: return EXTERN_TYPES[n]
        raise TErr("unknown type %s" % n)

    def fresh(self, base="t"):
        self.tmp += 1
        return "%s%d" % (base, self.tmp)

    # ---- declarations
    def emit_struct(self, s):
        name = self.rename[s["name"]]
        g = "".join(" (%s : Type)" % x for x in s["generics"])
        out = ["structure %s%s where" % (name, g)]
        for fn, ft in s["fields"]:
            out.append("  %s : %s" % (fn, self.ty(ft, s["name"], s["generics"])))
        if not s["generics"]:
            out.append("  deriving DecidableEq, Repr")
        out.append("")
        if "Default" in s["derives"]:
            out.append("/-- `#[derive(Default)]` -/")
            out.append("instance : Inhabited %s := ⟨{ %s }⟩" % (name, ", ".join("%s := default" % fn for fn, _ in s["fields"])))
            out.append("")
        return out

    def emit_enum(self, e):
        name = self.rename[e["name"]]
        out = ["inductive %s where" % name]
        for v in e["variants"]:
            if v["kind"] == "unit": out.append("  | %s" % v["name"])
            elif v["kind"] == "tuple":
                out.append("  | %s %s" % (v["name"], " ".join("(a%d : %s)" % (i, self.ty(t, e["name"])) for i, t in enumerate(v["types"]))))
            else:
                out.append("  | %s %s" % (v["name"], " ".join("(%s : %s)" % (fn, self.ty(t, e["name"])) for fn, t in v["fields"])))
        out.append("  deriving DecidableEq, Repr")
        out.append("")
        if e["name"] in self.defaults:
            f = self.defaults[e["name"]]
            body = f["body"]
            if body["stmts"] or body["tail"] is None:
                raise TErr("impl Default with statements is outside the subset")
            ctx = {"owner": e["name"], "selfkind": None, "fn": f, "key": None}
            val = self.pure_expr(body["tail"], {"vars": {}, "imports": set()}, ctx)
            out.append("/-- `impl Default for %s` -/" % e["name"])
            out.append("instance : Inhabited %s := ⟨%s⟩" % (name, val))
            out.append("")
        elif "Default" in e["derives"]:
            raise TErr("derive(Default) on an enum is outside the subset")
        return out

    def pure_expr(self, e, env, ctx):
        """translate an expression that must be effect-free into a one-line Lean term"""
        box = []
        def k(v, env2):
            box.append(v); return ["<<PURE>>"]
        lines = self.E(e, env, ctx, k)
        if lines != ["<<PURE>>"] or len(box) != 1:
            raise TErr("expression expected to be pure is not")
        return box[0]

    def type_deps(self, it):
        acc = set()
        def walk(t):
            if t["k"] in ("ref",): walk(t["inner"])
            elif t["k"] == "array": walk(t["elem"])
            elif t["k"] == "tuple":
                for x in t["elems"]: walk(x)
            elif t["k"] == "path":
                if t["name"] in self.rename: acc.add(t["name"])
                for a in t["args"]: walk(a)
        if it["k"] == "struct":
            for _, t in it["fields"]: walk(t)
        else:
            for v in it["variants"]:
                for t in v.get("types", []): walk(t)
                for _, t in v.get("fields", []): walk(t)
        acc.discard(it["name"])
        return acc

    def toposort(self, nodes, deps):
        out = []; done = set(); visiting = set()
        def visit(n):
            if n in done: return
            if n in visiting: raise TErr("dependency cycle at %s" % (n,))
            visiting.add(n)
            for d in sorted(deps[n], key=lambda x: str(x)):      # deterministic output (set order varies between runs)
                if d in deps: visit(d)
            visiting.discard(n); done.add(n); out.append(n)
        for n in nodes: visit(n)
        return out

    # ---- best-effort receiver typing (only used for ordering and for picking the callee's signature)
    def rtype(self, e, env, ctx):
        k = e["k"]
        if k == "path" and len(e["segs"]) == 1:
            n = e["segs"][0]
            if n == "self": return {"k": "path", "name": ctx["owner"], "args": []}
            v = env["vars"].get(n)
            if v: return v[1]
        if k == "path":
            en = self.variant_enum(e["segs"], env, ctx)
            return {"k": "path", "name": en, "args": []} if en else None
        if k == "tfield" and e["idx"] == 0 and e["e"].get("k") == "path" and e["e"]["segs"] == ["self"] and ctx["owner"] in BYTES_NEWTYPES:
            return BYTES_TUPLE
        if k == "mcall":
            rt = self.rtype(e["recv"], env, ctx)
            if rt and rt["k"] == "ref": rt = rt["inner"]
            if rt and rt["k"] == "path" and rt["name"] in self.trait_fns and e["name"] in self.trait_fns[rt["name"]]:
                return self.trait_fns[rt["name"]][e["name"]]["ret"]
            return None
        if k == "field":
            bt = self.rtype(e["e"], env, ctx)
            if bt and bt["k"] == "ref": bt = bt["inner"]
            if bt and bt["k"] == "path" and bt["name"] in self.structs:
                for fn, ft in self.structs[bt["name"]]["fields"]:
                    if fn == e["name"]: return ft
            return None
        if k == "index":
            bt = self.rtype(e["e"], env, ctx)
            if bt and bt["k"] == "array": return bt["elem"]
            return None
        return None

    REPR = {"U7": "u8", "U4": "u8", "Channel": "u8", "KeyNumber": "u8", "ControllerNumber": "u8", "U14": "u16"}

    def int_type(self, e, env, ctx):
        """machine integer type of an expression, where it can be read off syntactically (None otherwise)"""
        k = e["k"]
        if k == "cast": return e["to"]
        if k == "tfield" and e["idx"] == 0 and e["e"].get("k") == "path" and e["e"]["segs"] == ["self"]:
            return self.REPR.get(ctx["owner"])
        if k == "path":
            t = self.rtype(e, env, ctx)
            if t and t["k"] == "ref": t = t["inner"]
            return t["name"] if t and t["k"] == "path" and t["name"] in CAST_MOD else None
        if k == "mcall" and e["name"] == "get" and not e["args"]:
            t = self.rtype(e["recv"], env, ctx)
            if t and t["k"] == "ref": t = t["inner"]
            return self.REPR.get(t["name"]) if t and t["k"] == "path" else None
        if k == "call" and e["f"].get("k") == "path" and len(e["f"]["segs"]) == 2 and e["f"]["segs"][1] == "from" and e["f"]["segs"][0] in CAST_MOD:
            return e["f"]["segs"][0]
        if k == "binary":
            return self.int_type(e["a"], env, ctx) or self.int_type(e["b"], env, ctx)
        if k == "unary":
            return self.int_type(e["e"], env, ctx)
        return None

    def resolve_method(self, recv, name, env, ctx):
        cands = self.by_name.get(name, [])
        if not cands: return None
        rt = self.rtype(recv, env, ctx)
        if rt and rt["k"] == "ref": rt = rt["inner"]
        if rt and rt["k"] == "path":
            for (o, f) in cands:
                if o == rt["name"]: return (o, f)
        if len(cands) == 1: return cands[0]
        kinds = {(f["selfkind"], (o, f["name"]) in self.needs_now, (o, f["name"]) in self.needs_impl, len(f["params"])) for o, f in cands}
        if len(kinds) == 1: return cands[0]
        raise TErr("cannot resolve method %s" % name)

    # ---- functions
    def fn_deps(self, key):
        f = self.fns[key]; deps = set()
        ctx = {"owner": key[0], "selfkind": f["selfkind"], "fn": f, "key": key}
        env = {"vars": {pn: (pn, pt) for pn, pt in f["params"]}, "imports": set()}
        def walk(node):
            if isinstance(node, dict):
                if node.get("k") == "mcall":
                    cands = self.by_name.get(node["name"], [])
                    rt = self.rtype(node["recv"], env, ctx)
                    if rt and rt["k"] == "ref": rt = rt["inner"]
                    typed = [(o, f2) for (o, f2) in cands if rt and rt["k"] == "path" and o == rt["name"]]
                    for (o, f2) in (typed or cands):
                        deps.add((o, f2["name"]))
                if node.get("k") == "call" and node["f"].get("k") == "path":
                    segs = node["f"]["segs"]
                    if len(segs) == 2:
                        o = ctx["owner"] if segs[0] == "Self" else segs[0]
                        if (o, segs[1]) in self.fns: deps.add((o, segs[1]))
                    if len(segs) == 1 and (None, segs[0]) in self.fns: deps.add((None, segs[0]))
                for v in node.values(): walk(v)
            elif isinstance(node, (list, tuple)):
                for v in node: walk(v)
        walk(f["body"])
        deps.discard(key)
        return deps

    def lean_fn_name(self, key):
        o, n = key
        if o and o in self.structs and n in [fn for fn, _ in self.structs[o]["fields"]]:
            n = n + "_fn"                 # a getter named like the field it reads
        if n in LEAN_KEYWORDS: n = n + "_"
        return ("%s.%s" % (self.rename[o], n)) if o else n

    def emit_fn(self, key):
        f = self.fns[key]
        owner = key[0]
        self.tmp = 0
        ctx = {"owner": owner, "selfkind": f["selfkind"], "fn": f, "key": key}
        sig = []
        env = {"vars": {}, "imports": set()}
        tk = f.get("trait_kind")
        if f["selfkind"] and tk != "message":
            sig.append("(self : %s)" % self.ty({"k": "path", "name": "Self", "args": []}, owner))
        fngen = tuple(f.get("generics", []))
        self._self_type = f.get("self_type")
        if key in self.needs_impl:
            sig.append("{α : Type} (I : Impl α)")
        if tk == "message":
            if not f["selfkind"]: raise TErr("static method in the message trait")
            sig.append("(self : α)")
        if key in self.needs_factory:
            sig.append("{β : Type} (F : Factory β)")
        for pn, pt in f["params"]:
            if self.is_msg_type(pt):
                sig.append("(%s : α)" % pn)
            else:
                sig.append("(%s : %s)" % (pn, self.ty(pt, owner, (), fngen)))
            env["vars"][pn] = (pn, pt)
        if key in self.needs_now:
            sig.append("(now : Nat)")
        ret = self.ty(f["ret"], owner, (), fngen) if f["ret"] else "Unit"
        if f["selfkind"] == "mut":
            rty = "Res (%s × %s)" % (ret, self.rename[owner])
        else:
            rty = "Res %s" % ret
        pre = []
        for pname, pat, pt in f.get("destruct", []):
            if not (self.cfg.get("tuple3_bytes") and pat["k"] == "ptuple" and len(pat["elems"]) == 3 and
                    all(x["k"] == "pident" and len(x["segs"]) == 1 for x in pat["elems"]) and pt["k"] == "tuple"):
                raise TErr("destructuring parameter pattern outside the subset")
            for x, proj, ety in zip(pat["elems"], ["status", "d1", "d2"], pt["elems"]):
                pre.append("let %s := %s.%s" % (x["segs"][0], pname, proj))
                env["vars"][x["segs"][0]] = (x["segs"][0], ety)
        self._ann_imports = set()
        self.annotate(f["body"], f["ret"], env, ctx)
        if key not in self.needs_factory and f["ret"] is not None and f["ret"].get("name") in FACTORY_BY_TYPE:
            ctx["factory_arg"] = FACTORY_BY_TYPE[f["ret"]["name"]]      # `self.to_other()` with the target inferred from the return type
        body = self.E(f["body"], env, ctx, lambda v, env2: self.RET(v, ctx))
        out = ["/-- `%s%s` -/" % ((owner + "::") if owner else "", f["name"])]
        out.append("def %s %s : %s :=" % (self.lean_fn_name(key), " ".join(sig), rty))
        out += ind(pre + body)
        out.append("")
        return out

    # ---- expected types (only what `.into()` needs): a pre-pass that stores node["expect"]
    def annotate(self, e, t, env, ctx):
        if not isinstance(e, dict): return
        K = e.get("k")
        if t is not None: e["expect"] = t
        def opt_inner(tt):
            return tt["args"][0] if tt and tt.get("k") == "path" and tt.get("name") == "Option" and tt.get("args") else None
        if K == "block":
            for st in e["stmts"]:
                if st["k"] == "use" and st["glob"]:
                    self._ann_imports = set(getattr(self, "_ann_imports", set())) | {st["segs"][-1]}
                if st["k"] == "let": self.annotate(st["e"], st.get("type"), env, ctx)
                elif st["k"] == "assign":
                    ft = None
                    lhs = st["lhs"]
                    if lhs["k"] == "field" and lhs["e"].get("k") == "path" and lhs["e"]["segs"] == ["self"] and ctx["owner"] in self.structs:
                        ft = dict(self.structs[ctx["owner"]]["fields"]).get(lhs["name"])
                    self.annotate(st["e"], ft, env, ctx)
                elif st["k"] == "expr": self.annotate(st["e"], None, env, ctx)
                elif st["k"] == "for": self.annotate(st["body"], None, env, ctx)
            if e["tail"] is not None: self.annotate(e["tail"], t, env, ctx)
        elif K == "if":
            self.annotate(e["c"], None, env, ctx); self.annotate(e["then"], t, env, ctx); self.annotate(e["else"], t, env, ctx)
        elif K == "iflet":
            self.annotate(e["e"], None, env, ctx); self.annotate(e["then"], t, env, ctx); self.annotate(e["else"], t, env, ctx)
        elif K == "match":
            self.annotate(e["e"], None, env, ctx)
            for _, body in e["arms"]: self.annotate(body, t, env, ctx)
        elif K == "return":
            self.annotate(e["e"], ctx["fn"]["ret"], env, ctx)
        elif K == "struct":
            segs = e["segs"]
            decl = None
            var = self.variant_of_loose(segs, ctx)
            if var and var[1]["kind"] == "struct": decl = dict(var[1]["fields"])
            else:
                name = ctx["owner"] if segs == ["Self"] else segs[-1]
                if name in self.structs: decl = dict(self.structs[name]["fields"])
            for fn, fe in e["fields"]: self.annotate(fe, decl.get(fn) if decl else None, env, ctx)
            self.annotate(e.get("base"), None, env, ctx)
        elif K == "call":
            f = e["f"]
            segs = f["segs"] if f.get("k") == "path" else []
            if segs == ["Some"] and len(e["args"]) == 1:
                self.annotate(e["args"][0], opt_inner(t), env, ctx); return
            var = self.variant_of_loose(segs, ctx) if segs else None
            if var and var[1]["kind"] == "tuple" and len(var[1]["types"]) == len(e["args"]):
                for a, at in zip(e["args"], var[1]["types"]): self.annotate(a, at, env, ctx)
                return
            key = None
            if len(segs) == 2:
                o = ctx["owner"] if segs[0] == "Self" else segs[0]
                if (o, segs[1]) in self.fns: key = (o, segs[1])
            ptypes = [pt for _, pt in self.fns[key]["params"]] if key else []
            for i, a in enumerate(e["args"]): self.annotate(a, ptypes[i] if i < len(ptypes) else None, env, ctx)
        elif K == "mcall":
            self.annotate(e["recv"], t if e["name"] in ("expect", "unwrap") else None, env, ctx)
            cands = self.by_name.get(e["name"], [])
            ptypes = [pt for _, pt in cands[0][1]["params"]] if len(cands) == 1 else []
            for i, a in enumerate(e["args"]): self.annotate(a, ptypes[i] if i < len(ptypes) else None, env, ctx)
        elif K == "tuple":
            if self.cfg.get("tuple3_bytes") and len(e["elems"]) == 3:
                for a, nm in zip(e["elems"], ["u8", "U7", "U7"]): self.annotate(a, {"k": "path", "name": nm, "args": []}, env, ctx)
            else:
                for a in e["elems"]: self.annotate(a, None, env, ctx)
        else:
            for kk, v in e.items():
                if kk == "expect": continue
                if isinstance(v, dict): self.annotate(v, None, env, ctx)
                elif isinstance(v, list):
                    for x in v:
                        if isinstance(x, dict): self.annotate(x, None, env, ctx)
                        elif isinstance(x, tuple):
                            for y in x:
                                if isinstance(y, dict): self.annotate(y, None, env, ctx)

    def all_enum_names(self):
        return list(self.enums) + list(self.extern_enum_decls)

    def variant_of_loose(self, segs, ctx):
        """for the expected-type pre-pass only: a variant by qualified path or through the `use X::*` seen so far"""
        try:
            return self.variant_of(segs, {"vars": {}, "imports": set(getattr(self, "_ann_imports", set()))}, ctx)
        except TErr:
            return None

    def check_factory(self, key, ctx):
        if key in self.needs_factory and ctx.get("key") not in self.needs_factory and not ctx.get("factory_arg"):
            raise TErr("call of a factory-generic function from a function without a factory parameter")

    def factory_arg(self, ctx):
        return "F" if ctx.get("key") in self.needs_factory else ctx.get("factory_arg", "F")

    def RET(self, v, ctx):
        if ctx["selfkind"] == "mut":
            return [".ok (%s, self)" % v]
        return [".ok %s" % v]

    # ---- variants / paths
    def variant_of(self, segs, env, ctx):
        """(lean constructor, variant decl, is_extern) if the path names an enum variant"""
        if len(segs) == 2:
            en = ctx["owner"] if segs[0] == "Self" else segs[0]
            if en in self.enums:
                for v in self.enums[en]["variants"]:
                    if v["name"] == segs[1]: return ("%s.%s" % (self.rename[en], v["name"]), v, False)
            if en in EXTERN_ENUMS and en in self.extern_enum_decls:
                for v in self.extern_enum_decls[en]["variants"]:
                    if v["name"] == segs[1]: return ("%s.%s" % (EXTERN_ENUMS[en], extern_variant(en, v["name"])), v, True)
        if len(segs) == 1:
            found = []
            for en in sorted(env["imports"]):
                if en in self.enums:
                    for v in self.enums[en]["variants"]:
                        if v["name"] == segs[0]: found.append(("%s.%s" % (self.rename[en], v["name"]), v, False))
                elif en in EXTERN_ENUMS and en in self.extern_enum_decls:
                    for v in self.extern_enum_decls[en]["variants"]:
                        if v["name"] == segs[0]: found.append(("%s.%s" % (EXTERN_ENUMS[en], extern_variant(en, v["name"])), v, True))
            if len(found) > 1: raise TErr("variant name %s is ambiguous between glob-imported enums" % segs[0])
            if found: return found[0]
        return None

    def variant_enum(self, segs, env, ctx):
        """name of the enum a path to a variant belongs to (for typing receivers)"""
        if len(segs) == 2:
            en = ctx["owner"] if segs[0] == "Self" else segs[0]
            if en in self.enums or en in self.extern_enum_decls: return en
        if len(segs) == 1:
            for en in sorted(env["imports"]):
                decl = self.enums.get(en) or self.extern_enum_decls.get(en)
                if decl and any(v["name"] == segs[0] for v in decl["variants"]): return en
        return None

    # ---- expressions: E returns the Lean lines of a term of the function's result type
    def seq(self, exprs, env, ctx, k, acc=None):
        acc = acc or []
        if not exprs:
            return k(acc, env)
        return self.E(exprs[0], env, ctx, lambda v, env2: self.seq(exprs[1:], env2, ctx, k, acc + [v]))

    def bind_var(self, env, name, ty=None):
        """a new Lean name for the Rust variable `name` (shadowing is by renaming: continuations are inlined)"""
        used = {v[0] for v in env["vars"].values()} | {"self", "now", "I"}
        ln = name; i = 1
        while ln in used:
            ln = "%s_%d" % (name, i); i += 1
        env2 = {"vars": dict(env["vars"]), "imports": env["imports"]}
        env2["vars"][name] = (ln, ty)
        return ln, env2

    def E(self, e, env, ctx, k):
        K = e["k"]
        if K == "lit": return k(e["v"], env)
        if K == "bool": return k(e["v"], env)
        if K == "unit": return k("()", env)
        if K == "str": raise TErr("string literal in value position")
        if K == "path":
            segs = e["segs"]
            if len(segs) == 1:
                n = segs[0]
                if n == "self": return k("self", env)
                if n in env["vars"]: return k(env["vars"][n][0], env)
                if n == "None": return k("none", env)
            var = self.variant_of(segs, env, ctx)
            if var:
                if var[1]["kind"] != "unit": raise TErr("non-unit variant %s used as a value" % segs)
                return k(var[0], env)
            if "::".join(segs) in EXTERN_CONSTS:
                return k(EXTERN_CONSTS["::".join(segs)], env)
            if re.match(r"^[A-Z][A-Z0-9_]*$", segs[-1]) and (
                    (len(segs) == 2 and segs[0] == "controller_numbers") or (len(segs) == 1 and "controller_numbers" in env["imports"])):
                if segs[-1] not in CONTROLLER_CONSTANTS: raise TErr("unknown controller number constant %s" % segs[-1])
                return k("Midi.Gen.CN.%s" % segs[-1], env)
            raise TErr("unknown path %s" % "::".join(segs))
        if K == "field":
            return self.E(e["e"], env, ctx, lambda v, env2: k("%s.%s" % (v, e["name"]) if re.match(r"^[\w.]+$", v) else "(%s).%s" % (v, e["name"]), env2))
        if K == "tfield":
            if e["idx"] == 0 and e["e"].get("k") == "path" and e["e"]["segs"] == ["self"] and (ctx["owner"] in NAT_TYPES or ctx["owner"] in BYTES_NEWTYPES):
                return k("self", env)                      # the payload of a restricted integer is the Nat itself (of Raw: the triple)
            bt = self.rtype(e["e"], env, ctx)
            if bt and bt["k"] == "ref": bt = bt["inner"]
            if self.cfg.get("tuple3_bytes") and bt and bt["k"] == "tuple" and len(bt["elems"]) == 3 and e["idx"] < 3:
                proj = ["status", "d1", "d2"][e["idx"]]
                return self.E(e["e"], env, ctx, lambda v, env2: k("%s.%s" % (v, proj) if re.match(r"^[\w.]+$", v) else "(%s).%s" % (v, proj), env2))
            return self.E(e["e"], env, ctx, lambda v, env2: k("(%s).%d" % (v, e["idx"] + 1), env2))
        if K == "unary":
            op = {"!": "!", "-": "-"}[e["op"]]
            return self.E(e["e"], env, ctx, lambda v, env2: k("(%s%s)" % (op, v), env2))
        if K == "binary":
            op = e["op"]
            def kb(vs, env2):
                a, b = vs
                if op in ("==", "!=", "&&", "||"): return k("(%s %s %s)" % (a, op, b), env2)
                if op in ("<", ">", "<=", ">="):
                    lop = {"<": "<", ">": ">", "<=": "≤", ">=": "≥"}[op]
                    return k("(decide (%s %s %s))" % (a, lop, b), env2)
                if op == "&": return k("(%s &&& %s)" % (a, b), env2)
                if op == ">>": return k("(%s >>> %s)" % (a, b), env2)
                if op == "|": return k("(%s ||| %s)" % (a, b), env2)
                if op == "^": return k("(%s ^^^ %s)" % (a, b), env2)
                if op == "<<":
                    t = self.int_type(e["a"], env2, ctx)
                    if t not in CAST_MOD: raise TErr("`<<` on an operand whose width is unknown")
                    if e["b"]["k"] != "lit" or int(e["b"]["v"]) >= {"u8": 8, "u16": 16, "u32": 32, "u64": 64, "usize": 64}[t]:
                        raise TErr("`<<` by a non-literal or over-wide amount (would panic in debug builds)")
                    self.notes.add("`<<` on uN drops the bits shifted out: (a <<< k) % 2^N")
                    return k("((%s <<< %s) %% %d)" % (a, b, CAST_MOD[t]), env2)
                if op == "+" and not e.get("index_arith"):
                    t = self.int_type(e["a"], env2, ctx) or self.int_type(e["b"], env2, ctx)
                    if t not in CAST_MOD: raise TErr("`+` on operands whose width is unknown")
                    self.notes.add("`+` on uN is checked addition (the harness builds with overflow checks): overflow = panic addOverflow")
                    tmp = self.fresh()
                    return paren(["if %s + %s < %d then" % (a, b, CAST_MOD[t])] + ind(["let %s := %s + %s" % (tmp, a, b)] + k(tmp, env2)) +
                                 ["else"] + ind([".error .addOverflow"]))
                if op == "+" and e.get("index_arith"):
                    self.notes.add("`+=` on a usize index local is unbounded addition on Nat (the index stays below the array length, far from overflow)")
                    return k("(%s + %s)" % (a, b), env2)
                if op in ("+", "-", "*", "/", "%"):
                    raise TErr("machine arithmetic %s is outside the subset (needs an overflow model)" % op)
                raise TErr("operator %s is outside the subset" % op)
            return self.seq([e["a"], e["b"]], env, ctx, kb)
        if K == "cast":
            if e["to"] not in CAST_MOD: raise TErr("cast to %s is outside the subset" % e["to"])
            st = self.rtype(e["e"], env, ctx)
            if st and st["k"] == "ref": st = st["inner"]
            if st and st["k"] == "path" and st["name"] == "bool":
                return self.E(e["e"], env, ctx, lambda v, env2: k("(if %s then 1 else 0)" % v, env2))
            self.notes.add("`as uN` on a Nat-modelled unsigned value is reduction modulo 2^N")
            return self.E(e["e"], env, ctx, lambda v, env2: k("(%s %% %d)" % (v, CAST_MOD[e["to"]]), env2))
        if K == "macro":
            site = (ctx["owner"], ctx["fn"]["name"])
            if e["name"] == "unreachable" and not e["args"]:
                if site not in UNREACHABLE_PANICS: raise TErr("unreachable! in %s::%s has no panic site in the model" % site)
                return [".error .%s" % UNREACHABLE_PANICS[site]]
            if e["name"] == "assert_eq" and len(e["args"]) == 2:
                if site not in ASSERT_PANICS: raise TErr("assert_eq! in %s::%s has no panic site in the model" % site)
                def kae(vs, env2):
                    return paren(["if (%s == %s) then" % (vs[0], vs[1])] + ind(k("()", env2)) + ["else"] + ind([".error .%s" % ASSERT_PANICS[site]]))
                return self.seq(e["args"], env, ctx, kae)
            if e["name"] == "debug_assert" and len(e["args"]) == 1:
                self.notes.add("debug_assert! is modelled as active (the harness builds the crate with debug assertions)")
            elif e["name"] != "assert" or len(e["args"]) != 1: raise TErr("macro %s! is outside the subset" % e["name"])
            if site not in ASSERT_PANICS: raise TErr("assert! in %s::%s has no panic site in the model" % site)
            def ka(c, env2):
                return paren(["if %s then" % c] + ind(k("()", env2)) + ["else"] + ind([".error .%s" % ASSERT_PANICS[site]]))
            return self.E(e["args"][0], env, ctx, ka)
        if K == "try":
            def kt(v, env2):
                t = self.fresh()
                some_branch = k(t, env2)
                return paren(["match %s with" % v, "| some %s =>" % t] + ind(some_branch) + ["| none =>"] + ind(self.RET("none", ctx)))
            return self.E(e["e"], env, ctx, kt)
        if K == "return":
            if ctx["selfkind"] == "loop": raise TErr("return inside a loop body is outside the subset")
            if e["e"] is None: return self.RET("()", ctx)
            return self.E(e["e"], env, ctx, lambda v, env2: self.RET(v, ctx))
        if K == "block":
            # bindings made inside the block end with it (Lean names never capture: see bind_var)
            return self.S(e["stmts"], 0, env, ctx, lambda env2: (self.E(e["tail"], env2, ctx, lambda v, env3: k(v, env)) if e["tail"] is not None else k("()", env)))
        if K == "if":
            if e["else"] is not None:
                # a conditional between two effect-free values stays a value (no duplication of the continuation)
                try:
                    tmp0 = self.tmp
                    c = self.pure_expr(e["c"], env, ctx)
                    a = self.pure_expr(e["then"], env, ctx)
                    b = self.pure_expr(e["else"], env, ctx)
                    return k("(if %s then %s else %s)" % (c, a, b), env)
                except TErr:
                    self.tmp = tmp0
            def kc(c, env2):
                kk = lambda v, env3: k(v, env2)
                th = self.E(e["then"], env2, ctx, kk)
                el = self.E(e["else"], env2, ctx, kk) if e["else"] is not None else k("()", env2)
                return paren(["if %s then" % c] + ind(th) + ["else"] + ind(el))
            return self.E(e["c"], env, ctx, kc)
        if K == "iflet":
            arms = [(e["pat"], e["then"]), ({"k": "pwild"}, e["else"] if e["else"] is not None else {"k": "unit"})]
            return self.E({"k": "match", "e": e["e"], "arms": arms}, env, ctx, k)
        if K == "match":
            return self.E(e["e"], env, ctx, lambda v, env2: self.match(v, e, env2, ctx, k))
        if K == "struct":
            return self.struct_lit(e, env, ctx, k)
        if K == "array":
            return self.seq(e["elems"], env, ctx, lambda vs, env2: k("#v[%s]" % ", ".join(vs), env2))
        if K == "repeat":
            return self.seq([e["elem"], e["len"]], env, ctx, lambda vs, env2: k("(Vector.replicate %s %s)" % (vs[1], vs[0]), env2))
        if K == "tuple":
            if self.cfg.get("tuple3_bytes") and len(e["elems"]) == 3:
                return self.seq(e["elems"], env, ctx, lambda vs, env2: k("(⟨%s⟩ : Bytes)" % ", ".join(vs), env2))
            return self.seq(e["elems"], env, ctx, lambda vs, env2: k("(%s)" % ", ".join(vs), env2))
        if K == "matches":
            def kmt(v, env2):
                pat = e["pat"]
                alts = pat["alts"] if pat["k"] == "por" else [pat]
                if all(a["k"] == "plit" for a in alts):
                    return k("(" + " || ".join("%s == %d" % (v, a["v"]) for a in alts) + ")", env2)
                lps = []
                for a in alts:
                    lp, lets, env3 = self.pat(a, env2, ctx)
                    if lets or env3["vars"] != env2["vars"]: raise TErr("matches! with bindings")
                    lps.append(lp)
                return k("(match %s with | %s => true | _ => false)" % (v, " | ".join(lps)), env2)
            return self.E(e["e"], env, ctx, kmt)
        if K == "index":
            def ki(vs, env2):
                a, i = vs
                t = self.fresh()
                n = self.array_len(e["e"], env2, ctx)
                return paren(["if h : %s < %s then" % (i, n)] + ind(["let %s := %s[%s]" % (t, a, i)] + k(t, env2)) + ["else"] + ind([".error .indexOutOfBounds"]))
            return self.seq([e["e"], e["idx"]], env, ctx, ki)
        if K == "call":
            return self.call(e, env, ctx, k)
        if K == "mcall":
            return self.mcall(e, env, ctx, k)
        raise TErr("expression kind %s is outside the subset" % K)

    def array_len(self, e, env, ctx):
        t = self.rtype(e, env, ctx)
        if t and t["k"] == "array": return t["len"]
        raise TErr("indexing something whose length is unknown")

    def struct_lit(self, e, env, ctx, k):
        segs = e["segs"]
        name = ctx["owner"] if segs == ["Self"] else segs[-1]
        var = self.variant_of(segs, env, ctx)
        if var:
            if var[1]["kind"] != "struct" or e["base"] is not None: raise TErr("variant literal shape outside the subset")
            declared = [fn for fn, _ in var[1]["fields"]]
            given = {fn: fe for fn, fe in e["fields"]}
            if sorted(declared) != sorted(given): raise TErr("variant literal %s does not list exactly the declared fields" % segs)
            # field expressions are evaluated in SOURCE order (Rust's rule), the values are then placed in declaration order
            src_order = [fn for fn, _ in e["fields"]]
            def kv(vs, env2):
                val = dict(zip(src_order, vs))
                return k("(%s %s)" % (var[0], " ".join(val[fn] for fn in declared)), env2)
            return self.seq([fe for _, fe in e["fields"]], env, ctx, kv)
        if name not in self.structs: raise TErr("struct literal of unknown type %s" % name)
        s = self.structs[name]
        lname = self.rename[name] + (" _" * len(s["generics"]))
        exprs = [fe for _, fe in e["fields"]]
        if e["base"] is not None:
            def kb(vs, env2):
                base = vs[-1]
                flds = ", ".join("%s := %s" % (fn, v) for (fn, _), v in zip(e["fields"], vs[:-1]))
                return k("({ (%s : %s) with %s })" % (base, lname, flds), env2)
            base = e["base"]
            if base["k"] == "call" and base["f"].get("k") == "path" and base["f"]["segs"] == ["Default", "default"]:
                base = {"k": "rawlean", "v": "default"}
            return self.seq(exprs + [base], env, ctx, kb) if base["k"] != "rawlean" else \
                self.seq(exprs, env, ctx, lambda vs, env2: k("({ (default : %s) with %s })" % (lname, ", ".join("%s := %s" % (fn, v) for (fn, _), v in zip(e["fields"], vs))), env2))
        declared = [fn for fn, _ in s["fields"]]
        given = [fn for fn, _ in e["fields"]]
        if sorted(declared) != sorted(given): raise TErr("struct literal %s does not list exactly the declared fields" % name)
        return self.seq(exprs, env, ctx, lambda vs, env2: k("({ %s } : %s)" % (", ".join("%s := %s" % (fn, v) for (fn, _), v in zip(e["fields"], vs)), lname), env2))

    def call(self, e, env, ctx, k):
        f = e["f"]
        if f["k"] != "path": raise TErr("call of a non-path")
        segs = list(f["segs"])
        if len(segs) == 1 and segs[0] in self.fn_alias and segs[0] not in env["vars"]:
            segs = [self.fn_alias[segs[0]]]
        if len(segs) == 2 and segs[0] in self.type_alias:
            segs = [self.type_alias[segs[0]]["name"], segs[1]]
        full = "::".join(segs)
        if len(segs) == 2 and segs[0] == "RawShortMessage" and segs[1] in RAW_STATIC:
            def kraw(vs, env2):
                t = self.fresh()
                return paren(["do", "  let %s ← %s %s" % (t, RAW_STATIC[segs[1]], " ".join(vs))] + ind(k(t, env2)))
            return self.seq(e["args"], env, ctx, kraw)
        if full == "Default::default" and not e["args"]:
            return k("default", env)
        if full == "Instant::now" and not e["args"]:
            return k("now", env)
        var = self.variant_of(segs, env, ctx)
        if var:
            if var[1]["kind"] != "tuple": raise TErr("call of a non-tuple variant")
            return self.seq(e["args"], env, ctx, lambda vs, env2: k("(%s %s)" % (var[0], " ".join(vs)), env2))
        if len(segs) == 2 and segs[1] in FACTORY_FNS and (segs[0] in ctx["fn"].get("generics", []) or
                (segs[0] == "Self" and self.trait_kind.get(ctx["owner"]) == "factory" and (ctx["owner"], segs[1]) not in self.fns)):
            def kf(vs, env2):
                t = self.fresh()
                return paren(["do", "  let %s ← %s %s" % (t, FACTORY_FNS[segs[1]], " ".join(vs))] + ind(k(t, env2)))
            return self.seq(e["args"], env, ctx, kf)
        if segs == ["Self"] and ctx["owner"] in BYTES_NEWTYPES and len(e["args"]) == 1:
            return self.E(e["args"][0], env, ctx, k)
        if segs == ["Ok"] and len(e["args"]) == 1:
            return self.E(e["args"][0], env, ctx, lambda v, env2: k("(some %s)" % v, env2))
        if segs == ["Err"] and len(e["args"]) == 1:
            return k("none", env)
        if len(segs) == 2 and segs[1] == "try_from" and segs[0] in TRY_FROM_U8 and len(e["args"]) == 1:
            return self.E(e["args"][0], env, ctx, lambda v, env2: k("(%s %s)" % (TRY_FROM_U8[segs[0]], v), env2))
        if len(segs) == 2 and segs[1] == "from" and segs[0] in NAT_TYPES and segs[0] not in CAST_MOD and len(e["args"]) == 1:
            self.notes.add("`T::from(x)` between Nat-modelled restricted integers is the identity")
            return self.E(e["args"][0], env, ctx, k)
        if len(segs) == 2 and segs[1] == "from" and segs[0] in CAST_MOD and len(e["args"]) == 1:
            at = self.rtype(e["args"][0], env, ctx)
            if at and at["k"] == "ref": at = at["inner"]
            an = at["name"] if at and at["k"] == "path" else None
            if an in TO_U8:
                return self.E(e["args"][0], env, ctx, lambda v, env2: k("(%s %s)" % (TO_U8[an], v), env2))
            # restricted integers widen as themselves; an argument whose type is not tracked is passed through too:
            # if it is not a Nat the generated module does not type-check (Lean is typed), i.e. the tie is unavailable
            return self.E(e["args"][0], env, ctx, k)
        if full in EXTERN_FNS and not (len(segs) == 1 and (None, segs[0]) in self.fns):
            kind, lean = EXTERN_FNS[full]
            def kx(vs, env2):
                if kind == "id": return k(vs[0], env2)
                if kind == "pure": return k("(%s %s)" % (lean, " ".join(vs)), env2)
                t = self.fresh()
                return paren(["do", "  let %s ← %s %s" % (t, lean, " ".join(vs))] + ind(k(t, env2)))
            return self.seq(e["args"], env, ctx, kx)
        # static function of a generated type
        key = None
        if len(segs) == 2:
            o = ctx["owner"] if segs[0] == "Self" else segs[0]
            if (o, segs[1]) in self.fns: key = (o, segs[1])
        if len(segs) == 1 and (None, segs[0]) in self.fns: key = (None, segs[0])
        if key is None: raise TErr("call of unknown function %s" % full)
        callee = self.fns[key]
        if callee["selfkind"]: raise TErr("method %s called as a path function" % full)
        def ks(vs, env2):
            t = self.fresh()
            self.check_factory(key, ctx)
            extra = (["I"] if key in self.needs_impl else []) + ([self.factory_arg(ctx)] if key in self.needs_factory else []) + vs + (["now"] if key in self.needs_now else [])
            fname = self.lean_fn_name(key)
            if key[0] is None: fname = "Midi.Gen.%s.%s" % (self.modname, fname)     # a parameter may carry the same name
            return paren(["do", "  let %s ← %s %s" % (t, fname, " ".join(extra))] + ind(k(t, env2)))
        return self.seq(e["args"], env, ctx, ks)

    def mcall(self, e, env, ctx, k):
        name = e["name"]; recv = e["recv"]
        if name == "expect":
            if len(e["args"]) != 1 or e["args"][0]["k"] != "str": raise TErr("expect without a literal message")
            msg = e["args"][0]["v"]
            table = dict(EXPECT_PANICS); table.update(self.cfg.get("expect_panics", {}))
            if msg not in table: raise TErr("expect(%r): no panic site in the model" % msg)
            def ke(v, env2):
                t = self.fresh()
                return paren(["match %s with" % v, "| some %s =>" % t] + ind(k(t, env2)) + ["| none => .error .%s" % table[msg]])
            return self.E(recv, env, ctx, ke)
        is_self = recv["k"] == "path" and recv["segs"] == ["self"]
        if is_self and self.trait_kind.get(ctx["owner"]) == "message":
            if name in MSG_REQUIRED and not e["args"]:
                return k("(I.%s self)" % MSG_REQUIRED[name], env)
            if name in MSG_OVERRIDABLE and not e["args"]:
                kind, lean = MSG_OVERRIDABLE[name]
                if kind == "pure": return k("(I.%s self)" % lean, env)
                t = self.fresh()
                return paren(["do", "  let %s ← %s I self" % (t, lean)] + ind(k(t, env)))
            key = (ctx["owner"], name)
            if key not in self.fns: raise TErr("trait method %s is not translated" % name)
            self.check_factory(key, ctx)
            def ktm(vs, env2):
                t = self.fresh()
                fa = [self.factory_arg(ctx)] if key in self.needs_factory else []
                return paren(["do", "  let %s ← %s I self %s" % (t, self.lean_fn_name(key), " ".join(fa + vs))] + ind(k(t, env2)))
            return self.seq(e["args"], env, ctx, ktm)
        rt0 = self.rtype(recv, env, ctx)
        if rt0 and rt0["k"] == "ref": rt0 = rt0["inner"]
        if rt0 is not None and self.is_msg_type({"k": "ref", "inner": rt0} if rt0["k"] == "impl" else rt0) or (rt0 and rt0["k"] == "impl"):
            if name == "to_other" and not e["args"]:
                def kto(v, env2):
                    t = self.fresh()
                    return paren(["do", "  let %s ← Midi.toOther I %s %s" % (t, self.factory_arg(ctx), v)] + ind(k(t, env2)))
                return self.E(recv, env, ctx, kto)
        if rt0 and rt0["k"] == "path" and (rt0["name"], name) in TYPED_METHODS:
            lean = TYPED_METHODS[(rt0["name"], name)]
            return self.seq([recv] + e["args"], env, ctx, lambda vs, env2: k("(%s %s)" % (lean, " ".join(vs)), env2))
        if name == "map_err" and len(e["args"]) == 1 and e["args"][0]["k"] == "closure":
            return self.E(recv, env, ctx, k)             # Result-as-Option: mapping the error is the identity
        if name == "try_into" and not e["args"]:
            dst = e.get("expect")
            dstn = dst["name"] if dst and dst.get("k") == "path" else None
            if dstn in TRY_FROM_U8:
                return self.E(recv, env, ctx, lambda v, env2: k("(%s %s)" % (TRY_FROM_U8[dstn], v), env2))
            if dstn in NEWTYPE_MAX and self.int_type(recv, env, ctx) in CAST_MOD:
                self.notes.add("`TryFrom<unsigned primitive>` for a restricted integer is modelled by its proved characterisation "
                               "(C05.conversions_faithful): Ok(value) exactly up to the maximum")
                return self.E(recv, env, ctx, lambda v, env2: k("(if %s ≤ %d then some %s else none)" % (v, NEWTYPE_MAX[dstn], v), env2))
            raise TErr("`.try_into()` into %s: conversion not modelled / target type unknown" % dstn)
        if name == "into" and not e["args"]:
            src = rt0["name"] if rt0 and rt0["k"] == "path" else None
            dst = e.get("expect")
            dstn = dst["name"] if dst and dst.get("k") == "path" else None
            if src in NAT_TYPES and dstn in NAT_TYPES:
                self.notes.add("`.into()` between Nat-modelled restricted integers is the identity")
                return self.E(recv, env, ctx, k)
            if src in NAT_TYPES and dstn == "TimeCodeQuarterFrame":
                def kq(v, env2):
                    t = self.fresh()
                    return paren(["do", "  let %s ← Midi.QFrame.ofU7 %s" % (t, v)] + ind(k(t, env2)))
                return self.E(recv, env, ctx, kq)
            raise TErr("`.into()` from %s to %s: conversion not modelled / target type unknown" % (src, dstn))
        r = self.resolve_method(recv, name, env, ctx)
        if r is None:
            if name not in EXTERN_METHODS: raise TErr("method %s is not modelled" % name)
            kind, lean = EXTERN_METHODS[name]
            def km(vs, env2):
                rv = vs[0]
                if kind == "id": return k(rv, env2)
                if kind == "elapsed": return k("(now - %s)" % rv, env2)
                if kind == "pure1": return k("(%s %s)" % (lean, " ".join(vs)), env2)
                t = self.fresh()
                if kind == "msgres":
                    return paren(["do", "  let %s ← %s I %s" % (t, lean, rv)] + ind(k(t, env2)))
                if kind == "res1":
                    return paren(["do", "  let %s ← %s %s" % (t, lean, " ".join(vs))] + ind(k(t, env2)))
                raise TErr("extern method kind")
            return self.seq([recv] + e["args"], env, ctx, km)
        owner, callee = r
        key = (owner, callee["name"])
        lname = self.lean_fn_name(key)
        if len(callee["params"]) != len(e["args"]): raise TErr("arity mismatch calling %s" % name)
        self.check_factory(key, ctx)
        def extra(vs):
            return (["I"] if key in self.needs_impl else []) + ([self.factory_arg(ctx)] if key in self.needs_factory else []) + vs + (["now"] if key in self.needs_now else [])
        if callee["selfkind"] in ("ref", "val"):
            def kr(vs, env2):
                t = self.fresh()
                return paren(["do", "  let %s ← %s %s" % (t, lname, " ".join([vs[0]] + extra(vs[1:])))] + ind(k(t, env2)))
            return self.seq([recv] + e["args"], env, ctx, kr)
        # &mut self: the receiver must be a place we can write back to
        if recv["k"] == "path" and recv["segs"] == ["self"]:
            if ctx["selfkind"] != "mut": raise TErr("&mut call on self in a non-&mut method")
            def kself(vs, env2):
                t = self.fresh()
                return paren(["do", "  let (%s, self) ← %s %s" % (t, lname, " ".join(["self"] + extra(vs)))] + ind(k(t, env2)))
            return self.seq(e["args"], env, ctx, kself)
        if recv["k"] == "path" and len(recv["segs"]) == 1 and recv["segs"][0] in env["vars"]:
            lv = env["vars"][recv["segs"][0]][0]
            def kloc(vs, env2):
                t = self.fresh()
                return paren(["do", "  let (%s, %s) ← %s %s" % (t, lv, lname, " ".join([lv] + extra(vs)))] + ind(k(t, env2)))
            return self.seq(e["args"], env, ctx, kloc)
        if recv["k"] == "index" and recv["e"]["k"] == "field" and recv["e"]["e"]["k"] == "path" and recv["e"]["e"]["segs"] == ["self"]:
            if ctx["selfkind"] != "mut": raise TErr("&mut call on self.f[i] in a non-&mut method")
            fld = recv["e"]["name"]
            n = self.array_len(recv["e"], env, ctx)
            def kidx(vs, env2):
                i = vs[0]; t = self.fresh(); el = self.fresh("e")
                inner = ["do",
                         "  let (%s, %s) ← %s %s" % (t, el, lname, " ".join(["self.%s[%s]" % (fld, i)] + extra(vs[1:]))),
                         "  let self := { self with %s := self.%s.set %s %s }" % (fld, fld, i, el)] + ind(k(t, env2))
                return paren(["if h : %s < %s then" % (i, n)] + ind(paren(inner)) + ["else"] + ind([".error .indexOutOfBounds"]))
            return self.seq([recv["idx"]] + e["args"], env, ctx, kidx)
        raise TErr("&mut call on an unsupported place")

    # ---- match
    def match(self, v, e, env, ctx, k0):
        k = lambda val, env_arm: k0(val, env)          # arm bindings end with the arm
        arms = []
        for pat, body in e["arms"]:
            alts = pat["alts"] if pat["k"] == "por" else [pat]
            for a in alts: arms.append((a, body))
        is_int = any(p["k"] in ("plit", "prange") for p, _ in arms)
        if is_int:
            pre = []
            if not re.match(r"^\w+$", v):
                t = self.fresh()
                pre = ["let %s := %s" % (t, v)]
                v = t
            chain = []
            for p, body in arms:
                if p["k"] == "plit": cond = "%s = %d" % (v, p["v"])
                elif p["k"] == "prange": cond = "%d ≤ %s ∧ %s ≤ %d" % (p["lo"], v, v, p["hi"])
                elif p["k"] == "pwild": cond = None
                else: raise TErr("mixed integer/other patterns")
                chain.append((cond, body))
                if cond is None: break
            if chain[-1][0] is not None: raise TErr("integer match without a catch-all arm")
            def build(i):
                cond, body = chain[i]
                if cond is None: return self.E(body, env, ctx, k)
                return paren(["if %s then" % cond] + ind(self.E(body, env, ctx, k)) + ["else"] + ind(build(i + 1)))
            return pre + build(0)
        out = ["match %s with" % v]
        for p, body in arms:
            lp, lets, env2 = self.pat(p, env, ctx)
            out.append("| %s =>" % lp)
            out += ind(lets + self.E(body, env2, ctx, k))
        return paren(out)

    def pat(self, p, env, ctx, ty=None):
        """Lean pattern, let-lines to run inside the arm, extended env"""
        K = p["k"]
        if K == "pwild": return "_", [], env
        if K == "pbool": return ("true" if p["v"] else "false"), [], env
        if K == "pident":
            segs = p["segs"]
            if segs == ["None"]: return "none", [], env
            var = self.variant_of(segs, env, ctx)
            if var:
                if var[1]["kind"] == "unit": return var[0], [], env
                raise TErr("non-unit variant used as a unit pattern")
            if len(segs) != 1: raise TErr("unknown path pattern %s" % segs)
            ln, env2 = self.bind_var(env, segs[0], ty)
            return ln, [], env2
        if K == "ptuplestruct":
            segs = p["segs"]
            if segs == ["Some"]:
                inner_ty = ty["args"][0] if ty and ty["k"] == "path" and ty["name"] == "Option" and ty["args"] else None
                lp, lets, env2 = self.pat(p["args"][0], env, ctx, inner_ty)
                return "(some %s)" % lp, lets, env2
            var = self.variant_of(segs, env, ctx)
            if not var or var[1]["kind"] != "tuple": raise TErr("unknown tuple-struct pattern %s" % segs)
            parts = []; lets = []; e2 = env
            if len(p["args"]) != len(var[1]["types"]): raise TErr("variant pattern arity")
            for a, t in zip(p["args"], var[1]["types"]):
                lp, l2, e2 = self.pat(a, e2, ctx, t)
                parts.append(lp); lets += l2
            return "(%s %s)" % (var[0], " ".join(parts)), lets, e2
        if K == "pstruct":
            segs = p["segs"]
            var = self.variant_of(segs, env, ctx)
            if var:
                if var[1]["kind"] != "struct": raise TErr("struct pattern on a non-struct variant")
                decl = var[1]["fields"]; ctor = var[0]
            else:
                name = ctx["owner"] if segs == ["Self"] else segs[-1]
                if name not in self.structs: raise TErr("struct pattern of unknown type %s" % name)
                decl = self.structs[name]["fields"]; ctor = None
            given = dict(p["fields"])
            for fn in given:
                if fn not in [d for d, _ in decl]: raise TErr("pattern names unknown field %s" % fn)
            if not p["rest"] and len(given) != len(decl): raise TErr("struct pattern misses fields without `..`")
            parts = []; lets = []; e2 = env
            for fn, ft in decl:
                if fn in given:
                    lp, l2, e2 = self.pat(given[fn], e2, ctx, ft)
                    parts.append(lp); lets += l2
                else:
                    parts.append("_")
            if ctor: return "(%s %s)" % (ctor, " ".join(parts)), lets, e2
            return "⟨%s⟩" % ", ".join(parts), lets, e2
        raise TErr("pattern kind %s is outside the subset" % K)

    # ---- statements
    def S(self, stmts, i, env, ctx, kend):
        if i == len(stmts):
            return kend(env)
        st = stmts[i]; K = st["k"]
        rest = lambda env2: self.S(stmts, i + 1, env2, ctx, kend)
        if K == "use":
            if not st["glob"]: raise TErr("non-glob use inside a function")
            env2 = {"vars": env["vars"], "imports": set(env["imports"]) | {st["segs"][-1]}}
            return rest(env2)
        if K == "let":
            p = st["pat"]
            if p["k"] == "pwild":
                return self.E(st["e"], env, ctx, lambda v, env2: rest(env2))
            if p["k"] == "ptuple" and p["elems"] and all(
                    x["k"] == "pwild" or (x["k"] == "pident" and len(x["segs"]) == 1 and not self.variant_of(x["segs"], env, ctx)
                                          and x["segs"] != ["None"]) for x in p["elems"]):
                # `let (a, b) = e;` with plain names / `_`: an irrefutable Lean pattern let (a 3-tuple of bytes is the structure Bytes)
                def kt(v, env2):
                    ty = st["type"] or self.rtype(st["e"], env2, ctx)
                    n = len(p["elems"])
                    ets = ty["elems"] if ty and ty["k"] == "tuple" and len(ty["elems"]) == n else [None] * n
                    names = []; env3 = env2
                    for x, et in zip(p["elems"], ets):
                        if x["k"] == "pwild": names.append("_")
                        else:
                            ln, env3 = self.bind_var(env3, x["segs"][0], et)
                            names.append(ln)
                    is_bytes = (self.cfg.get("tuple3_bytes") and n == 3 and
                                (ty is None or (ty["k"] == "tuple" and [t.get("name") for t in ty["elems"]] == ["u8", "U7", "U7"])))
                    if n == 3 and self.cfg.get("tuple3_bytes") and not is_bytes:
                        raise TErr("destructuring let of a 3-tuple that is not (u8, U7, U7) is outside the subset")
                    if is_bytes and ty is None: raise TErr("destructuring let of a 3-tuple of unknown type is outside the subset")
                    lhs = "⟨%s⟩" % ", ".join(names) if is_bytes else "(%s)" % ", ".join(names)
                    return ["let %s := %s" % (lhs, v)] + rest(env3)
                return self.E(st["e"], env, ctx, kt)
            if p["k"] != "pident" or len(p["segs"]) != 1: raise TErr("destructuring let is outside the subset")
            name = p["segs"][0]
            def kl(v, env2):
                ty = st["type"] or self.rtype(st["e"], env2, ctx) or self.value_type(st["e"], env2, ctx)
                ln, env3 = self.bind_var(env2, name, ty)
                return ["let %s := %s" % (ln, v)] + rest(env3)
            return self.E(st["e"], env, ctx, kl)
        if K == "assign":
            lhs = st["lhs"]
            if lhs["k"] == "field" and lhs["e"]["k"] == "path" and lhs["e"]["segs"] == ["self"]:
                if ctx["selfkind"] != "mut": raise TErr("assignment to self.%s in a non-&mut method" % lhs["name"])
                return self.E(st["e"], env, ctx, lambda v, env2: ["let self := { self with %s := %s }" % (lhs["name"], v)] + rest(env2))
            if lhs["k"] == "path" and len(lhs["segs"]) == 1 and lhs["segs"][0] in env["vars"]:
                ln = env["vars"][lhs["segs"][0]][0]
                return self.E(st["e"], env, ctx, lambda v, env2: ["let %s := %s" % (ln, v)] + rest(env2))
            if lhs["k"] == "index" and lhs["e"]["k"] == "path" and len(lhs["e"]["segs"]) == 1 and lhs["e"]["segs"][0] in env["vars"]:
                ln, lty = env["vars"][lhs["e"]["segs"][0]]
                if not lty or lty["k"] != "array": raise TErr("indexed assignment to a local of unknown length")
                def kia(vs, env2):
                    i, v = vs
                    return paren(["if h : %s < %s then" % (i, lty["len"])] + ind(["let %s := %s.set %s %s" % (ln, ln, i, v)] + rest(env2)) +
                                 ["else"] + ind([".error .indexOutOfBounds"]))
                return self.seq([lhs["idx"], st["e"]], env, ctx, kia)
            raise TErr("assignment to an unsupported place")
        if K == "expr":
            return self.E(st["e"], env, ctx, lambda v, env2: rest(env2))
        if K == "for":
            it = st["iter"]
            if not (it["k"] == "mcall" and it["name"] == "iter_mut" and it["recv"]["k"] == "field"
                    and it["recv"]["e"]["k"] == "path" and it["recv"]["e"]["segs"] == ["self"]):
                raise TErr("only `for p in self.<field>.iter_mut()` is inside the subset")
            if ctx["selfkind"] != "mut": raise TErr("iter_mut in a non-&mut method")
            fld = it["recv"]["name"]
            at = self.rtype(it["recv"], env, ctx)
            if not at or at["k"] != "array": raise TErr("iter_mut over a non-array")
            if st["pat"]["k"] != "pident": raise TErr("loop pattern")
            pv = st["pat"]["segs"][0]
            ln, envb = self.bind_var(env, pv, at["elem"])
            ctxb = dict(ctx); ctxb["selfkind"] = "loop"
            body = self.S(st["body"]["stmts"], 0, envb, ctxb, lambda env2: [".ok %s" % ln])
            if st["body"]["tail"] is not None: raise TErr("loop body with a value")
            arr = self.fresh("arr")
            return paren(["do", "  let %s ← forEachMut self.%s (fun %s =>" % (arr, fld, ln)] + ind(body, 4)[:-1] + [ind(body, 4)[-1] + ")"] +
                         ["  let self := { self with %s := %s }" % (fld, arr)] + ind(rest(env)))
        raise TErr("statement kind %s is outside the subset" % K)

    def value_type(self, e, env, ctx):
        if e["k"] == "array": return {"k": "array", "elem": None, "len": str(len(e["elems"]))}
        if e["k"] == "repeat" and e["len"]["k"] == "lit": return {"k": "array", "elem": None, "len": e["len"]["v"]}
        return None

    # ---- whole module
    def module(self, src_rel):
        out = ["-- GENERATED by tools/rs2lean.py from /repo/%s (working tree). Do not edit." % src_rel,
               "import Midi.Gen.Prelude", "set_option linter.unusedVariables false",
               "namespace Midi.Gen.%s" % self.modname, "open Midi", ""]
        types = [it for it in self.items if it["k"] in ("struct", "enum")]
        tdeps = {it["name"]: self.type_deps(it) for it in types}
        order = self.toposort([it["name"] for it in types], tdeps)
        byname = {it["name"]: it for it in types}
        for n in order:
            it = byname[n]
            out += self.emit_struct(it) if it["k"] == "struct" else self.emit_enum(it)
        fdeps = {key: self.fn_deps(key) for key in self.fns}
        forder = self.toposort(list(self.fns), fdeps)
        for key in forder:
            out += self.emit_fn(key)
        out.append("end Midi.Gen.%s" % self.modname)
        hdr = []
        if self.skipped:
            hdr.append("-- not translated (glue; covered by the correspondence check only): " + "; ".join(self.skipped))
        for n in sorted(self.notes):
            hdr.append("-- modelling note: " + n)
        out[1:1] = hdr
        return "\n".join(out) + "\n"

CONTROLLER_CONSTANTS = set()

def load_controller_constants():
    s = strip_comments(open(os.path.join(REPO, "src", "controller_number_mod.rs")).read())
    CONTROLLER_CONSTANTS.update(re.findall(r"pub\s+const\s+([A-Z][A-Z0-9_]*)\s*:\s*ControllerNumber", s))

FILES = [("control_change_14_bit_message.rs", "CCMsg", {"trait_impls": [["TryFrom", "ControlChange14BitMessage"],
                                                                        ["From", "<ControlChange14BitMessage>"]]}),
         ("parameter_number_message.rs", "PNMsgFile", {"trait_impls": [["TryFrom", "ParameterNumberMessage"],
                                                                      ["From", "<ParameterNumberMessage>"]]}),
         ("control_change_14_bit_message_scanner.rs", "CCScan", {}),
         ("parameter_number_message_scanner.rs", "PNScan", {}),
         ("polling_parameter_number_message_scanner.rs", "PollScan", {}),
         # the default methods of the two traits (everything else in these files stays hand-modelled)
         ("short_message.rs", "ShortMsg", {"only_traits": ["ShortMessage"], "tuple3_bytes": True,
                                           "only_fns": ["build_mtc_quarter_frame_data_byte", "extract_low_nibble_from_byte",
                                                        "extract_high_nibble_from_byte", "build_byte_from_nibbles",
                                                        "extract_type_from_status_byte"],
                                           "trait_impls": [["From", "U7"], ["From", "TimeCodeQuarterFrame"]],
                                           "inherent_impls": ["ShortMessageType", "FuzzyMessageSuperType", "MessageSuperType"]}),
         ("controller_number_mod.rs", "CnPredicates", {"only_traits": [], "inherent_impls": ["ControllerNumber"]}),
         ("test_util.rs", "TestUtil", {"tuple3_bytes": True, "expect_panics": {
             "not a valid 4-bit integer": "testUtilExpect", "not a valid 7-bit integer": "testUtilExpect",
             "not a valid 14-bit integer": "testUtilExpect", "not a valid channel": "testUtilExpect",
             "not a valid key number": "testUtilExpect", "not a valid controller number": "testUtilExpect",
             "invalid status byte": "testUtilExpect"}}),
         ("raw_short_message.rs", "RawImpl", {"only_traits": [], "tuple3_bytes": True,
                                              "trait_impls": [["ShortMessageFactory", "RawShortMessage"], ["ShortMessage", "RawShortMessage"]]}),
         ("bit_util.rs", "BitUtil", {}),
         ("short_message_factory.rs", "FactoryDefaults", {"only_traits": ["ShortMessageFactory"], "tuple3_bytes": True}),
         # the two trait impls of StructuredShortMessage (the enum itself is the hand-written SMsg)
         ("structured_short_message.rs", "StructuredImpl", {"only_traits": [], "tuple3_bytes": True,
                                                            "trait_impls": [["ShortMessageFactory", "StructuredShortMessage"],
                                                                            ["ShortMessage", "StructuredShortMessage"]]})]

def extern_enums():
    out = {}
    for rel, names in EXTERN_ENUM_FILES:
        s = strip_comments(open(os.path.join(REPO, rel)).read())
        for n in names:
            m = re.search(r"pub\s+enum\s+%s\s*\{" % n, s)
            if not m: raise TErr("enum %s not found in %s" % (n, rel))
            p = Parser(tokenize(s[m.start() + 4:]))
            out[n] = p.enum([])
    return out

# ------------------------------------------------------------------------------------------------ macro bodies
MACRO_KINDS = {  # macro name -> (kind of $from, kind of $into, function name)
    "impl_from_newtype_to_newtype": ("nt", "nt", "from"),
    "impl_from_newtype_to_primitive": ("nt", "prim", "from"),
    "impl_from_primitive_to_newtype": ("prim", "nt", "from"),
    "impl_try_from_newtype_to_newtype": ("nt", "nt", "try_from"),
    "impl_try_from_primitive_to_newtype": ("prim", "nt", "try_from"),
}

def macro_rules(toks):
    """name -> (pattern tokens, body tokens) for every single-rule `macro_rules! name { (pat) => { body } }`"""
    out = {}
    i = 0
    def group(j, open_, close_):
        assert toks[j][1] == open_, toks[j]
        depth = 0; k = j
        while True:
            t = toks[k]
            if t[0] != "str" and t[1] == open_: depth += 1
            if t[0] != "str" and t[1] == close_:
                depth -= 1
                if depth == 0: return k
            k += 1
    while i < len(toks) - 3:
        if toks[i][1] == "macro_rules" and toks[i + 1][1] == "!":
            name = toks[i + 2][1]
            j = i + 3
            e = group(j, "{", "}")
            inner = toks[j + 1:e]
            pe = group_in(inner, 0, "(", ")")
            pat = inner[1:pe]
            k = pe + 1
            assert inner[k][1] == "=>", inner[k]
            be = group_in(inner, k + 1, "{", "}")
            body = inner[k + 2:be]
            out[name] = (pat, body)
            i = e
        i += 1
    return out

def group_in(toks, j, open_, close_):
    depth = 0; k = j
    assert toks[j][1] == open_, toks[j]
    while True:
        t = toks[k]
        if t[0] != "str" and t[1] == open_: depth += 1
        if t[0] != "str" and t[1] == close_:
            depth -= 1
            if depth == 0: return k
        k += 1

def subst(body, mapping):
    """replace `$name` by the mapped tokens; drop `$crate ::`; `< $repr > ::` becomes `REPR__ ::`"""
    out = []; i = 0
    while i < len(body):
        t = body[i]
        if t[1] == "<" and i + 4 < len(body) and body[i + 1][1] == "$" and body[i + 3][1] == ">" and body[i + 4][1] == "::":
            out.append(("id", mapping[body[i + 2][1]])); i += 4; continue
        if t[1] == "$" and i + 1 < len(body):
            n = body[i + 1][1]
            if n == "crate":
                i += 2
                if i < len(body) and body[i][1] == "::": i += 1
                continue
            if n in mapping:
                out.append(("id", mapping[n])); i += 2; continue
            raise TErr("macro metavariable $%s outside the subset" % n)
        out.append(t); i += 1
    return out

class MacroGen:
    """Translates the bodies of the five conversion macros and `is_valid` / `from_str` / `get` / `new_unchecked` / MIN /
    MAX of `newtype!` with the metavariables as PARAMETERS: `$from` / `$into` become a NewtypeDef or a PrimTy of the
    hand-written model, a value of either is its mathematical value (Int), `x as _` is the two's-complement cast into the
    type inferred from the context (`Self(..)` of a newtype: its repr; the returned primitive: that primitive)."""
    def __init__(self, path):
        self.toks = tokenize(strip_comments(open(path).read()))
        self.macros = macro_rules(self.toks)

    def find_fn(self, body, name):
        """tokens of `fn name ... { .. }` inside a macro body"""
        for i in range(len(body) - 1):
            if body[i][1] == "fn" and body[i + 1][1] == name:
                j = i
                while body[j][1] != "{": j += 1
                e = group_in(body, j, "{", "}")
                return body[i:e + 1]
        raise TErr("fn %s not found in macro body" % name)

    def expr(self, e, cx, cast_target=None):
        K = e["k"]
        if K == "lit": return "(%s : Int)" % e["v"]
        if K == "path":
            segs = e["segs"]
            if len(segs) == 1 and segs[0] in cx["vars"]: return cx["vars"][segs[0]]
            if segs == ["MAX__"]: return "(max : Int)"
            raise TErr("macro body: unknown path %s" % segs)
        if K == "tfield" and e["idx"] == 0:
            b = e["e"]
            if b["k"] == "path" and b["segs"] == ["self"] and cx.get("self_nt"): return "self"
            if b["k"] == "path" and len(b["segs"]) == 1 and cx["kinds"].get(b["segs"][0]) == "nt": return self.expr(b, cx)
            raise TErr("macro body: `.0` on something that is not a restricted integer")
        if K == "cast":
            if e["to"] in ("u8", "i8", "u16", "i16", "u32", "i32", "u64", "i64", "u128", "i128", "usize", "isize"):
                return "(PrimTy.%s.cast pw %s)" % (e["to"], self.expr(e["e"], cx))
            if e["to"] != "_": raise TErr("macro body: cast to %s" % e["to"])
            if cast_target is None: raise TErr("macro body: `as _` whose target cannot be inferred")
            return "(%s.cast pw %s)" % (cast_target, self.expr(e["e"], cx))
        if K == "unary" and e["op"] == "!": return "(!%s)" % self.expr(e["e"], cx)
        if K == "binary":
            a, b = self.expr(e["a"], cx), self.expr(e["b"], cx)
            if e["op"] == "&&": return "(%s && %s)" % (a, b)
            if e["op"] == ">=": return "(decide (%s ≥ %s))" % (a, b)
            if e["op"] == "<=": return "(decide (%s ≤ %s))" % (a, b)
            raise TErr("macro body: operator %s" % e["op"])
        if K == "mcall" and e["name"] == "into" and not e["args"]:
            return self.expr(e["recv"], cx)              # `From<$repr>` into the comparison type is lossless: the same mathematical value
        if K == "call" and e["f"].get("k") == "path":
            segs = e["f"]["segs"]
            if segs in (["Self"], ["NAME__"]) and len(e["args"]) == 1:
                if cx["into_kind"] != "nt": raise TErr("macro body: Self(..) of a primitive")
                return self.expr(e["args"][0], cx, cast_target="Into_.repr")
            if segs in (["Self", "is_valid"], ["NAME__", "is_valid"]) and len(e["args"]) == 1:
                return "(newtype.is_valid Into_.max %s)" % self.expr(e["args"][0], cx)
            raise TErr("macro body: call of %s" % "::".join(segs))
        raise TErr("macro body: expression kind %s" % K)

    def fn_body(self, f, cx, fallible):
        """`if c { return Err(..); } ... Ok(e)` / a tail expression -> one Lean term of type Option Int"""
        b = f["body"]
        conds = []
        for st in b["stmts"]:
            if st["k"] == "let" and st["pat"]["k"] == "pident":
                continue
            e = st["e"] if st["k"] == "expr" else None
            if e and e["k"] == "if" and e["else"] is None and len(e["then"]["stmts"]) == 1 and e["then"]["stmts"][0]["k"] == "expr" \
                    and e["then"]["stmts"][0]["e"]["k"] == "return":
                r = e["then"]["stmts"][0]["e"]["e"]
                if not (r and r["k"] == "call" and r["f"].get("segs") == ["Err"]): raise TErr("macro body: early return of something else than Err")
                conds.append(self.expr(e["c"], cx))
                continue
            raise TErr("macro body: statement outside the subset")
        t = b["tail"]
        if t is None: raise TErr("macro body: no result expression")
        if fallible:
            if not (t["k"] == "call" and t["f"].get("segs") == ["Ok"]): raise TErr("macro body: result is not Ok(..)")
            val = self.expr(t["args"][0], cx)
        else:
            val = self.expr(t, cx, cast_target=("Into_" if cx["into_kind"] == "prim" else None))
        out = "some %s" % val
        for c in reversed(conds):
            out = "if %s then none else %s" % (c, out)
        return out

    def module(self):
        out = ["-- GENERATED by tools/rs2lean.py from /repo/src/newtype_macros.rs (working tree). Do not edit.",
               "-- the bodies of the conversion macros and of `newtype!`, with the macro metavariables as parameters",
               "import Midi.Model.Conv", "namespace Midi.Gen.Macros", "open Midi", ""]
        nt_pat, nt_body = self.macros["newtype"]
        # metavariable names are read from the macro pattern: `name = $n: ident, repr = $r: ty, max = $m: literal`
        m = {}
        for i in range(len(nt_pat) - 3):
            if nt_pat[i][1] in ("name", "repr", "max") and nt_pat[i + 1][1] == "=" and nt_pat[i + 2][1] == "$":
                m[nt_pat[i + 3][1]] = {"name": "NAME__", "repr": "REPR__", "max": "MAX__"}[nt_pat[i][1]]
        if sorted(m.values()) != ["MAX__", "NAME__", "REPR__"]: raise TErr("newtype!: pattern shape")
        # is_valid
        ftoks = subst(self.find_fn(nt_body, "is_valid"), m)
        f = Parser(ftoks).fn()
        if len(f["params"]) != 1: raise TErr("is_valid: parameters")
        pn = f["params"][0][0]
        t = f["body"]["tail"]
        if f["body"]["stmts"] or t is None: raise TErr("is_valid: body shape")
        cx = {"vars": {pn: pn}, "kinds": {}, "into_kind": "nt"}
        out += ["/-- `newtype!`: `fn is_valid<T: PartialOrd + From<$repr>>(number: T) -> bool` (comparison of mathematical values) -/",
                "def newtype.is_valid (max : Nat) (%s : Int) : Bool := %s" % (pn, self.expr(t, cx)), ""]
        # get / new_unchecked / MIN / MAX
        g = Parser(subst(self.find_fn(nt_body, "get"), m)).fn()
        cxg = {"vars": {}, "kinds": {}, "into_kind": "nt", "self_nt": True}
        if g["body"]["stmts"] or g["body"]["tail"] is None: raise TErr("get: body shape")
        out += ["/-- `newtype!`: `get` -/", "def newtype.get (self : Int) : Int := %s" % self.expr(g["body"]["tail"], cxg), ""]
        # from_str
        fs = Parser(subst(self.find_fn(nt_body, "from_str"), m)).fn()
        st = fs["body"]["stmts"]
        if not (len(st) == 2 and st[0]["k"] == "let" and st[0]["e"]["k"] == "try"): raise TErr("from_str: body shape")
        init = st[0]["e"]["e"]
        if init["k"] == "mcall" and init["name"] == "map_err": init = init["recv"]
        if not (init["k"] == "call" and init["f"].get("segs") == ["REPR__", "from_str"] and len(init["args"]) == 1): raise TErr("from_str: parser call")
        prim = st[0]["pat"]["segs"][0]
        cxs = {"vars": {prim: "(%s : Int)" % prim}, "kinds": {}, "into_kind": "nt"}
        fsb = dict(fs); fsb["body"] = {"k": "block", "stmts": st[1:], "tail": fs["body"]["tail"]}
        body = self.fn_body(fsb, cxs, True)
        body = body.replace("Into_.repr.cast pw", "Into_.repr.cast pw")  # `$name(primitive)`: no cast here
        out += ["/-- `newtype!`: `FromStr` (`<$repr>::from_str` is the hand-written model of core's parser); a value of `$repr` is a Nat -/",
                "def newtype.from_str (pw : Nat) (Into_ : NewtypeDef) (source : List Char) : Option Int :=",
                "  match parsePrim (Into_.repr.maxVal pw).toNat source with",
                "  | none => none",
                "  | some %s => %s" % (prim, body), ""]
        # conversion macros
        for name, (fk, ik, fname) in MACRO_KINDS.items():
            if name not in self.macros: raise TErr("macro %s not found" % name)
            pat, body = self.macros[name]
            params = [pat[i + 1][1] for i in range(len(pat) - 2) if pat[i][1] == "$" and pat[i + 2][1] == ":"]
            if len(params) != 2: raise TErr("macro %s: expected two parameters" % name)
            toks = subst(body, {params[0]: "FROM__", params[1]: "INTO__"})
            items = Parser(toks, keep_trait_impls={("From", "INTO__"), ("TryFrom", "INTO__")}).file()
            fns = [f for it in items if it["k"] == "impl" for f in it["fns"] if f["name"] == fname]
            if len(fns) != 1: raise TErr("macro %s: expected exactly one fn %s" % (name, fname))
            f = fns[0]
            if len(f["params"]) != 1: raise TErr("macro %s: parameters" % name)
            pn = f["params"][0][0]
            cx = {"vars": {pn: pn}, "kinds": {pn: fk}, "into_kind": ik}
            term = self.fn_body(f, cx, fname == "try_from")
            out += ["/-- `%s!($from, $into)`: `fn %s(%s: $from)` -/" % (name, fname, pn),
                    "def %s (pw : Nat) (Into_ : %s) (%s : Int) : Option Int := %s" % (name, "NewtypeDef" if ik == "nt" else "PrimTy", pn, term), ""]
        out.append("end Midi.Gen.Macros")
        return "\n".join(out) + "\n"

def write_if_changed(path, content):
    old = open(path).read() if os.path.exists(path) else None
    if old != content:
        open(path, "w").write(content)
        return True
    return False

def main():
    status = {}
    try:
        load_controller_constants()
        ext = extern_enums()
    except (TErr, OSError) as ex:
        ext = None
        err = str(ex)
    for fname, mod, cfg in FILES:
        path = os.path.join(OUT, mod + ".lean")
        try:
            if ext is None: raise TErr("extern enums: " + err)
            items = parse_file(os.path.join(REPO, "src", fname), [tuple(x) for x in cfg.get("trait_impls", [])])
            if cfg.get("only_traits"):
                ext2 = dict(ext)
            g = Gen(items, ext, mod, cfg)
            text = g.module("src/" + fname)
            write_if_changed(path, text)
            status[mod] = {"ok": True, "functions": len(g.fns), "types": len(g.structs) + len(g.enums), "lines": text.count("\n")}
        except (TErr, OSError, KeyError, IndexError, RecursionError) as ex:
            # leave a module that does not build: a stale translation must never be mistaken for the current source
            reason = re.sub(r"[^A-Za-z0-9 _.,:;()/'=<>!&|\[\]{}+*-]", "?", str(ex))
            write_if_changed(path, "-- GENERATED by tools/rs2lean.py: translation of src/%s FAILED\n-- reason: %s\n"
                             "example : (0 : Nat) = 1 := rfl   -- deliberately does not build\n" % (fname, reason))
            status[mod] = {"ok": False, "error": "%s: %s" % (type(ex).__name__, ex)}
    path = os.path.join(OUT, "Macros.lean")
    try:
        mg = MacroGen(os.path.join(REPO, "src", "newtype_macros.rs"))
        text = mg.module()
        write_if_changed(path, text)
        status["Macros"] = {"ok": True, "functions": text.count("\ndef "), "types": 0, "lines": text.count("\n")}
    except (TErr, OSError, KeyError, IndexError, AssertionError) as ex:
        reason = re.sub(r"[^A-Za-z0-9 _.,:;()/'=<>!&|\[\]{}+*-]", "?", str(ex))
        write_if_changed(path, "-- GENERATED by tools/rs2lean.py: translation of src/newtype_macros.rs FAILED\n-- reason: %s\n"
                         "example : (0 : Nat) = 1 := rfl   -- deliberately does not build\n" % reason)
        status["Macros"] = {"ok": False, "error": "%s: %s" % (type(ex).__name__, ex)}
    print(json.dumps(status))
    return 0 if all(v["ok"] for v in status.values()) else 2

if __name__ == "__main__":
    sys.exit(main())
