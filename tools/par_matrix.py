#!/usr/bin/env python3
"""Parallel seed matrix: N workers, each with its own scratch copy of /verif (without work/ and .git) and its own
git worktree of /repo under /tmp/par-matrix/<k>/ (removed at the end).  For every seeded change (or harmless patch)
the worker applies the patch to ITS repo copy, runs the quick check(s) there and undoes the patch.  /repo itself is
not touched.  Results are merged into seeded/<name>/meta.json (detected_by) and printed.

usage: par_matrix.py [-j N] [--harmless DIR] [name-prefix | ~name-substring ...]
  --harmless DIR : DIR/<name>/patch.diff are behaviour-preserving patches; every claimed check is run on each and any
                   VIOLATION counts as a false alarm (nothing is written to seeded/)
"""
import json, os, re, subprocess, sys, shutil, threading, queue

ROOT = "/verif"
BASE = "/tmp/par-matrix-%d" % os.getpid()     # one scratch area per invocation

def sh(cmd, cwd=None, env=None):
    p = subprocess.run(cmd, cwd=cwd, shell=isinstance(cmd, str), stdout=subprocess.PIPE, stderr=subprocess.STDOUT, text=True, env=env)
    return p.returncode, p.stdout

def setup(k):
    d = os.path.join(BASE, str(k))
    shutil.rmtree(d, ignore_errors=True)
    os.makedirs(d)
    repo = os.path.join(d, "repo")
    sh("git -C /repo worktree prune")
    rc, out = sh("git -C /repo worktree add -q --detach %s HEAD" % repo)
    assert rc == 0, out
    verif = os.path.join(d, "verif")
    rc, out = sh("rsync -a --exclude /work --exclude /.git --exclude /replays %s/ %s/" % (ROOT, verif))
    assert rc == 0, out
    # the harness is a path dependency on the repo copy
    for f in ["harness/Cargo.toml"]:
        p = os.path.join(verif, f)
        s = open(p).read().replace('path = "/repo"', 'path = "%s"' % repo)
        open(p, "w").write(s)
    os.makedirs(os.path.join(verif, "replays"), exist_ok=True)
    return repo, verif

def all_props():
    return [c["property_id"] for c in json.load(open(os.path.join(ROOT, "MANIFEST.json")))["checks"]]

def run_one(repo, verif, patch, props):
    res = {}
    rc, out = sh(["git", "-C", repo, "apply", patch])
    if rc != 0:
        return {"*": ("patch does not apply", out[-300:])}
    try:
        env = dict(os.environ, VERIF_REPO=repo, VERIF_JOBS="6")
        for prop in props:
            rc, out = sh(["timeout", "1500", "./check", prop], cwd=verif, env=env)
            v = re.search(r"^VIOLATION property=(\S+) replay=(\S+)( no-failing-input-found)?", out, flags=re.M)
            notes = re.findall(r"^NOTE .*", out, flags=re.M)
            if v:
                kind = "violation, no failing input found" if v.group(3) else "violation with replay"
                what = ""
                try:
                    rep = json.load(open(v.group(2)))
                    if rep.get("witnesses"): what = rep["witnesses"][0]["witness"][:110]
                    else: what = "; ".join(rep.get("no_longer_checks", [])[:2])[:110]
                except Exception:
                    pass
            elif re.search(r"^OK ", out, flags=re.M):
                kind, what = "MISSED", ""
            else:
                kind, what = "check crashed", out[-300:]
            if notes: what += "  [" + notes[0][:120] + "]"
            res[prop] = (kind, what)
    finally:
        sh(["git", "-C", repo, "checkout", "--", "."])
        sh(["git", "-C", repo, "clean", "-fdq", "src", "tests"])
    return res

def sel(name, o):
    return (o[1:] in name) if o.startswith('~') else name.startswith(o)

def main():
    args = sys.argv[1:]
    n = 4; harmless = None; only = []
    while args:
        a = args.pop(0)
        if a == "-j": n = int(args.pop(0))
        elif a == "--harmless": harmless = args.pop(0)
        else: only.append(a)
    jobs = queue.Queue()
    if harmless:
        for name in sorted(os.listdir(harmless)):
            p = os.path.join(harmless, name, "patch.diff")
            if os.path.exists(p) and (not only or any(sel(name, o) for o in only)):
                jobs.put((name, p, all_props()))
    else:
        sd = os.path.join(ROOT, "seeded")
        for name in sorted(os.listdir(sd)):
            d = os.path.join(sd, name)
            if not os.path.isdir(d) or (only and not any(sel(name, o) for o in only)): continue
            meta = json.load(open(os.path.join(d, "meta.json")))
            jobs.put((name, os.path.join(d, "patch.diff"), [meta["breaks_property"]]))
    results = {}
    lock = threading.Lock()
    def worker(k):
        repo, verif = setup(k)
        while True:
            try:
                name, patch, props = jobs.get_nowait()
            except queue.Empty:
                break
            r = run_one(repo, verif, patch, props)
            with lock:
                results[name] = r
                for prop, (kind, what) in r.items():
                    print(name, prop, kind, what, flush=True)
        sh("git -C /repo worktree remove --force %s" % repo)
        shutil.rmtree(os.path.join(BASE, str(k)), ignore_errors=True)
    ts = [threading.Thread(target=worker, args=(k,)) for k in range(n)]
    for t in ts: t.start()
    for t in ts: t.join()
    sh("git -C /repo worktree prune")
    shutil.rmtree(BASE, ignore_errors=True)
    if not harmless:
        for name, r in results.items():
            mp = os.path.join(ROOT, "seeded", name, "meta.json")
            meta = json.load(open(mp))
            for prop, (kind, what) in r.items():
                if prop != "*":
                    meta.setdefault("detected_by", {})[prop + " quick"] = {"outcome": kind, "first_replay": what}
            json.dump(meta, open(mp, "w"), indent=1)
    bad = [(n_, p, k) for n_, r in results.items() for p, (k, w) in r.items()
           if (harmless and k != "MISSED") or (not harmless and k != "violation with replay")]
    print("SUMMARY total=%d %s=%d" % (len(results), "false_alarms" if harmless else "not_detected_with_replay", len(bad)))
    for b in bad: print("  ", *b)

main()
