#!/usr/bin/env python3
"""Orchestration for the per-property checks: translator, Lean build + axiom audit, harness build,
correspondence / oracle runs, verdict logic, evidence and replay files.

Verdict (per run):
  * proof obligations all discharged, correspondence clean, oracle clean        -> exit 0
  * anything broken -> search for a failing input (oracle = executable spec / monitors evaluated on the
    implementation's outputs); witness found -> VIOLATION ... replay=<file with the input>;
    none found -> VIOLATION ... replay=<file naming the broken theorem / correspondence> no-failing-input-found
  * witnesses listed in known_findings.json (status "known") -> KNOWN-FINDING line, not a violation
"""
import json, os, re, subprocess, sys, time, shutil, hashlib, tempfile
from concurrent.futures import ThreadPoolExecutor

ROOT = os.path.dirname(os.path.dirname(os.path.abspath(__file__)))
LEAN = os.path.join(ROOT, "lean")
HARNESS = os.path.join(ROOT, "harness")
REPO = os.environ.get("VERIF_REPO", "/repo")
DRIVER = os.path.join(LEAN, ".lake", "build", "bin", "driver")
WORK = os.path.join(ROOT, "work")          # scratch (git-ignored), never /tmp
NPROC = int(os.environ.get("VERIF_JOBS", "16"))
ALLOWED_AXIOMS = {"propext", "Classical.choice", "Quot.sound"}
ENV = dict(os.environ, CARGO_NET_OFFLINE="true")

TRUSTED_BASE = [
    "Lean 4.33.0 kernel (type-checks every theorem; `decide +kernel` = kernel evaluation, no extra axiom)",
    "axioms allowed in `#print axioms`: propext, Classical.choice, Quot.sound (audited on every run)",
    "tools/extract.py (regenerates lean/Midi/Gen/*.lean from /repo's working tree)",
    "harness/ (Rust, calls the real crate in-process) + lean driver parsing/printing + the comparison",
    "modelled, not verified: rustc integer/shift/cast semantics, derives (PartialEq/Ord/Copy/Default), num_enum, derive_more",
]


def sh(cmd, cwd=None, timeout=None, env=None, stdin=None, stdout=subprocess.PIPE):
    t0 = time.time()
    p = subprocess.run(cmd, cwd=cwd, env=env or ENV, stdin=stdin, stdout=stdout, stderr=subprocess.STDOUT,
                       timeout=timeout, text=True)
    return p.returncode, (p.stdout or ""), time.time() - t0


class Check:
    def __init__(self, pid, tier, seed):
        self.pid = pid
        self.tier = tier
        self.seed = seed
        self.t0 = time.time()
        self.problems = []          # dicts: kind (proof|corr|spec|mon|tie), detail, witness (optional)
        self.known_printed = []
        self.cov = {"samples": [], "evaluations": 0, "distinct_nontrivial": 0, "obligations": 0,
                    "discharged": 0, "trusted_base": list(TRUSTED_BASE), "checker_cmd": "",
                    "traces_validated_against_impl": 0, "states": 0, "transitions": 0,
                    "rule": "", "axioms_seen": [], "stages": {}, "input_distribution": {}}
        self.assumptions = []
        self.theorems = []
        self.notes = []
        os.makedirs(WORK, exist_ok=True)
        os.makedirs(os.path.join(ROOT, "evidence"), exist_ok=True)
        os.makedirs(os.path.join(ROOT, "replays"), exist_ok=True)

    # ------------------------------------------------------------------ stage 1: translator
    def extract(self, relevant=None):
        """relevant: table groups this property depends on (None = all); errors in other groups are recorded only"""
        rc, out, dt = sh([sys.executable, os.path.join(ROOT, "tools", "extract.py")], env=dict(ENV, VERIF_REPO=REPO))
        self.cov["stages"]["extract_s"] = round(dt, 2)
        try:
            summ = json.loads(out.strip().splitlines()[-1])
        except Exception:
            summ = {"errors": ["extract:crashed"], "raw": out[-2000:]}
        self.cov["translator"] = summ
        errs = summ.get("errors", []) if isinstance(summ.get("errors", []), list) else ["?"]
        if relevant is not None:
            errs = [e for e in errs if e.split(":")[0] in relevant or e.startswith("extract")]
        if errs:
            self.problems.append({"kind": "tie", "detail": "translator could not extract: %s" % errs,
                                  "names": ["extract:" + e for e in errs]})
        return summ

    # ------------------------------------------------------------------ stage 2: proofs
    def lean_build(self, modules, exe=True):
        targets = list(modules) + (["driver"] if exe else [])
        rc, out, dt = sh(["lake", "build"] + targets, cwd=LEAN, timeout=3600)
        self.cov["stages"]["lake_build_s"] = round(dt, 2)
        self.cov["checker_cmd"] = "cd lean && lake build %s && lake env lean <audit: #print axioms of every theorem in %s>" % (
            " ".join(targets), ", ".join(modules))
        ok = rc == 0
        failed = []
        if not ok:
            # map error locations to theorem names
            for m in re.finditer(r"error: (Midi/[\w/]+\.lean):(\d+):(\d+): (.*)", out):
                f, line, col, msg = m.group(1), int(m.group(2)), int(m.group(3)), m.group(4)
                failed.append({"file": f, "line": line, "theorem": theorem_at(os.path.join(LEAN, f), line),
                               "message": msg[:300]})
            if not failed:
                failed.append({"file": "?", "line": 0, "theorem": "?", "message": out[-1500:]})
        return ok, failed, out

    def audit(self, module):
        """#print axioms of every theorem declared in `module` (via the environment, nothing is listed by hand)."""
        os.makedirs(os.path.join(LEAN, ".lake", "audit"), exist_ok=True)
        path = os.path.join(LEAN, ".lake", "audit", module.replace(".", "_") + ".lean")
        with open(path, "w") as f:
            f.write(AUDIT_TEMPLATE.replace("MODULE", module))
        rc, out, dt = sh(["lake", "env", "lean", path], cwd=LEAN, timeout=1800)
        self.cov["stages"]["audit_s"] = round(self.cov["stages"].get("audit_s", 0) + dt, 2)
        thms = []
        bad = []
        for m in re.finditer(r"AXIOMS (\S+) \[(.*?)\]", out):
            name = m.group(1)
            axs = [a.strip() for a in m.group(2).split(",") if a.strip()]
            thms.append(name)
            for a in axs:
                if a not in self.cov["axioms_seen"]:
                    self.cov["axioms_seen"].append(a)
                if a not in ALLOWED_AXIOMS:
                    bad.append((name, a))
        if rc != 0 and not thms:
            bad.append((module, "audit-failed: " + out[-500:]))
        return thms, bad

    def text_scan(self, files):
        pat = re.compile(r"\bsorry\b|\badmit\b|^\s*axiom\s|native_decide|bv_decide|implemented_by|\bunsafe\s|maxHeartbeats\s+0")
        hits = []
        for f in files:
            try:
                src = open(f).read()
            except OSError:
                continue
            src = re.sub(r"/-.*?-/", lambda m: "\n" * m.group(0).count("\n"), src, flags=re.S)
            for i, line in enumerate(src.split("\n"), 1):
                line = line.split("--")[0]
                if pat.search(line):
                    hits.append("%s:%d: %s" % (os.path.relpath(f, ROOT), i, line.strip()[:120]))
        return hits

    def proofs(self, modules, helper_dirs=("Midi/Proofs", "Midi/Model", "Midi/Spec", "Midi/Gen")):
        """Build the property modules, audit axioms; records obligations/discharged; returns True if all hold."""
        ok, failed, out = self.lean_build(modules)
        all_ok = True
        if not ok:
            # which property modules are affected?  rebuild one by one to count discharged obligations
            all_ok = False
            names = sorted({"%s (%s:%d)" % (f["theorem"], f["file"], f["line"]) for f in failed})
            self.problems.append({"kind": "proof", "detail": "lake build failed", "names": names,
                                  "errors": failed[:10]})
            # the driver is needed for the search: build it alone (model files only)
            rc, o2, _ = sh(["lake", "build", "driver"], cwd=LEAN, timeout=3600)
            if rc != 0:
                self.problems.append({"kind": "tie", "detail": "model/driver does not build", "names": ["lake build driver"],
                                      "errors": o2[-1500:]})
        for mod in modules:
            src = os.path.join(LEAN, mod.replace(".", "/") + ".lean")
            declared = declared_theorems(src)
            self.cov["obligations"] += len(declared)
            self.theorems += ["%s.%s" % (mod, d) for d in declared]
            if ok:
                thms, bad = self.audit(mod)
                short = {t.split(".")[-1] for t in thms}
                missing = [d for d in declared if d not in short]
                if bad or missing:
                    all_ok = False
                    self.problems.append({"kind": "proof", "detail": "axiom audit",
                                          "names": ["%s uses %s" % b for b in bad] + ["not in environment: " + m for m in missing]})
                self.cov["discharged"] += len([d for d in declared if d in short and not any(b[0].endswith("." + d) for b in bad)])
            else:
                bad_names = {f["theorem"] for f in failed if f["file"].endswith(mod.replace(".", "/") + ".lean")}
                broken_file = any(f["file"].endswith(mod.replace(".", "/") + ".lean") for f in failed)
                if not broken_file:
                    # this module may still be fine: try it alone
                    rc, o3, _ = sh(["lake", "build", mod], cwd=LEAN, timeout=3600)
                    if rc == 0:
                        self.cov["discharged"] += len(declared)
                else:
                    self.cov["discharged"] += len([d for d in declared if d not in bad_names]) if bad_names and "?" not in bad_names else 0
        if ok and self.tier == "thorough":
            # independent re-check of the compiled property modules with the toolchain's leanchecker
            for mod in modules:
                rc, o4, dt = sh(["lake", "env", "leanchecker", mod], cwd=LEAN, timeout=3600)
                self.cov["stages"]["leanchecker_s"] = round(self.cov["stages"].get("leanchecker_s", 0) + dt, 2)
                if rc != 0:
                    all_ok = False
                    self.problems.append({"kind": "proof", "detail": "leanchecker rejected " + mod, "names": ["leanchecker " + mod],
                                          "errors": o4[-1500:]})
            self.cov["leanchecker"] = "passed" if all_ok else "failed"
        files = []
        for mod in modules:
            files.append(os.path.join(LEAN, mod.replace(".", "/") + ".lean"))
        for d in helper_dirs:
            dd = os.path.join(LEAN, d)
            if os.path.isdir(dd):
                files += [os.path.join(dd, x) for x in sorted(os.listdir(dd)) if x.endswith(".lean")]
        hits = self.text_scan(files)
        if hits:
            all_ok = False
            self.problems.append({"kind": "proof", "detail": "forbidden construct in proof sources", "names": hits[:10]})
        self.cov["samples"] += [{"obligation": t} for t in self.theorems[:3]]
        return all_ok

    # ------------------------------------------------------------------ stage 2b: translator tie (second, independent tie)
    FAMILY_SOURCES = {"TMsg": ["CCMsg", "PNMsgFile"], "TCC": ["CCScan"], "TPN": ["PNScan"], "TPoll": ["PollScan"],
                      "TShort": ["ShortMsg", "FactoryDefaults"], "TStruct": ["StructuredImpl", "RawImpl"], "TBits": ["BitUtil", "ShortMsg"], "TCn": ["CnPredicates", "ShortMsg"], "TConv": ["Macros"], "TUtil": ["TestUtil"]}

    def translated(self, families):
        """Regenerate the Lean translation of the source files behind `families` (tools/rs2lean.py) and check the
        theorems of Midi.Props.<family>: the property's headline theorems restated for the translated code, via the
        proved equivalence of the translation with the hand-written model.

        This tie is IN ADDITION to the correspondence check.  When it holds, its theorems count as obligations of this
        run.  When the source has left the translatable subset or the equivalence proof no longer checks, the tie is
        reported as unavailable (evidence: coverage.translator_tie, a NOTE line) and the verdict rests on the other
        tie alone: hand-written model + correspondence check, whose breakage IS a violation."""
        rc, out, dt = sh([sys.executable, os.path.join(ROOT, "tools", "rs2lean.py")], env=dict(ENV, VERIF_REPO=REPO))
        self.cov["stages"]["rs2lean_s"] = round(dt, 2)
        try:
            status = json.loads(out.strip().splitlines()[-1])
        except Exception:
            status = {}
        tie = {"translated_modules": status, "families": {}}
        self.cov["translator_tie"] = tie
        for fam in families:
            mod = "Midi.Props." + fam
            srcs = self.FAMILY_SOURCES[fam]
            bad = [m for m in srcs if not status.get(m, {}).get("ok")]
            entry = {"module": mod, "sources": srcs}
            tie["families"][fam] = entry
            if bad:
                entry["status"] = "unavailable"
                entry["reason"] = "; ".join("%s: %s" % (m, status.get(m, {}).get("error", "translator crashed")) for m in bad)[:600]
            else:
                rc, o, dt = sh(["lake", "build", mod], cwd=LEAN, timeout=3600)
                self.cov["stages"]["translated_build_s"] = round(self.cov["stages"].get("translated_build_s", 0) + dt, 2)
                if rc != 0:
                    errs = re.findall(r"error: (Midi/[\w/]+\.lean):(\d+):\d+: (.*)", o)
                    entry["status"] = "unavailable"
                    entry["reason"] = ("the translated code is no longer proved equivalent to the hand-written model: " +
                                       "; ".join("%s:%s %s" % (f, l, m[:120]) for f, l, m in errs[:3]))[:800]
                    entry["no_longer_checks"] = sorted({"%s (%s:%s)" % (theorem_at(os.path.join(LEAN, f), int(l)), f, l) for f, l, m in errs})[:10]
                else:
                    thms, badax = self.audit(mod)
                    src = os.path.join(LEAN, mod.replace(".", "/") + ".lean")
                    declared = declared_theorems(src)
                    short = {t.split(".")[-1] for t in thms}
                    missing = [d for d in declared if d not in short]
                    hits = self.text_scan([src])
                    if badax or missing or hits:
                        entry["status"] = "unavailable"
                        entry["reason"] = "axiom audit / text scan: %s %s %s" % (badax[:3], missing[:3], hits[:3])
                    else:
                        entry["status"] = "proved"
                        entry["theorems"] = ["%s.%s" % (mod, d) for d in declared]
                        self.cov["obligations"] += len(declared)
                        self.cov["discharged"] += len(declared)
                        self.theorems += entry["theorems"]
                        if self.tier == "thorough":
                            rc, o4, dt = sh(["lake", "env", "leanchecker", mod], cwd=LEAN, timeout=3600)
                            entry["leanchecker"] = "passed" if rc == 0 else "failed"
                            if rc != 0:
                                entry["status"] = "unavailable"
                                entry["reason"] = "leanchecker rejected " + mod
                                self.cov["obligations"] -= len(declared)
                                self.cov["discharged"] -= len(declared)
            if entry["status"] != "proved":
                self.notes.append("NOTE property=%s translator tie %s unavailable (%s); verdict rests on the hand-written model + correspondence check"
                                  % (self.pid, fam, entry["reason"][:200]))
        tie["status"] = "proved" if all(e["status"] == "proved" for e in tie["families"].values()) else "partly unavailable"
        proved = [e["module"] for e in tie["families"].values() if e["status"] == "proved"]
        if proved:
            self.cov["checker_cmd"] += " ; python3 tools/rs2lean.py && lake build %s && <audit: #print axioms of every theorem in them>" % " ".join(proved)
            tb = "tools/rs2lean.py (Rust-subset -> Lean translation scheme, DESIGN.md 3c) for the theorems of " + ", ".join(proved)
            if tb not in self.cov["trusted_base"]:
                self.cov["trusted_base"].append(tb)
        return tie

    # ------------------------------------------------------------------ stage 3: harness
    def cargo_build(self, features="std", profile=None):
        key = (features.replace(",", "+") or "nostd") + ("-" + profile if profile else "")
        tdir = os.path.join(HARNESS, "target", key)
        cmd = ["cargo", "build", "--offline", "--no-default-features", "--features", features, "--target-dir", tdir]
        if profile:
            cmd += ["--profile", profile]
        rc, out, dt = sh(cmd, cwd=HARNESS, timeout=3600)
        self.cov["stages"]["cargo_build_%s_s" % key] = round(dt, 2)
        if rc != 0:
            self.problems.append({"kind": "tie", "detail": "harness does not build against /repo (features=%s)" % features,
                                  "names": ["cargo build --features " + features], "errors": out[-3000:]})
            return None
        return os.path.join(tdir, profile or "debug", "corr")

    def transcript(self, exe, args, name):
        path = os.path.join(WORK, "%s-%s.tr" % (self.pid, name))
        t0 = time.time()
        with open(path, "w") as f:
            p = subprocess.run([exe] + [str(a) for a in args], stdout=f, stderr=subprocess.PIPE, text=True,
                               env=dict(ENV, VERIF_SEED=str(self.seed), VERIF_TIER=self.tier))
        self.cov["stages"]["harness_%s_s" % name] = round(time.time() - t0, 2)
        if p.returncode != 0:
            self.problems.append({"kind": "tie", "detail": "harness run failed: %s" % " ".join(map(str, args)),
                                  "names": ["corr " + " ".join(map(str, args))], "errors": p.stderr[-2000:]})
            return None
        return path

    def drive(self, path, name, parallel=True):
        """Run the Lean driver over a transcript; stateless transcripts are split over NPROC processes."""
        t0 = time.time()
        stats = {}

        def stat_line(l):
            for kv in l.split()[1:]:
                k, v = kv.split("=", 1)
                try:
                    stats[k] = stats.get(k, 0) + int(v)
                except ValueError:
                    stats[k] = v

        def run(chunk):
            p = subprocess.run([DRIVER], input="".join(chunk), stdout=subprocess.PIPE, stderr=subprocess.STDOUT, text=True)
            return p.returncode, p.stdout

        if not parallel:
            # stateful transcript: stream the file to ONE driver process (never loaded into memory)
            with open(path) as f:
                p = subprocess.run([DRIVER], stdin=f, stdout=subprocess.PIPE, stderr=subprocess.STDOUT, text=True)
            results = [(p.returncode, p.stdout)]
            p2 = subprocess.run(["grep", "^#STAT ", path], stdout=subprocess.PIPE, text=True)
            for l in p2.stdout.splitlines():
                stat_line(l)
        else:
            lines = []
            with open(path) as f:
                for l in f:
                    if l.startswith("#STAT "):
                        stat_line(l)
                    elif not l.startswith("#"):
                        lines.append(l)
            chunks = [lines]
            if len(lines) > 64:
                n = min(NPROC, len(lines))
                chunks = [lines[i::n] for i in range(n)]
            with ThreadPoolExecutor(max_workers=NPROC) as ex:
                results = list(ex.map(run, chunks))
            del lines, chunks
        rep = {"CORR": [], "SPEC": [], "MON": [], "MODELSPEC": [], "BAD": [], "lines": 0}
        summ = {"lines": 0, "corr": 0, "spec": 0, "mon": 0, "modelspec": 0, "bad": 0}
        for rc, out in results:
            got_summary = False
            for l in out.splitlines():
                tag = l.split(" ", 1)[0]
                if tag in rep and tag != "lines":
                    rep[tag].append(l)
                elif tag == "SUMMARY":
                    got_summary = True
                    for kv in l.split()[1:]:
                        k, v = kv.split("=")
                        summ[k] += int(v)
            if rc != 0 or not got_summary:
                self.problems.append({"kind": "tie", "detail": "driver crashed on transcript " + name,
                                      "names": ["driver < " + os.path.relpath(path, ROOT)], "errors": out[-1500:]})
        self.cov["stages"]["driver_%s_s" % name] = round(time.time() - t0, 2)
        rep["summary"] = summ
        rep["stats"] = stats
        for k, v in stats.items():
            if isinstance(v, int):
                self.cov["input_distribution"][k] = self.cov["input_distribution"].get(k, 0) + v
        return rep

    # ------------------------------------------------------------------ verdict
    def known_findings(self):
        p = os.path.join(ROOT, "known_findings.json")
        if not os.path.exists(p):
            return []
        return [k for k in json.load(open(p)).get("findings", []) if k.get("property") == self.pid and k.get("status") == "known"]

    def add_history_witness(self, kind, request, detail, transcript, line_no):
        """witness inside a stateful transcript: the replay is the transcript prefix up to and including that line"""
        before = len(self.problems)
        self.add_witness(kind, request, detail)
        if len(self.problems) > before and transcript and line_no:
            dst = os.path.join(ROOT, "replays", "%s-%s-history-%d.tr" % (self.pid, self.tier, len([p for p in self.problems if p.get("history")]) + 1))
            try:
                n = 0
                with open(transcript) as fin, open(dst, "w") as fout:
                    for l in fin:
                        if l.startswith("#"):
                            continue
                        n += 1
                        fout.write(l)
                        if n >= line_no:
                            break
                self.problems[-1]["history"] = dst
                self.problems[-1]["history_note"] = "requests of the run up to the failing one; replay: ./check %s --replay %s" % (self.pid, dst)
            except OSError:
                pass

    def add_witness(self, kind, request, detail):
        """A concrete failing input found by the oracle (spec / monitor evaluated on the implementation)."""
        for k in self.known_findings():
            if re.search(k["match"], request):
                msg = "KNOWN-FINDING: property=%s %s" % (self.pid, k["what"])
                if msg not in self.known_printed:
                    self.known_printed.append(msg)
                return
        self.problems.append({"kind": kind, "detail": detail, "witness": request})

    def finish(self):
        wall = time.time() - self.t0
        witnesses = [p for p in self.problems if p.get("witness")]
        broken = [p for p in self.problems if not p.get("witness")]
        violations = 0
        lines = []
        for m in self.known_printed:
            lines.append(m)
        if witnesses:
            violations = len(witnesses)
            path = os.path.join(ROOT, "replays", "%s-%s-witness.json" % (self.pid, self.tier))
            json.dump({"property": self.pid, "seed": self.seed, "tier": self.tier,
                       "how_to_replay": "./check %s --replay %s" % (self.pid, os.path.relpath(path, ROOT)),
                       "witnesses": witnesses[:50], "also_broken": broken[:20]}, open(path, "w"), indent=1)
            lines.append("VIOLATION property=%s replay=%s" % (self.pid, path))
        elif broken:
            violations = len(broken)
            path = os.path.join(ROOT, "replays", "%s-%s-unproved.json" % (self.pid, self.tier))
            json.dump({"property": self.pid, "seed": self.seed, "tier": self.tier,
                       "no_longer_checks": [n for p in broken for n in p.get("names", [p["detail"]])],
                       "details": broken[:20],
                       "note": "the property is no longer shown to hold; the search over the model and the implementation found no failing input"},
                      open(path, "w"), indent=1)
            lines.append("VIOLATION property=%s replay=%s no-failing-input-found" % (self.pid, path))
        cov = self.cov
        if cov["obligations"] == 0:
            cov["obligations"] = 1   # schema minimum; discharged stays 0
        cov["distinct_rule"] = ("distinct_nontrivial: for exhaustive block enumerations the number of enumerated (implementation, input) pairs that denote a message "
                                "(distinct by construction); for line transcripts the measured number of distinct (request, result) lines whose result is neither "
                                "empty (all `-`) nor a bare acknowledgement - identical requests in different scanner states count once, so this undercounts")
        ev = {"property_id": self.pid, "tier": self.tier, "seed": self.seed, "level": "proof",
              "coverage": cov, "assumptions": self.assumptions, "wall_s": round(wall, 2), "violations": violations,
              "known_findings_printed": self.known_printed}
        if not cov["samples"]:
            cov["samples"] = [{"note": "no sample recorded"}]
        json.dump(ev, open(os.path.join(ROOT, "evidence", "%s.json" % self.pid), "w"), indent=1)
        for l in self.notes:
            print(l)
        for l in lines:
            print(l)
        print("%s %s tier=%s seed=%d obligations=%d discharged=%d evaluations=%d wall=%.1fs" % (
            "FAIL" if violations else "OK", self.pid, self.tier, self.seed, cov["obligations"], cov["discharged"],
            cov["evaluations"], wall))
        return 1 if violations else 0


AUDIT_TEMPLATE = '''import Lean
import MODULE
open Lean Elab Command in
run_cmd do
  let env ← getEnv
  let some idx := env.getModuleIdx? `MODULE | throwError "module not found"
  let mut n : Nat := 0
  for (name, ci) in env.constants.map₁.toList do
    if env.getModuleIdxFor? name == some idx then
      if let .thmInfo _ := ci then
        if !name.isInternal then
          let axs ← liftCoreM (collectAxioms name)
          logInfo m!"AXIOMS {name} {axs.toList}"
          n := n + 1
  logInfo m!"AUDITED {n}"
'''


def declared_theorems(path):
    try:
        src = open(path).read()
    except OSError:
        return []
    src = re.sub(r"/-.*?-/", "", src, flags=re.S)
    return re.findall(r"^\s*theorem\s+([\w'.]+)", src, flags=re.M)


def theorem_at(path, line):
    try:
        lines = open(path).read().split("\n")
    except OSError:
        return "?"
    for i in range(min(line, len(lines)) - 1, -1, -1):
        m = re.match(r"\s*(theorem|example|def|instance)\s+([\w'.]*)", lines[i])
        if m:
            return m.group(2) or m.group(1)
    return "?"
