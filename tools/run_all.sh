#!/bin/sh
# run every claimed check (quick tier by default) on the current /repo tree; prints one line per property
TIER=${1:-quick}
cd "$(dirname "$0")/.."
for p in $(python3 -c "import json; print(' '.join(c['property_id'] for c in json.load(open('MANIFEST.json'))['checks']))"); do
  ./check $p --tier $TIER 2>&1 | grep -E "^(VIOLATION|KNOWN-FINDING|NOTE|OK|FAIL)"
done
