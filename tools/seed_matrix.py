#!/usr/bin/env python3
"""Apply every seeded change to /repo, run the quick check of the property it breaks, undo it; record the outcome in
seeded/<name>/meta.json (detected_by) and print a summary table (markdown) to seeded/RESULTS.md."""
import json, os, re, subprocess, sys
ROOT = "/verif"
names = sorted(os.listdir(os.path.join(ROOT, "seeded")))
names = [n for n in names if os.path.isdir(os.path.join(ROOT, "seeded", n))]
only = sys.argv[1:]
rows = []
for n in names:
    if only and not any(n.startswith(o) for o in only):
        continue
    d = os.path.join(ROOT, "seeded", n)
    meta = json.load(open(os.path.join(d, "meta.json")))
    prop = meta["breaks_property"]
    if subprocess.run(["git", "-C", "/repo", "apply", os.path.join(d, "patch.diff")]).returncode != 0:
        rows.append((n, prop, "patch does not apply", "")); continue
    try:
        p = subprocess.run(["timeout", "900", "./check", prop], cwd=ROOT, stdout=subprocess.PIPE, stderr=subprocess.STDOUT, text=True)
        out = p.stdout
    finally:
        subprocess.run(["git", "-C", "/repo", "checkout", "--", "."])
    v = re.search(r"^VIOLATION property=(\S+) replay=(\S+)( no-failing-input-found)?", out, flags=re.M)
    if v:
        kind = "violation, no failing input found" if v.group(3) else "violation with replay"
        what = ""
        try:
            rep = json.load(open(v.group(2)))
            if rep.get("witnesses"):
                what = rep["witnesses"][0]["witness"][:110]
            else:
                what = "; ".join(rep.get("no_longer_checks", [])[:2])[:110]
        except Exception:
            pass
    else:
        kind, what = "MISSED", ""
    meta.setdefault("detected_by", {})[prop + " quick"] = {"outcome": kind, "first_replay": what}
    json.dump(meta, open(os.path.join(d, "meta.json"), "w"), indent=1)
    rows.append((n, prop, kind, what))
    print(n, prop, kind, what, flush=True)
subprocess.run([sys.executable, os.path.join(ROOT, "tools", "extract.py")], stdout=subprocess.DEVNULL)
if not only:
    with open(os.path.join(ROOT, "seeded", "RESULTS.md"), "w") as f:
        f.write("| seeded change | breaks | outcome of that property's quick check | first replay / broken obligation |\n|---|---|---|---|\n")
        for r in rows:
            f.write("| %s | %s | %s | `%s` |\n" % r)
