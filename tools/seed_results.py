#!/usr/bin/env python3
"""Rewrite seeded/RESULTS.md from the detected_by entries in seeded/*/meta.json (written by seed_matrix.py / par_matrix.py)."""
import json, os
ROOT = os.path.dirname(os.path.dirname(os.path.abspath(__file__)))
sd = os.path.join(ROOT, "seeded")
rows = []
for n in sorted(os.listdir(sd)):
    mp = os.path.join(sd, n, "meta.json")
    if not os.path.exists(mp): continue
    m = json.load(open(mp))
    prop = m["breaks_property"]
    d = m.get("detected_by", {}).get(prop + " quick", {})
    rows.append((n, prop, d.get("outcome", "not run"), d.get("first_replay", "").replace("|", "/")[:160]))
with open(os.path.join(sd, "RESULTS.md"), "w") as f:
    f.write("# Seeded breaking changes and what the broken property's quick check reports\n\n")
    f.write("Written by tools/seed_results.py from the runs of tools/par_matrix.py / tools/seed_matrix.py (%d changes, each confirmed in a "
            "scratch worktree by tools/confirm_seed.py; rounds: plain, -r2 ... -r5, and C13-real-1 for the guard-off build).\n\n" % len(rows))
    f.write("| seeded change | breaks | outcome of that property's quick check | first replay / broken obligation |\n|---|---|---|---|\n")
    for r in rows:
        f.write("| %s | %s | %s | `%s` |\n" % r)
    bad = [r for r in rows if r[2] != "violation with replay"]
    f.write("\n%d of %d reported with a replayable input.\n" % (len(rows) - len(bad), len(rows)))
print(len(rows), [r[:3] for r in rows if r[2] != "violation with replay"])
