"""Per-property check definitions."""
import os, re, json, subprocess, sys
from checklib import *

# ---------------------------------------------------------------------------------------------
# cell layout of a `msg` observation (lean/Midi/Driver/Obs.lean observeMsg, harness/src/msgs.rs observe)
MSG_CELLS = ["from_bytes_ok", "status_byte", "data_byte_1", "data_byte_2", "to_bytes.0", "to_bytes.1", "to_bytes.2",
             "type", "super_type", "main_category", "channel", "key_number", "velocity", "controller_number",
             "control_value", "program_number", "pressure_amount", "pitch_bend_value", "is_note", "is_note_on",
             "is_note_off", "type.super_type", "type.super_type.main_category",
             "to_structured.variant", "to_structured.f1", "to_structured.f2", "to_structured.f3",
             "to_other<Raw>.0", "to_other<Raw>.1", "to_other<Raw>.2",
             "to_other<Structured>.variant", "to_other<Structured>.f1", "to_other<Structured>.f2", "to_other<Structured>.f3",
             "Raw::from_other.0", "Raw::from_other.1", "Raw::from_other.2", "Foreign::from_other.0", "Foreign::from_other.1", "Foreign::from_other.2",
             "Structured::from_other.variant", "Structured::from_other.f1", "Structured::from_other.f2", "Structured::from_other.f3"]
C01_CELLS = set(range(0, 7)) | set(range(23, 44))
C02_CELLS = set(range(7, 27))
IMPLS = ["raw", "str", "frn", "ftb"]


def parse_report_line(l):
    """'SPEC 12 msg raw 176 120 5 impl=.. spec=..' -> (tag, request, impl cells, other cells)"""
    m = re.match(r"(\w+) (\d+) (.*?) (impl|model)=(.*?) (model|spec)=(.*)$", l)
    if not m:
        return None
    return m.group(1), m.group(3), m.group(5).split(), m.group(7).split()


def diff_cells(a, b):
    n = max(len(a), len(b))
    return {i for i in range(n) if i >= len(a) or i >= len(b) or a[i] != b[i]}


def run_corpus(chk, exe, relevant=None):
    """Replay the minimised past failures of this property first (corpus/<id>.txt, one request per line)."""
    path = os.path.join(ROOT, "corpus", chk.pid + ".txt")
    if not os.path.exists(path) or exe is None:
        return
    tr = os.path.join(WORK, "%s-corpus.tr" % chk.pid)
    with open(path) as fin, open(tr, "w") as fout:
        p = subprocess.run([exe, "eval"], stdin=fin, stdout=fout, stderr=subprocess.PIPE, text=True)
    if p.returncode != 0:
        chk.problems.append({"kind": "tie", "detail": "corpus replay failed", "names": ["corr eval < corpus/%s.txt" % chk.pid], "errors": p.stderr[-1000:]})
        return
    rep = chk.drive(tr, "corpus", parallel=False)
    chk.cov["corpus_requests"] = rep["summary"]["lines"]
    chk.cov["evaluations"] += rep["summary"]["lines"]
    report_lines(chk, rep, relevant, "corpus")


STATEFUL = ("cc ", "pn ", "pp ", "oracle ")


def report_lines(chk, rep, relevant, where, max_witness=5, transcript=None, only=None):
    """Turn SPEC / MON / CORR lines of a line-mode driver report into witnesses / broken-correspondence problems.
    only: regex on the request; report lines about other requests belong to another property and are ignored here."""
    n = {"spec": 0, "corr": 0, "mon": 0}
    if only is not None:
        keep = lambda l: (lambda p: bool(p) and re.match(only, p[1]) is not None)(parse_report_line(l))
        rep = dict(rep, SPEC=[l for l in rep["SPEC"] if keep(l)], CORR=[l for l in rep["CORR"] if keep(l)], MON=[])
    for l in rep["SPEC"]:
        p = parse_report_line(l)
        if not p:
            continue
        d = diff_cells(p[2], p[3])
        rel = sorted(d & relevant) if relevant is not None and p[1].startswith("msg ") else sorted(d)
        if not rel:
            continue
        n["spec"] += 1
        if n["spec"] <= max_witness:
            names = [MSG_CELLS[i] if (p[1].startswith("msg ") and i < len(MSG_CELLS)) else "cell %d" % i for i in rel]
            det = "implementation differs from the specification in %s: impl=%s spec=%s (%s)" % (
                names, [p[2][i] if i < len(p[2]) else None for i in rel], [p[3][i] if i < len(p[3]) else None for i in rel], where)
            ln = re.match(r"\w+ (\d+) ", l)
            if transcript and p[1].startswith(STATEFUL) and ln:
                chk.add_history_witness("spec", p[1], det, transcript, int(ln.group(1)))
            else:
                chk.add_witness("spec", p[1], det)
    for l in rep["MON"]:
        n["mon"] += 1
        if n["mon"] <= max_witness:
            m = re.match(r"MON (\d+) (.*)$", l)
            if transcript and m:
                chk.add_history_witness("mon", m.group(2), "trace monitor rejected the implementation's trace (%s)" % where, transcript, int(m.group(1)))
            else:
                chk.add_witness("mon", m.group(2) if m else l, "trace monitor rejected the implementation's trace (%s)" % where)
    for l in rep["CORR"]:
        p = parse_report_line(l)
        if not p:
            continue
        d = diff_cells(p[2], p[3])
        rel = sorted(d & relevant) if relevant is not None and p[1].startswith("msg ") else sorted(d)
        if not rel:
            continue
        if chk.pid == "C18" and any(c.startswith("P") for c in p[2]) and not any(c.startswith("P") for c in p[3]):
            # C18 itself: the real code panics on an input / history for which the (proved panic-free) model does not
            n["spec"] += 1
            if n["spec"] <= max_witness:
                det = "the implementation panics (%s) where no panic is documented: model=%s (%s)" % (" ".join(p[2]), " ".join(p[3]), where)
                ln = re.match(r"\w+ (\d+) ", l)
                if transcript and p[1].startswith(STATEFUL) and ln:
                    chk.add_history_witness("spec", p[1], det, transcript, int(ln.group(1)))
                else:
                    chk.add_witness("spec", p[1], det)
            continue
        n["corr"] += 1
        if n["corr"] <= 3:
            chk.problems.append({"kind": "corr", "detail": "implementation differs from the model on `%s`: impl=%s model=%s (%s)" % (
                p[1], " ".join(p[2]), " ".join(p[3]), where), "names": ["correspondence: `%s`" % p[1]]})
    for l in rep["MODELSPEC"][:1]:
        chk.problems.append({"kind": "proof", "detail": "model and executable specification disagree (a theorem says they cannot): " + l[:300],
                             "names": ["model=spec on: " + l[:120]]})
    for l in rep["BAD"][:1]:
        chk.problems.append({"kind": "tie", "detail": "driver could not parse: " + l[:200], "names": ["driver protocol"]})
    return n


def msg_exhaustive(chk, relevant, mask="all", cross_impl=False, spec_relevant=None):
    """All 4 x 2^21 (+ invalid status) messages in block-digest mode; localise mismatching blocks line by line.
    relevant: cell indices that belong to the property."""
    exe = chk.cargo_build("std")
    if exe is None:
        return
    run_corpus(chk, exe, relevant)
    tr = chk.transcript(exe, ["msg-blocks", mask], "blocks")
    if tr is None:
        return
    rep = chk.drive(tr, "blocks")
    st = rep["stats"]
    chk.cov["evaluations"] += st.get("evaluations", 0)
    chk.cov["distinct_nontrivial"] += st.get("nontrivial", 0)
    chk.cov["traces_validated_against_impl"] += st.get("evaluations", 0)
    chk.cov["exhaustive"] = True
    chk.cov["rule"] = ("every (status, data1, data2) in 256 x 128 x 128 for each of RawShortMessage, StructuredShortMessage and two "
                       "harness-defined implementors (4 x 2^21 from_bytes calls; every trait method on each accepted message); "
                       "distinct = distinct (implementation, triple); non-trivial = status byte >= 0x80 (a message exists)")
    bad_status = {}
    rawx_bad = []
    for tag in ("CORR", "SPEC", "MODELSPEC"):
        for l in rep[tag]:
            p = parse_report_line(l)
            if p:
                req = p[1].split()
                if req[0] == "rawxblk":
                    if len(rawx_bad) < 8 and p[1] not in rawx_bad:
                        rawx_bad.append(p[1])
                    continue
                bad_status.setdefault(int(req[3]), set()).add(tag)
    chk.cov["blocks_mismatching"] = len(bad_status) + len(rawx_bad)
    for i, b in enumerate(rawx_bad):
        t = os.path.join(WORK, "%s-rawx-expand-%d.tr" % (chk.pid, i))
        with open(t, "w") as f:
            subprocess.run([exe, "expand"] + b.split(), stdout=f, stderr=subprocess.PIPE, text=True)
        report_lines(chk, chk.drive(t, "rawx-expand-%d" % i), None, "rawx")
    sample_tr = chk.transcript(exe, ["msg-lines", "raw", 0xE3, "--limit", 3], "sample")
    if sample_tr:
        chk.cov["samples"] += [l.strip() for l in open(sample_tr).read().splitlines()[:3]]
    if chk.search_tier == "thorough":
        # every line of every valid block as well (no reliance on the 64-bit digests)
        for impl in IMPLS:
            lines_run(chk, exe, ["msg-all-lines", impl], "all-lines-" + impl, relevant=relevant)
    if not bad_status:
        return
    # localise: at most 4 status bytes, all four implementations each
    found = {"spec": 0, "corr": 0, "cross": 0}
    # localise (at most 24 status bytes, spread over the range), all four implementations each
    todo = sorted(bad_status)
    if len(todo) > 24:
        todo = todo[::max(1, len(todo) // 24)][:24]
    for s in todo:
        per_impl = {}
        for impl in IMPLS:
            t = chk.transcript(exe, ["msg-lines", impl, s], "lines-%s-%d" % (impl, s))
            if t is None:
                continue
            r = chk.drive(t, "lines-%s-%d" % (impl, s))
            for tag, kind in (("SPEC", "spec"), ("CORR", "corr")):
                for l in r[tag]:
                    p = parse_report_line(l)
                    if not p:
                        continue
                    d = diff_cells(p[2], p[3])
                    rel = sorted(d & relevant)
                    if kind == "spec" and spec_relevant is not None:
                        rel = sorted(d & spec_relevant(impl))
                    if not rel:
                        continue
                    names = [MSG_CELLS[i - 0] if i < len(MSG_CELLS) else str(i) for i in rel]
                    if kind == "spec":
                        if found["spec"] < 5:
                            chk.add_witness("spec", p[1], "implementation differs from the MIDI table in %s: impl=%s spec=%s" % (
                                names, [p[2][i] if i < len(p[2]) else None for i in rel], [p[3][i] if i < len(p[3]) else None for i in rel]))
                        found["spec"] += 1
                    else:
                        found["corr"] += 1
                        if found["corr"] <= 3:
                            chk.problems.append({"kind": "corr", "detail": "implementation differs from the model in %s on `%s`" % (names, p[1]),
                                                 "names": ["correspondence: corr msg-lines %s %d" % (impl, s)]})
            if cross_impl:
                rows = {}
                for l in open(t):
                    if l.startswith("msg "):
                        req, cells = l.strip().split(" | ")
                        q = req.split()
                        rows[(int(q[3]), int(q[4]))] = cells.split()
                per_impl[impl] = rows
        if cross_impl:
            # conversions commute with the accessors: within one row, Raw::from_other / Foreign::from_other / to_other<Raw> all
            # carry the message's own bytes, and Structured::from_other = to_other<Structured> = to_structured
            for impl, rows in per_impl.items():
                for key, cells in rows.items():
                    if len(cells) < 44:
                        continue
                    groups = [([cells[4:7], cells[27:30], cells[34:37], cells[37:40]], "to_bytes / to_other<Raw> / Raw::from_other / Foreign::from_other"),
                              ([cells[23:27], cells[30:34], cells[40:44]], "to_structured / to_other<Structured> / Structured::from_other")]
                    for vals, what in groups:
                        if any(v != vals[0] for v in vals[1:]):
                            found["cross"] += 1
                            if found["cross"] <= 5:
                                chk.add_witness("spec", "msg %s %d %d %d" % (impl, s, key[0], key[1]),
                                                "conversions of the same message disagree (%s): %s" % (what, vals))
        if cross_impl and len(per_impl) == 4:
            base = per_impl["raw"]
            for impl in ("str", "frn", "ftb"):
                for key, cells in per_impl[impl].items():
                    ref = base.get(key)
                    if ref is None:
                        continue
                    d = diff_cells(ref, cells)
                    if impl == "str":
                        d -= {1, 2, 3, 4, 5, 6, 27, 28, 29, 34, 35, 36, 37, 38, 39}   # data bytes may differ by canonicalisation (checked against canon by SPEC)
                    if d:
                        found["cross"] += 1
                        if found["cross"] <= 5:
                            chk.add_witness("spec", "msg %s %d %d %d" % (impl, s, key[0], key[1]),
                                            "%s and raw disagree on %s for the same bytes: raw=%s %s=%s" % (
                                                impl, [MSG_CELLS[i] for i in sorted(d) if i < len(MSG_CELLS)],
                                                [ref[i] for i in sorted(d) if i < len(ref)], impl, [cells[i] for i in sorted(d) if i < len(cells)]))
    chk.cov["localised"] = found


def c01(chk):
    chk.extract(("messageTypes", "timeCodeTypes"))
    chk.proofs(["Midi.Props.C01"])
    chk.translated(['TShort', 'TStruct', 'TBits'])
    msg_exhaustive(chk, C01_CELLS, mask="c01")
    # the byte-triple shorthand of test_util is one more way to create a message from (status, data1, data2)
    exe_t = chk.cargo_build("std")
    if exe_t is not None:
        lines_run(chk, exe_t, ["tu-lines"], "tu-short", only=r"tu short ")
    # the serde configuration: a value that enters through Deserialize is "created" / "constructed" too
    exe_s = chk.cargo_build("with_serde")
    if exe_s is not None:
        lines_run(chk, exe_s, ["serde-lines"], "serde", only=r"de raw ")
    chk.assumptions += ["a third-party implementor is any record of three getters + from_bytes_unchecked (model: universally quantified `Factory`); the harness exercises two concrete ones"]


def c02(chk):
    chk.extract(("messageTypes", "timeCodeTypes", "controllerNumbers"))
    chk.proofs(["Midi.Props.C02"])
    chk.translated(['TShort', 'TCn'])
    msg_exhaustive(chk, C02_CELLS, mask="c02")
    # the serde configuration: the type <-> byte table must also be what deserialization of a ShortMessageType accepts
    exe_s = chk.cargo_build("with_serde")
    if exe_s is not None:
        lines_run(chk, exe_s, ["serde-lines"], "serde", only=r"de smt ")


def c03(chk):
    chk.extract(("messageTypes", "timeCodeTypes"))
    chk.proofs(["Midi.Props.C03", "Midi.Props.C03S"])
    chk.translated(['TShort', 'TStruct'])
    # a deviation from the MIDI table that all implementations share is not a C03 violation (it is C01/C02's);
    # the oracle here is (a) pairwise agreement of the four implementations on the same bytes and (b) the one
    # permitted difference: StructuredShortMessage's own data bytes are the canonical ones
    canon_cells = {1, 2, 3, 4, 5, 6, 27, 28, 29, 34, 35, 36, 37, 38, 39}
    msg_exhaustive(chk, set(range(0, 44)), mask="all", cross_impl=True,
                   spec_relevant=lambda impl: canon_cells if impl == "str" else set())


def blocks_then_lines(chk, exe, gen_args, name, relevant=None):
    """Run a block-digest transcript; re-run every mismatching block line by line (request `Xblk ...` -> `corr expand`)."""
    tr = chk.transcript(exe, gen_args, name)
    if tr is None:
        return
    rep = chk.drive(tr, name)
    st = rep["stats"]
    chk.cov["evaluations"] += st.get("evaluations", 0)
    chk.cov["distinct_nontrivial"] += st.get("nontrivial", 0)
    chk.cov["traces_validated_against_impl"] += st.get("evaluations", 0)
    bad = []
    for tag in ("CORR", "SPEC", "MODELSPEC"):
        for l in rep[tag]:
            p = parse_report_line(l)
            if p and p[1] not in bad:
                bad.append(p[1])
    line_reps = {"SPEC": [], "CORR": [], "MON": [], "MODELSPEC": [], "BAD": rep["BAD"]}
    blocks = [b for b in bad if re.match(r"\w*blk ", b)]
    for tag in ("CORR", "SPEC", "MODELSPEC"):
        line_reps[tag] += [l for l in rep[tag] if not re.match(r"\w+ \d+ \w*blk ", l)]
    if len(blocks) > 24:
        blocks = blocks[::max(1, len(blocks) // 24)][:24]
    for i, b in enumerate(blocks):
        t = os.path.join(WORK, "%s-%s-expand-%d.tr" % (chk.pid, name, i))
        with open(t, "w") as f:
            p = subprocess.run([exe, "expand"] + b.split(), stdout=f, stderr=subprocess.PIPE, text=True)
        if p.returncode != 0:
            chk.problems.append({"kind": "tie", "detail": "cannot expand block `%s`" % b, "names": ["corr expand " + b]})
            continue
        r = chk.drive(t, "%s-expand-%d" % (name, i))
        for tag in ("CORR", "SPEC", "MON", "MODELSPEC"):
            line_reps[tag] += r[tag]
    n = report_lines(chk, line_reps, relevant, name)
    if blocks and not (n["spec"] or n["corr"] or n["mon"]):
        chk.problems.append({"kind": "corr", "detail": "block digests differ but no differing line was localised: %s" % blocks[:3],
                             "names": ["correspondence: " + b for b in blocks[:3]]})
    chk.cov.setdefault("blocks_mismatching", 0)
    chk.cov["blocks_mismatching"] += len(blocks)
    return rep


def c06(chk):
    chk.extract(("messageTypes", "timeCodeTypes"))
    chk.proofs(["Midi.Props.C06"])
    chk.translated(['TShort', 'TUtil'])
    exe = chk.cargo_build("std")
    if exe is None:
        return
    run_corpus(chk, exe)
    blocks_then_lines(chk, exe, ["ctor-blocks"], "ctor-blocks")
    blocks_then_lines(chk, exe, ["tu-lines"], "tu-lines")
    chk.cov["exhaustive"] = True
    chk.cov["rule"] = ("every argument tuple of every named constructor (16x128x128 for three-argument channel messages, 16x16384 pitch bend, "
                       "16384 song positions, all 120 quarter frames), all 23 types x the three generic constructors with data bytes swept when the "
                       "category fits (else two probes, a panic is expected), for RawShortMessage and StructuredShortMessage (thorough: + two foreign "
                       "implementors); test_util shorthands over all u8/u16 values per argument incl. out-of-range ones; every case is distinct and calls the real constructor")
    s = chk.transcript(exe, ["eval-args", "mk raw pitch_bend_change 15 16383 0", "mk str time_code_quarter_frame 7 1 3", "gen raw system_common_message 247 0 1 2", "tu note_on 16 0 0"], "sample")
    if s:
        chk.cov["samples"] += [l.strip() for l in open(s).read().splitlines()[:4]]


def lines_run(chk, exe, gen_args, name, relevant=None, stateful=False, only=None):
    """A line-mode transcript: run, drive, report.  Stateful transcripts (scanner tables) go to one driver process."""
    tr = chk.transcript(exe, gen_args, name)
    if tr is None:
        return None
    rep = chk.drive(tr, name, parallel=not stateful)
    if stateful:
        chk.cov["states"] += rep["stats"].get("states", 0)
        chk.cov["transitions"] += rep["stats"].get("transitions", 0)
    st = rep["stats"]
    chk.cov["evaluations"] += st.get("evaluations", rep["summary"]["lines"])
    # distinct AND non-trivial, measured: distinct (request, result) lines whose result is neither empty nor the bare marker
    chk.cov["distinct_nontrivial"] += min(st.get("distinct_nontrivial_lines", 0), st.get("evaluations", rep["summary"]["lines"]))
    chk.cov["traces_validated_against_impl"] += rep["summary"]["lines"]
    report_lines(chk, rep, relevant, name, transcript=tr if stateful else None, only=only)
    drop_if_big(chk, tr, name)
    return rep


def drop_if_big(chk, tr, name):
    """Transcripts are scratch (a witness keeps its own copy under replays/): a big one is removed as soon as it has been
    driven, after remembering a few of its lines for the evidence samples.  Disk use of a run stays bounded by its
    largest transcript instead of their sum (a thorough run of all properties used to leave 16 GB in work/)."""
    try:
        if os.path.getsize(tr) < 64 << 20:
            return
        lines = []
        with open(tr) as f:
            for l in f:
                if " | " in l:
                    lines.append(l.strip())
                    if len(lines) >= 3000:
                        break
        if not hasattr(chk, "sample_cache"):
            chk.sample_cache = {}
        chk.sample_cache[name] = lines
        os.remove(tr)
    except OSError:
        pass


def sample(chk, exe, reqs):
    """a few evaluated requests, written out in the evidence (requests that do not evaluate are skipped)"""
    p = subprocess.run([exe, "eval-args"] + reqs, stdout=subprocess.PIPE, stderr=subprocess.PIPE, text=True)
    chk.cov["samples"] += [l.strip() for l in p.stdout.splitlines() if " | " in l][:len(reqs)]


def sample_from(chk, name, n=3):
    """n evenly spaced lines of a transcript this run produced"""
    path = os.path.join(WORK, "%s-%s.tr" % (chk.pid, name))
    try:
        lines = [l.strip() for l in open(path) if " | " in l]
    except OSError:
        lines = getattr(chk, "sample_cache", {}).get(name, [])
    if lines:
        step = max(1, len(lines) // n)
        chk.cov["samples"] += lines[step // 2::step][:n]


def c04(chk):
    chk.extract(("newtypes", "conversions", "features", "controllerNumbers"))
    chk.proofs(["Midi.Props.C04", "Midi.Props.C04S"])
    chk.translated(['TConv'])
    exe = chk.cargo_build("std")
    if exe is not None:
        run_corpus(chk, exe)
        lines_run(chk, exe, ["conv-lines"], "conv")
        lines_run(chk, exe, ["new-lines", "std"], "new-std")
        lines_run(chk, exe, ["num-lines"], "num")
        lines_run(chk, exe, ["ntop-lines"], "ntop")     # operator impls on the restricted integers, if the source has any
        blocks_then_lines(chk, exe, ["msg-blocks", "c04"], "blocks")
        # values read back from every message the factory constructors build (named + generic, all argument tuples)
        lines_run(chk, exe, ["ctor-range"], "ctor-range")
        # values produced by encoders and scanners (range monitor in the driver on everything the real scanners report)
        lines_run(chk, exe, ["encpn-lines"], "encpn")
        for k in ("cc", "pn", "pp"):
            lines_run(chk, exe, [k + "-random"], k + "-random", stateful=True)
        lines_run(chk, exe, ["pp-explore", 3, 0], "pp-explore-t3", stateful=True)
        sample_from(chk, "conv", 3); sample_from(chk, "new-std", 1); sample_from(chk, "num", 2)
    # configuration: no default features (crate built without `std`)
    exe2 = chk.cargo_build("")
    if exe2 is not None:
        lines_run(chk, exe2, ["new-lines", "nostd"], "new-nostd")
        lines_run(chk, exe2, ["conv-lines"], "conv-nostd")
    # configuration: serde on: values that enter through deserialization must stay in range when read back and encoded
    exe3 = chk.cargo_build("with_serde")
    if exe3 is not None:
        lines_run(chk, exe3, ["serde-lines"], "serde", only=r"(oracle c04-|de nt )")
    chk.cov["configurations"] = ["default (std)", "--no-default-features", "--features serde,serde_repr"]
    chk.cov["exhaustive"] = False
    chk.cov["rule"] = ("every conversion-table row (regenerated from the source) x its source values: ALL values for newtype, 8- and 16-bit sources; "
                       "powers of two +-1, every newtype maximum +-1, type extremes and seeded random values for 32/64/128-bit and pointer-sized sources; "
                       "T::new over every value of the representation type in two feature configurations; all strings over {0-9,+,-,space,a} up to "
                       "length 4 plus boundary / over-long / leading-zero / non-ASCII numerals; range of every field of every message (2^21 triples) and of every "
                       "message built by a named or generic constructor (all argument tuples, oracle on the real code). "
                       "distinct = distinct request; non-trivial = all (each calls the real API)")
    chk.assumptions += ["`as` casts, integer comparison and core's u8/u16 FromStr are modelled (validated exhaustively on 8/16-bit domains and on all short strings)",
                        "pointer width of the harness platform is 64; the theorems cover 16, 32 and 64"]


def c05(chk):
    chk.extract(("newtypes", "conversions"))
    chk.proofs(["Midi.Props.C05"])
    chk.translated(['TConv'])
    exe = chk.cargo_build("std")
    if exe is None:
        return
    run_corpus(chk, exe)
    lines_run(chk, exe, ["conv-lines"], "conv")
    lines_run(chk, exe, ["num-lines"], "num")
    lines_run(chk, exe, ["ntop-lines"], "ntop")
    # the serde configuration: deserializing a number is a conversion into the restricted type as well
    exe_s = chk.cargo_build("with_serde")
    if exe_s is not None:
        lines_run(chk, exe_s, ["serde-lines"], "serde", only=r"de nt ")
    sample_from(chk, "conv", 2); sample_from(chk, "num", 3)
    chk.cov["exhaustive"] = False
    chk.cov["rule"] = ("as C04: every conversion row x (all values | boundaries + seeded random for wide sources); Display of every value of every type; "
                       "parse of all strings over the 14-character alphabet up to length 4 + boundary numerals; Ord/Eq on all pairs of each 7- and 4-bit "
                       "type and boundary + seeded random pairs of U14; MIN/MAX/Default; distinct = distinct request")
    chk.assumptions += ["derive(PartialEq, Ord, Default), derive_more::Display and core's integer Display/FromStr are modelled, not verified"]


def scanner_runs(chk, exe, kind, two_channel_thorough=True, strict=False):
    x = ["--strict-reset"] if strict else []
    lines_run(chk, exe, [kind + "-explore", 0] + x, kind + "-explore-1ch", stateful=True)
    if chk.search_tier == "thorough" and two_channel_thorough:
        lines_run(chk, exe, [kind + "-explore", 3, 15] if kind == "pn" else [kind + "-explore", 15], kind + "-explore-hi", stateful=True)
        if kind == "pn":
            lines_run(chk, exe, [kind + "-explore", 0, 9], kind + "-explore-2ch", stateful=True)
    lines_run(chk, exe, [kind + "-random"] + x, kind + "-random", stateful=True)
    sample_from(chk, kind + "-random", 3)


EXPLORE_RULE = ("product exploration: breadth-first over REAL scanner states (keyed by the implementation's Debug string, the scanner is Copy) x every input "
                "of an abstracted alphabet (all contributing controllers x values {0,1,127}, two non-contributing controllers, a non-CC channel message, "
                "two system messages, reset) until no new state appears; every transition is compared with the model and with the history specification; "
                "plus seeded random histories over the full alphabet on 16 channels through Raw/Structured/foreign messages with resets, mid-history copies, "
                "injected encoder output and running forms. evaluations = transitions + random operations; non-trivial = operations that reported a message")


def c07(chk):
    chk.extract(())
    chk.proofs(["Midi.Props.C07"])
    chk.translated(['TMsg', 'TCC', 'TBits'])
    exe = chk.cargo_build("std")
    if exe is None:
        return
    run_corpus(chk, exe)
    lines_run(chk, exe, ["enc14-lines"], "enc14")
    sample_from(chk, "enc14", 2)
    scanner_runs(chk, exe, "cc")
    lines_run(chk, exe, ["cc-roundtrip"], "cc-roundtrip", stateful=True)
    # the serde configuration: a value that enters through Deserialize is "created" / "constructed" too
    exe_s = chk.cargo_build("with_serde")
    if exe_s is not None:
        lines_run(chk, exe_s, ["serde-lines"], "serde", only=r"(de cc14 |oracle c04-deserialized-cc14)")
    chk.cov["rule"] = ("encoder: every channel x every controller number 0-127 (panic expected from 32 up) x a value sweep (quick: every 61st value + boundaries + "
                       "seeded random; thorough: all 16384) for Raw and Structured targets, incl. the array conversion; scanner: " + EXPLORE_RULE)


def c08(chk):
    chk.extract(())
    chk.proofs(["Midi.Props.C08"])
    chk.translated(['TCC'])
    exe = chk.cargo_build("std")
    if exe is None:
        return
    run_corpus(chk, exe)
    scanner_runs(chk, exe, "cc")
    chk.cov["rule"] = EXPLORE_RULE


def c09(chk):
    chk.extract(("controllerNumbers",))
    chk.proofs(["Midi.Props.C09"])
    chk.translated(['TMsg', 'TBits'])
    exe = chk.cargo_build("std")
    if exe is None:
        return
    run_corpus(chk, exe)
    lines_run(chk, exe, ["encpn-lines"], "encpn")
    sample_from(chk, "encpn", 3)
    # the test_util shorthands that construct (N)RPN / 14-bit CC messages are construction entry points too
    lines_run(chk, exe, ["tu-lines"], "tu-pn", only=r"tu2 (nrpn|rpn|control_change_14)")
    # the named controller-number constants the encoder is documented with (spec: the MIDI 1.0 numbers, by name)
    lines_run(chk, exe, ["cnpred-lines"], "cnconst", only=r"cnconst ")
    # the serde configuration: a value that enters through Deserialize is "created" / "constructed" too
    exe_s = chk.cargo_build("with_serde")
    if exe_s is not None:
        lines_run(chk, exe_s, ["serde-lines"], "serde", only=r"(de pn |oracle c04-deserialized-pn)")
    chk.cov["rule"] = ("for each of the 8 constructors x both byte orders x Raw and Structured targets: full sweep of each dimension separately (16 channels; "
                       "all 16384 numbers; all 128 / 16384 values) plus seeded samples of the product (thorough: 200000 per combination, + foreign target); every "
                       "request compares the six accessors, the four slots and the array conversion")


def c10(chk):
    chk.extract(())
    chk.proofs(["Midi.Props.C10", "Midi.Props.C09"])
    chk.translated(['TPN', 'TMsg'])
    exe = chk.cargo_build("std")
    if exe is None:
        return
    run_corpus(chk, exe)
    scanner_runs(chk, exe, "pn")
    lines_run(chk, exe, ["pn-roundtrip"], "pn-roundtrip", stateful=True)
    sample_from(chk, "pn-roundtrip", 2)
    chk.cov["rule"] = EXPLORE_RULE + ("; end-to-end oracle on the real code: seeded random messages (boundary values over-represented) encoded by the real "
                                      "encoder and fed to the real scanner, fresh and after a random prior history: nothing until the last message, exactly the original on it")


def c11(chk):
    chk.extract(())
    chk.proofs(["Midi.Props.C11"])
    chk.translated(['TPN'])
    exe = chk.cargo_build("std")
    if exe is None:
        return
    run_corpus(chk, exe)
    scanner_runs(chk, exe, "pn")
    chk.cov["rule"] = EXPLORE_RULE


POLL_RULE = ("polling scanner with the mock clock (hook): product exploration over REAL scanner states keyed by the implementation's Debug string with "
             "arrival times replaced by elapsed time clamped at the timeout, x abstracted alphabet (8 contributing controllers x values {0,1,127}, noise, polls, reset, "
             "time steps 1 / timeout-1 / timeout) for timeouts 0 and 3, each transition followed by behavioural probes that expose every stored byte; seeded random histories "
             "(timeouts 0, 1, 3, 1000, u64::MAX; 2 or 16 channels; Raw/Structured/foreign messages; resets, copies, injected encoder output); every line is compared with the "
             "model, and the C14 trace monitor runs on the implementation's results. non-trivial = operations that reported a message")


def polling_runs(chk, exe, random=True, strict=False, full_transparency=False):
    x = (["--strict-reset"] if strict else []) + (["--full-transparency"] if full_transparency else [])
    lines_run(chk, exe, ["pp-explore", 0, 0] + x, "pp-explore-t0", stateful=True)
    lines_run(chk, exe, ["pp-explore", 3, 0] + x, "pp-explore-t3", stateful=True)
    if chk.search_tier == "thorough":
        lines_run(chk, exe, ["pp-explore", 3, 15], "pp-explore-t3-ch15", stateful=True)
        lines_run(chk, exe, ["pp-explore", 2, 7], "pp-explore-t2-ch7", stateful=True)
    if random:
        lines_run(chk, exe, ["pp-random"] + x, "pp-random", stateful=True)
        sample_from(chk, "pp-random", 3)


def c12(chk):
    chk.extract(())
    chk.proofs(["Midi.Props.C12"])
    chk.translated(['TPoll'])
    exe = chk.cargo_build("std")
    if exe is None:
        return
    run_corpus(chk, exe)
    lines_run(chk, exe, ["pp-sentences"], "pp-sentences", stateful=True)
    sample_from(chk, "pp-sentences", 3)
    lines_run(chk, exe, ["pp-roundtrip"], "pp-roundtrip", stateful=True)
    polling_runs(chk, exe, random=False)
    chk.cov["rule"] = ("sentences of the documented grammar run on the real scanner: ALL sequences of unit kinds up to 3 units (thorough: 5) satisfying the side conditions, x "
                       "timeouts {0, 3, 50} x 4 repetitions with random values, one or two blocks, fresh or after random prior traffic, and three gap styles (none / one / "
                       "random mix of early polls inside units, arbitrary polls elsewhere, time steps, non-contributing and other-channel traffic); seeded long random sentences; "
                       "the reports are compared with flush ++ intended (Lean spec evaluated by the driver); encode->feed->poll round trips in both byte orders; " + POLL_RULE)


def c13(chk):
    chk.extract(())
    chk.proofs(["Midi.Props.C13"])
    chk.translated(['TPoll'])
    exe = chk.cargo_build("std")
    if exe is None:
        return
    run_corpus(chk, exe)
    polling_runs(chk, exe)
    lines_run(chk, exe, ["pp-directed"], "pp-directed", stateful=True)
    sample_from(chk, "pp-directed", 3)
    # the crate as shipped (hook off, std::time::Instant): histories whose outcome cannot depend on scheduling
    exe_r = chk.cargo_build("real_clock")
    if exe_r is not None:
        lines_run(chk, exe_r, ["pp-realclock"], "pp-realclock", stateful=True)
    chk.cov["rule"] = POLL_RULE + ("; directed scenarios from the property text with verdicts on the real code: early polls return nothing and have no effect / the first late "
                                   "poll reports once / an unpaired LSB is dropped by the first late poll / feed results do not depend on the passage of time (timeouts 1, 2, 3, 1000, 2^40, u64::MAX); "
                                   "build WITHOUT the hook (std::time::Instant): seeded random histories with timeout 0 (every poll late), one hour (every poll early) and 1 ms with a real "
                                   "5 ms sleep before each poll (late), compared with the model line by line")
    chk.assumptions += ["the model's clock is the mock clock of the hook; that std::time::Instant is monotone and elapsed() saturates is assumed, not checked; "
                        "the hook-off build is compared with the model only on histories that are robust against scheduling delays (no early poll with a short timeout)"]


def c14(chk):
    chk.extract(())
    chk.proofs(["Midi.Props.C14"])
    chk.translated(['TPoll'])
    exe = chk.cargo_build("std")
    if exe is None:
        return
    run_corpus(chk, exe)
    polling_runs(chk, exe)
    chk.cov["rule"] = POLL_RULE


def c15(chk):
    chk.extract(())
    chk.proofs(["Midi.Props.C15"])
    chk.translated(['TCC', 'TPN', 'TPoll'])
    exe = chk.cargo_build("std")
    if exe is None:
        return
    run_corpus(chk, exe)
    for k in ("cc", "pn", "pp"):
        lines_run(chk, exe, [k + "-isolation"], k + "-isolation", stateful=True)
    sample_from(chk, "pp-isolation", 2)
    chk.cov["rule"] = ("for each of the three scanners: one 16-channel real scanner and 16 real scanners of their own side by side; seeded random two-channel interleavings "
                       "for EVERY ordered pair of the 16 channels and 16-channel interleavings (feeds over the full alphabet incl. system messages, polls, resets, time steps); "
                       "oracle on the real code: identical results, report channel = input channel, system messages report nothing; every line also compared with the model")


def c16(chk):
    chk.extract(("controllerNumbers",))
    chk.proofs(["Midi.Props.C16"])
    chk.translated(['TCC', 'TPN', 'TPoll', 'TCn'])
    exe = chk.cargo_build("std")
    if exe is None:
        return
    run_corpus(chk, exe)
    lines_run(chk, exe, ["cc-transparent"], "cc-transparent", stateful=True)
    lines_run(chk, exe, ["pn-transparent"], "pn-transparent", stateful=True)
    polling_runs(chk, exe, random=False, full_transparency=True)
    lines_run(chk, exe, ["cnpred-lines"], "cnpred")
    sample_from(chk, "cnpred", 2); sample_from(chk, "pn-transparent", 2)
    chk.cov["rule"] = ("every reachable state of the two pure scanners (fixpoint over the abstracted contributing alphabet) x every non-contributing message (all non-contributing "
                       "controller numbers x 3 values, all 112 non-CC status bytes x 4 data-byte pairs): nothing reported and real PartialEq equality with a copy made before; "
                       "polling scanner: five such probes after every transition of its product exploration and, in every explored state, all 120 non-contributing "
                       "controller numbers and all 112 non-CC status bytes; all 128 controller numbers for the predicates; all constants")


def c17(chk):
    chk.extract(())
    chk.proofs(["Midi.Props.C17"])
    chk.translated(['TCC', 'TPN', 'TPoll'])
    exe = chk.cargo_build("std")
    if exe is None:
        return
    run_corpus(chk, exe)
    scanner_runs(chk, exe, "cc", two_channel_thorough=False, strict=True)
    scanner_runs(chk, exe, "pn", two_channel_thorough=False, strict=True)
    polling_runs(chk, exe, strict=True)
    chk.cov["rule"] = ("reset applied in EVERY explored state of each scanner followed by real `== new(timeout)` / `== default()` (request mustbenew) and by the rest of the "
                       "exploration from the reset state; seeded random histories with resets, and with copies made in mid-history that are then driven independently "
                       "(original and copy each compared with the model); timeouts 0 and 3 (thorough: more)")
    chk.assumptions += ["that a Rust `Copy` of a scanner is independent of the original is checked on the real code only (the model is a value)"]


def c19(chk):
    chk.extract(("newtypes", "messageTypes"))
    chk.proofs(["Midi.Props.C19"])
    chk.translated(['TSerde'])
    exe = chk.cargo_build("with_serde")
    if exe is None:
        return
    run_corpus(chk, exe)
    lines_run(chk, exe, ["serde-lines"], "serde")
    sample_from(chk, "serde", 4)
    chk.cov["configurations"] = ["std + serde + serde_repr"]
    chk.cov["rule"] = ("through serde_json::Value as the generic deserializer: every integer -3..65540 plus i64/u64 extremes for each of the six integer types and for "
                       "ShortMessageType; for RawShortMessage, ControlChange14BitMessage, ParameterNumberMessage, TimeCodeQuarterFrame and all 23 (+1 unknown) "
                       "StructuredShortMessage variants every combination of boundary / abstracted field values (incl. negative, > u16, unknown variants); after a "
                       "successful deserialization the accessors that would panic on an unconstructible value are called; natural representation of seeded valid "
                       "values round-trips through the real Serialize; malformed JSON shapes must fail")
    chk.assumptions += ["the theorems are about a model of serde's derive / try_from container attribute / serde_repr (Midi/Model/Serde.lean), validated by this run",
                        "structural mismatches (wrong JSON type, missing field) are rejected by serde itself and are exercised on the real code only"]


def c18(chk):
    chk.extract(("features", "messageTypes"))
    chk.proofs(["Midi.Props.C18"])
    tie = chk.translated(['TCC', 'TPN', 'TPoll', 'TMsg', 'TShort', 'TStruct', 'TUtil', 'TBits', 'TCn', 'TConv'])   # panic sites of the translated code = the model's
    # static support for the allocation half: rs2lean translates a function only when every call in its body is to
    # another function of the crate or to one of the translator's whitelisted `core` operations, none of which allocates
    mods = tie.get("translated_modules", {})
    okm = sorted(m for m, v in mods.items() if isinstance(v, dict) and v.get("ok"))
    badm = sorted(m for m, v in mods.items() if isinstance(v, dict) and not v.get("ok"))
    chk.cov["alloc_static_support"] = {
        "holds_for": okm, "not_available_for": badm,
        "argument": "a source function is translated only when each call in its body resolves to a crate function or to a whitelisted core operation "
                    "(integer arithmetic/bit operations, Option/Result combinators, array indexing, try_from/from between integers, Duration comparison); "
                    "none of these allocates, and an unknown call (Vec, Box, String, format!, collect, ...) makes the translation of that file fail. "
                    "Not covered by this argument: the macro-generated Display/FromStr/serde/Error impls, derives, and the test_util macros' expansion sites "
                    "(covered by the monitor only)"}
    # allocation half: counting allocator, low optimisation so that allocations are not elided
    exe0 = chk.cargo_build("std", profile="noopt")
    if exe0 is not None:
        lines_run(chk, exe0, ["alloc-probe"], "alloc-probe")
        sample_from(chk, "alloc-probe", 5)
    exe1 = chk.cargo_build("", profile="noopt")
    if exe1 is not None:
        lines_run(chk, exe1, ["alloc-probe"], "alloc-probe-nostd")
    # panic half on the real code: panic sites are compared (catch_unwind) on documented-panic sweeps and on histories
    exe = chk.cargo_build("std")
    if exe is not None:
        run_corpus(chk, exe)
        blocks_then_lines(chk, exe, ["ctor-blocks"], "ctor-blocks")
        lines_run(chk, exe, ["tu-lines"], "tu-lines")
        lines_run(chk, exe, ["new-lines", "std"], "new-std")
        lines_run(chk, exe, ["enc14-lines"], "enc14")
        blocks_then_lines(chk, exe, ["msg-blocks", "all"], "blocks")
        for k in ("cc", "pn", "pp"):
            lines_run(chk, exe, [k + "-random"], k + "-random", stateful=True)
    chk.cov["partial"] = True
    chk.cov["rule"] = ("PANIC half (theorems + comparison of panic sites under catch_unwind): all 4 x 2^21 byte triples with every trait method, every named / generic "
                       "constructor argument tuple (category panics expected exactly for the wrong category), test_util shorthands over all u8/u16 arguments, T::new over "
                       "the whole representation range, 14-bit CC constructor over all 128 controller numbers, seeded random histories of all three scanners. "
                       "ALLOCATION half (monitored, NOT proved): counting global allocator, opt-level 0, tight regions around from_bytes + every trait method for every "
                       "third valid byte triple (thorough: all), integer conversions/new/parse/Display-to-stack-buffer/Ord for all 16384 values, constructors + both "
                       "encoders, scanner new/feed/poll/reset/copy/eq over random histories, in the std and the no-default-features build; a self-test shows the counter sees a Vec")
    chk.assumptions += ["heap allocation is not expressible in the functional model: the allocation half is a runtime monitor over the sampled calls listed in `rule`, not a proof",
                        "panic sites are identified by panic message text"]


REGISTRY = {"C18": c18, "C19": c19, "C12": c12, "C13": c13, "C14": c14, "C15": c15, "C16": c16, "C17": c17, "C07": c07, "C08": c08, "C09": c09, "C10": c10, "C11": c11, "C04": c04, "C05": c05, "C01": c01, "C02": c02, "C03": c03, "C06": c06}


def replay(pid, path):
    """Re-run the requests stored in a replay file against the current tree and print impl / model / spec."""
    if path.endswith(".tr"):
        chk = Check(pid, "quick", 1)
        feats = "with_serde" if pid == "C19" else "std"
        with open(path) as f:
            first = f.readline()
        if first.startswith("# config "):
            feats = first.split()[2]
        exe = chk.cargo_build(feats)
        sh(["lake", "build", "driver"], cwd=LEAN)
        with open(path) as f:
            p = subprocess.run([exe, "eval"], stdin=f, stdout=subprocess.PIPE, text=True)
        q = subprocess.run([DRIVER], input=p.stdout, stdout=subprocess.PIPE, text=True)
        tail = p.stdout.splitlines()[-6:]
        print("\n".join(tail))
        print(q.stdout, end="")
        return 1 if re.search(r"^(SPEC|MON)", q.stdout, flags=re.M) else 0
    data = json.load(open(path))
    chk = Check(pid, "quick", data.get("seed", 1))
    exe = chk.cargo_build("with_serde" if pid == "C19" else "std")
    rc, out, _ = sh(["lake", "build", "driver"], cwd=LEAN)
    hist = [w["history"] for w in data.get("witnesses", []) if w.get("history")]
    if hist:
        return replay(pid, hist[0])
    reqs = [w["witness"] for w in data.get("witnesses", []) if w.get("witness")]
    if not reqs:
        print("replay file names no input:", data.get("no_longer_checks"))
        return 1
    p = subprocess.run([exe, "eval"], input="\n".join(reqs) + "\n", stdout=subprocess.PIPE, text=True)
    q = subprocess.run([DRIVER], input=p.stdout, stdout=subprocess.PIPE, text=True)
    print(p.stdout, end="")
    print(q.stdout, end="")
    return 1 if re.search(r"^(SPEC|MON)", q.stdout, flags=re.M) else 0
