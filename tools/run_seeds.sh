#!/bin/sh
# usage: run_seeds.sh <property> [seed-name ...]   -- apply each seeded change to /repo, run the property's quick check, undo
P=$1; shift
if [ $# -eq 0 ]; then set -- $(ls /verif/seeded | grep "^$P-"); fi
for s in "$@"; do
  if git -C /repo apply /verif/seeded/$s/patch.diff 2>/dev/null; then
    r=$(cd /verif && timeout 900 ./check $P 2>&1 | grep -E "^(VIOLATION|OK|FAIL)" | tr '\n' ' ')
    echo "$s on $P: $r"
  else
    echo "$s: patch does not apply"
  fi
  git -C /repo checkout -- .
done
