#!/usr/bin/env python3
"""Writes MANIFEST.json from the table below (kept in one place so it is always valid and current)."""
import json, os
ROOT = os.path.dirname(os.path.dirname(os.path.abspath(__file__)))
props = [json.loads(l) for l in open(os.path.join(ROOT, "properties.jsonl"))]

TB = ("Trusted: Lean 4.33 kernel; axioms propext / Classical.choice / Quot.sound only (audited by #print axioms on every run; no sorry, "
      "no native_decide, no bv_decide, no own axioms); tools/extract.py; the Rust harness + Lean driver + comparison. ")

CLAIMED = {
 "C01": dict(design="5 (C01)", technique="Lean 4 theorems over all byte triples / all StructuredShortMessage values / any factory + exhaustive 4x2^21 correspondence",
   text="Lean theorems (Midi/Props/C01.lean) prove for ALL (status,d1,d2), all StructuredShortMessage values and a universally quantified factory: from_bytes accepts iff status>=0x80; Raw returns its bytes; Structured returns canon(bytes); every conversion is a fixed point on structured values; quarter-frame and type-byte codecs. The model is tied to the code by an exhaustive correspondence run (all 2^21 triples x Raw, Structured and two harness-defined implementors, every trait method) and the executable spec (canon, MIDI table) is evaluated on the implementation's outputs, so any deviation yields a concrete replay.",
   note=TB + "Modelled not verified: rustc bit-op semantics on u8/u16, num_enum's TryFromPrimitive/IntoPrimitive (discriminants regenerated from the source), derive(PartialEq)."),
 "C02": dict(design="5 (C02)", technique="Lean 4 theorems: every accessor = MIDI-1.0 table function, for any implementor + exhaustive correspondence/oracle",
   text="Theorems (Midi/Props/C02.lean): for every implementor I and value x with valid bytes, type/super_type/main_category/channel/all field accessors/is_note*/to_structured equal the MIDI 1.0 table functions written independently in Midi/Spec/MidiTable.lean (Control Change is Channel Mode iff controller >= 120, 14-bit = d2*128+d1, ...), type-level super type agrees, u8 conversion total exactly on the 23 regenerated discriminants. Tie: exhaustive 4 x 2^21 run comparing implementation, model and table cell by cell.",
   note=TB + "The channel-mode threshold constant and enum discriminants are regenerated from the source on every run. Modelled: derives, num_enum."),
 "C03": dict(design="5 (C03)", technique="Lean 4 theorems generic in the implementor record + exhaustive cross-implementation comparison",
   text="Theorems (Midi/Props/C03.lean): (i) for ANY implementor (universally quantified record of getters, optional lawful overrides) every derived method equals RawShortMessage's on the same bytes - no validity needed; (ii) Raw and the Structured converted from it agree on every accessor, differing only by canon on data bytes; (iii) to_other/from_other/to_structured commute with every accessor. Tie: all 2^21 triples on Raw, Structured, a getter-only implementor and one overriding to_bytes, compared pairwise and against the model.",
   note=TB + "An implementor whose getters are impure or whose to_bytes override is inconsistent is outside the property (hypothesis LawfulAt, shown satisfiable)."),
}

NOT_YET = "check not built yet in this session (planned, see DESIGN.md); not claimed until its theorems and tie exist"

checks = []
for p in props:
    pid = p["id"]
    if pid not in CLAIMED:
        continue
    c = CLAIMED[pid]
    checks.append({
        "property_id": pid,
        "quick_cmd": "./check %s --tier quick" % pid,
        "thorough_cmd": "./check %s --tier thorough" % pid,
        "evidence_file": "/verif/evidence/%s.json" % pid,
        "replay_cmd_template": "./check %s --replay {path}" % pid,
        "engine": "lean4-proof+correspondence",
        "level_claimed": {"category": "proof", "text": c["text"], "design_ref": "DESIGN.md section " + c["design"]},
        "level_note": c["note"],
        "technique": c["technique"],
    })
manifest = {
    "version": 1,
    "setup_cmd": "./setup.sh",
    "hooks": {
        "guard": "--cfg helgoboss_midi_verif",
        "enable": "RUSTFLAGS='--cfg helgoboss_midi_verif' (set in harness/.cargo/config.toml; the harness is a path dependency on /repo and is rebuilt from the working tree by every check)",
        "baseline_off_cmd": "cd /repo && cargo test --workspace --no-fail-fast --offline",
        "source_commits": ["a0f1d11"],
        "add_only": True,
    },
    "engines": [{"name": "lean4-proof+correspondence", "path": "lean/ harness/ tools/ check",
                 "serves_properties": [c["property_id"] for c in checks],
                 "kind_free_text": "Lean 4 model + theorems (kernel-checked, axioms audited) tied to /repo by a regenerating translator for tables and an in-process differential harness; executable specs/monitors evaluated on the implementation give replays"}],
    "checks": checks,
    "not_applicable": [{"property_id": p["id"], "reason": NOT_YET} for p in props if p["id"] not in CLAIMED],
    "notes": "Genuine defects found and repaired are listed in known_findings.json (fixed: entries). See DESIGN.md.",
}
json.dump(manifest, open(os.path.join(ROOT, "MANIFEST.json"), "w"), indent=1)
print("claimed:", [c["property_id"] for c in checks])
