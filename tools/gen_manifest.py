#!/usr/bin/env python3
"""Writes MANIFEST.json from the table below (kept in one place so it is always valid and current)."""
import json, os
ROOT = os.path.dirname(os.path.dirname(os.path.abspath(__file__)))
props = [json.loads(l) for l in open(os.path.join(ROOT, "properties.jsonl"))]

TB = ("Trusted: Lean 4.33 kernel; axioms propext / Classical.choice / Quot.sound only (audited by #print axioms on every run; no sorry, "
      "no native_decide, no bv_decide, no own axioms); tools/extract.py; the Rust harness + Lean driver + comparison. ")

CLAIMED = {
 "C01": dict(design="5 (C01)", technique="Lean 4 theorems over all byte triples / all StructuredShortMessage values / any factory + exhaustive 4x2^21 correspondence",
   text="Lean theorems (Midi/Props/C01.lean) prove for ALL (status,d1,d2), all StructuredShortMessage values and a universally quantified factory: from_bytes accepts iff status>=0x80; Raw returns its bytes; Structured returns canon(bytes); every conversion is a fixed point on structured values; quarter-frame and type-byte codecs. The model is tied to the code by an exhaustive correspondence run (all 2^21 triples x Raw, Structured and two harness-defined implementors, every trait method) and the executable spec (canon, MIDI table) is evaluated on the implementation's outputs, so any deviation yields a concrete replay.",
   note=TB + "Modelled not verified: rustc bit-op semantics on u8/u16, num_enum's TryFromPrimitive/IntoPrimitive (discriminants regenerated from the source), derive(PartialEq)."),
 "C02": dict(design="5 (C02)", technique="Lean 4 theorems: every accessor = MIDI-1.0 table function, for any implementor + exhaustive correspondence/oracle",
   text="Theorems (Midi/Props/C02.lean): for every implementor I and value x with valid bytes, type/super_type/main_category/channel/all field accessors/is_note*/to_structured equal the MIDI 1.0 table functions written independently in Midi/Spec/MidiTable.lean (Control Change is Channel Mode iff controller >= 120, 14-bit = d2*128+d1, ...), type-level super type agrees, u8 conversion total exactly on the 23 regenerated discriminants. Tie: exhaustive 4 x 2^21 run comparing implementation, model and table cell by cell.",
   note=TB + "The channel-mode threshold constant and enum discriminants are regenerated from the source on every run. Modelled: derives, num_enum."),
 "C03": dict(design="5 (C03)", technique="Lean 4 theorems generic in the implementor record + exhaustive cross-implementation comparison",
   text="Theorems (Midi/Props/C03.lean): (i) for ANY implementor (universally quantified record of getters, optional lawful overrides) every derived method equals RawShortMessage's on the same bytes - no validity needed; (ii) Raw and the Structured converted from it agree on every accessor, differing only by canon on data bytes; (iii) to_other/from_other/to_structured commute with every accessor. Tie: all 2^21 triples on Raw, Structured, a getter-only implementor and one overriding to_bytes, compared pairwise and against the model.",
   note=TB + "An implementor whose getters are impure or whose to_bytes override is inconsistent is outside the property (hypothesis LawfulAt, shown satisfiable)."),
 "C04": dict(design="5 (C04)", technique="Lean 4 theorems over the regenerated conversion/feature tables (every value of every source type, every feature subset) + differential run in two cargo configurations",
   text="Theorems (Midi/Props/C04.lean): a per-row criterion is proved sound once (entryOk_sound: for every value of the source type, incl. i128/u128 and all pointer widths, the macro body yields an in-range value and fails exactly out of range) and the kernel re-checks it against the conversion table regenerated from the source on every run (table_ok); parse_in_range for all strings; new_checked for every subset of enableable features (cfg guards regenerated from newtype_macros.rs and Cargo.toml); constants and message fields in range. Tie: generated probe code (one arm per table row, does not compile if an impl is missing), exhaustive sweeps of 8/16-bit and newtype sources, boundaries + seeded random for wide sources, T::new over the whole repr range in the std and the no-default-features build, all short strings.",
   note=TB + "Modelled not verified: `as` casts, integer comparison, core's u8/u16 from_str. Hand-written conversion impls are only understood in the delegating form T::try_from(<V>::from(value)); any other hand-written impl on a newtype is reported as unmodelled. Platform pointer width 64 in the harness; theorems cover 16/32/64."),
 "C05": dict(design="5 (C05)", technique="Lean 4 theorems: value preservation for every table row; parser/printer characterised for all strings / all naturals by induction + exhaustive differential run",
   text="Theorems (Midi/Props/C05.lean): conversions_faithful (every row keeps the mathematical value, fallible rows accept exactly the in-range values, for every value of the source type); parse_iff (parse s = some v iff s is an optional '+' followed by >=1 ASCII digits with value v <= max - for ALL strings of any length, by induction on the digit loop with overflow check); display_decimal and display_parse (print then parse is the identity) for all values; MIN/MAX/Default. Tie: every conversion row swept, Display of all values, 41k short strings x 6 types + boundary numerals, all pairs for Ord/Eq on 7/4-bit types.",
   note=TB + "Modelled not verified: core's integer FromStr/Display, derive(Ord, PartialEq, Default), derive_more::Display (validated exhaustively where the domain is finite)."),
 "C06": dict(design="5 (C06)", technique="Lean 4 theorems generic in the factory + exhaustive constructor sweep",
   text="Theorems (Midi/Props/C06.lean): for EVERY factory F and all valid arguments each named constructor passes from_bytes_unchecked exactly the bytes the property describes (status = type + channel, 14-bit split low/high, unused bytes zero, valid, of the named type); the structured form of those bytes has exactly the arguments as fields and the bytes are canonical; Raw/Structured corollaries; generic constructors panic iff wrong category, else bytes unchanged; test_util shorthands panic iff an argument is out of range. Tie: every argument tuple of every named constructor (6.5M calls) on Raw and Structured (thorough: + 2 foreign implementors), generic constructors for all 23 types, shorthands over all u8/u16 arguments incl. out-of-range (catch_unwind, panic site compared).",
   note=TB + "Modelled: panic sites by message text; assert_eq!/expect semantics."),
 "C07": dict(design="6 (C07)", technique="Lean 4 theorems for all messages and all describable scanner states + encoder sweep + product exploration + end-to-end oracle",
   text="Theorems (Midi/Props/C07.lean): new succeeds iff controller < 32; lsb = msb + 32; encoding = [CC n, value/128; CC n+32, value%128] on the message's channel for Raw and Structured; roundtrip from EVERY state describable by a per-channel abstraction (all reachable states are, reachable_wf): first message yields nothing, second exactly the original. Tie: encoder swept over all channels x all 128 controller numbers x value sweep; scanner product exploration to a fixpoint + random histories; end-to-end oracle encode->feed on the real code.",
   note=TB + "Scanner inputs are modelled as RawShortMessage bytes (any lawful implementor is equivalent by C03); the harness also feeds Structured and a foreign implementor."),
 "C08": dict(design="6 (C08)", technique="Lean 4 theorem by induction over arbitrary histories (state = history abstraction) + product exploration to a fixpoint",
   text="Theorem C08.exact: for ALL finite histories of feeds and resets (any length, all 16 channels, any valid message) the run never panics, every operation reports exactly justified14(history) - the property text as a function of the history alone - and so does the next input; corollaries: nothing else, LSB alone re-reports, stale MSB replaced, nothing after reset. Proof: invariant 'scanner state = last MSB CC per channel since reset' by induction over the operation list. Tie: exhaustive exploration of real scanner states x abstract alphabet compared with model and with justified14 evaluated on the implementation's history; seeded random histories over the full alphabet.",
   note=TB + "derive(Copy, PartialEq, Default) modelled."),
 "C09": dict(design="6 (C09)", technique="Lean 4 theorems for all message values, both orders, both targets + per-dimension sweeps",
   text="Theorems (Midi/Props/C09.lean): the 8 constructors build exactly the described fields (7-bit <= 127, 14-bit implies data entry) and every valid message comes from one; to_short_messages = specPNEncoding slot by slot (101/99, 100/98, 6/38 in the requested order, 96/97; fourth slot filled iff 14-bit) for Raw and Structured, no slot-index panic; array conversion = MSB-first; controller constants regenerated. Tie: full sweep per dimension + seeded product samples through the real encoder.",
   note=TB),
 "C10": dict(design="6 (C10)", technique="Lean 4 theorems from every describable state; running forms by induction over unbounded length + exploration + end-to-end oracle",
   text="Theorems (Midi/Props/C10.lean): from EVERY scanner state describable by a per-channel abstraction (includes all reachable), feeding the encoding of any valid 7-bit/inc/dec message (either order) or the LSB-first encoding of any 14-bit message reports nothing until the last CC and exactly the original there; running forms [x,y,MSB,MSB,...] and [x,y,LSB,MSB,LSB,MSB,...] of ANY length by induction. Tie: product exploration, random histories with injected encodings and running forms, end-to-end encode->feed oracle on the real code (100k quick / 2M thorough).",
   note=TB),
 "C11": dict(design="6 (C11)", technique="Lean 4 theorem by induction over arbitrary histories (four history functions = four state fields) + product exploration to a fixpoint",
   text="Theorem C11.exact: for ALL finite histories the scanner reports exactly justifiedPN(history, input): CC 6/96/97 with both number halves received since reset; number = 128*latest MSB + latest LSB; registered iff the latest number byte was 100/101; 14-bit iff a CC 38 arrived after the latest number byte. Corollaries nothing_else, needs_complete_number, reported_fields. Tie: exhaustive exploration of real scanner states (1 channel quick; 2-channel products thorough) + seeded random histories, each compared with the model and with justifiedPN on the implementation's own history.",
   note=TB),
 "C12": dict(design="7 (C12)", technique="Lean 4 theorem by induction over sentences of the documented grammar and their schedules + bounded-exhaustive sentence runs on the real scanner",
   text="Theorem C12.sentences (Midi/Props/C12.lean, helper lemmas Midi/Proofs/Sentences.lean): from ANY prior channel state, for every non-empty sentence of the documented grammar (number selection x,y in either order; MSB alone, MSB LSB, further LSB, LSB MSB directly after x,y, inc/dec with the documented side conditions; any number of blocks, all values) and every good schedule (arbitrary polls/time/non-contributing traffic in the gaps, polls inside a two-message unit early), followed by a poll at least `timeout` after the last message, feed and poll together report exactly flush(prior state) ++ intended(sentence), each once and in order; any timeout. Corollary encode_roundtrip for both byte orders. Multi-channel interleavings reduce to this by C15.isolation_polling. Tie: product exploration with probes, all unit-kind sequences up to 3 (5 thorough) units run on the real scanner with three gap styles and compared with the Lean spec's `intended`, long random sentences, encode->feed->poll oracle.",
   note=TB + "Time is the mock clock of the hook (monotone by construction); std::time::Instant's monotonicity is assumed. The grammar and `intended` (Midi/Spec/Grammar.lean) are my reading of the scanner's documentation."),
 "C13": dict(design="7 (C13)", technique="Lean 4 theorems by case analysis over the four-phase state machine with an explicit clock + history-level origin theorem + exploration with time steps + directed oracles",
   text="Theorems (Midi/Props/C13.lean), for any timeout and any times: poll_some (a poll reports only a pending MSB whose stamp is at least timeout old, reports the 7-bit message, leaves pending), poll_early (no result, no effect), poll_idle, poll_once, lsb_dropped, feed_time_indep (feed results and state modulo stamp do not depend on time), arrival_stamped, pending_origin and poll_report_justified (history level: a poll's report is justified by a controller-6 message fed at least timeout before). Tie: mock-clock hook; product exploration with time steps 1/timeout-1/timeout for timeouts 0 and 3 with probes; random histories with timeouts up to u64::MAX; directed scenarios with verdicts on the real code; executable form of poll_report_justified monitors every poll of the implementation.",
   note=TB + "Partial by nature: proved over the mock clock; the real clock is assumed monotone with saturating elapsed()."),
 "C14": dict(design="7 (C14)", technique="Lean 4 theorem: an executable trace monitor (the property as a history observer) accepts every model trace, by a simulation invariant + the same monitor run on implementation traces",
   text="Theorem C14.monitor_accepts: the monitor of Midi/Spec/Monitor.lean (attribution of every report to the channel, the latest number bytes and registered flag before the call, values from actually received bytes; nothing before a complete number; no controller-6 byte reported twice or as 7-bit after being part of a 14-bit value; every controller-6 byte received with a complete number reported by the next contributing message or the first late poll; two results only for inc/dec after a pending MSB, never a second without a first) accepts the trace of EVERY finite event sequence (feeds incl. malformed/mixed traffic, polls at any times, resets) from a new scanner with any timeout. Proof: simulation relation between monitor memory and the four phases. Tie: the same monitor runs in the driver on the real scanner's results for every explored transition (implementation x observer product to a fixpoint) and all random histories on 16 channels.",
   note=TB + "The monitor is per channel; C15 lifts it to the 16-channel scanner. Mock clock as in C13."),
 "C15": dict(design="7 (C15)", technique="Lean 4 theorems for all interleavings (induction over histories; per-channel frame lemmas) + side-by-side real scanners for every ordered channel pair",
   text="Theorems (Midi/Props/C15.lean): isolation_cc / isolation_pn (the reports for channel c under ANY interleaved history equal those of a fresh scanner fed only c's inputs and the resets; via the exact history characterisations), isolation_polling (final sub-scanner state and results of c's operations equal those of c's sub-scanner alone, for any interleaving of feeds, polls, resets and time), report_channel_* (every report carries the channel of the triggering input/poll), system_inert_* (system messages report nothing and affect no channel). General in the channel pair. Tie: one 16-channel and 16 own real scanners side by side on random two-channel interleavings for every ordered pair and on 16-channel interleavings, compared with each other (oracle) and with the model.",
   note=TB),
 "C16": dict(design="7 (C16)", technique="Lean 4 theorems for all states (not only reachable) + every reachable state x every non-contributing message on the real scanners",
   text="Theorems (Midi/Props/C16.lean): transparent_cc / transparent_pn / transparent_polling: from EVERY state a valid non-contributing message returns nothing and the identical state; insert_anywhere_*; predicates (decided by the kernel over all 128 controller numbers: 14-bit part iff < 64, LSB = n+32 iff < 32 without overflow, (N)RPN controllers exactly {6,38,96..101}); lsb_constants over the regenerated constant table; contributes_matches_predicates. Tie: every explored state of the pure scanners x all non-contributing controllers x values and all non-CC status bytes with real PartialEq before/after; the same probes after every transition of the polling exploration; predicates and constants through the public API.",
   note=TB + "derive(PartialEq) modelled as structural equality."),
 "C17": dict(design="7 (C17)", technique="Lean 4 theorems for every state + reset in every explored state with real equality",
   text="Theorems (Midi/Props/C17.lean): reset_eq_new_cc / _pn for EVERY state; reset_eq_new_polling under UniformTimeout, which uniform_reachable proves for every history from new(t); new_eq_default; reset_continuation_* (same reports as a new scanner for every continuation). Copy independence is true of the model by construction and is checked on the real code. Tie: reset + real `== new(timeout)`/`== default()` in every explored state of all three scanners, continued exploration from the reset state, random histories with resets and mid-history copies driven independently.",
   note=TB + "derive(Copy, PartialEq, Default) modelled."),
}

NOT_YET = "check not built yet in this session (planned, see DESIGN.md); not claimed until its theorems and tie exist"

checks = []
for p in props:
    pid = p["id"]
    if pid not in CLAIMED:
        continue
    c = CLAIMED[pid]
    checks.append({
        "property_id": pid,
        "quick_cmd": "./check %s --tier quick" % pid,
        "thorough_cmd": "./check %s --tier thorough" % pid,
        "evidence_file": "/verif/evidence/%s.json" % pid,
        "replay_cmd_template": "./check %s --replay {path}" % pid,
        "engine": "lean4-proof+correspondence",
        "level_claimed": {"category": "proof", "text": c["text"], "design_ref": "DESIGN.md section " + c["design"]},
        "level_note": c["note"],
        "technique": c["technique"],
    })
manifest = {
    "version": 1,
    "setup_cmd": "./setup.sh",
    "hooks": {
        "guard": "--cfg helgoboss_midi_verif",
        "enable": "RUSTFLAGS='--cfg helgoboss_midi_verif' (set in harness/.cargo/config.toml; the harness is a path dependency on /repo and is rebuilt from the working tree by every check)",
        "baseline_off_cmd": "cd /repo && cargo test --workspace --no-fail-fast --offline",
        "source_commits": ["a0f1d11"],
        "add_only": True,
    },
    "engines": [{"name": "lean4-proof+correspondence", "path": "lean/ harness/ tools/ check",
                 "serves_properties": [c["property_id"] for c in checks],
                 "kind_free_text": "Lean 4 model + theorems (kernel-checked, axioms audited) tied to /repo by a regenerating translator for tables and an in-process differential harness; executable specs/monitors evaluated on the implementation give replays"}],
    "checks": checks,
    "not_applicable": [{"property_id": p["id"], "reason": NOT_YET} for p in props if p["id"] not in CLAIMED],
    "notes": "Genuine defects found and repaired are listed in known_findings.json (fixed: entries). See DESIGN.md.",
}
json.dump(manifest, open(os.path.join(ROOT, "MANIFEST.json"), "w"), indent=1)
print("claimed:", [c["property_id"] for c in checks])
