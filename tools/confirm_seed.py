#!/usr/bin/env python3
"""Confirm a candidate seeded change in a scratch worktree of /repo (outside /repo and /verif), then keep it
under /verif/seeded/<name>/ (patch.diff, demo.rs, meta.json).

usage: confirm_seed.py <name> <property> <dir with patch.diff, demo.rs, notes.md>
Confirms: patch applies to /repo HEAD; crate builds; the unedited existing suite passes with the patch;
the demo fails with the patch and passes without it.  The scratch worktree is removed afterwards.
"""
import os, sys, subprocess, json, shutil, re

def sh(cmd, cwd):
    p = subprocess.run(cmd, cwd=cwd, shell=True, stdout=subprocess.PIPE, stderr=subprocess.STDOUT, text=True,
                       env=dict(os.environ, CARGO_NET_OFFLINE="true"))
    return p.returncode, p.stdout

def main():
    name, prop, src = sys.argv[1], sys.argv[2], sys.argv[3]
    wt = "/tmp/confirm-" + name
    subprocess.run("git -C /repo worktree remove --force %s 2>/dev/null; rm -rf %s" % (wt, wt), shell=True)
    rc, out = sh("git -C /repo worktree add -q --detach %s HEAD" % wt, "/")
    assert rc == 0, out
    res = {"property": prop, "name": name}
    try:
        shutil.copy(os.path.join(src, "demo.rs"), os.path.join(wt, "tests", "demo.rs"))
        feat = " --features serde,serde_repr" if 'cfg(feature = "serde")' in open(os.path.join(src, "demo.rs")).read() else ""
        res["demo_features"] = feat.strip()
        if "serde_json" in open(os.path.join(src, "demo.rs")).read():
            # the demo wants serde_json (cached in the registry, not a dev-dependency of the crate): add it in the scratch worktree only
            ct = os.path.join(wt, "Cargo.toml")
            t = open(ct).read()
            t = t.replace("[dev-dependencies]", '[dev-dependencies]\nserde_json = "1"', 1)
            open(ct, "w").write(t)
            res["demo_extra_dev_dependency"] = "serde_json"
        rc, out = sh("cargo test --offline --test demo" + feat + " 2>&1 | tail -5", wt)
        res["demo_without_patch"] = "pass" if re.search(r"test result: ok\. [1-9]", out) else "FAIL"
        rc, out = sh("git apply %s" % os.path.join(src, "patch.diff"), wt)
        res["applies"] = rc == 0
        rc, out = sh("cargo test --offline --test demo" + feat + " 2>&1 | tail -8", wt)
        res["demo_with_patch"] = "fail" if re.search(r"test result: FAILED|error", out) else "PASS"
        os.remove(os.path.join(wt, "tests", "demo.rs"))
        sh("git checkout -- Cargo.toml Cargo.lock", wt)
        rc, out = sh("cargo test --offline 2>&1 | grep 'test result'", wt)
        counts = re.findall(r"test result: (\w+)\. (\d+) passed; (\d+) failed", out)
        res["suite_with_patch"] = counts
        suite_ok = len(counts) >= 3 and all(c[0] == "ok" and c[2] == "0" for c in counts) and sum(int(c[1]) for c in counts) >= 74
        rc, out = sh("cargo build --offline --features serde,serde_repr 2>&1 | tail -2", wt)
        res["serde_build"] = rc == 0 and "error" not in out
        ok = res["demo_without_patch"] == "pass" and res["applies"] and res["demo_with_patch"] == "fail" and suite_ok
        res["confirmed"] = ok
        if ok:
            dst = os.path.join("/verif/seeded", name)
            os.makedirs(dst, exist_ok=True)
            if os.path.abspath(src) != os.path.abspath(dst):
                shutil.copy(os.path.join(src, "patch.diff"), dst)
                shutil.copy(os.path.join(src, "demo.rs"), dst)
            notes = open(os.path.join(src, "notes.md")).read() if os.path.exists(os.path.join(src, "notes.md")) else ""
            meta = {"breaks_property": prop, "needs_to_manifest": notes.strip(),
                    "confirmed_by": ["git apply patch.diff (clean)", "cargo test --offline (existing suite, unedited): %s" % counts,
                                     "cargo test --offline --test demo: passes without the patch, fails with it",
                                     "cargo build --offline --features serde,serde_repr: %s" % res["serde_build"]],
                    "detected_by": {}}
            if os.path.abspath(src) != os.path.abspath(dst):
                json.dump(meta, open(os.path.join(dst, "meta.json"), "w"), indent=1)
    finally:
        subprocess.run("git -C /repo worktree remove --force %s; rm -rf %s" % (wt, wt), shell=True)
    print(json.dumps(res))

main()
